"""C08 — corrupt scan-line times are repaired, and times are always returned."""
import json
import os

import numpy as np

from . import timesgen
from .c03 import compare_with_model
from .filegen import FMT, ms_to_ydm, ydm_to_ms
from .timesgen import DAY, TimePass

THEOREM_MODULES = ["PygacModel.Theorems.C08"]
RULE = ("(a) repair stream: consistent passes (first line number within 5 min of line 1, no year boundary) with garbage "
        "in a random subset (< 40 %, first line excluded) of lines: random / zero / all-ones fills of year, day or ms "
        "(POD: of the time words), true time + offset from 10.001 s to years, bursts and isolated lines, midnight "
        "crossings; judged by the property's oracle (|returned - true| <= 10 s, untouched lines to 1 ms, result a "
        "datetime64 array with one entry per line) and compared with the Lean model to 1 ms. (b) fallback stream: "
        "descending / shuffled / constant line numbers (POD signed, KLM unsigned; with and without the line-number "
        "sanitiser), header times invalid (day 0, 400, 511, year 0 / 60000, ms beyond a day), hours or days off, "
        "first line beyond 6 min: result must still be one datetime64 per line, no exception; compared with the model. "
        "A case = one pass; non-trivial = at least one corrupted line or an abnormal header / line-number order; "
        "distinct by (format, line numbers hash, start time, corruption hash)")
TRUSTED_EXTRA = ["float64 arithmetic of the code is modelled exactly (Rat); agreement is checked to 1 ms",
                 "datetime.now().year is read once by the harness and passed to the model",
                 "interpretation: the header start time is the time of the first line of the file; stage 2 compares "
                 "it with time - (n-1)*period, so repair is only claimed for first line numbers within 5 min of line 1"]


def clean_pass(rng, thorough, k):
    fmt = rng.choice(list(FMT))
    num, den = timesgen.period(fmt)
    n = rng.choice([6, 10, 30, 60, 150, 400] + ([2000, 6000] if thorough else []) + ([1200] if k % 20 == 0 else []))
    max_n0 = (300000 * den) // num
    n0 = rng.choice([1, 1, 1, 2, 5, 100, rng.randint(1, max_n0)])
    gaps = rng.choice(["none", "none", "small", "mixed"])
    nums = timesgen.line_numbers(rng, n, n0, gaps)
    # line numbers the format can hold (POD: signed 16 bit) and the sanitiser admits
    nums = [x for x in nums if x <= min(32000, FMT[fmt]["maxlines"] - 1)]
    n = len(nums)
    offs = timesgen.ideal_offsets(fmt, nums)
    year = rng.choice([1996, 1999, 2000, 2003, 2004, 2008, 2015]) if FMT[fmt]["family"] == "klm" else \
        rng.choice([1978, 1978, 1979, 1981, 1992, 1996, 1999, 2000, 2003, 2004])      # from the first weeks of TIROS-N on
    if rng.random() < 0.4 and n > 10:
        c = rng.randint(1, n - 1)
        midnight = ydm_to_ms(year, rng.randint(2, 365), 0)
        start = midnight - rng.randint(int(offs[c - 1]) + 1, int(offs[c]))
        kind = "midnight"
    else:
        span = int(offs[-1])
        start = ydm_to_ms(year, rng.randint(1, 365), rng.randint(1, DAY - 2 - span))
        kind = "plain"
    return TimePass(fmt, nums, start), {"kind": kind, "gaps": gaps, "n0": n0}


def corrupt(rng, tp):
    """garbage in < 40 % of the lines other than the first"""
    n = len(tp.nums)
    frac = rng.choice([0.02, 0.1, 0.25, 0.39])
    k = int(frac * (n - 1))
    if k * 10 >= 4 * n:
        k -= 1
    k = max(1, min(k, n - 1)) if n > 3 else 0
    if k * 10 >= 4 * n:
        k = 0
    pattern = rng.choice(["isolated", "burst", "mixed"])
    if pattern == "burst":
        s = rng.randint(1, n - k)
        idx = list(range(s, s + k))
    else:
        idx = rng.sample(range(1, n), k)
        if pattern == "mixed" and k > 4:
            s = rng.randint(1, n - k // 2)
            idx = sorted(set(idx[: k - k // 2] + list(range(s, s + k // 2))))[:k]
    style = rng.choice(["offset", "field", "zero", "ones", "any", "day-only", "killer", "coordinated"])
    if style == "killer" and pattern != "burst" and n > 8:
        # every second line: the worst placement for the day step (each bad day value spoils the day of the good line after it)
        idx = [i for i in range(1, n - 1, 2)][:k]
    coord = rng.choice([-1, 1]) * rng.choice([10500, 60000, 180000, 300000])
    fam = FMT[tp.fmt]["family"]
    kinds = set()
    for i in idx:
        st = style if style != "any" else rng.choice(["offset", "field", "zero", "ones"])
        kinds.add(st)
        if st == "offset":
            mag = rng.choice([10001, 10500, 60000, 359000, 361000, 3600000, DAY, DAY + 500, 30 * DAY, 400 * DAY,
                              rng.randint(10001, 10 ** 9)])
            t = int(tp.truth[i]) + rng.choice([-1, 1]) * mag
            y, d, m = ms_to_ydm(t)
            if fam == "pod" and not (1976 <= y <= 2075):
                y, d, m = ms_to_ydm(int(tp.truth[i]) + mag % (300 * DAY))
            tp.year[i], tp.jday[i], tp.msec[i] = y, d, m
        elif st == "field":
            f = rng.choice(["year", "jday", "msec", "all"])
            if f in ("year", "all"):
                tp.year[i] = rng.randint(1976, 2075) if fam == "pod" else rng.randint(0, 65535)
            if f in ("jday", "all"):
                tp.jday[i] = rng.randint(0, 511) if fam == "pod" else rng.randint(0, 65535)
            if f in ("msec", "all"):
                tp.msec[i] = rng.randint(0, 2 ** 27 - 1) if fam == "pod" else rng.randint(0, 2 ** 32 - 1)
        elif st == "day-only":          # the ms field intact, any day number
            tp.jday[i] = rng.choice([0, 366, 367, 400, int(tp.jday[i]) + rng.choice([-1, 1, 2]), rng.randint(0, 511)])
        elif st == "killer":            # a later day, and the time of day of the NEXT line (no jump for the ms step to see)
            tp.jday[i] = min(int(tp.jday[i]) + rng.choice([1, 1, 2, 100]), 366 if rng.random() < 0.8 else 511)
            if i + 1 < n and rng.random() < 0.8:
                tp.msec[i] = int(tp.msec[i + 1]) - rng.choice([0, 0, 300, 999]) if int(tp.msec[i + 1]) >= 999 else int(tp.msec[i + 1])
        elif st == "coordinated":       # all corrupt lines agree on one wrong offset inside the 6-minute window
            t = int(tp.truth[i]) + coord
            y, d, m = ms_to_ydm(t)
            tp.year[i], tp.jday[i], tp.msec[i] = y, d, m
        elif st == "zero":
            if fam == "pod":
                tp.year[i], tp.jday[i], tp.msec[i] = 2000, 0, 0
            else:
                tp.year[i], tp.jday[i], tp.msec[i] = 0, 0, 0
        else:
            if fam == "pod":
                tp.year[i], tp.jday[i], tp.msec[i] = 2027, 511, 2 ** 27 - 1     # words 0xFFFF (yy = 127 & ...)
            else:
                tp.year[i], tp.jday[i], tp.msec[i] = 65535, 65535, 2 ** 32 - 1
        tp.corrupted[i] = True
    return {"pattern": pattern, "style": style, "k": len(idx), "frac": frac, "kinds": sorted(kinds)}


def long_pass(rng, thorough, k):
    """long passes (well beyond 6 min) fed to the real time pipeline without a file"""
    fmt = rng.choice(list(FMT))
    num, den = timesgen.period(fmt)
    six_min = (360000 * den) // num
    n = rng.choice([2, 3, 5, 12]) * six_min + rng.randint(0, 500)
    if not thorough and n > 14000:
        n = rng.choice([4500, 9000])
    n = min(n, FMT[fmt]["maxlines"] - 600, 14000)       # the model's median is an insertion sort (kernel-evaluable), quadratic
    n0 = rng.choice([1, 1, 2, 50, rng.randint(1, six_min // 2)])
    nums = timesgen.line_numbers(rng, n, n0, rng.choice(["none", "small", "mixed"]))
    nums = [x for x in nums if x < min(32000, FMT[fmt]["maxlines"])]
    year = rng.choice([1999, 2000, 2003, 2004])
    offs = timesgen.ideal_offsets(fmt, nums)
    start = ydm_to_ms(year, rng.randint(1, 364), rng.randint(1, DAY - 1))
    tp = TimePass(fmt, nums, start)
    n = len(nums)
    # corruption aimed at the lines that vote on the offset: a burst right after the first line, covering
    # a chosen share of the first six minutes; or spread bursts elsewhere
    where = rng.choice(["head", "head", "head-partial", "middle", "tail", "scattered"])
    share = rng.choice([0.55, 0.8, 0.95, 1.0, 1.2]) if where == "head" else rng.choice([0.2, 0.45])
    k = min(int(share * six_min), int(0.39 * (n - 1)))
    if where in ("head", "head-partial"):
        idx = np.arange(1, 1 + k)
    elif where == "middle":
        s0 = rng.randint(six_min, max(six_min + 1, n - k - 1))
        idx = np.arange(s0, min(n, s0 + k))
    elif where == "tail":
        idx = np.arange(max(1, n - k), n)
    else:
        idx = np.array(sorted(rng.sample(range(1, n), k)))
    mag = rng.choice([10001, 20000, 30000, 180000, 359000, 361000, 3600000, DAY, 40 * DAY])
    sign = rng.choice([-1, 1])
    fam = FMT[fmt]["family"]
    for i in idx:
        y, d, m = ms_to_ydm(int(tp.truth[i]) + sign * mag)
        tp.year[i], tp.jday[i], tp.msec[i] = y, d, m
        tp.corrupted[i] = True
    return tp, {"kind": "long", "gaps": "-", "n0": n0, "pattern": where, "style": "offset%+d" % (sign * mag),
                "k": int(len(idx)), "frac": len(idx) / float(n), "direct": True}


def check_repair(ctx, tp, info, drv):
    res = timesgen.real_times(ctx, tp, ctx.rng, direct=bool(info.get("direct")) or len(tp.nums) > 1600)
    payload = dict(tp.describe(), info=info, corrupted=np.nonzero(tp.corrupted)[0].tolist())
    truth = tp.truth.tolist()
    if res["kind"] != "times":
        ctx.violation("get_times() gave %s %s" % (res["kind"], res.get("detail", "")), payload, cls="kind:" + res["kind"])
    elif res["raw"][0] != tp.nums:
        ctx.notes.append("sanitiser changed the line numbers of a repair case; skipped")
    elif len(res["times"]) != len(tp.nums):
        ctx.violation("get_times() returned %d times for %d lines" % (len(res["times"]), len(tp.nums)), payload, cls="length")
    else:
        dev = np.abs(np.array(res["times"]) - np.array(truth))
        bad = np.nonzero(dev > 10000)[0]
        if len(bad):
            i = int(bad[0])
            ctx.violation("%s pass (%d lines from line %d, %s): %d of %d lines corrupted (%s/%s) - line index %d returned %+d ms "
                          "from its true time (limit 10 s)" % (tp.fmt, len(tp.nums), tp.nums[0], info["kind"], info["k"],
                                                               len(tp.nums), info["pattern"], info["style"], i,
                                                               res["times"][i] - truth[i]), payload, cls="repair>10s")
        clean = ~tp.corrupted
        bad2 = np.nonzero((dev > 1) & clean)[0]
        if len(bad2) and not len(bad):
            i = int(bad2[0])
            ctx.violation("%s pass: intact line index %d returned %+d ms from its recorded time" % (
                tp.fmt, i, res["times"][i] - truth[i]), payload, cls="intact-moved")
        rep = np.nonzero(tp.corrupted & (dev <= 1))[0]
        ctx.branches["lines-repaired-to-1ms"] += len(rep)
        ctx.branches["lines-left-within-10s"] += int(np.sum(tp.corrupted & (dev > 1) & (dev <= 10000)))
    hm = res["head_ms"] if not isinstance(res["head_ms"], str) else None
    drv.append((timesgen.model_line(tp.fmt, res["raw"], hm), res, payload))
    ctx.case((tp.fmt, hash(tuple(tp.nums)), tp.start_ms, hash(tuple(tp.msec.tolist()))), nontrivial=info["k"] > 0,
             branch="repair/%s/%s/%s" % (FMT[tp.fmt]["family"], info["pattern"], info["style"]))


def fallback_pass(rng, k):
    fmt = rng.choice(list(FMT))
    fam = FMT[fmt]["family"]
    n = rng.choice([2, 3, 8, 40, 120])
    order = rng.choice(["descending", "shuffled", "constant", "one-back", "increasing", "increasing"])
    base = rng.choice([1, 5, 200, 3000])
    nums = list(range(base, base + n))
    if order == "descending":
        nums = nums[::-1]
    elif order == "shuffled":
        rng.shuffle(nums)
    elif order == "constant":
        nums = [base] * n
    elif order == "one-back" and n > 2:
        i = rng.randint(1, n - 1)
        nums[i] = nums[i - 1] - rng.randint(1, 3) if nums[i - 1] > 3 else nums[i]
    if fam == "klm" and rng.random() < 0.15:
        nums[rng.randrange(n)] = 0
    year = 2003
    start = ydm_to_ms(year, rng.randint(1, 365), rng.randint(1, DAY - 100000))
    tp = TimePass(fmt, sorted(nums), start)
    # recorded times follow the file order of a normal pass; then impose the line-number order
    tp.nums = nums
    header = rng.choice(["ok", "ok", "hours-off", "days-off", "day0", "day400", "day511", "year0", "year60000", "ms-big",
                         "first-far", "year9999-overflow", "year9999-overflow"])
    y, d, m = ms_to_ydm(start)
    if header == "hours-off":
        tp.header_ms = start + rng.choice([-1, 1]) * rng.randint(361000, 5 * 3600000)
    elif header == "days-off":
        tp.header_ms = start + rng.choice([-1, 1]) * rng.randint(1, 400) * DAY
    elif header == "day0":
        tp.header_fields = [y, 0, m]
    elif header == "day400":
        tp.header_fields = [y, 400, m]
    elif header == "day511":
        tp.header_fields = [y, 511, m]
    elif header == "year0":
        tp.header_fields = [2000 if fam == "pod" else 0, d, m]
    elif header == "year60000":
        tp.header_fields = [2060 if fam == "pod" else 60000, d, m]
    elif header == "ms-big":
        tp.header_fields = [y, d, 2 ** 27 - 1 if fam == "pod" else 2 ** 32 - 1]
    elif header == "year9999-overflow":
        # a year field that is still a valid year, with a day / ms field that pushes the date beyond 9999-12-31 (KLM only:
        # the POD year has two digits): the header time is unusable, the sanitised line times are still returned
        if fam == "klm":
            tp.header_fields = rng.choice([[9999, 366, m], [9999, 365, 86400000 + m], [rng.randint(9820, 9999), 65535, m],
                                           [9999, 1, m], [9998, 400, m]])
        else:
            tp.header_fields = [y, 511, m]
    elif header == "first-far":
        tp.nums = [x + 5000 for x in tp.nums]
    return tp, {"order": order, "header": header, "kind": "fallback", "gaps": "-", "k": 0}


def check_fallback(ctx, tp, info, drv):
    san = ctx.rng.random() < 0.5
    res = timesgen.real_times(ctx, tp, ctx.rng, sanitise=san)
    payload = dict(tp.describe(), info=dict(info, sanitise=san))
    n = len(res["raw"][0])
    if n == 0:
        # the line-number sanitiser (C11's subject) left no record at all: there is no line to return a time for
        ctx.branches["fallback/no-line-left-after-sanitising"] += 1
        return
    if res["kind"] != "times":
        ctx.violation("%s, line numbers %s, header %s: get_times() gave %s %s instead of one timestamp per line" % (
            tp.fmt, info["order"], info["header"], res["kind"], res.get("detail", "")), payload,
            cls="fallback:" + res["kind"])
    elif len(res["times"]) != n:
        ctx.violation("get_times() returned %d times for %d lines" % (len(res["times"]), n), payload, cls="length")
    hm = res["head_ms"] if not isinstance(res["head_ms"], str) else None
    if n:
        drv.append((timesgen.model_line(tp.fmt, res["raw"], hm), res, payload))
    ctx.case((tp.fmt, tuple(tp.nums[:8]), tp.start_ms, info["header"], san), nontrivial=True,
             branch="fallback/%s/%s/%s" % (FMT[tp.fmt]["family"], info["order"], info["header"]))


def year_midnight_pass(rng, k):
    """an implausible year on one or two later lines of a pass whose midnight falls within its first 1 % (stage 2 then finds
    too few lines near the header time and the stage-1 times are what is returned): the whole pass is rebuilt from the first
    line, and must still come out right (theorem C08.repair_year_out_of_range)"""
    fmt = list(FMT)[k % len(FMT)]
    n = rng.choice([300, 500, 1200])
    nums = list(range(1, n + 1))
    offs = timesgen.ideal_offsets(fmt, nums)
    c = rng.randint(1, max(1, n // 100 - 1))          # fewer than 1 % of the lines lie before midnight
    year = rng.choice([1999, 2003, 2004]) if FMT[fmt]["family"] == "klm" else rng.choice([1992, 1996, 2000])
    midnight = ydm_to_ms(year, rng.randint(2, 365), 0)
    start = midnight - rng.randint(int(offs[c - 1]) + 1, int(offs[c]))
    tp = TimePass(fmt, nums, start)
    for i in rng.sample(range(c + 1, n), rng.choice([1, 2])):
        tp.year[i] = rng.choice([0, 65535, 2999]) if FMT[fmt]["family"] == "klm" else rng.choice([2075, 1976, 1977])
        tp.corrupted[i] = True
    return tp, {"kind": "year+early-midnight", "gaps": "none", "n0": 1, "pattern": "isolated", "style": "year", "k": 2,
                "frac": 0.01, "kinds": ["year"]}


class local_zone:
    """run a block with the process's local time zone set to something other than UTC (the times of the files are UTC:
    nothing may depend on the zone of the machine that reads them)"""

    def __init__(self, tz):
        self.tz = tz

    def __enter__(self):
        import time
        self.old = os.environ.get("TZ")
        os.environ["TZ"] = self.tz
        time.tzset()

    def __exit__(self, *a):
        import time
        if self.old is None:
            os.environ.pop("TZ", None)
        else:
            os.environ["TZ"] = self.old
        time.tzset()


def run(ctx):
    drv = []
    for k in range(ctx.n(8, 40)):
        tp, info = year_midnight_pass(ctx.rng, k)
        check_repair(ctx, tp, info, drv)
    for k in range(ctx.n(140, 600)):
        tp, info = clean_pass(ctx.rng, ctx.thorough, k)
        info.update(corrupt(ctx.rng, tp))
        check_repair(ctx, tp, info, drv)
        if k < 3:
            ctx.sample({"fmt": tp.fmt, "info": info, "nums": tp.nums[:6]})
    for k in range(ctx.n(40, 70)):
        tp, info = long_pass(ctx.rng, ctx.thorough, k)
        if k % 2:
            info["local_zone"] = ["CET-1", "EST5", "NZST-12"][k % 3]
            with local_zone(info["local_zone"]):
                check_repair(ctx, tp, info, drv)
        else:
            check_repair(ctx, tp, info, drv)
        if k < 2:
            ctx.sample({"fmt": tp.fmt, "info": info, "nums": tp.nums[:6]})
    for k in range(ctx.n(120, 600)):
        tp, info = fallback_pass(ctx.rng, k)
        check_fallback(ctx, tp, info, drv)
        if k < 2:
            ctx.sample({"fmt": tp.fmt, "info": info, "nums": tp.nums[:6]})
    compare_with_model(ctx, drv)
    ctx.assumptions.append("C08 clause 'any garbage in < 40 % of the lines is repaired' is a theorem for garbage in the ms field, "
                           "in the day + ms fields (< 40 %), for an implausible year anywhere and for any garbage on < 1/3 of the "
                           "lines; for a wrong but plausible year on 1/3 .. 40 % of the lines it is observed on the generated "
                           "corruption patterns only")


def replay(ctx, path):
    with open(path) as fh:
        body = json.load(fh)
    inp = body.get("input", {})
    if "nums" not in inp:
        print("replay file carries no concrete pass: %s" % (body.get("broken_theorems_or_obligations") or inp))
        return 1
    tp = TimePass.from_description(inp)
    info = inp.get("info", {})
    if info.get("kind") == "fallback":
        tp.nums = inp["nums"]
        check_fallback(ctx, tp, info, [])
    else:
        tp.corrupted = np.zeros(len(tp.nums), dtype=bool)
        tp.corrupted[inp.get("corrupted", [])] = True
        info.setdefault("k", int(tp.corrupted.sum()))
        for key in ("pattern", "style", "kind"):
            info.setdefault(key, "?")
        check_repair(ctx, tp, info, [])
    if ctx.input_violations:
        print("REPRODUCED: " + ctx.input_violations[0]["what"])
        return 1
    print("not reproduced")
    return 0
