"""Shared machinery of the time checks (C03, C08, C18): synthetic passes with controlled
line numbers / recorded times / header time, the real get_times(), and the Lean model."""
import datetime
import io

import numpy as np

from . import filegen
from .filegen import FMT, PassBuilder, ms_to_ydm, ydm_to_ms

DAY = 86400000
NOW_YEAR = datetime.datetime.now().year


def period(fmt):
    return FMT[fmt]["period"]        # (num, den) ms


def ideal_offsets(fmt, nums):
    """exact (floored) ms offsets of the lines relative to the first line"""
    num, den = period(fmt)
    nums = np.asarray(nums, dtype=np.int64)
    return ((nums - nums[0]) * num) // den


def line_numbers(rng, n, n0, gaps):
    """strictly increasing line numbers starting at n0.  gaps: 'none' | 'small' | 'big' | 'mixed'"""
    out, cur = [], n0
    for _ in range(n):
        out.append(cur)
        step = 1
        r = rng.random()
        if gaps == "small" and r < 0.1:
            step += rng.randint(1, 2)
        elif gaps == "big" and r < 0.05:
            step += rng.randint(3, 400)
        elif gaps == "mixed" and r < 0.1:
            step += rng.choice([1, 2, 3, 7, 50, 300])
        cur += step
    return out


class TimePass:
    """A pass given by line numbers, per-line recorded (year, jday, msec) and a header time."""

    def __init__(self, fmt, nums, start_ms, header_ms=None):
        self.fmt = fmt
        self.nums = list(nums)
        self.start_ms = int(start_ms)
        self.truth = (self.start_ms + ideal_offsets(fmt, nums)).astype(np.int64)
        ydm = np.array([ms_to_ydm(t) for t in self.truth], dtype=np.int64)
        self.year, self.jday, self.msec = ydm[:, 0].copy(), ydm[:, 1].copy(), ydm[:, 2].copy()
        self.header_ms = self.start_ms if header_ms is None else header_ms
        self.header_fields = None     # explicit (year, jday, msec) of the header, may be invalid
        self.corrupted = np.zeros(len(nums), dtype=bool)

    def describe(self):
        return {"fmt": self.fmt, "nums": self.nums, "year": self.year.tolist(), "jday": self.jday.tolist(),
                "msec": self.msec.tolist(), "header_ms": int(self.header_ms),
                "header_fields": self.header_fields, "start_ms": self.start_ms}

    @classmethod
    def from_description(cls, d):
        p = cls(d["fmt"], d["nums"], d["start_ms"], d["header_ms"])
        p.year, p.jday, p.msec = (np.array(d[k], dtype=np.int64) for k in ("year", "jday", "msec"))
        p.header_fields = d.get("header_fields")
        return p

    def build(self, ctx, rng, **kw):
        fam = FMT[self.fmt]["family"]
        b = PassBuilder(ctx, self.fmt, len(self.nums), rng, start_ms=self.start_ms, line_numbers=self.nums, **kw)
        b.header_ms = self.header_ms
        if fam == "klm":
            b.overrides["scan_line_year"] = self.year
            b.overrides["scan_line_day_of_year"] = self.jday
            b.overrides["scan_line_utc_time_of_day"] = self.msec
            if self.header_fields is not None:
                y, d, m = self.header_fields
                b.header_overrides.update({"start_of_data_set_year": y, "start_of_data_set_day_of_year": d,
                                           "start_of_data_set_utc_time_of_day": m})
        else:
            tc = np.array([[((int(y) % 100) << 9) | (int(d) & 0x1FF), (int(m) >> 16) & 2047, int(m) & 0xFFFF]
                           for y, d, m in zip(self.year, self.jday, self.msec)])
            b.overrides["time_code"] = tc
            if self.header_fields is not None:
                y, d, m = self.header_fields
                b.header_overrides["start_time"] = [((int(y) % 100) << 9) | (int(d) & 0x1FF), (int(m) >> 16) & 2047,
                                                    int(m) & 0xFFFF]
        return b


def direct_reader(tp):
    """A real reader whose `scans` / `head` hold only the fields the time pipeline reads (sub-dtypes taken from
    the reader's own record dtype); no file is written, so passes of any length are cheap."""
    cls = filegen.reader_class(tp.fmt)
    r = cls()
    fam = FMT[tp.fmt]["family"]
    st = r.scanline_type
    n = len(tp.nums)
    if fam == "klm":
        names = ["scan_line_number", "scan_line_year", "scan_line_day_of_year", "scan_line_utc_time_of_day"]
        scans = np.zeros(n, dtype=[(k, st.fields[k][0]) for k in names])
        scans["scan_line_number"] = np.asarray(tp.nums).astype(np.uint16)
        scans["scan_line_year"] = tp.year
        scans["scan_line_day_of_year"] = tp.jday
        scans["scan_line_utc_time_of_day"] = tp.msec
        from pygac import klm_reader
        head = np.zeros(1, dtype=klm_reader.header)[0]
        y, d, m = tp.header_fields if tp.header_fields is not None else ms_to_ydm(tp.header_ms)
        head["start_of_data_set_year"], head["start_of_data_set_day_of_year"] = y, d
        head["start_of_data_set_utc_time_of_day"] = m
    else:
        names = ["scan_line_number", "time_code"]
        scans = np.zeros(n, dtype=[(k, st.fields[k][0]) for k in names])
        scans["scan_line_number"] = np.asarray(tp.nums).astype(np.int16)
        scans["time_code"] = np.array([[((int(y) % 100) << 9) | (int(d) & 0x1FF), (int(m) >> 16) & 2047, int(m) & 0xFFFF]
                                       for y, d, m in zip(tp.year, tp.jday, tp.msec)])
        from pygac import pod_reader
        head = np.zeros(1, dtype=pod_reader.header3)[0]
        y, d, m = tp.header_fields if tp.header_fields is not None else ms_to_ydm(tp.header_ms)
        head["start_time"] = [((int(y) % 100) << 9) | (int(d) & 0x1FF), (int(m) >> 16) & 2047, int(m) & 0xFFFF]
    r.scans, r.head = scans, head
    return r


def real_times(ctx, tp, rng, sanitise=True, direct=False, **reader_kw):
    """Run the real reader. Returns dict(kind, times(list of int ms)|None, raw=(nums,year,jday,msec) seen by stage 1,
    head_ms|None, reader)."""
    if direct:
        r = direct_reader(tp)
        res = {"reader": r, "builder": None}
    else:
        b = tp.build(ctx, rng)
        data = b.tobytes()
        cls = filegen.reader_class(tp.fmt)
        kw = dict(tle_dir=filegen.tle_dir(ctx), tle_name="TLE_%(satname)s.txt")
        kw.update(reader_kw)
        if not sanitise:
            cls = type(cls.__name__ + "NoSanitise", (cls,), {"correct_scan_line_numbers": lambda self: {}})
        r = cls(**kw)
        r.read(b.dsname, fileobj=io.BytesIO(data))
        res = {"reader": r, "builder": b}
    y, d, m = r._get_times_from_file()
    res["raw"] = ([int(x) for x in r.scans["scan_line_number"]], [int(x) for x in np.asarray(y)],
                  [int(x) for x in np.asarray(d)], [int(x) for x in np.asarray(m)])
    try:
        h = r.get_header_timestamp()
        res["head_ms"] = int(np.array([h.isoformat()], dtype="datetime64[ms]").astype("i8")[0])
    except ValueError:
        res["head_ms"] = None
    except Exception as e:      # e.g. AttributeError: the code's own stage 2 would see the same
        res["head_ms"] = "exc:" + type(e).__name__
    try:
        t = r.get_times()
    except Exception as e:
        res["kind"] = "exception:" + type(e).__name__
        res["times"] = None
        res["detail"] = repr(e)[:200]
        return res
    if isinstance(t, np.ndarray) and t.dtype.kind == "M":
        res["kind"] = "times"
        res["times"] = t.astype("datetime64[ms]").astype(np.int64).tolist()
    else:
        res["kind"] = "object:" + type(t).__name__
        res["times"] = None
    return res


def model_line(fmt, raw, head_ms):
    fam = FMT[fmt]["family"]
    num, den = period(fmt)
    nums, y, d, m = raw
    j = lambda xs: ",".join(str(int(x)) for x in xs) if len(xs) else "_"
    return "c03 %s %d %d %d %s %s %s %s %s" % (fam, num, den, NOW_YEAR, "none" if head_ms is None else head_ms,
                                               j(nums), j(y), j(d), j(m))


def parse_model(out):
    a, b, c = out.split(" | ")
    f = lambda s: [int(x) for x in s.split(",")] if s.strip() else []
    return f(a), f(b), c.strip() == "1"
