"""C04 — solar channels follow the PATMOS-x calibration for every spacecraft and date."""
import datetime
import io
import json
import math
from fractions import Fraction

import numpy as np

from . import filegen, timesgen
from .common import Driver
from .filegen import FMT, ydm_to_ms

THEOREM_MODULES = ["PygacModel.Theorems.C04"]
RULE = ("calibrate_solar for all 17 spacecraft x channels 1/2/3a x a date grid (launch + 1 d, + 0.5 y, leap day, + 3 y, "
        "+ 9.9 y, random) x ALL counts 0..1023 (thorough: denser date grid), with and without a distance factor, compared "
        "with the Lean model (exact rationals, regenerated table) and with the PATMOS-x formula restated in Python "
        "Fractions (rel 1e-9, identical NaN pattern); zero at the dark count, continuity at the switch and monotonicity "
        "checked on the implementation's own output; full reader pipeline on synthetic KLM (dual gain, 3a lines) and POD "
        "files: channels 1, 2, 3a vs the formula with the first line's year / day and that day's distance factor; the "
        "distance factor for all 366 days. A case = (spacecraft, channel, date) with 1024 counts, or one pipeline pass, "
        "or one day; distinct by those keys")
RULE += (" In the thorough tier, and in the quick tier whenever the source differs from the validated baseline, a LONG-PASS stream is added (passes of 1300 .. 12000 lines, just beyond multiples of 256 .. 8192, with the property-relevant event placed at and after such multiples; DESIGN 10.4 round 13).")
TRUSTED_EXTRA = ["the cosine of the distance factor is not evaluated in the kernel: its numeric value is an exhaustive "
                 "366-point comparison against libm (1e-12), not a theorem",
                 "float64 evaluation of the slope formula is compared with exact rational arithmetic at rel 1e-9"]


def table():
    from importlib.resources import files
    with open(files("pygac") / "data/calibration.json") as fh:
        t = json.load(fh, parse_float=str, parse_int=str)
    return {k: v for k, v in t.items() if isinstance(v, dict) and "channel_1" in v}


def round_half_even(x, nd):
    q = x * 10 ** nd
    f = q.numerator // q.denominator
    r = q - f
    if r < Fraction(1, 2):
        k = f
    elif r > Fraction(1, 2):
        k = f + 1
    else:
        k = f if f % 2 == 0 else f + 1
    return Fraction(k, 10 ** nd)


def launch_float(s):
    d = datetime.datetime.fromisoformat(s.replace("Z", "+00:00")).astimezone(datetime.timezone.utc).replace(tzinfo=None)
    y = d.year
    diy = (datetime.datetime(y + 1, 1, 1) - datetime.datetime(y, 1, 1)).days
    diff = d - datetime.datetime(y, 1, 1)
    secs = Fraction(diff.days * 86400 + diff.seconds) + Fraction(diff.microseconds, 10 ** 6)
    return round_half_even(y + secs / (diy * 86400), 5), d


def oracle(sat_tab, chan, year, jday, corr, counts):
    """PATMOS-x scaled radiance of the property statement, exact. None = NaN."""
    chs = [sat_tab["channel_1"], sat_tab["channel_2"], sat_tab["channel_3a"]]
    single = all(c["gain_switch"] is None for c in chs)
    c = chs[chan]
    ld, _ = launch_float(sat_tab["date_of_launch"])
    t = Fraction(year) + Fraction(jday, 365) - ld
    if single:
        gl = gh = Fraction(1)
    elif chan == 2:
        gl, gh = Fraction(1, 4), Fraction(7, 4)
    else:
        gl, gh = Fraction(1, 2), Fraction(3, 2)
    s0, s1, s2 = Fraction(c["s0"]), Fraction(c["s1"]), Fraction(c["s2"])
    quad = (100 + s1 * t + s2 * t * t) / 100
    stl = round_half_even(gl * s0, 3) * quad
    sth = round_half_even(gh * s0, 3) * quad
    d = Fraction(c["dark_count"])
    out = []
    for cnt in counts:
        cnt = Fraction(cnt)
        if single:
            v = stl * (cnt - d)
        elif c["gain_switch"] is None:
            out.append(None)
            continue
        else:
            b = Fraction(c["gain_switch"])
            v = (cnt - d) * stl if cnt <= b else (b - d) * stl + (cnt - b) * sth
        v = v * corr
        out.append(None if v < 0 else v)
    return out, t


def date_grid(rng, launch, thorough):
    base = launch.date()
    grid = [base + datetime.timedelta(days=1), base + datetime.timedelta(days=183),
            base + datetime.timedelta(days=3 * 365 + 40), base + datetime.timedelta(days=3615)]
    for y in range(base.year, base.year + 10):
        if y % 4 == 0 and datetime.date(y, 2, 29) > base:
            grid.append(datetime.date(y, 2, 29))
            grid.append(datetime.date(y, 12, 31))
            break
    for _ in range(6 if thorough else 1):
        grid.append(base + datetime.timedelta(days=rng.randint(1, 3650)))
    return [(d.year, (d - datetime.date(d.year, 1, 1)).days + 1) for d in grid]


def direct_cases(ctx, tab):
    from pygac.calibration.noaa import Calibrator, calibrate_solar
    rng = ctx.rng
    counts = np.arange(1024, dtype=float)
    lines, pend = [], []
    for sat in sorted(tab):
        cal = Calibrator(sat)
        _, launch = launch_float(tab[sat]["date_of_launch"])
        for (year, jday) in date_grid(rng, launch, ctx.thorough):
            # the mapping must depend on count, spacecraft and date only - not on calibrations done earlier in the
            # process: interleave requests with custom coefficients for the same spacecraft
            if rng.random() < 0.5:
                ch = rng.choice(["channel_1", "channel_2", "channel_3a"])
                Calibrator(sat, custom_coeffs={ch: {"dark_count": 33.0, "gain_switch": 444.0, "s0": 0.2,
                                                    "s1": 2.0, "s2": -0.1}})
                ctx.branches["direct/after-custom-coefficients"] += 1
            cal = Calibrator(sat)
            corr = rng.choice(["1", "1", "0.9666", "1.0334", "0.98765"])
            import warnings
            # a DIM scene as well: all three channels calibrated together (as the reader does) on a block whose brightest
            # count lies around the gain switches (495..505) - a pixel's value must not depend on the rest of the block
            dim_max = rng.randint(494, 506)
            with warnings.catch_warnings():
                warnings.simplefilter("ignore")
                dim = calibrate_solar(np.repeat(counts[:dim_max + 1, None, None], 3, axis=2).copy(), np.arange(3), year, jday, cal, float(corr))
            arr = np.repeat(counts[:, None, None], 3, axis=2).copy()
            with warnings.catch_warnings():
                warnings.simplefilter("ignore")
                got = calibrate_solar(arr, np.arange(3), year, jday, cal, float(corr))
            if not np.array_equal(dim, got[:dim_max + 1], equal_nan=True):
                i, _, c_ = np.argwhere(~((dim == got[:dim_max + 1]) | (np.isnan(dim) & np.isnan(got[:dim_max + 1]))))[0]
                ctx.violation("%s %d/%03d: count %d of channel index %d is %.6f in a block whose brightest count is %d and %.6f in a "
                              "block reaching 1023" % (sat, year, jday, i, c_, dim[i, 0, c_], dim_max, got[i, 0, c_]),
                              {"sat": sat, "chan": int(c_), "year": year, "jday": jday, "corr": corr, "dim_max": dim_max}, cls="solar-block-dependent")
            ctx.case((sat, year, jday, corr, "dim", dim_max), nontrivial=True, branch="direct/dim-scene")
            for chan in range(3):
                g = got[:, 0, chan]
                want, t = oracle(tab[sat], chan, year, jday, Fraction(corr), range(1024))
                payload = {"sat": sat, "chan": chan, "year": year, "jday": jday, "corr": corr}
                nan_w = np.array([w is None for w in want])
                if not np.array_equal(np.isnan(g), nan_w):
                    i = int(np.nonzero(np.isnan(g) != nan_w)[0][0])
                    ctx.violation("%s channel index %d, %d/%03d: count %d is %s, PATMOS-x formula gives %s" % (
                        sat, chan, year, jday, i, g[i], want[i] if want[i] is None else float(want[i])), payload, cls="solar-nan")
                else:
                    wf = np.array([0.0 if w is None else float(w) for w in want])
                    gf = np.where(np.isnan(g), 0.0, g)
                    bad = np.nonzero(np.abs(gf - wf) > 1e-9 * np.maximum(1.0, np.abs(wf)))[0]
                    if len(bad):
                        i = int(bad[0])
                        ctx.violation("%s channel index %d, %d/%03d (t = %.4f y): count %d -> %.9f, PATMOS-x formula gives %.9f" % (
                            sat, chan, year, jday, float(t), i, g[i], wf[i]), payload, cls="solar-value")
                    if 0 <= t <= 10:
                        fin = g[~np.isnan(g)]
                        if len(fin) > 1 and np.any(np.diff(fin) < -1e-12):
                            ctx.violation("%s channel index %d, %d/%03d: reflectance decreases with the count" % (sat, chan, year, jday),
                                          payload, cls="solar-monotone")
                lines.append("c04 %s %d %d %d %s %s" % (sat, chan, year, jday, corr, ",".join(str(k) for k in range(0, 1024, 1))))
                pend.append((g, payload))
                ctx.case((sat, chan, year, jday, corr), nontrivial=True, branch="direct/%s" % ("dual" if cal.gain_switch is not None and not np.isnan(cal.gain_switch).all() else "single"))
    custom_cases(ctx, tab)
    if not ctx.driver_ok:
        ctx.corr_break("lean driver unavailable: correspondence not run")
        return
    out = Driver(ctx).batch(lines)
    for (g, payload), o in zip(pend, out):
        if o.startswith("error"):
            ctx.corr_break("driver: %s" % o, payload)
            continue
        vals = o.split(",")
        m_nan = np.array([v == "nan" for v in vals])
        m = np.array([0.0 if v == "nan" else float(Fraction(v)) for v in vals])
        gf = np.where(np.isnan(g), 0.0, g)
        if not np.array_equal(m_nan, np.isnan(g)) or np.any(np.abs(gf - m) > 1e-9 * np.maximum(1.0, np.abs(m))):
            ctx.corr_break("model and implementation differ for %s" % (payload,), payload)


def custom_cases(ctx, tab):
    """The same formula with CUSTOM solar coefficients (the `custom_coeffs` / coefficient-file option): slopes with four or
    five decimals, so that the documented 3-decimal rounding of gain * S0 matters, for single- and dual-gain spacecraft.
    Judged by the property's oracle on the merged table; no model line (the driver's table is the shipped one)."""
    from pygac.calibration.noaa import Calibrator, calibrate_solar
    import warnings
    rng = ctx.rng
    counts = np.arange(1024, dtype=float)
    for sat in sorted(tab):
        if rng.random() < (0.5 if not ctx.thorough else 1.0):
            continue
        _, launch = launch_float(tab[sat]["date_of_launch"])
        year, jday = date_grid(rng, launch, False)[rng.randrange(4)]
        single = all(tab[sat][c]["gain_switch"] is None for c in ("channel_1", "channel_2", "channel_3a"))
        custom, merged = {}, dict(tab[sat])
        for ci, ch in enumerate(("channel_1", "channel_2", "channel_3a")):
            gains = (Fraction(1),) if single else ((Fraction(1, 4), Fraction(7, 4)) if ci == 2 else (Fraction(1, 2), Fraction(3, 2)))
            while True:
                s0 = "0.%05d" % rng.randint(5000, 30000)
                if all((g * Fraction(s0) * 1000) % 1 != Fraction(1, 2) for g in gains):
                    break
            ent = {"dark_count": "%d.%d" % (rng.randint(30, 45), rng.randint(0, 9)), "s0": s0,
                   "s1": "%.3f" % rng.uniform(-1, 3), "s2": "%.4f" % rng.uniform(-0.2, 0.2),
                   "gain_switch": None if single else "%d.%d" % (rng.randint(480, 520), rng.randint(0, 9))}
            merged[ch] = ent
            custom[ch] = {k: (None if v is None else float(v)) for k, v in ent.items()}
        cal = Calibrator(sat, custom_coeffs=custom)
        arr = np.repeat(counts[:, None, None], 3, axis=2).copy()
        with warnings.catch_warnings():
            warnings.simplefilter("ignore")
            got = calibrate_solar(arr, np.arange(3), year, jday, cal, 1.0)
        for chan in range(3):
            g = got[:, 0, chan]
            want, t = oracle(merged, chan, year, jday, Fraction(1), range(1024))
            payload = {"sat": sat, "chan": chan, "year": year, "jday": jday, "corr": "1", "custom": custom}
            nan_w = np.array([w is None for w in want])
            wf = np.array([0.0 if w is None else float(w) for w in want])
            gf = np.where(np.isnan(g), 0.0, g)
            # a count within 1e-9 of the dark count may fall either side of zero
            edge = np.abs(wf) < 1e-9
            bad = np.nonzero(((np.isnan(g) != nan_w) & ~edge) | (np.abs(gf - wf) > 1e-9 * np.maximum(1.0, np.abs(wf))))[0]
            if len(bad):
                i = int(bad[0])
                ctx.violation("%s channel index %d with custom coefficients %s, %d/%03d: count %d -> %s, PATMOS-x formula gives %s" % (
                    sat, chan, merged[("channel_1", "channel_2", "channel_3a")[chan]], year, jday, i, g[i],
                    None if want[i] is None else float(want[i])), payload, cls="solar-custom")
            ctx.case((sat, chan, year, jday, "custom", custom[("channel_1", "channel_2", "channel_3a")[chan]]["s0"]), nontrivial=True,
                     branch="custom/%s" % ("single" if single else "dual"))
        Calibrator(sat)       # back to the defaults for whoever comes next


def distance_cases(ctx):
    from pygac.utils import calculate_sun_earth_distance_correction
    for jday in range(1, 367):
        got = float(calculate_sun_earth_distance_correction(jday))
        want = 1.0 - 0.0334 * math.cos(2.0 * math.pi * (jday - 2) / 365.25)
        if abs(got - want) > 1e-12:
            ctx.violation("distance factor of day %d is %.12f, formula gives %.12f" % (jday, got, want), {"jday": jday}, cls="distance")
        ctx.case(("dist", jday), branch="distance")


def pipeline_cases(ctx, tab):
    rng = ctx.rng
    # one full-resolution pass of several thousand lines (a 15-minute HRPT pass has ~5400, a FRAC orbit ~36000): only in the
    # thorough tier and when the source differs from the validated baseline (90 MB file, ~3 GB of memory, ~40 s)
    big = [("klmLac", 5600)] if (ctx.thorough or getattr(ctx, "escalated", False)) else []
    nbase = ctx.n(6, 200)
    sweep = [("podGac", j) for j in range(len(filegen.PLATFORMS["pod"]))] + [("klmGac", j) for j in range(len(filegen.PLATFORMS["klm"]))]
    for k in range(-len(big), nbase + len(sweep)):
        fmt = rng.choice(["klmGac", "podGac", "klmLac", "podLac"])
        n = 8 if fmt.endswith("Lac") else 20
        if k < 0:
            fmt, n = big[k]
        plat = None
        if k >= nbase:
            # PLATFORM SWEEP: a file of every spacecraft of either family (header id, platform code, name and a date of its life
            # from the user's guides: filegen.PLATFORMS) follows THAT spacecraft's coefficients
            fmt, plat = sweep[k - nbase]
            n = 6
        if fmt.startswith("klm"):
            year, sat = 2002 + rng.randint(0, 3), "noaa16"
        else:
            year, sat = 2000, "noaa14"
        leap = year % 4 == 0
        # the pipeline takes year and day of year from the first line: include the ends of the year and day 366
        doy = rng.choice([1, 59, 60, 365, 366 if leap else 365, rng.randint(1, 365), rng.randint(1, 365)])
        if k < 2:
            year = 2004 if fmt.startswith("klm") else 2000
            doy = 366
        start = ydm_to_ms(year, doy, rng.randint(0, 86000000 - 20000))
        if k in (2, 3) or (k >= 0 and k % 7 == 6):
            start = ydm_to_ms(year, 1 if k == 2 else doy, 0)       # the first line at exactly 00:00:00.000 (k = 2: on 1 January)
        if k < 0:
            # the long pass crosses UTC midnight about 1000 lines after its start: year and day of year of the FIRST line hold
            # for every line of the pass (not 31 December of a leap year: 2004 + 366/365 = 2005 + 1/365)
            year, doy = (2003, rng.randint(2, 300)) if fmt.startswith("klm") else (2000, rng.randint(2, 300))
            start = ydm_to_ms(year, doy, 86400000 - 170000)
        if plat is not None:
            sid, pcode, sat, (year, doy) = filegen.PLATFORMS[filegen.FMT[fmt]["family"]][plat]
            start = ydm_to_ms(year, doy, rng.randint(0, 86000000 - 20000))
        nums_file = list(range(1, n + 1))
        if k == 4:
            # records stored OUT OF ORDER across UTC midnight (the second half of the pass in front of the first): the first
            # record of the file lies on day D+1, later records on day D - date and distance factor are those of the FIRST line
            fmt, n, sat = "klmGac", 20, "noaa16"
            nums_file = list(range(11, 21)) + list(range(1, 11))
            start = ydm_to_ms(2003, 101, 1000)
        tp = timesgen.TimePass(fmt, nums_file, start)
        if plat is not None:
            b = tp.build(ctx, rng, **({"pod_epoch": filegen.pod_epoch_of(year, doy)} if fmt.startswith("pod") else {}))
            b.sat_id, b.plat = sid, pcode
        else:
            b = tp.build(ctx, rng)
        if fmt.startswith("klm"):
            b.bitfield[:] = np.array([rng.choice([0, 1, 1]) for _ in range(n)], dtype=np.uint16)
        data = b.tobytes()
        r = filegen.reader_class(fmt)(tle_dir=filegen.tle_dir(ctx), tle_name="TLE_%(satname)s.txt", adjust_clock_drift=False)
        r.read(b.dsname, fileobj=io.BytesIO(data))
        if r.is_tsm_affected():
            # the scan-motor masking (C19's subject) blanks noisy pixels of passes inside the listed intervals
            ctx.branches["pipeline-skipped(scan-motor interval)"] += 1
            continue
        ch = r.get_calibrated_channels()
        # asked again (and after the counts were asked for): the same mapping must come back
        r.get_counts()
        ch_again = r.get_calibrated_channels()
        # the counts the file was written with (sample 5*p + c of each line), not what the reader reports after calibrating
        counts = np.asarray(b.samples, dtype=np.int64).reshape(n, -1, 5)
        t0 = int(np.asarray(r.get_times()[0]).astype("datetime64[ms]").astype(np.int64))
        y, d, _ = filegen.ms_to_ydm(t0)
        corr = Fraction(repr(1.0 - 0.0334 * math.cos(2.0 * math.pi * (d - 2) / 365.25)))
        payload = {"fmt": fmt, "start": start, "n": n, "sat": sat, "stream": "pipeline", "platform": plat}
        nsol = 3 if fmt.startswith("klm") else 2
        check_lines = range(n) if n <= 64 else sorted(set([0, 1, n // 2, 1023, 1024, 2047, 2048, 4095, 4096, 5460, 5461, 5462, 8191, 8192, n - 2, n - 1] +
                                                         rng.sample(range(n), 12)) & set(range(n)))
        for chan in range(nsol):
            for line in check_lines:
                if fmt.startswith("klm") and chan == 2 and b.bitfield[line] != 1:
                    continue
                cs = counts[line, :, chan]
                px = rng.sample(range(cs.shape[0]), 6)
                want, _ = oracle(tab[sat], chan, y, d, corr, [int(cs[p]) for p in px])
                for p, w, g in [(p_, w_, c_[line, p_, chan]) for c_ in (ch, ch_again) for p_, w_ in zip(px, want)]:
                    if (w is None) != bool(np.isnan(g)) or (w is not None and abs(float(w) - g) > 1e-7 * max(1.0, abs(float(w)))):
                        ctx.violation("%s pipeline, %d/%03d, channel index %d, line %d pixel %d: count %d -> %s, formula with the "
                                      "first line's date and distance factor gives %s" % (fmt, y, d, chan, line, p, int(cs[p]), g,
                                                                                           None if w is None else float(w)),
                                      payload, cls="pipeline")
                        break
        ctx.case((fmt, start, plat), nontrivial=True, branch=("pipeline/" + fmt) if plat is None else "pipeline/platform-sweep")


def run(ctx):
    tab = table()
    direct_cases(ctx, tab)
    distance_cases(ctx)
    pipeline_cases(ctx, tab)
    ctx.sample({"spacecraft": sorted(tab), "counts": "0..1023"})


def replay(ctx, path):
    with open(path) as fh:
        body = json.load(fh)
    p = body.get("input", {})
    if "sat" not in p or "year" not in p:
        print("replay: re-running the check (%s)" % (p or body.get("broken_theorems_or_obligations")))
        run(ctx)
    else:
        from pygac.calibration.noaa import Calibrator, calibrate_solar
        tab = table()
        arr = np.repeat(np.arange(1024, dtype=float)[:, None, None], 3, axis=2)
        import warnings
        with warnings.catch_warnings():
            warnings.simplefilter("ignore")
            got = calibrate_solar(arr, np.arange(3), p["year"], p["jday"], Calibrator(p["sat"]), float(p["corr"]))[:, 0, p["chan"]]
        want, _ = oracle(tab[p["sat"]], p["chan"], p["year"], p["jday"], Fraction(p["corr"]), range(1024))
        for i, (g, w) in enumerate(zip(got, want)):
            if (w is None) != bool(np.isnan(g)) or (w is not None and abs(float(w) - g) > 1e-9 * max(1.0, abs(float(w)))):
                ctx.violation("count %d -> %s, formula %s" % (i, g, w), p, cls="solar-value")
                break
    if ctx.input_violations:
        print("REPRODUCED: " + ctx.input_violations[0]["what"])
        return 1
    print("not reproduced")
    return 0
