"""C07 — flagged scan lines are blanked in every product and only those."""
import json
import random

import numpy as np

from . import filegen
from .common import Driver

THEOREM_MODULES = ["PygacModel.Theorems.C07"]
RULE = ("passes whose line i carries quality bit (i mod 32) alone, then random / all-ones / three-bit-complement words; "
        "for each a twin with quality 0 and a twin differing only in the other 29 bits; products compared row by row "
        "(mask, 7-column summary, calibrated channels, lon/lat, 5 angles); passes with exactly one flagged line (first / last / "
        "inner record); passes in which one scan-line number is stored twice and one copy is flagged; passes at the top of each line-number field's range "
        "(32762.., 65520.., 14980..). A case = (format, line); non-trivial = "
        "quality word != 0; distinct by (family, quality word)")
RULE += (" In the thorough tier, and in the quick tier whenever the source differs from the validated baseline, a LONG-PASS stream is added (passes of 1300 .. 12000 lines, just beyond multiples of 256 .. 8192, with the property-relevant event placed at and after such multiples; DESIGN 10.4 round 13).")

BITS = {"klm": (31, 28, 27), "pod": (31, 27, 26)}
CONT = {"klm": ((7, 6), (5, 4), (3, 2)), "pod": ((18,), (17,), (16,))}


def spec_mask(fam, q):
    return any((q >> b) & 1 for b in BITS[fam])


def spec_summary(fam, n, q):
    b = BITS[fam]
    return [n] + [(q >> x) & 1 for x in b] + [int(any((q >> x) & 1 for x in grp)) for grp in CONT[fam]]


def products(ctx, fmt, pb, interpolate=True):
    r = filegen.make_reader(ctx, fmt, data=pb.tobytes(), name=pb.dsname, interpolate_coords=interpolate)
    out = {}
    out["mask"] = np.array(r.mask).copy()
    out["qual"] = np.array(r.get_qual_flags()).copy()
    ch = np.array(r.get_calibrated_channels())
    out["channels"] = ch.reshape(ch.shape[0], -1)
    lon, lat = r.get_lonlat()
    out["lon"] = np.array(lon)
    out["lat"] = np.array(lat)
    for k, a in zip(("sat_azi", "sat_zen", "sun_azi", "sun_zen", "rel_azi"), r.get_angles()):
        out[k] = np.array(a)
    return out


def quality_words(rng, n, fam, kind):
    tb = 0
    for b in BITS[fam]:
        tb |= 1 << b
    if kind == "walk":
        return np.array([1 << (i % 32) for i in range(n)], dtype=np.uint64)
    if kind == "random":
        # mostly clean in the three bits so that unmasked lines dominate
        q = np.array([rng.getrandbits(32) for _ in range(n)], dtype=np.uint64)
        keep = np.array([rng.random() < 0.35 for _ in range(n)])
        q = np.where(keep, q, q & np.uint64(~tb & 0xFFFFFFFF))
        return q
    if kind == "complement":   # everything except the three bits / plus one of them
        q = np.full(n, (~tb) & 0xFFFFFFFF, dtype=np.uint64)
        for i in range(0, n, 7):
            q[i] |= np.uint64(1 << BITS[fam][(i // 7) % 3])
        return q
    if kind.startswith("dup"):      # the scan-line number of record n//2 is stored twice; exactly one of the two copies is flagged
        q = np.array([rng.getrandbits(32) & (~tb & 0xFFFF_FFFF) for _ in range(n)], dtype=np.uint64)
        q[n // 2 + (1 if kind == "dup-second" else 0)] |= np.uint64(1 << rng.choice(BITS[fam]))
        return q
    if kind.startswith("single"):   # exactly one flagged line in the whole pass: the first, the last or one in between
        q = np.array([rng.getrandbits(32) & (~tb & 0xFFFFFFFF) for _ in range(n)], dtype=np.uint64)
        i = {"single-first": 0, "single-last": n - 1}.get(kind, rng.randrange(1, n - 1))
        q[i] |= np.uint64(1 << rng.choice(BITS[fam]))
        return q
    raise ValueError(kind)


def check_pass(ctx, fmt, n, kind, seed, interpolate, drv, n0=1):
    fam = filegen.FMT[fmt]["family"]
    rng = random.Random(repr((seed, fmt, n, kind)))
    tb = sum(1 << b for b in BITS[fam])
    q = quality_words(rng, n, fam, kind)

    def build(qq):
        numbers = None
        if kind.startswith("dup"):
            d = n // 2
            numbers = list(range(n0, n0 + d + 1)) + list(range(n0 + d, n0 + n - 1))
        pb = filegen.PassBuilder(ctx, fmt, n, random.Random(repr((seed, fmt, n))), n0=n0, line_numbers=numbers)
        pb.quality = qq.astype(np.uint32)
        if fam == "klm":
            pb.bitfield[:] = np.array([0, 1, 0, 0, 1][: 5] * (n // 5 + 1))[:n]
        return pb
    pa = build(q)
    pz = build(np.zeros(n, dtype=np.uint64))
    other = np.array([rng.getrandbits(32) & (~tb & 0xFFFFFFFF) for _ in range(n)], dtype=np.uint64)
    pc = build((q & np.uint64(tb)) | other)
    A = products(ctx, fmt, pa, interpolate)
    Z = products(ctx, fmt, pz, interpolate)
    C = products(ctx, fmt, pc, interpolate)
    payload = {"fmt": fmt, "n": n, "kind": kind, "seed": seed, "interpolate": interpolate, "n0": n0}
    lines = pa.line_numbers
    want_mask = np.array([spec_mask(fam, int(x)) for x in q])
    # --- oracle on the implementation
    bad = np.nonzero(A["mask"] != want_mask)[0]
    if len(bad):
        i = int(bad[0])
        ctx.violation("%s: line %d quality 0x%08x mask=%s, format says %s" % (fmt, i, int(q[i]), bool(A["mask"][i]), bool(want_mask[i])),
                      dict(payload, line=i, q=int(q[i])), cls="mask:%s" % fam)
    want_sum = np.array([spec_summary(fam, int(lines[i]), int(q[i])) for i in range(n)], dtype=float)
    bad = np.nonzero((A["qual"] != want_sum).any(axis=1))[0]
    if len(bad):
        i = int(bad[0])
        col = int(np.nonzero(A["qual"][i] != want_sum[i])[0][0])
        ctx.violation("%s: quality word 0x%08x summary column %d is %s, expected %s" % (fmt, int(q[i]), col, A["qual"][i][col], want_sum[i][col]),
                      dict(payload, line=i, q=int(q[i]), column=col), cls="summary:%s:col%d" % (fam, col))
    for name in ("channels", "lon", "lat", "sat_azi", "sat_zen", "sun_azi", "sun_zen", "rel_azi"):
        a, z, c = A[name], Z[name], C[name]
        if a.shape[0] != n:
            ctx.violation("%s: product %s has %d rows for %d lines" % (fmt, name, a.shape[0], n), payload, cls="rows:%s" % name)
            continue
        rows_nan = np.isnan(a).all(axis=1)
        m = want_mask
        if not rows_nan[m].all():
            i = int(np.nonzero(m & ~rows_nan)[0][0])
            ctx.violation("%s: flagged line %d (quality 0x%08x) is not blank in %s" % (fmt, i, int(q[i]), name),
                          dict(payload, line=i, q=int(q[i]), product=name), cls="notblank:%s:%s" % (fam, name))
        same = np.array([np.array_equal(a[i], z[i], equal_nan=True) for i in range(n)])
        if not same[~m].all():
            i = int(np.nonzero(~m & ~same)[0][0])
            ctx.violation("%s: unflagged line %d (quality 0x%08x) differs in %s from the same pass with quality 0" % (fmt, i, int(q[i]), name),
                          dict(payload, line=i, q=int(q[i]), product=name), cls="altered:%s:%s" % (fam, name))
        if not np.array_equal(a, c, equal_nan=True):
            i = int(np.nonzero([not np.array_equal(a[k], c[k], equal_nan=True) for k in range(n)])[0][0])
            ctx.violation("%s: product %s of line %d depends on quality bits other than %s" % (fmt, name, i, BITS[fam]),
                          dict(payload, line=i, product=name), cls="otherbits:%s:%s" % (fam, name))
    # --- model side
    for i in range(n):
        drv.append(("c07 %s %d %d" % (fam, int(lines[i]), int(q[i])),
                    (fmt, i, int(q[i]), int(A["mask"][i]), [int(x) for x in A["qual"][i]])))
        ctx.case((fam, int(q[i])), nontrivial=int(q[i]) != 0, branch="masked" if want_mask[i] else "unmasked")
    ctx.sample({"fmt": fmt, "n": n, "kind": kind, "first_words": [hex(int(x)) for x in q[:4]]})


def run(ctx):
    drv = []
    plan = [("klmGac", 96, "walk", True), ("podGac", 96, "walk", True),
            ("klmGac", 64, "random", False), ("podGac", 64, "random", False),
            ("klmLac", 40, "walk", True), ("podLac", 40, "walk", False),
            ("klmGac", 60, "complement", True), ("podGac", 60, "complement", True)]
    for fmt in ("klmGac", "podGac") + (("klmLac", "podLac") if ctx.thorough else ()):
        plan += [(fmt, 14, "single-first", True), (fmt, 14, "single-last", False), (fmt, 14, "single-mid", True),
                 (fmt, 14, "dup-first", False), (fmt, 14, "dup-second", True)]
    if ctx.thorough:
        for k in range(60):
            plan += [("klmGac", 200, "random", bool(k % 2)), ("podGac", 200, "random", bool(k % 2)),
                     ("klmLac", 64, "random", bool(k % 2)), ("podLac", 64, "random", bool(k % 2))]
    for k, (fmt, n, kind, interp) in enumerate(plan):
        check_pass(ctx, fmt, n, kind, ctx.seed * 1000 + k, interp, drv)
    # the summary reports the scan-line number: passes at the top of each line-number field's range
    # (KLM unsigned 16 bit, LAC up to 65534; POD signed 16 bit; GAC up to 14999)
    for k, (fmt, n, n0) in enumerate([("klmLac", 12, 32762), ("klmLac", 12, 65520), ("podLac", 12, 32750),
                                      ("klmGac", 12, 14980), ("podGac", 12, 14980)]):
        check_pass(ctx, fmt, n, "walk", ctx.seed * 1000 + 500 + k, False, drv, n0=n0)
    if ctx.thorough or getattr(ctx, "escalated", False):
        # a LONG full-resolution pass (4200 lines) with flagged lines near its start and far into it: the coordinates are
        # blanked on exactly those lines, wherever in the pass they are
        import io
        import warnings
        n = 4200
        pb = filegen.PassBuilder(ctx, "klmLac", n, random.Random(repr((ctx.seed, "c07long"))))
        flagged = np.zeros(n, dtype=bool)
        flagged[[5, 13, 2050, 4101, 4109, 4155]] = True
        pb.quality[flagged] = [1 << b_ for b_ in (31, 28, 27, 31, 28, 27)]
        r = filegen.reader_class("klmLac")(tle_dir=filegen.tle_dir(ctx), tle_name="TLE_%(satname)s.txt", interpolate_coords=False)
        data_ = pb.tobytes()
        r.read(pb.dsname, fileobj=io.BytesIO(data_))
        del data_
        with warnings.catch_warnings():
            warnings.simplefilter("ignore")
            lons, lats = r.get_lonlat()
        nanrow = np.isnan(np.asarray(lons)).all(axis=1) & np.isnan(np.asarray(lats)).all(axis=1)
        anynan = np.isnan(np.asarray(lons)).any(axis=1) | np.isnan(np.asarray(lats)).any(axis=1)
        if not (np.array_equal(nanrow, flagged) and np.array_equal(anynan, flagged) and np.array_equal(np.asarray(r.mask), flagged)):
            ctx.violation("klmLac pass of %d lines, flagged lines %s: coordinates are blanked on lines %s (mask %s)" % (
                n, np.nonzero(flagged)[0].tolist(), np.nonzero(anynan)[0].tolist()[:12], np.nonzero(np.asarray(r.mask))[0].tolist()[:12]),
                {"fmt": "klmLac", "n": n, "stream": "long-pass", "flagged": np.nonzero(flagged)[0].tolist()}, cls="long-pass:lonlat")
        ctx.case(("klmLac", "long", n), nontrivial=True, branch="long-pass")
    if ctx.thorough:   # masks alone over many more words (cheap: no pipeline)
        rng = ctx.rng
        for fam in ("klm", "pod"):
            for _ in range(10000):
                q = rng.getrandbits(32)
                drv.append(("c07 %s %d %d" % (fam, 1, q), ("spec-" + fam, 0, q, int(spec_mask(fam, q)), spec_summary(fam, 1, q))))
                ctx.case((fam, q), nontrivial=q != 0)
    if ctx.driver_ok:
        out = Driver(ctx).batch([d[0] for d in drv])
        for (cmd, (fmt, i, q, mask, summ)), o in zip(drv, out):
            want = "%d %s" % (mask, ",".join(str(x) for x in summ))
            if o.strip() != want:
                ctx.corr_break("model says [%s], implementation [%s] for %s line %d quality 0x%08x" % (o.strip(), want, fmt, i, q),
                               {"cmd": cmd})
    else:
        ctx.corr_break("lean driver unavailable: correspondence not run")
    ctx.assumptions += ["products are compared against a twin pass with all quality words 0 (same telemetry, counts, tie points)",
                        "POD passes use NOAA-14 with its 2000-322 TLE (clock drift active), KLM passes NOAA-16"]


def replay(ctx, path):
    from . import common
    with open(path) as fh:
        body = json.load(fh)
    inp = body.get("input", {})
    if "fmt" not in inp:
        print("replay file carries no input: %s" % body.get("broken_theorems_or_obligations"))
        return 1
    ctx.driver_ok = False
    check_pass(ctx, inp["fmt"], inp["n"], inp["kind"], inp["seed"], inp["interpolate"], [], n0=inp.get("n0", 1))
    if ctx.input_violations:
        print("REPRODUCED: " + ctx.input_violations[0]["what"])
        return 1
    print("not reproduced")
    return 0
