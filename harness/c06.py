"""C06 — returned coordinates reproduce the file's tie points over the whole globe."""
import io
import json
import warnings
from fractions import Fraction

import numpy as np

from . import filegen, timesgen
from .c09 import angdist, orbit_positions
from .common import Driver
from .filegen import FMT, ydm_to_ms

THEOREM_MODULES = ["PygacModel.Theorems.C06"]
RULE = ("(a) tie-point stream: files of all four formats whose earth-location words cover the representable range - random "
        "over +-180 / +-90 degrees, the exact limits (+-1800000 / +-900000, +-23040 / +-11520), one word beyond them, "
        "date-line and pole crossings, flagged lines; interpolation off: get_lonlat() and the dataset's longitude / latitude "
        "vs word * scale (1e-6 deg), NaN exactly for flagged lines and out-of-range words, shape (lines, 51); compared with "
        "the Lean model; (b) pixel stream: tie points of a TLE-propagated orbit written to KLM and POD GAC / LAC files, "
        "interpolation on: full-width coordinates vs the same orbit at the individual pixel positions (KLM: 0.005 deg "
        "between the first and last tie point, 0.03 deg in the extrapolated edge columns; POD words are quantised to 1/128 "
        "deg, so POD files get a coarse 0.06 / 0.08 deg limit and their measured deviation is reported). A case = one file; distinct by (format, words hash)")
RULE += (" In the thorough tier, and in the quick tier whenever the source differs from the validated baseline, a LONG-PASS stream is added (passes of 1300 .. 12000 lines, just beyond multiples of 256 .. 8192, with the property-relevant event placed at and after such multiples; DESIGN 10.4 round 13).")
TRUSTED_EXTRA = ["the accuracy of the tie-point spline (python-geotiepoints) on a real orbit is numerical support, not a theorem",
                 "pyorbital provides the orbit truth for the pixel-position clause"]


def word_limits(fam):
    return (23040, 11520, 128.0) if fam == "pod" else (1800000, 900000, 1e4)


def tie_case(ctx, rng, k, drv):
    fmt = rng.choice(list(FMT))
    fam = FMT[fmt]["family"]
    lon_max, lat_max, sc = word_limits(fam)
    n = rng.choice([1, 2, 5, 12])
    hi = 32767 if fam == "pod" else 2 ** 31 - 1
    kind = rng.choice(["random", "limits", "dateline", "pole", "beyond"])
    lonw = np.array([[rng.randint(-lon_max, lon_max) for _ in range(51)] for _ in range(n)], dtype=np.int64)
    latw = np.array([[rng.randint(-lat_max, lat_max) for _ in range(51)] for _ in range(n)], dtype=np.int64)
    if kind == "limits":
        lonw[0, :4] = [lon_max, -lon_max, lon_max - 1, -lon_max + 1]
        latw[0, :4] = [lat_max, -lat_max, lat_max - 1, -lat_max + 1]
    elif kind == "dateline":
        lonw[:] = (np.linspace(lon_max - 50 * 51, lon_max + 50 * 51, 51).astype(np.int64) + lon_max) % (2 * lon_max) - lon_max
        lonw[0, 25] = lon_max
        if n > 1:
            lonw[1, 25] = -lon_max
    elif kind == "pole":
        latw[:] = np.linspace(lat_max - 3000, lat_max, 51).astype(np.int64)
    elif kind == "beyond":
        lonw[0, :4] = [lon_max + 1, -lon_max - 1, min(hi, 2 * lon_max), -min(hi, 2 * lon_max)]
        latw[0, 4:8] = [lat_max + 1, -lat_max - 1, min(hi, 3 * lat_max), -min(hi, 3 * lat_max)]
    flagged = np.zeros(n, dtype=bool)
    if n > 1 and rng.random() < 0.4:
        flagged[rng.randrange(n)] = True
    start = ydm_to_ms(2002, 187, 40000000) if fam == "klm" else ydm_to_ms(2000, 322, 40000000)
    tp = timesgen.TimePass(fmt, list(range(1, n + 1)), start)
    b = tp.build(ctx, rng)
    b.lons = lonw / sc
    b.lats = latw / sc
    # unflagged lines carry any of the OTHER 29 quality bits (time / calibration / earth-location sub-flags, clock update,
    # ...); a flagged line carries one of the format's three blanking bits
    mask_bits = (31, 28, 27) if fam == "klm" else (31, 27, 26)
    tb = sum(1 << x for x in mask_bits)
    b.quality[:] = np.array([rng.getrandbits(32) & ~tb & 0xFFFFFFFF for _ in range(n)], dtype=np.uint32)
    for i_ in np.nonzero(flagged)[0]:
        b.quality[i_] |= np.uint32(1 << rng.choice(mask_bits))
    data = b.tobytes()
    r = filegen.reader_class(fmt)(tle_dir=filegen.tle_dir(ctx), tle_name="TLE_%(satname)s.txt",
                                  interpolate_coords=False, adjust_clock_drift=False)
    r.read(b.dsname, fileobj=io.BytesIO(data))
    payload = {"fmt": fmt, "kind": kind, "lon_words": lonw.tolist(), "lat_words": latw.tolist(), "flagged": flagged.tolist(),
               "stream": "tie"}
    with warnings.catch_warnings():
        warnings.simplefilter("ignore")
        lons, lats = r.get_lonlat()
        ds = r.create_counts_dataset()
    lons, lats = np.array(lons, dtype=float), np.array(lats, dtype=float)
    if lons.shape != (n, 51) or lats.shape != (n, 51):
        ctx.violation("%s: interpolation off returned shape %s, expected (%d, 51)" % (fmt, lons.shape, n), payload, cls="shape")
        return
    want_lon = np.where((np.abs(lonw) > lon_max) | flagged[:, None], np.nan, lonw / sc)
    want_lat = np.where((np.abs(latw) > lat_max) | flagged[:, None], np.nan, latw / sc)
    for name, got, want in (("longitude", lons, want_lon), ("latitude", lats, want_lat),
                            ("dataset longitude", np.array(ds["longitude"].values, dtype=float), want_lon),
                            ("dataset latitude", np.array(ds["latitude"].values, dtype=float), want_lat)):
        if got.shape != want.shape:
            ctx.violation("%s: %s has shape %s" % (fmt, name, got.shape), payload, cls="shape")
            break
        nan_bad = np.isnan(got) != np.isnan(want)
        if nan_bad.any():
            i, j = np.argwhere(nan_bad)[0]
            w = (lonw if "lon" in name else latw)[i, j]
            ctx.violation("%s (%s): %s of line %d tie point %d (word %d = %.4f deg, line %sflagged) is %s, expected %s" % (
                fmt, kind, name, i, j, w, w / sc, "" if flagged[i] else "not ", got[i, j], want[i, j]), payload,
                cls="tie-nan:%s" % ("lon" if "lon" in name else "lat"))
            break
        dv = np.nanmax(np.abs(np.where(np.isnan(want), 0, got - want))) if got.size else 0.0
        if dv > 1e-6:
            i, j = np.argwhere(np.abs(np.where(np.isnan(want), 0, got - want)) > 1e-6)[0]
            ctx.violation("%s (%s): %s of line %d tie point %d is %.7f, the file's word gives %.7f" % (
                fmt, kind, name, i, j, got[i, j], want[i, j]), payload, cls="tie-value")
            break
    # the coordinates of a reader do not change when its pass has been written to the legacy files in between
    if not flagged.any() and n >= 5 and rng.random() < 0.5:
        import os
        import shutil
        import tempfile
        out = tempfile.mkdtemp(prefix="c06save", dir=ctx.scratch)
        try:
            with warnings.catch_warnings():
                warnings.simplefilter("ignore")
                r.save(0, 0, output_file_prefix="V", output_dir=out)
                lons2, lats2 = r.get_lonlat()
            if not (np.array_equal(np.asarray(lons2), lons, equal_nan=True) and np.array_equal(np.asarray(lats2), lats, equal_nan=True)):
                ctx.violation("%s: get_lonlat() after save(0, 0) on the same reader no longer returns the file's tie points "
                              "(first value %r, before %r)" % (fmt, float(np.asarray(lons2).ravel()[0]), float(lons.ravel()[0])),
                              payload, cls="lonlat-after-save")
            ctx.branches["tie/after-save"] += 1
        except (ValueError, IndexError) as e:      # calibration of an arbitrary short pass may fail: not this property
            ctx.branches["tie/save-not-possible:%s" % type(e).__name__] += 1
        finally:
            shutil.rmtree(out, ignore_errors=True)
    for i in range(n):
        drv.append(("c06 %d %d %s %s" % (1 if fam == "pod" else 0, int(flagged[i]), ",".join(map(str, lonw[i])), ",".join(map(str, latw[i]))),
                    (lons[i], lats[i]), payload))
    ctx.case((fmt, hash(lonw.tobytes()), hash(latw.tobytes())), nontrivial=True, branch="tie/%s/%s" % (fam, kind))


def pixel_case(ctx, rng, k):
    fmt = ["klmGac", "klmLac", "podGac", "podLac"][k % 4]
    fam, res = FMT[fmt]["family"], FMT[fmt]["res"]
    num, den = timesgen.period(fmt)
    n = rng.choice([8, 20]) if res == "lac" else rng.choice([12, 40])
    tie_pos = 23.5 + 40.0 * np.arange(51) if res == "gac" else 24.0 + 40.0 * np.arange(51)
    full_pos = np.arange(3.5, 2048, 5) if res == "gac" else np.arange(2048, dtype=float)
    start = ydm_to_ms(2000, 322, rng.randint(3600000, 80000000))
    nums = list(range(1, n + 1))
    t_us = (start + timesgen.ideal_offsets(fmt, nums)) * 1000
    tlon, tlat = orbit_positions(t_us, tie_pos, num / den / 1000.0)
    flon, flat = orbit_positions(t_us, full_pos, num / den / 1000.0)
    file_start = start if fam == "pod" else ydm_to_ms(2002, 187, 40000000)
    tp = timesgen.TimePass(fmt, nums, file_start)
    b = tp.build(ctx, rng)
    b.lons, b.lats = tlon.copy(), tlat.copy()
    # on every other pass ONE earth-location word of ONE unflagged line is out of range (an isolated bit error): the other
    # 50 tie points of that line must still come back as stored (judged at the tie-point columns of that line)
    bad_line = bad_tie = None
    if k % 2 == 1:
        bad_line, bad_tie = rng.randrange(n), rng.randrange(51)
        if rng.random() < 0.5:
            b.lons[bad_line, bad_tie] = rng.choice([200.0, -190.0, 250.0])
        else:
            b.lats[bad_line, bad_tie] = rng.choice([95.0, -100.0])
    data = b.tobytes()
    r = filegen.reader_class(fmt)(tle_dir=filegen.tle_dir(ctx), tle_name="TLE_%(satname)s.txt",
                                  interpolate_coords=True, adjust_clock_drift=False)
    r.read(b.dsname, fileobj=io.BytesIO(data))
    with warnings.catch_warnings():
        warnings.simplefilter("ignore")
        lons, lats = r.get_lonlat()
    payload = {"fmt": fmt, "start": start, "n": n, "stream": "pixel"}
    width = 409 if res == "gac" else 2048
    if np.asarray(lons).shape != (n, width):
        ctx.violation("%s: interpolation on returned shape %s, expected (%d, %d)" % (fmt, np.asarray(lons).shape, n, width), payload,
                      cls="shape")
        return
    d = angdist(np.asarray(lons), np.asarray(lats), flon, flat)
    c0, c1 = (4, 404) if res == "gac" else (24, 2024)
    # at the 51 tie-point columns the interpolated arrays return the file's words (scaled), to 1e-6 deg - for both families
    # (before fix 2d07dda the POD tie points were scaled and interpolated in single precision: up to 3e-5 .. 2e-3 deg off)
    sc_ = 128.0 if fam == "pod" else 1e4
    tcols = np.array([c0 + (8 if res == "gac" else 40) * j for j in range(51)])
    rows = [i for i in range(n) if i != bad_line]
    wl_, wa_ = np.round(b.lons * sc_) / sc_, np.round(b.lats * sc_) / sc_
    dl_ = np.abs(np.asarray(lons, dtype=float)[np.ix_(rows, tcols)] - wl_[rows])
    dl_ = np.minimum(dl_, 360.0 - dl_)
    da_ = np.abs(np.asarray(lats, dtype=float)[np.ix_(rows, tcols)] - wa_[rows])
    worst = float(np.nanmax(np.maximum(dl_, da_))) if rows else 0.0
    ctx.extra["worst_tie_column_deviation_interpolated_deg"] = max(ctx.extra.get("worst_tie_column_deviation_interpolated_deg", 0.0), worst)
    if rows and (np.isnan(dl_).any() or np.isnan(da_).any() or worst > 1e-6):
        ctx.violation("%s, interpolation on: the tie-point columns differ from the file's earth-location words by up to %.2e deg "
                      "(limit 1e-6)" % (fmt, worst), payload, cls="tie-columns-interpolated")
    if bad_line is not None:
        step = 8 if res == "gac" else 40
        cols = [c0 + step * j for j in range(51) if j != bad_tie]
        dt = d[bad_line, cols]
        lim_t = 2.5e-4 if fam == "klm" else 0.012      # the stored words are quantised to 1e-4 deg (KLM) / 1/128 deg (POD)
        if np.isnan(dt).any() or float(np.max(dt)) > lim_t:
            j = int(np.nanargmax(np.where(np.isnan(dt), np.inf, dt)))
            ctx.violation("%s: line %d carries one out-of-range earth-location word (tie point %d); its valid tie point at column %d "
                          "comes back as (%s, %s) instead of (%.4f, %.4f)" % (
                              fmt, bad_line, bad_tie, cols[j], np.asarray(lons)[bad_line, cols[j]], np.asarray(lats)[bad_line, cols[j]],
                              flon[bad_line, cols[j]], flat[bad_line, cols[j]]), dict(payload, bad_line=bad_line, bad_tie=bad_tie),
                          cls="tie-lost-to-bad-word")
        # the rest of that line lies between a wild knot and its neighbours: not judged
        d = np.delete(d, bad_line, axis=0)
        ctx.branches["pixel/one-word-out-of-range"] += 1
    # POD words are quantised to 1/128 deg (up to 0.0056 deg great-circle at a tie point, about 0.01 deg after the cubic
    # across-track spline), and the extrapolation into the edge columns amplifies that input noise further; the limits of the property are applied as stated to KLM
    # files (same interpolator classes); POD files only get a coarse limit (0.06 / 0.08 deg) that still catches a tie-point
    # column attributed to the wrong pixels (one GAC tie-point step is 0.3 deg), and their deviations go to the evidence
    quant = 0.0 if fam == "klm" else 0.055
    quant_edge = 0.0 if fam == "klm" else 0.05
    inner = float(np.nanmax(d[:, c0:c1 + 1]))
    outer = float(max(np.nanmax(d[:, :c0]), np.nanmax(d[:, c1 + 1:])))
    ctx.extra.setdefault("pixel_max_inner_deg", {})[fmt] = max(ctx.extra.get("pixel_max_inner_deg", {}).get(fmt, 0.0), round(inner, 5))
    ctx.extra.setdefault("pixel_max_edge_deg", {})[fmt] = max(ctx.extra.get("pixel_max_edge_deg", {}).get(fmt, 0.0), round(outer, 5))
    if np.isnan(d).any():
        ctx.violation("%s: NaN coordinates on unflagged lines of an ordinary orbit" % fmt, payload, cls="pixel-nan")
    elif inner > 0.005 + quant or outer > 0.03 + quant_edge:
        j = int(np.argmax(d.max(axis=0)))
        ctx.violation("%s: pixel column %d is %.4f deg from the true position of that pixel on the same orbit (limits 0.005 / 0.03 "
                      "deg%s; inner max %.4f, edge max %.4f)" % (fmt, j, float(d[:, j].max()), "" if fam == "klm" else " + 1/128 deg word quantisation", inner, outer), payload,
                      cls="pixel-position:%s" % res)
    ctx.case((fmt, start, n), nontrivial=True, branch="pixel/" + fmt)


def flagged_shape_cases(ctx, rng):
    """Short passes (1-5 lines) on which every line, or every line but one, is flagged: with interpolation on the arrays are
    still full width and have one row per line (all NaN on the flagged lines), with interpolation off 51 columns."""
    for fmt in ("klmGac", "klmLac", "podGac", "podLac"):
        fam, res = FMT[fmt]["family"], FMT[fmt]["res"]
        for n in (1, 2, 5):
            for pattern in ("all", "all-but-one"):
                for interp in (True, False):
                    start = ydm_to_ms(2000, 322, 40000000) if fam == "pod" else ydm_to_ms(2002, 187, 40000000)
                    tp = timesgen.TimePass(fmt, list(range(1, n + 1)), start)
                    b = tp.build(ctx, rng)
                    flagged = np.ones(n, dtype=bool)
                    if pattern == "all-but-one":
                        flagged[rng.randrange(n)] = False
                    bits = [31, 28, 27] if fam == "klm" else [31, 27, 26]
                    b.quality[flagged] = [1 << rng.choice(bits) for _ in range(int(flagged.sum()))]
                    data = b.tobytes()
                    r = filegen.reader_class(fmt)(tle_dir=filegen.tle_dir(ctx), tle_name="TLE_%(satname)s.txt",
                                                  interpolate_coords=interp, adjust_clock_drift=False)
                    r.read(b.dsname, fileobj=io.BytesIO(data))
                    payload = {"fmt": fmt, "n": n, "pattern": pattern, "interp": interp, "stream": "flagged-shape"}
                    try:
                        with warnings.catch_warnings():
                            warnings.simplefilter("ignore")
                            lons, lats = r.get_lonlat()
                    except Exception as e:      # noqa - any exception here is judged
                        ctx.violation("%s, %d line(s), %s flagged, interpolation %s: get_lonlat raised %s: %s" % (
                            fmt, n, pattern, interp, type(e).__name__, e), payload, cls="lonlat-raises:%s" % type(e).__name__)
                        continue
                    width = 51 if not interp else (409 if res == "gac" else 2048)
                    lons, lats = np.asarray(lons), np.asarray(lats)
                    if lons.shape != (n, width) or lats.shape != (n, width):
                        ctx.violation("%s, %d line(s), %s flagged, interpolation %s: shape %s, expected (%d, %d)" % (
                            fmt, n, pattern, interp, lons.shape, n, width), payload, cls="shape:flagged")
                    elif not (np.isnan(lons[flagged]).all() and np.isnan(lats[flagged]).all()):
                        ctx.violation("%s, %d line(s): coordinates on flagged lines" % (fmt, n), payload, cls="flagged-not-nan")
                    elif (~flagged).any() and np.isnan(lons[~flagged][:, (4 if res == "gac" else 24) if interp else 0]).any():
                        ctx.violation("%s, %d line(s): the unflagged line has no coordinates" % (fmt, n), payload, cls="unflagged-nan")
                    ctx.case((fmt, n, pattern, interp), nontrivial=True, branch="flagged-shape/%s" % pattern)


def long_pass_case(ctx, rng):
    """One LONG full-resolution pass (8193 lines, an odd number beyond 2^13; ~130 MB) with interpolation on: the tie-point
    columns of EVERY line - the last ones included - return the file's words."""
    fmt, n = "klmLac", 8193
    tp = timesgen.TimePass(fmt, list(range(1, n + 1)), ydm_to_ms(2002, 187, 40000000))
    b = tp.build(ctx, rng)
    ii, cc = np.arange(n, dtype=float)[:, None], np.arange(51, dtype=float)[None, :]
    b.lons = -100.0 + 0.004 * ii + 0.25 * cc            # a smooth track that stays away from the poles and the date line
    b.lats = 50.0 * np.sin(ii / n * np.pi * 1.6) + 0.01 * cc
    data = b.tobytes()
    r = filegen.reader_class(fmt)(tle_dir=filegen.tle_dir(ctx), tle_name="TLE_%(satname)s.txt", interpolate_coords=True, adjust_clock_drift=False)
    r.read(b.dsname, fileobj=io.BytesIO(data))
    del data
    with warnings.catch_warnings():
        warnings.simplefilter("ignore")
        lons, lats = r.get_lonlat()
    lons, lats = np.asarray(lons), np.asarray(lats)
    payload = {"fmt": fmt, "n": n, "stream": "long-pass"}
    if lons.shape != (n, 2048):
        ctx.violation("%s, %d lines: shape %s" % (fmt, n, lons.shape), payload, cls="shape:long")
        return
    tcols = 24 + 40 * np.arange(51)
    wl, wa = np.round(b.lons * 1e4) / 1e4, np.round(b.lats * 1e4) / 1e4
    dl = np.abs(lons[:, tcols] - wl)
    dl = np.minimum(dl, 360.0 - dl)
    da = np.abs(lats[:, tcols] - wa)
    bad = np.nonzero((np.nan_to_num(dl, nan=9.0).max(axis=1) > 1e-6) | (np.nan_to_num(da, nan=9.0).max(axis=1) > 1e-6))[0]
    if len(bad):
        i = int(bad[0])
        ctx.violation("%s pass of %d lines, interpolation on: tie points not reproduced on %d line(s), first line index %d: returned "
                      "(%s, %s), the file says (%.4f, %.4f)" % (fmt, n, len(bad), i, lons[i, tcols[0]], lats[i, tcols[0]], wl[i, 0], wa[i, 0]),
                      payload, cls="tie-columns-long")
    ctx.case((fmt, "long", n), nontrivial=True, branch="long-pass")


def run(ctx):
    rng = ctx.rng
    drv = []
    flagged_shape_cases(ctx, rng)
    if ctx.thorough or getattr(ctx, "escalated", False):
        long_pass_case(ctx, rng)
    for k in range(ctx.n(150, 6000)):
        tie_case(ctx, rng, k, drv)
    for k in range(ctx.n(20, 400)):
        pixel_case(ctx, rng, k)
    ctx.sample({"pixel_max_inner_deg": ctx.extra.get("pixel_max_inner_deg"), "pixel_max_edge_deg": ctx.extra.get("pixel_max_edge_deg")})
    if not ctx.driver_ok:
        ctx.corr_break("lean driver unavailable: correspondence not run")
        return
    out = Driver(ctx).batch([d[0] for d in drv])
    for (cmd, (lo, la), payload), o in zip(drv, out):
        mlo, mla = [[float("nan") if v == "nan" else float(Fraction(v)) for v in part.split(",")] for part in o.split(" | ")]
        for got, mod in ((lo, mlo), (la, mla)):
            got = np.asarray(got, dtype=float)
            mod = np.asarray(mod, dtype=float)
            if not np.array_equal(np.isnan(got), np.isnan(mod)) or np.nanmax(np.abs(np.nan_to_num(got) - np.nan_to_num(mod))) > 1e-6:
                ctx.corr_break("model and implementation differ on a tie-point line (%s %s)" % (payload["fmt"], payload["kind"]), payload)
                break


def replay(ctx, path):
    with open(path) as fh:
        body = json.load(fh)
    p = body.get("input", {})
    print("replay: re-running the %s stream" % p.get("stream", "?"))
    run(ctx)
    if ctx.input_violations:
        print("REPRODUCED: " + ctx.input_violations[0]["what"])
        return 1
    print("not reproduced")
    return 0
