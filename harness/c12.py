"""C12 — accessor results do not depend on call order, repetition or earlier work."""
import hashlib
import io
import json
import warnings
import os
import random

import numpy as np

from . import accessors as acc
from .accessors import COORD_OPS, OPS
from .common import Driver

THEOREM_MODULES = ["PygacModel.Theorems.C12"]
RULE = ("random accessor histories (quick: length <= 10, thorough <= 40) over fourteen reader configurations (POD GAC/LAC with "
        "clock drift applying, incl. a pass whose first line is within the clock error after UTC midnight and one with "
        "gaps, and two NOAA-14 passes whose first/last line lies within the clock error of a scan-motor interval end "
        "(noisy pixels planted); POD with stale TLE / correction disabled / spacecraft without table; KLM GAC/LAC, tie-point-only "
        "coordinates), interleaved with other readers (other files, families, custom coefficients, alternative "
        "coefficient file) and with reader selections in the same process. Every output is digested bit by bit and "
        "compared with (i) the value from a fresh reader calling only that accessor, (ii) the value after get_lonlat "
        "on a fresh reader, as the Lean model's symbolic output dictates (times: pre/post; everything else: final); "
        "the caller's input buffer (a writable bytearray handed out by a custom file object) is checksummed. "
        "A case = one accessor call inside a history; non-trivial = call preceded by at least one other call; "
        "distinct by (configuration, history prefix hash, accessor)")
TRUSTED_EXTRA = ["purity of the numeric kernels (numpy code not writing into its inputs) is what the digests test; "
                 "the state machine proves the cache discipline above them"]


class BufferFile(io.RawIOBase):
    """A file object that hands the caller's own writable buffer to the reader (np.frombuffer on a bytearray
    yields a writable array, so any in-place write by the reader would change the caller's bytes)."""

    def __init__(self, buf):
        self.buf = buf
        self.pos = 0
        self.name = "buffer"

    def read(self, n=-1):
        if n is None or n < 0:
            n = len(self.buf) - self.pos
        n = max(0, min(n, len(self.buf) - self.pos))
        out = memoryview(self.buf)[self.pos:self.pos + n]      # a view: the reader sees the caller's own bytes
        self.pos += n
        return out

    def seek(self, pos, whence=0):
        self.pos = pos if whence == 0 else (self.pos + pos if whence == 1 else len(self.buf) + pos)
        return self.pos

    def tell(self):
        return self.pos

    def readable(self):
        return True

    def seekable(self):
        return True


def gen_history(rng, maxlen):
    n = rng.randint(1, maxlen)
    h = []
    for _ in range(n):
        op = rng.choice(["save", "saveFrom2"]) if rng.random() < 0.15 else rng.choice(
            [o for o in OPS if not o.startswith("save")] + ["getTimes", "readMeta", "getLonLat", "calibrated"])
        h.append(op)
        if rng.random() < 0.2:
            h.append(op)          # repetition
    return h[:maxlen]


def distract(ctx, rng, subjects):
    """Work on other readers / global state between two calls of the reader under test."""
    from pygac.calibration.noaa import Calibrator
    k = rng.randrange(6)
    if k == 5:
        # some other job asks a user coefficient file for a spacecraft it does not contain (that request fails - whatever
        # it does, it must leave no trace for the pass that is calibrated with the same file)
        uf = [s_.userfile for s_ in subjects if getattr(s_, "userfile", None)]
        if uf:
            try:
                with warnings.catch_warnings():
                    warnings.simplefilter("ignore")
                    Calibrator("metopc", coeffs_file=uf[0])
            except Exception:      # noqa - the failing request itself is not judged here
                pass
            return "missing-spacecraft-request"
        k = 4
    if k == 0:
        s = rng.choice(subjects)
        r = s.reader()
        acc.perform(r, rng.choice(["calibrated", "getLonLat", "dataset", "angles"]))
        return "other-reader:" + s.cfg.name
    if k == 1:
        s = rng.choice(subjects)
        r = s.reader(calibration_parameters=dict(custom_coeffs={"channel_1": {"dark_count": 39.0, "gain_switch": 500.0,
                                                                              "s0": 0.2, "s1": 1.0, "s2": 0.0},
                                                                "thermometer_1": {"d0": 276.0, "d1": 0.05, "d2": 0.0,
                                                                                  "d3": 0.0, "d4": 0.0}}))
        acc.perform(r, "calibrated")
        return "custom-coeffs:" + s.cfg.name
    if k == 2:
        # alternative coefficient file (perturbed copy of the shipped one)
        from importlib.resources import files
        src = files("pygac") / "data/calibration.json"
        with open(src) as fh:
            table = json.load(fh)
        for sat in table.values():
            if isinstance(sat, dict) and "channel_2" in sat:
                sat["channel_2"]["s0"] = 0.5
        p = os.path.join(ctx.scratch, "alt_coeffs.json")
        with open(p, "w") as fh:
            json.dump(table, fh)
        s = rng.choice(subjects)
        acc.perform(s.reader(calibration_parameters=dict(coeffs_file=p)), "calibrated")
        return "alt-coeff-file:" + s.cfg.name
    if k == 3:
        import pygac
        s = rng.choice(subjects)
        pygac.get_reader_class(s.name, fileobj=io.BytesIO(s.data))
        return "select:" + s.cfg.name
    Calibrator(rng.choice(["noaa14", "noaa16", "metopa"]))
    return "calibrator"


def expected(model_out, fresh, after, op):
    """value the implementation must return according to the model's symbolic output"""
    if op == "getTimes":
        return after[op] if model_out == "times:post" else fresh[op]
    if op == "readMeta":
        return ("meta", None) if model_out == "meta:none" else after[op]
    return after[op]


def run_subject(ctx, subject, subjects, nhist, maxlen, drv_lines, pending):
    rng = ctx.rng
    fresh, after = acc.references(subject)
    cfgname = subject.cfg.name
    # (1) fresh value == value after coordinates, for every accessor but get_times / meta_data
    for op in OPS:
        if op in ("getTimes", "readMeta"):
            continue
        ctx.case((cfgname, "ref", op), nontrivial=True, branch="reference/" + op)
        if fresh[op] != after[op]:
            what = "%s: %s on a fresh reader differs from %s after get_lonlat() on a fresh reader" % (cfgname, op, op)
            if op == "dataset":
                comp = [n for n, a, b in zip(("times coordinate", "coordinates", "counts/telemetry", "attrs"),
                                             fresh[op][1:], after[op][1:]) if a != b]
                what += " (components: %s)" % ", ".join(comp)
                if comp == ["times coordinate"]:
                    # the times coordinate of the dataset view is the one-time drift shift the property permits
                    ctx.branches["dataset-times-coordinate-shift(permitted)"] += 1
                    continue
            ctx.violation(what, {"config": cfgname, "op": op, "history_a": [op], "history_b": ["getLonLat", op]},
                          cls="order:%s" % op)
    # (2) the metadata oracle on the reference itself
    T_final = after["getTimes"][1]
    want = acc.meta_oracle(list(T_final), subject.nums)
    if after["readMeta"][1] != want:
        ctx.violation("%s: reader.meta_data %s does not describe the returned times (expected %s)" % (
            cfgname, after["readMeta"][1], want), {"config": cfgname, "history": ["getLonLat", "readMeta"]}, cls="meta-stale")
    # (3) histories
    for k in range(nhist):
        h = gen_history(rng, maxlen)
        buf = bytearray(subject.data)
        before = hashlib.sha1(buf).hexdigest()
        use_buf = rng.random() < 0.5
        r = subject.reader(buffer=BufferFile(buf) if use_buf else None)
        outs, trace = [], []
        for i, op in enumerate(h):
            if rng.random() < 0.3:
                trace.append(distract(ctx, rng, subjects))
            outs.append(acc.perform(r, op))
            trace.append(op)
            ctx.case((cfgname, hash(tuple(h[:i])), op), nontrivial=i > 0, branch="history/" + op)
        if hashlib.sha1(buf).hexdigest() != before:
            ctx.violation("%s: the caller's input buffer was modified by history %s" % (cfgname, h),
                          {"config": cfgname, "history": h}, cls="input-modified")
        drv_lines.append("c12 %d %d %d %d %s" % (subject.cfg.cfg + (",".join(acc.model_op(o) for o in h),)))
        pending.append((subject, h, outs, trace, fresh, after))


def judge(ctx, pending, out_lines):
    for (subject, h, outs, trace, fresh, after), line in zip(pending, out_lines):
        syms, runs = line.split(" | ")
        syms = syms.split(";")
        cfgname = subject.cfg.name
        for i, (op, got, sym) in enumerate(zip(h, outs, syms)):
            want = expected(sym, fresh, after, op)
            if got == want:
                continue
            payload = {"config": cfgname, "history": h[:i + 1], "trace": trace, "op": op}
            # property oracle: the same accessor gave another value after another history
            if op == "getTimes":
                if got in (fresh[op], after[op]):
                    ctx.corr_break("%s: get_times after %s returned the %s times, model says %s" % (
                        cfgname, h[:i], "shifted" if got == after[op] else "unshifted", sym), payload)
                    coords_before = any(o in COORD_OPS for o in h[:i])
                    if (got == after[op]) != coords_before and fresh[op] != after[op]:
                        ctx.violation("%s: get_times returned the %s times although coordinates had %sbeen computed "
                                      "(history %s)" % (cfgname, "shifted" if got == after[op] else "unshifted",
                                                        "" if coords_before else "not ", h[:i + 1]), payload, cls="times-phase")
                else:
                    ctx.violation("%s: get_times after history %s returned times that are neither the recorded nor the "
                                  "once-shifted ones" % (cfgname, h[:i]), payload, cls="times-other")
            elif op == "readMeta":
                ctx.violation("%s: meta_data after history %s is %s, a fresh reader gives %s" % (cfgname, h[:i], got[1], want[1]),
                              payload, cls="meta-order")
            elif op == "dataset" and got[2:] == want[2:] and got[1] in (fresh["getTimes"][1], after["getTimes"][1]):
                ctx.branches["dataset-times-coordinate-shift(permitted)"] += 1
                ctx.corr_break("%s: dataset times coordinate after %s is the unshifted series, model says shifted" % (cfgname, h[:i]),
                               payload)
            else:
                ctx.violation("%s: %s after history %s differs from the value a fresh reader returns" % (cfgname, op, h[:i]),
                              payload, cls="order:%s" % op)


def run(ctx):
    rng = ctx.rng
    configs = acc.standard_configs(rng)
    subjects = [acc.Subject(ctx, c, rng) for c in configs]
    drv_lines, pending = [], []
    nhist = ctx.n(5, 25)
    maxlen = ctx.n(10, 40)
    for s in subjects:
        run_subject(ctx, s, subjects, nhist, maxlen, drv_lines, pending)
    ctx.sample({"configs": [c.name for c in configs], "example_history": pending[0][1], "trace": pending[0][3]})
    if not ctx.driver_ok:
        ctx.corr_break("lean driver unavailable: correspondence not run")
        return
    judge(ctx, pending, Driver(ctx).batch(drv_lines))


def replay(ctx, path):
    with open(path) as fh:
        body = json.load(fh)
    inp = body.get("input", {})
    if "config" not in inp:
        print("replay file carries no concrete history: %s" % (body.get("broken_theorems_or_obligations") or inp))
        return 1
    rng = random.Random(0)
    cfg = [c for c in acc.standard_configs(rng) if c.name == inp["config"]][0]
    s = acc.Subject(ctx, cfg, rng)
    if "history_a" in inp:
        ra, rb = s.reader(), s.reader()
        a = [acc.perform(ra, o) for o in inp["history_a"]][-1]
        b = [acc.perform(rb, o) for o in inp["history_b"]][-1]
        if a != b:
            print("REPRODUCED: %s after %s differs from after %s" % (inp["op"], inp["history_a"], inp["history_b"]))
            return 1
        print("not reproduced")
        return 0
    fresh, after = acc.references(s)
    r = s.reader()
    outs = [acc.perform(r, o) for o in inp["history"]]
    op = inp.get("op", inp["history"][-1])
    if op == "readMeta":
        want = ("meta", acc.meta_oracle(list(acc.perform(r, "getTimes")[1]), s.nums))
        bad = outs[-1] != want and outs[-1][1] is not None
    else:
        bad = outs[-1] not in (fresh[op], after[op])
    if bad:
        print("REPRODUCED: %s after %s" % (op, inp["history"][:-1]))
        return 1
    print("not reproduced")
    return 0
