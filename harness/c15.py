"""C15 — angles are in their documented ranges and agree with sun and scan geometry."""
import io
import json
import math
import warnings
from fractions import Fraction

import numpy as np

from . import filegen, timesgen
from .c09 import orbit_positions
from .common import Driver
from .filegen import FMT, ydm_to_ms

THEOREM_MODULES = ["PygacModel.Theorems.C15"]
RULE = ("(a) folding: utils.centered_modulus and get_absolute_azimuth_angle_diff on random and boundary values (multiples "
        "of 180 / 360, +-1e-9 around them, large magnitudes) vs the exact Lean model; (b) passes over the globe and the year "
        "(tie points of a TLE-propagated orbit; GAC / LAC, both families, interpolated and tie-point-only coordinates, TLE "
        "available / too old): shapes equal the coordinate shape, azimuth ranges (-180, 180], relative azimuth = folded "
        "|sun - sat| in [0, 180], flagged rows NaN in all five arrays, solar zenith / azimuth vs an independent closed-form "
        "solar position (Astronomical-Almanac low-precision formula, 0.1 deg), satellite zenith vs the scan geometry "
        "asin((R+h)/R sin(scan angle)) (0.5 deg with TLE, 1 deg for the approximate fallback), fallback on stale TLE still "
        "returns angles. A case = one folding batch or one pass; distinct by (format, start time, options)")
TRUSTED_EXTRA = ["ephemeris accuracy (pyorbital.astronomy) and SGP4 are numerical support against an independent formula, not theorems",
                 "'TLE absent' is read as the documented NoTLEData condition; an unconfigured tle_dir raises the code's deliberate RuntimeError"]


def sun_pos(t_ms, lon, lat):
    """Astronomical Almanac low-precision solar position -> (zenith deg, azimuth deg clockwise from north)"""
    jd = t_ms / 86400000.0 + 2440587.5
    n = jd - 2451545.0
    L = (280.460 + 0.9856474 * n) % 360
    g = math.radians((357.528 + 0.9856003 * n) % 360)
    lam = math.radians(L + 1.915 * math.sin(g) + 0.020 * math.sin(2 * g))
    eps = math.radians(23.439 - 0.0000004 * n)
    ra = math.atan2(math.cos(eps) * math.sin(lam), math.cos(lam))
    dec = math.asin(math.sin(eps) * math.sin(lam))
    gmst = (18.697374558 + 24.06570982441908 * n) % 24
    ha = math.radians((gmst * 15 + lon) % 360) - ra
    phi = math.radians(lat)
    cosz = math.sin(phi) * math.sin(dec) + math.cos(phi) * math.cos(dec) * math.cos(ha)
    z = math.degrees(math.acos(max(-1.0, min(1.0, cosz))))
    az = math.degrees(math.atan2(-math.sin(ha) * math.cos(dec),
                                 math.cos(phi) * math.sin(dec) - math.sin(phi) * math.cos(dec) * math.cos(ha)))
    return z, az


def circ(a, b):
    d = (a - b + 180.0) % 360.0 - 180.0
    return abs(d)


def fold_cases(ctx):
    from pygac.utils import centered_modulus, get_absolute_azimuth_angle_diff
    rng = ctx.rng
    xs = [0.0, 180.0, -180.0, 360.0, -360.0, 540.0, 179.999999999, 180.000000001, -179.999999999, -180.000000001,
          720.0, 1e6 + 0.5, -1e6 - 0.25, 90.0, 270.0, -90.0, 359.9999, 1e-9]
    xs += [rng.uniform(-1000, 1000) for _ in range(ctx.n(300, 3000))]
    got = centered_modulus(np.array(xs, dtype=float), 360.0)
    for x, g in zip(xs, got):
        if not (-180.0 < g <= 180.0) or circ(g, x) > 1e-9 * max(1.0, abs(x)):
            ctx.violation("centered_modulus(%r) = %r: not in (-180, 180] or not congruent" % (x, g), {"x": x, "stream": "fold"},
                          cls="fold-range")
        ctx.case(("cm", x), branch="fold/centered")
    sa = [rng.uniform(-400, 400) for _ in range(len(xs))]
    su = [rng.uniform(-400, 400) for _ in range(len(xs))]
    sa[:6] = [170.0, 10.0, 0.0, -170.0, 359.0, 180.0]
    su[:6] = [-170.0, 350.0, 180.0, 170.0, -1.0, -180.0]
    rel = get_absolute_azimuth_angle_diff(np.array(sa), np.array(su))
    for a, b, g in zip(sa, su, rel):
        d = abs(a - b) % 360.0
        want = 360.0 - d if d > 180.0 else d
        if not (0.0 <= g <= 180.0) or abs(g - want) > 1e-9:
            ctx.violation("relative azimuth of %r and %r is %r, folded difference %r" % (a, b, g, want),
                          {"sat": a, "sun": b, "stream": "fold"}, cls="fold-reldiff")
        ctx.case(("az", a, b), branch="fold/reldiff")
    if ctx.driver_ok:
        fr = lambda v: "%d/%d" % (Fraction(v).numerator, Fraction(v).denominator)
        out = Driver(ctx).batch(["c15 cm " + ",".join(fr(x) for x in xs),
                                 "c15 az %s %s" % (",".join(fr(x) for x in sa), ",".join(fr(x) for x in su))])
        m1 = [float(Fraction(v)) for v in out[0].split(",")]
        m2 = [float(Fraction(v)) for v in out[1].split(",")]
        for x, g, m in zip(xs, got, m1):
            # near the branch point float and exact arithmetic may land on either side: compare on the circle
            if circ(g, m) > 1e-9 * max(1.0, abs(x)):
                ctx.corr_break("centered_modulus(%r): model %r, implementation %r" % (x, m, g))
        for a, b, g, m in zip(sa, su, rel, m2):
            if abs(g - m) > 1e-9:
                ctx.corr_break("relative azimuth(%r, %r): model %r, implementation %r" % (a, b, m, g))


_special = {}


def special_times(base_ms):
    """times (ms) at which the NOAA-14 nadir track crosses the antimeridian / comes closest to a pole, found on the
    orbit itself (10 s grid over 3.5 h, refined to 0.5 s)"""
    if base_ms in _special:
        return _special[base_ms]
    grid = base_ms + np.arange(0, 12600000, 10000)
    lon, lat = orbit_positions(grid * 1000, [1023.5], 0.5)
    lon, lat = lon[:, 0], lat[:, 0]
    out = {"antimeridian": [], "pole": []}
    for i in range(len(grid) - 1):
        if abs(lon[i + 1] - lon[i]) > 180:
            fine = grid[i] + np.arange(0, 10000, 500)
            flon, _ = orbit_positions(fine * 1000, [1023.5], 0.5)
            j = int(np.argmax(np.abs(np.diff(flon[:, 0])) > 180))
            out["antimeridian"].append(int(fine[j]))
        if 0 < i and abs(lat[i]) > abs(lat[i - 1]) and abs(lat[i]) >= abs(lat[i + 1]) and abs(lat[i]) > 80:
            out["pole"].append(int(grid[i]))
    _special[base_ms] = out
    return out


def pass_case(ctx, rng, k):
    # the 48 combinations of format x coordinates x TLE x place on the orbit are enumerated, not drawn
    import itertools
    combos = list(itertools.product(["podGac", "klmGac", "podLac", "klmLac"], [True, False], ["ok", "stale"],
                                    ["anywhere", "antimeridian", "pole"]))
    fmt, interp, tle, where = combos[k % len(combos)]
    fam, res = FMT[fmt]["family"], FMT[fmt]["res"]
    num, den = timesgen.period(fmt)
    n = 10 if res == "lac" else rng.choice([12, 30])
    tie_pos = 23.5 + 40.0 * np.arange(51) if res == "gac" else 24.0 + 40.0 * np.arange(51)
    # the orbit is NOAA-14's (element set of 2000-322); 'stale' moves the pass 30 days away from the element set
    start = ydm_to_ms(2000, 322, rng.randint(0, 86000000)) + (30 * 86400000 if tle == "stale" else 0)
    if where != "anywhere":
        # put the middle of the pass on the antimeridian crossing of the nadir track / on the highest latitude
        base = ydm_to_ms(2000, 322, 0) + (30 * 86400000 if tle == "stale" else 0)
        cands = special_times(base)[where]
        if cands:
            start = rng.choice(cands) - (n // 2) * num // den + rng.choice([0, num // den, -(num // den)])
    nums = list(range(1, n + 1))
    t_us = (start + timesgen.ideal_offsets(fmt, nums)) * 1000
    tlon, tlat = orbit_positions(t_us, tie_pos, num / den / 1000.0)
    tp = timesgen.TimePass(fmt, nums, start)
    b = tp.build(ctx, rng)
    b.lons, b.lats = tlon, tlat
    if fam == "klm":
        b.sat_id = 2
    flagged = np.zeros(n, dtype=bool)
    if rng.random() < 0.5:
        flagged[rng.randrange(n)] = True
        b.quality[flagged] = 1 << 31
    data = b.tobytes()
    tdir = filegen.tle_dir(ctx)
    if fam == "klm":
        # give the KLM reader the same orbit: NOAA-14 elements under the name of its spacecraft
        import os
        p = os.path.join(ctx.scratch, "tle15")
        os.makedirs(p, exist_ok=True)
        with open(os.path.join(p, "TLE_noaa16.txt"), "w") as fh:
            fh.write(filegen.NOAA14_TLE)
        tdir = p
    if tle == "ok" and k % 3 == 1:
        # an element-set archive assembled from overlapping downloads: OLDER sets (20 days before the pass) occur three times
        # each in front of the current ones - the nearest set is still the one to use
        import os
        p2 = os.path.join(ctx.scratch, "tle15dup")
        if not os.path.isdir(p2):
            os.makedirs(p2)
            old_sets = filegen.retimed_tle(filegen.NOAA14_TLE, ["00300.04713399", "00302.96799836"]).splitlines(keepends=True)
            text = "".join((old_sets[0] + old_sets[1]) * 3 + (old_sets[2] + old_sets[3]) * 3) + filegen.NOAA14_TLE
            for nm in ("TLE_noaa14.txt", "TLE_noaa16.txt"):
                with open(os.path.join(p2, nm), "w") as fh:
                    fh.write(text)
        tdir = p2
        ctx.branches["tle-archive-with-duplicates"] += 1
    # on every other POD pass without usable TLE the clock-drift correction runs first: it is the first to ask for the
    # element set (and is skipped), the angle computation asks again
    drift_first = tle == "stale" and fam == "pod" and (k // len(combos)) % 2 == 0
    # the age limit is a number of days, whole or not (7, 7.0, 2.5 ...): the fallback must be taken for every spelling
    thresh = [7, 7.0, 2.5, 7.5][k % 4]
    r = filegen.reader_class(fmt)(tle_dir=tdir, tle_name="TLE_%(satname)s.txt", interpolate_coords=interp,
                                  adjust_clock_drift=drift_first, tle_thresh=thresh)
    r.read(b.dsname, fileobj=io.BytesIO(data))
    payload = {"fmt": fmt, "start": start, "n": n, "interp": interp, "tle": tle, "flagged": flagged.tolist(), "stream": "pass",
               "tle_thresh": thresh}
    try:
        with warnings.catch_warnings():
            warnings.simplefilter("ignore")
            lons, lats = r.get_lonlat()
            sat_azi, sat_zen, sun_azi, sun_zen, rel_azi = r.get_angles()
            again = r.get_angles()
    except Exception as e:
        ctx.violation("%s (TLE %s, interpolation %s): get_angles raised %r" % (fmt, tle, interp, e), payload, cls="angles-raise:" + type(e).__name__)
        return
    arrs = {"sat_azi": sat_azi, "sat_zenith": sat_zen, "sun_azi": sun_azi, "sun_zenith": sun_zen, "rel_azi": rel_azi}
    for (name, a), a2 in zip(arrs.items(), again):
        if not np.array_equal(np.asarray(a), np.asarray(a2), equal_nan=True):
            ctx.violation("%s (TLE %s): %s differs between the first and the second get_angles() on the same reader (max %.3f deg)" % (
                fmt, tle, name, float(np.nanmax(np.abs(np.asarray(a, dtype=float) - np.asarray(a2, dtype=float))))), payload,
                cls="angles-repeat:%s" % tle)
            break
    shape = np.asarray(lons).shape
    for name, a in list(arrs.items()):
        if np.asarray(a).shape != shape:
            ctx.violation("%s: %s has shape %s, coordinates %s" % (fmt, name, np.asarray(a).shape, shape), payload, cls="angles-shape")
            return
        a_ = np.asarray(a, dtype=float)
        nan_un = np.isnan(a_[~flagged])
        if nan_un.any() and name in ("sat_azi", "sat_zenith", "rel_azi"):
            # pyorbital's observer look (an external kernel) yields NaN elevation for an observer almost exactly below the
            # satellite (arcsin argument rounding above 1): tolerate isolated NaNs within two columns of the nadir pixel
            mid = a_.shape[1] // 2
            cols_ = np.nonzero(nan_un.any(axis=0))[0]
            if nan_un.sum(axis=1).max() <= 2 and np.all(np.abs(cols_ - mid) <= 2):
                ctx.branches["external: NaN look angle at the nadir pixel (pyorbital)"] += int(nan_un.sum())
                a_ = a_.copy()
                a_[np.isnan(a_) & ~flagged[:, None]] = 0.0 if name != "sat_zenith" else 0.05
                arrs[name] = a_
                nan_un = np.isnan(a_[~flagged])
        if not np.all(np.isnan(a_[flagged])) or nan_un.any():
            ctx.violation("%s: %s is not NaN exactly on the flagged lines" % (fmt, name), payload, cls="angles-mask")
            return
    ok = ~flagged
    for name in ("sat_azi", "sun_azi"):
        a = np.asarray(arrs[name])[ok]
        if np.any(a <= -180.0) or np.any(a > 180.0):
            ctx.violation("%s: %s leaves (-180, 180]" % (fmt, name), payload, cls="angles-range")
    sat_azi, sat_zen, rel_azi = arrs["sat_azi"], arrs["sat_zenith"], arrs["rel_azi"]
    ra = np.asarray(rel_azi)[ok]
    d = np.abs(np.asarray(sun_azi)[ok] - np.asarray(sat_azi)[ok]) % 360.0
    want = np.where(d > 180.0, 360.0 - d, d)
    if np.any(ra < 0) or np.any(ra > 180.0) or np.nanmax(np.abs(ra - want)) > 1e-4:
        ctx.violation("%s: relative azimuth is not the folded |sun - sensor| difference (max deviation %.3g, range %.6f..%.6f)" % (
            fmt, float(np.nanmax(np.abs(ra - want))), float(np.nanmin(ra)), float(np.nanmax(ra))), payload, cls="angles-reldiff")
    # sun position at each pixel's time and location
    times = np.asarray(r.get_times()).astype("datetime64[ms]").astype(np.int64)
    L, B = np.asarray(lons), np.asarray(lats)
    cols = sorted(set([0, shape[1] // 2, shape[1] - 1] + [rng.randrange(shape[1]) for _ in range(3)]))
    worst_z, worst_a = 0.0, 0.0
    for i in np.nonzero(ok)[0][:8]:
        for j in cols:
            z, az = sun_pos(int(times[i]), float(L[i, j]), float(B[i, j]))
            worst_z = max(worst_z, abs(z - float(np.asarray(sun_zen)[i, j])))
            if 1.0 < z < 179.0:
                worst_a = max(worst_a, circ(az, float(np.asarray(sun_azi)[i, j])))
    ctx.extra["sun_max_dev_deg"] = max(ctx.extra.get("sun_max_dev_deg", 0.0), round(max(worst_z, worst_a), 4))
    if worst_z > 0.1 or worst_a > 0.1:
        ctx.violation("%s: solar zenith / azimuth deviate %.3f / %.3f deg from the sun's position at the pixel's time and location" % (
            fmt, worst_z, worst_a), payload, cls="angles-sun")
    # satellite zenith vs scan geometry
    pos = (np.arange(3.5, 2048, 5) if res == "gac" else np.arange(2048, dtype=float)) if interp else tie_pos
    theta = np.deg2rad(np.abs(pos / 1023.5 - 1.0) * 55.37)
    h, R = 850.0, 6371.0
    geo = np.rad2deg(np.arcsin(np.clip((R + h) / R * np.sin(theta), -1, 1)))
    sz = np.asarray(sat_zen)[ok]
    dev = float(np.nanmax(np.abs(sz - geo[None, :])))
    lim = 1.2 if tle == "ok" else 2.0      # the 850 km / spherical-earth geometry itself is good to about 1 deg at the edge
    ctx.extra.setdefault("sat_zenith_max_dev_deg", {})[tle] = max(ctx.extra.get("sat_zenith_max_dev_deg", {}).get(tle, 0.0), round(dev, 3))
    nadir = int(np.argmin(theta))
    if float(np.nanmax(sz[:, nadir])) > (0.5 if tle == "ok" else 1.0) or dev > lim or float(np.nanmin(sz[:, [0, -1]])) < 66.0:
        ctx.violation("%s (TLE %s, %s coordinates): satellite zenith %.2f deg at nadir, %.2f..%.2f deg at the swath edges, "
                      "max deviation from the scan geometry %.2f deg" % (fmt, tle, "interpolated" if interp else "tie-point",
                                                                         float(np.nanmax(sz[:, nadir])), float(np.nanmin(sz[:, [0, -1]])),
                                                                         float(np.nanmax(sz[:, [0, -1]])), dev), payload,
                      cls="angles-satzen:%s" % tle)
    ctx.case((fmt, start, interp, tle), nontrivial=True, branch="pass/%s/%s/%s/%s" % (fmt, "interp" if interp else "ties", tle, where))


def long_pass_case(ctx, rng):
    """One LONG full-resolution pass (8193 lines, interpolated coordinates, no usable element set): the sun angles of sampled
    pixels of lines all along the pass - the very last ones included - agree with the sun's position at that time and place."""
    import io
    import warnings
    from . import timesgen
    fmt, n = "klmLac", 8193
    start = ydm_to_ms(2004, 100, 36000000)
    tp = timesgen.TimePass(fmt, list(range(1, n + 1)), start)
    b = tp.build(ctx, rng)
    ii, cc = np.arange(n, dtype=float)[:, None], np.arange(51, dtype=float)[None, :]
    b.lons = -100.0 + 0.004 * ii + 0.25 * cc
    b.lats = 50.0 * np.sin(ii / n * np.pi * 1.6) + 0.01 * cc
    data = b.tobytes()
    r = filegen.reader_class(fmt)(tle_dir=filegen.tle_dir(ctx), tle_name="TLE_%(satname)s.txt", interpolate_coords=True)
    r.read(b.dsname, fileobj=io.BytesIO(data))
    del data
    payload = {"fmt": fmt, "n": n, "stream": "long-pass"}
    try:
        with warnings.catch_warnings():
            warnings.simplefilter("ignore")
            sat_azi, sat_zen, sun_azi, sun_zen, rel_azi = [np.asarray(a) for a in r.get_angles()]
            L, B = [np.asarray(a) for a in r.get_lonlat()]
            times = np.asarray(r.get_times()).astype("datetime64[ms]").astype(np.int64)
    except Exception as e:      # noqa
        ctx.violation("%s, %d lines: get_angles raised %r" % (fmt, n, e), payload, cls="angles-raise-long:" + type(e).__name__)
        return
    if sun_zen.shape != (n, 2048):
        ctx.violation("%s, %d lines: angle arrays have shape %s" % (fmt, n, sun_zen.shape), payload, cls="angles-shape-long")
        return
    worst = 0.0
    for i in sorted(set([0, 1, 1023, 1024, 2047, 2048, 4095, 4096, 8190, 8191, 8192] + rng.sample(range(n), 8))):
        for j in (0, 700, 1024, 2047):
            z, az = sun_pos(int(times[i]), float(L[i, j]), float(B[i, j]))
            dz = abs(float(sun_zen[i, j]) - z)
            da = circ(float(sun_azi[i, j]), az) if 1.0 < z < 179.0 else 0.0
            worst = max(worst, dz, da if not math.isnan(da) else 9e9)
            if not (dz <= 0.1 and da <= 0.1):
                ctx.violation("%s pass of %d lines: sun angles of line index %d, pixel %d are (zenith %.3f, azimuth %.3f), the sun stands at "
                              "(%.3f, %.3f) there" % (fmt, n, i, j, sun_zen[i, j], sun_azi[i, j], z, az), payload, cls="sun-long")
                return
    ctx.case((fmt, "long", n), nontrivial=True, branch="long-pass")


def run(ctx):
    fold_cases(ctx)
    if ctx.thorough or getattr(ctx, "escalated", False):
        long_pass_case(ctx, ctx.rng)
    for k in range(ctx.n(48, 2400)):
        pass_case(ctx, ctx.rng, k)
    ctx.sample({"sun_max_dev_deg": ctx.extra.get("sun_max_dev_deg"), "sat_zenith_max_dev_deg": ctx.extra.get("sat_zenith_max_dev_deg")})


def replay(ctx, path):
    with open(path) as fh:
        body = json.load(fh)
    print("replay: re-running the check (%s)" % (body.get("input", {}).get("stream")))
    run(ctx)
    if ctx.input_violations:
        print("REPRODUCED: " + ctx.input_violations[0]["what"])
        return 1
    print("not reproduced")
    return 0


RULE = RULE + (" In the thorough tier, and in the quick tier whenever the source differs from the validated baseline, a LONG-PASS stream is added (passes of 1300 .. 12000 lines, just beyond multiples of 256 .. 8192, with the property-relevant event placed at and after such multiples; DESIGN 10.4 round 13).")
