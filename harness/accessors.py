"""Shared machinery for the history checks (C09, C12, C18): reader configurations, the public
accessors as operations with canonical digests, fresh-reader references, independent metadata oracle."""
import hashlib
import io
import math
import os

import numpy as np

from . import filegen, timesgen
from .filegen import FMT, ydm_to_ms

OPS = ["getTimes", "getLonLat", "getMask", "getQualFlags", "getCounts", "getTelemetry", "dataset", "calibrated",
       "angles", "readMeta", "save", "saveFrom2"]
COORD_OPS = {"getLonLat", "dataset", "calibrated", "angles", "save", "saveFrom2"}


def model_op(op):
    """name of the operation in the Lean state machine (save with any start line is `save`)"""
    return "save" if op.startswith("save") else op


def dig(*arrays):
    h = hashlib.sha1()
    for a in arrays:
        a = np.ascontiguousarray(np.asarray(a))
        if a.dtype.kind == "f":
            a = np.where(np.isnan(a), np.float64("nan"), a.astype(np.float64))
            a = a + 0.0      # -0.0 -> 0.0 is not needed for identity of computations; keep bits otherwise
        elif a.dtype.kind == "M":
            a = a.astype("datetime64[ms]").astype(np.int64)
        h.update(str(a.shape).encode())
        h.update(str(a.dtype).encode())
        h.update(a.tobytes())
    return h.hexdigest()[:16]


def times_ms(t):
    return tuple(int(x) for x in np.asarray(t).astype("datetime64[ms]").astype(np.int64))


def meta_view(md):
    """(midnight line | None, missing lines tuple, distance factor rounded) of a metadata mapping"""
    if "midnight_scanline" not in md and "missing_scanlines" not in md:
        return None
    mid = md.get("midnight_scanline")
    return (None if mid is None else int(mid), tuple(int(x) for x in np.asarray(md.get("missing_scanlines", []))),
            round(float(md.get("sun_earth_distance_correction_factor", float("nan"))), 12))


def meta_oracle(times, nums):
    """The property's own statement of the three quantities, from the returned times and the line numbers."""
    days = [t // 86400000 for t in times]
    steps = [i for i in range(len(days) - 1) if days[i + 1] - days[i] == 1]
    mid = steps[0] if len(steps) == 1 else None
    last = int(nums[-1])
    present = set(int(x) for x in nums)
    missing = tuple(m for m in range(1, last + 1) if m not in present)
    y, doy, _ = filegen.ms_to_ydm(times[0])
    corr = 1.0 - 0.0334 * math.cos(2.0 * math.pi * (doy - 2) / 365.25)
    return (mid, missing, round(corr, 12))


class Config:
    def __init__(self, name, fmt, start, n, kw=None, sat_id=None, nums=None, cfg=(0, 0, 0, 0), scene=None):
        self.name, self.fmt, self.start, self.n = name, fmt, start, n
        self.scene = scene
        self.kw = kw or {}
        self.sat_id = sat_id
        self.nums = nums
        self.cfg = cfg          # (pod, driftEnabled, hasTable, tleOk) for the model

    def applies(self):
        return all(self.cfg)


def standard_configs(rng):
    d322 = ydm_to_ms(2000, 322, 3600000)
    cs = [
        Config("podGac-drift", "podGac", d322 + rng.randint(0, 3600000), 40, cfg=(1, 1, 1, 1)),
        # first line within the clock error (0.7 s) after UTC midnight: the shift moves it to the day before
        Config("podGac-drift-midnight", "podGac", ydm_to_ms(2000, 322, rng.choice([100, 300, 600])), 40, cfg=(1, 1, 1, 1)),
        Config("podGac-drift-gaps", "podGac", ydm_to_ms(2000, 321, 86400000 - rng.randint(2000, 9000)), 40,
               nums=[3, 4, 5, 9, 10] + list(range(14, 49)), cfg=(1, 1, 1, 1)),
        Config("podGac-stale-tle", "podGac", ydm_to_ms(2000, 300, 7200000), 30, cfg=(1, 1, 1, 0)),
        Config("podGac-disabled", "podGac", d322, 30, kw=dict(adjust_clock_drift=False), cfg=(1, 0, 1, 1)),
        Config("podGac-no-table", "podGac", d322, 30, sat_id=8, cfg=(1, 1, 0, 1)),
        Config("podLac-drift", "podLac", d322 + 5000000, 12, cfg=(1, 1, 1, 1)),
        # a full-resolution POD pass ending at the largest line number of the signed 16-bit field
        Config("podLac-drift-top", "podLac", d322 + 7000000, 12, nums=list(range(32756, 32768)), cfg=(1, 1, 1, 1)),
        Config("klmGac", "klmGac", ydm_to_ms(2002, 187, 68700000), 40, cfg=(0, 1, 0, 1)),
        Config("klmGac-midnight-tiepoints", "klmGac", ydm_to_ms(2002, 186, 86400000 - 7300), 30,
               kw=dict(interpolate_coords=False), cfg=(0, 1, 0, 1)),
        Config("klmLac", "klmLac", ydm_to_ms(2002, 187, 10000000), 10, cfg=(0, 1, 0, 1)),
        # a NOAA-14 pass whose last line lies 300 ms AFTER the end of a listed scan-motor interval (2001-10-19 13:38:00): the
        # recorded times leave the interval, the drift-corrected ones (clock error 0.7 s) do not; noisy pixels are planted, so
        # the calibrated channels depend on which of the two series the interval test saw
        Config("podGac-drift-tsm-end", "podGac", ydm_to_ms(2001, 292, 13 * 3600000 + 38 * 60000 + 300) - 39 * 500, 40,
               kw=dict(tle_name="TLE2001_%(satname)s.txt"), cfg=(1, 1, 1, 1), scene="tsm"),
        # ... and one whose first line lies 300 ms after the START of one (16:58:00): recorded inside, corrected outside
        Config("podGac-drift-tsm-start", "podGac", ydm_to_ms(2001, 292, 16 * 3600000 + 58 * 60000 + 300), 40,
               kw=dict(tle_name="TLE2001_%(satname)s.txt"), cfg=(1, 1, 1, 1), scene="tsm"),
        # no element set within the limit: every angle request takes the approximate fallback, the first and the later ones
        Config("klmGac-stale-tle", "klmGac", ydm_to_ms(2000, 250, 30000000), 30, cfg=(0, 1, 0, 0)),
        # a pass calibrated with a USER coefficient file (every slope changed) that has no entry for MetOp-C (a file derived
        # from a release older than that launch): other work may ask that file for the spacecraft it lacks in between
        Config("klmGac-userfile", "klmGac", ydm_to_ms(2002, 187, 50000000), 30, cfg=(0, 1, 0, 1)),
    ]
    return cs


class Subject:
    """One synthetic file + factory of real readers on it."""

    def __init__(self, ctx, cfg, rng):
        self.ctx, self.cfg = ctx, cfg
        nums = cfg.nums or list(range(1, cfg.n + 1))
        tp = timesgen.TimePass(cfg.fmt, nums, cfg.start)
        b = tp.build(ctx, rng)
        if cfg.sat_id is not None:
            b.sat_id = cfg.sat_id
        # telemetry drop-outs that the calibration repairs internally (a thermometer reading below 50 counts, internal
        # target / space counts below 100): the repaired values must never show up in what the accessors return
        if len(nums) >= 20:
            thermo = [i for i, x in enumerate(nums) if x % 5 != 0]
            b.prt[rng.choice(thermo), :] = 10
            b.ict[rng.randrange(len(nums)), 0] = 20
            b.space[rng.randrange(len(nums)), 0] = 30
        # two interior lines flagged as unusable (fatal bit): their rows are blank in every product, whatever was asked before -
        # and the coordinates the reader keeps for later requests stay blank there, too
        if len(nums) >= 20:
            for i in rng.sample(range(3, len(nums) - 3), 2):
                b.quality[i] = 1 << 31
        if cfg.scene == "tsm":
            # a smooth scene with noise planted in a few places, so that the scan-motor filter selects some pixels
            w = filegen.FMT[cfg.fmt]["width"]
            smp = np.zeros((len(nums), w, 5), dtype=np.int64)
            for c, base in enumerate((300, 320, 500, 480, 470)):
                smp[:, :, c] = base + (np.arange(w)[None, :] // 40) + b.nprng.integers(0, 2, size=(len(nums), w))
            for _ in range(8):
                i, j = rng.randrange(len(nums)), rng.randrange(w)
                smp[i, j, 0] += 300
                smp[i, j, 3] += 400
            b.samples = smp.reshape(len(nums), w * 5).astype(np.uint32)
        self.userfile = None
        if cfg.name.endswith("-userfile"):
            import json
            from importlib.resources import files
            self.userfile = os.path.join(ctx.scratch, "user_coeffs_partial.json")
            if not os.path.exists(self.userfile):
                with open(files("pygac") / "data/calibration.json") as fh:
                    table = json.load(fh)
                table.pop("metopc", None)
                for ent in table.values():
                    if isinstance(ent, dict):
                        for c_ in ("channel_1", "channel_2", "channel_3a"):
                            if c_ in ent and isinstance(ent[c_].get("s0"), (int, float)):
                                ent[c_]["s0"] = round(ent[c_]["s0"] * 1.5 + 0.01, 6)
                with open(self.userfile, "w") as fh:
                    json.dump(table, fh)
            cfg.kw = dict(cfg.kw, calibration_parameters=dict(coeffs_file=self.userfile))
        # smooth tie points along a plausible track so that interpolation and slerp are well conditioned
        self.builder = b
        self.data = b.tobytes()
        self.name = b.dsname
        self.nums = nums
        self.tle_dir = filegen.tle_dir(ctx)
        p = os.path.join(self.tle_dir, "TLE2001_noaa14.txt")
        if not os.path.exists(p):
            with open(p, "w") as fh:
                fh.write(filegen.retimed_tle(filegen.NOAA14_TLE, ["01291.54713399", "01292.46799836"]))
        for extra in ("noaa10",):
            p = os.path.join(self.tle_dir, "TLE_%s.txt" % extra)
            if not os.path.exists(p):
                with open(p, "w") as fh:
                    fh.write(filegen.NOAA14_TLE)

    def reader(self, buffer=None, **kw):
        cls = filegen.reader_class(self.cfg.fmt)
        k = dict(tle_dir=self.tle_dir, tle_name="TLE_%(satname)s.txt")
        k.update(self.cfg.kw)
        k.update(kw)
        r = cls(**k)
        r.read(self.name, fileobj=buffer if buffer is not None else io.BytesIO(self.data))
        return r


def perform(r, op):
    """Run one accessor on a real reader; returns a canonical, comparable value."""
    if op == "getTimes":
        t = times_ms(r.get_times())
        # the `times` property (the same instants as datetime objects) is read as well, every time: it must follow get_times()
        tp = times_ms(np.array(r.times, dtype="datetime64[ms]"))
        if tp != t:
            return ("times", tp, "reader.times differs from get_times()")
        return ("times", t)
    if op == "getLonLat":
        lon, lat = r.get_lonlat()
        return ("lonlat", dig(lon, lat), np.asarray(lon).shape)
    if op == "getMask":
        return ("mask", dig(np.asarray(r.mask)))
    if op == "getQualFlags":
        return ("qual", dig(r.get_qual_flags()))
    if op == "getCounts":
        return ("counts", dig(r.get_counts()))
    if op == "getTelemetry":
        return ("tele", dig(*r.get_telemetry()))
    if op == "dataset":
        ds = r.create_counts_dataset()
        return ("dataset", times_ms(ds["times"].values), dig(ds["longitude"].values, ds["latitude"].values),
                dig(ds["channels"].values, ds["prt_counts"].values, ds["ict_counts"].values, ds["space_counts"].values),
                meta_view(ds.attrs))
    if op == "calibrated":
        return ("calibrated", dig(r.get_calibrated_channels()))
    if op == "angles":
        return ("angles", dig(*r.get_angles()))
    if op == "readMeta":
        return ("meta", meta_view(r.meta_data))
    if op.startswith("save"):
        start_line = int(op[8:]) if op != "save" else 0
        # legacy HDF5 output of the pass from `start_line`; the value is the content of the three files
        import glob
        import shutil
        import tempfile
        import warnings
        import h5py
        out = tempfile.mkdtemp(prefix="save", dir=os.path.join(os.path.dirname(os.path.dirname(os.path.abspath(__file__))), ".scratch"))
        try:
            with warnings.catch_warnings():
                warnings.simplefilter("ignore")
                r.save(start_line, 0, output_file_prefix="V", output_dir=out)
            parts = []
            for kind in ("avhrr", "sunsatangles", "qualflags"):
                with h5py.File(glob.glob(os.path.join(out, "V_%s_*.h5" % kind))[0], "r") as f:
                    names = []
                    f.visit(lambda n: names.append(n) if isinstance(f[n], h5py.Dataset) else None)
                    parts.append(dig(*[f[n][...] for n in sorted(names) if f[n].dtype.kind in "iuf"]))
                    if kind == "qualflags":
                        mid = f["/ancillary"].attrs["midnight_scanline"]
                        parts.append(mid.decode() if isinstance(mid, bytes) else str(mid))
            return ("saved", tuple(parts))
        finally:
            shutil.rmtree(out, ignore_errors=True)
    raise ValueError(op)


def references(subject):
    """op -> value on a fresh reader (only that accessor), and after get_lonlat() on a fresh reader."""
    fresh, after = {}, {}
    for op in OPS:
        fresh[op] = perform(subject.reader(), op)
        r = subject.reader()
        r.get_lonlat()
        after[op] = perform(r, op)
    return fresh, after
