"""C20 — legacy HDF5 output holds the selected rows of every product, consistently."""
import glob
import io
import json
import os
import shutil
import warnings

import numpy as np

from . import filegen, timesgen
from .common import Driver
from .filegen import FMT, ydm_to_ms

THEOREM_MODULES = ["PygacModel.Theorems.C20"]
RULE = ("(a) gac_io.save_gac called with row- and product-tagged arrays (15 products + quality summary + times): passes of "
        "6..60 lines with 0..4 leading / trailing lines without coordinates, (start, end) over {0, 1, middle, last, last+1, "
        "beyond} x {0, equal, last, last+1, beyond}; the three written files are read back with h5py and every dataset and "
        "the start/end time, missing-line and midnight-line attributes are compared with the property's statement (rows "
        "first_valid+start .. first_valid+end', value*100 truncated, fills) and with the Lean model; ValueError expected "
        "for a start at or beyond the number of valid lines; (b) Reader.save() on synthetic KLM / POD files with flagged "
        "leading / trailing lines: file contents vs the reader's own accessors. Reversed requests (end < start, end != 0) "
        "are explored and reported without a verdict. A case = one save call; distinct by (n, strip pattern, start, end)")
TRUSTED_EXTRA = ["h5py's float -> integer conversion is assumed to be C truncation (values are generated away from integer "
                 "boundaries so that float rounding cannot decide the result)"]

PRODUCTS = ["ref1", "ref2", "ref3", "bt3", "bt4", "bt5", "sun_zen", "sat_zen", "sun_azi", "sat_azi", "rel_azi"]
AVHRR_DS = {"image1": "ref1", "image2": "ref2", "image3": "bt3", "image4": "bt4", "image5": "bt5", "image6": "ref3"}
ANGLE_DS = {"image1": "sun_zen", "image2": "sat_zen", "image3": "rel_azi", "image4": "sun_azi", "image5": "sat_azi"}


def tagged(n, m, k, kelvin=False):
    """row r, product k, column c -> r + 0.01 k + 0.005 (+273.15): stored integer 100 r + k"""
    a = (np.arange(n) % 300).astype(float)[:, None] + 0.01 * k + 0.005 + np.zeros((1, m))      # (the files hold 16-bit integers)
    return a + 273.15 if kelvin else a


def run_save(ctx, n, lead, trail, start, end, midnight, rng, nan_pixels=True, interior=()):
    from pygac import gac_io
    m = 5
    prods = {p: tagged(n, m, k + 1, kelvin=p.startswith("bt")) for k, p in enumerate(PRODUCTS)}
    # azimuths are signed, temperatures below freezing are negative in degrees Celsius: truncation is toward zero
    prods["sun_azi"] = -prods["sun_azi"]
    prods["sat_azi"][::2] = -prods["sat_azi"][::2]
    prods["bt4"] = prods["bt4"] - 2.0 * (np.arange(n) % 150)[:, None]
    lats = np.arange(n, dtype=float)[:, None] * 0.1 + 0.0005 + np.zeros((1, m)) - 5.0
    lons = np.arange(n, dtype=float)[:, None] * 0.2 + 0.0005 + np.zeros((1, m)) - 7.0
    lats[:lead] = np.nan
    lons[:lead] = np.nan
    if trail:
        lats[n - trail:] = np.nan
        lons[n - trail:] = np.nan
    for a_, b_ in interior:       # lines WITHOUT coordinates inside the pass: they stay rows of the files (filled), nothing is cut there
        lats[a_:b_] = np.nan
        lons[a_:b_] = np.nan
    nanpos = []
    if nan_pixels:
        for _ in range(3):
            p, r_, c = rng.choice(PRODUCTS), rng.randrange(n), rng.randrange(m)
            prods[p][r_, c] = np.nan
            nanpos.append((p, r_, c))
    line_numbers = np.arange(1, n + 1) + 2          # lines 1, 2 missing at the start
    # numbering jitter below the sanitiser's threshold also occurs on the lines that are stripped: their RECORDED numbers
    # join the missing list
    if rng.random() < 0.5:
        if lead:
            line_numbers[rng.randrange(lead)] += rng.choice([5, 9, 40])
        if trail:
            line_numbers[n - 1 - rng.randrange(trail)] += rng.choice([2, 7])
        if not lead and not trail and n > 4:
            i = rng.randrange(1, n - 2)
            line_numbers[i], line_numbers[i + 1] = line_numbers[i + 1], line_numbers[i]
    qual = np.zeros((n, 7))
    qual[:, 0] = line_numbers
    qual[:, 1:] = (np.arange(n)[:, None] + np.arange(6)[None, :]) % 2
    # the day of the pass is a fixed function of the case (so that a replay rebuilds it): mid-year, and the turns of years at
    # which the ISO week-numbering year differs from the calendar year (1 Jan 2010 is a Friday, 31 Dec 2012 a Monday)
    y_, d_ = [(2002, 187), (2009, 365), (2012, 366), (2010, 1), (2016, 2), (2002, 187)][(n + 3 * lead + 5 * trail + 7 * start + (midnight or 0)) % 6]
    t0 = ydm_to_ms(y_, d_, 86400000 - 500 * (midnight + 1)) if midnight is not None else ydm_to_ms(y_, d_, 3600000)
    xutcs = (t0 + 500 * np.arange(n)).astype("datetime64[ms]")
    meta = {"midnight_scanline": None if midnight is None else np.int64(midnight), "missing_scanlines": np.array([1, 2]),
            "sun_earth_distance_correction_factor": 0.98}
    out = os.path.join(ctx.scratch, "h5out")
    shutil.rmtree(out, ignore_errors=True)
    os.makedirs(out)
    args = dict(n=n, lead=lead, trail=trail, start=start, end=end, midnight=midnight, interior=[list(x) for x in interior])
    try:
        with warnings.catch_warnings():
            warnings.simplefilter("ignore")
            gac_io.save_gac("noaa16", xutcs.copy(), lats.copy(), lons.copy(),
                            prods["ref1"].copy(), prods["ref2"].copy(), prods["ref3"].copy(),
                            prods["bt3"].copy(), prods["bt4"].copy(), prods["bt5"].copy(),
                            prods["sun_zen"].copy(), prods["sat_zen"].copy(), prods["sun_azi"].copy(),
                            prods["sat_azi"].copy(), prods["rel_azi"].copy(),
                            qual.copy(), start, end, "NSS.GHRR.NL.D02187.S1904.E2058.B0921517.GC", meta,
                            "VERIF", out, out, out)
    except ValueError as e:
        return ("valueerror", str(e)), args, None
    except Exception as e:
        return ("exception:" + type(e).__name__, repr(e)), args, None
    import h5py
    files = {}
    for kind in ("avhrr", "sunsatangles", "qualflags"):
        fs = glob.glob(os.path.join(out, "VERIF_%s_*.h5" % kind))
        if len(fs) != 1:
            return ("missing-file:" + kind, ""), args, None
        files[kind] = h5py.File(fs[0], "r")
    return ("ok", ""), args, dict(files=files, prods=prods, lats=lats, lons=lons, qual=qual, xutcs=xutcs,
                                  line_numbers=line_numbers, nanpos=nanpos, t0=t0)


def expected_rows(n, lead, trail, start, end):
    """the property's statement"""
    first, last = lead, n - trail - 1
    num = last - first + 1
    if start >= num:
        return None
    e = num - 1 if (end == 0 or end >= num) else end
    return list(range(first + start, first + e + 1))


def check_files(ctx, status, args, got, payload):
    n, lead, trail, start, end, midnight = (args[k] for k in ("n", "lead", "trail", "start", "end", "midnight"))
    rows = expected_rows(n, lead, trail, start, end)
    reversed_req = end != 0 and rows is not None and len(rows) == 0
    if reversed_req or (end != 0 and end < start):
        ctx.branches["reversed-request(no verdict):%s" % status[0]] += 1
        return
    if rows is None:
        if status[0] != "valueerror":
            ctx.violation("%d lines (%d leading, %d trailing without coordinates): start line %d is beyond the %d valid lines "
                          "but save_gac %s instead of raising ValueError" % (n, lead, trail, start, n - lead - trail,
                                                                             "wrote files" if status[0] == "ok" else status[0]),
                          payload, cls="start-beyond-not-rejected")
        return
    if status[0] != "ok":
        ctx.violation("save_gac(start=%d, end=%d) on %d lines failed: %s %s" % (start, end, n, status[0], status[1]), payload,
                      cls="save-fails:" + status[0])
        return
    f = got["files"]
    R = np.array(rows)

    def want_int(arr, scale, offset, fill):
        v = (arr[R] - offset) * scale
        return np.where(np.isnan(v), fill, np.trunc(v)).astype(np.int64)

    bad = []
    for ds, p in AVHRR_DS.items():
        w = want_int(got["prods"][p], 100.0, 273.15 if p.startswith("bt") else 0.0, -32001)
        g = f["avhrr"]["/%s/data" % ds][...].astype(np.int64)
        if g.shape != w.shape or not np.array_equal(g, w):
            bad.append("avhrr/%s (%s)" % (ds, p))
    for ds, p in ANGLE_DS.items():
        w = want_int(got["prods"][p], 100.0, 0.0, -32001)
        g = f["sunsatangles"]["/%s/data" % ds][...].astype(np.int64)
        if g.shape != w.shape or not np.array_equal(g, w):
            bad.append("sunsatangles/%s (%s)" % (ds, p))
    for kind in ("avhrr", "sunsatangles"):
        for nm, arr in (("lat", got["lats"]), ("lon", got["lons"])):
            w = want_int(arr, 1000.0, 0.0, -999999)
            g = f[kind]["/where/%s/data" % nm][...].astype(np.int64)
            if g.shape != w.shape or not np.array_equal(g, w):
                bad.append("%s/where/%s" % (kind, nm))
    q = f["qualflags"]["/qual_flags/data"][...].astype(np.int64)
    if not np.array_equal(q, got["qual"][R].astype(np.int64)):
        bad.append("qualflags/qual_flags")
    ts = f["qualflags"]["/ancillary/scanline_timestamps"][...].astype(np.int64)
    want_ts = got["xutcs"].astype(np.int64)[R]
    if not np.array_equal(ts, want_ts):
        bad.append("qualflags/scanline_timestamps")
    if bad:
        ctx.violation("%d lines (%d/%d without coordinates), start %d end %d: datasets %s do not hold rows %d..%d of their product" % (
            n, lead, trail, start, end, ", ".join(bad[:5]), rows[0], rows[-1]), payload, cls="rows:" + bad[0].split(" ")[0])
    # metadata
    miss = f["qualflags"]["/ancillary/missing_scanlines"][...].astype(np.int64).tolist()
    ln = got["line_numbers"]
    want_miss = sorted(set([1, 2] + ln[:lead].tolist() + (ln[n - trail:].tolist() if trail else [])))
    if miss != want_miss:
        ctx.violation("missing-line list %s, expected %s" % (miss, want_miss), payload, cls="meta:missing")
    mid_attr = f["qualflags"]["/ancillary"].attrs["midnight_scanline"]
    mid_attr = mid_attr.decode() if isinstance(mid_attr, bytes) else str(mid_attr)
    if midnight is not None and rows[0] <= midnight <= rows[-1]:
        want_mid = str(midnight - rows[0])
    else:
        want_mid = "None"
    if mid_attr != want_mid:
        ctx.violation("midnight line attribute %r, expected %r (original %s, rows %d..%d)" % (mid_attr, want_mid, midnight, rows[0], rows[-1]),
                      payload, cls="meta:midnight")
    # start / end times of the cut in the file names and attributes
    import datetime
    ep = datetime.datetime(1970, 1, 1)
    t_s = ep + datetime.timedelta(milliseconds=int(want_ts[0]))
    t_e = ep + datetime.timedelta(milliseconds=int(want_ts[-1]))
    a = f["avhrr"]["/image1/what"].attrs
    st = (a["startdate"].decode(), a["starttime"].decode(), a["enddate"].decode(), a["endtime"].decode())
    want_st = (t_s.strftime("%Y%m%d"), t_s.strftime("%H%M%S"), t_e.strftime("%Y%m%d"), t_e.strftime("%H%M%S"))
    if st != want_st:
        ctx.violation("start/end time attributes %s, rows %d..%d start/end at %s" % (st, rows[0], rows[-1], want_st), payload, cls="meta:times")
    for h in f.values():
        h.close()


def direct_cases(ctx):
    rng = ctx.rng
    lines, pend = [], []
    for k in range(ctx.n(160, 6000)):
        n = rng.choice([6, 9, 20, 60])
        lead = rng.choice([0, 0, 1, 2, 4])
        trail = rng.choice([0, 0, 1, 3])
        if lead + trail >= n - 1:
            lead, trail = 0, 1
        num = n - lead - trail
        start = rng.choice([0, 0, 1, num // 2, num - 1, num, num + 1, num + 5])
        end = rng.choice([0, 0, start, num - 1, num, num + 7, max(0, start + 2), rng.randint(0, num)])
        midnight = rng.choice([None, None, rng.randrange(n - 1), lead + start, max(0, lead + start - 1)])
        status, args, got = run_save(ctx, n, lead, trail, start, end, midnight, rng)
        payload = dict(args, stream="direct")
        check_files(ctx, status, args, got, payload)
        bits = "".join("0" if (i < lead or i >= n - trail) else "1" for i in range(n))
        lnums = ",".join(str(i + 3) for i in range(n))
        lines.append("c20 sel %s %d %d %s %s 1,2" % (bits, start, end, "none" if midnight is None else midnight, lnums))
        pend.append((status, args, payload))
        rows = expected_rows(n, lead, trail, start, end)
        ctx.case((n, lead, trail, start, end, midnight), nontrivial=bool(lead or trail or start or end),
                 branch="direct/%s" % ("reject" if rows is None else ("reversed" if not rows else "rows")))
    if ctx.thorough or getattr(ctx, "escalated", False):
        # LONG passes (1300 lines) with a run of lines without coordinates INSIDE the pass, lying across line 512 or 1024: first
        # and last line with a valid latitude are those of the whole pass
        for (lead, interior, start, end) in [(0, [(1020, 1030)], 0, 0), (12, [(508, 516)], 0, 0), (0, [(1020, 1030)], 1100, 0),
                                             (3, [(500, 530), (1023, 1026)], 5, 1290)]:
            n, trail = 1300, 0
            status, args, got = run_save(ctx, n, lead, trail, start, end, None, rng, interior=interior)
            payload = dict(args, stream="direct")
            check_files(ctx, status, args, got, payload)
            ctx.case((n, lead, trail, start, end, "interior"), nontrivial=True, branch="direct/long-interior-gap")
    if not ctx.driver_ok:
        ctx.corr_break("lean driver unavailable: correspondence not run")
        return
    out = Driver(ctx).batch(lines)
    for (status, args, payload), o in zip(pend, out):
        o = o.strip()
        if o == "valueerror":
            if status[0] != "valueerror":
                ctx.corr_break("model rejects the start line, implementation %s (%s)" % (status[0], args), payload)
            continue
        rows = o.split(" | ")[0]
        if rows == "_":
            continue          # reversed request: no verdict
        if status[0] != "ok":
            ctx.corr_break("model selects rows %s, implementation %s (%s)" % (rows, status[0], args), payload)


def pipeline_cases(ctx):
    rng = ctx.rng
    import h5py
    nbase = ctx.n(4, 80)
    sweep = [("podGac", j) for j in range(len(filegen.PLATFORMS["pod"]))] + [("klmGac", j) for j in range(len(filegen.PLATFORMS["klm"]))]
    for k in range(nbase + len(sweep)):
        fmt = rng.choice(["klmGac", "podGac"])
        if k < 2:
            fmt = ("klmGac", "podGac")[k]
        n = 16
        start_ms = ydm_to_ms(2002, 187, 68700000) if fmt == "klmGac" else ydm_to_ms(2000, 322, 3600000)
        crossing = k % 2 == 1
        plat = None
        if k >= nbase:
            # PLATFORM SWEEP: one whole-pass-and-part request pair for every spacecraft of either family, on a date of its life
            fmt, plat = sweep[k - nbase]
            sid, pcode, _nm, (yy, dd) = filegen.PLATFORMS[filegen.FMT[fmt]["family"]][plat]
            start_ms = ydm_to_ms(yy, dd, 3600000 + 1000 * plat)
            crossing = False
        if crossing:
            # the pass crosses UTC midnight (after line index 1..n-3): the midnight attribute of every file written from
            # this reader - the first and the later ones - is the line's position among the rows of THAT file
            day = (2002, 187) if fmt == "klmGac" else (2000, 321)
            start_ms = ydm_to_ms(day[0], day[1], 86400000 - 500 * rng.randint(2, n - 2) - rng.choice([0, 1, 250]))
        tp = timesgen.TimePass(fmt, list(range(1, n + 1)), start_ms)
        if plat is not None and fmt == "podGac":
            b = tp.build(ctx, rng, pod_epoch=filegen.pod_epoch_of(yy, dd))
        else:
            b = tp.build(ctx, rng)
        if plat is not None:
            b.sat_id, b.plat = sid, pcode
        lead, trail = rng.choice([0, 2]), rng.choice([0, 1])
        bit = 1 << 31
        b.quality[:lead] = bit
        if trail:
            b.quality[n - trail:] = bit
        num = n - lead - trail
        if k % 3 == 2:
            # ONE earth-location word of the first / last line WITH coordinates is out of range (masked per pixel): that line
            # still has valid latitudes, so it is still the first / last line of the files
            b.lats[lead, rng.randrange(51)] = rng.choice([95.0, -100.0])
            b.lats[n - trail - 1, rng.randrange(51)] = rng.choice([95.0, -100.0])
        pool = [(0, 0), (1, 0), (2, 5), (0, num + 3), (num, 0), (3, 0), (5, 9), (1, 2)]
        requests = [rng.choice(pool[:5])] + ([rng.choice(pool) for _ in range(rng.randint(1, 2))] if crossing or k % 4 == 0 else [])
        if k == 3 or (k >= 4 and plat is None and k % 5 == 3):
            # lines WITHOUT coordinates in the INTERIOR of the pass (flagged records between good ones) and requests whose first
            # or last selected line is one of them: rows are rows - the stored start / end times are those of the first / last
            # STORED row, whatever that row contains
            b.quality[7:10] = bit
            requests = [(7 - lead, 0), (0, 9 - lead), (8 - lead, 12 - lead)]
        if k < 2:
            # always present: the WHOLE pass, no line without coordinates at either end, written twice from one reader (the
            # slicing step has nothing to cut there; what it hands to the writer must still not be the reader's own arrays)
            lead = trail = 0
            b.quality[:] = 0
            num = n
            requests = [(0, 0), (0, 0)]
        data = b.tobytes()
        r = filegen.reader_class(fmt)(tle_dir=filegen.tle_dir(ctx), tle_name="TLE_%(satname)s.txt")
        r.read(b.dsname, fileobj=io.BytesIO(data))
        for nreq, (start, end) in enumerate(requests):
            out = os.path.join(ctx.scratch, "h5pipe")
            shutil.rmtree(out, ignore_errors=True)
            os.makedirs(out)
            payload = {"fmt": fmt, "lead": lead, "trail": trail, "start": start, "end": end, "stream": "pipeline",
                       "requests_on_this_reader": requests[:nreq + 1], "start_ms": start_ms, "platform": plat}
            rows = expected_rows(n, lead, trail, start, end)
            try:
                with warnings.catch_warnings():
                    warnings.simplefilter("ignore")
                    r.save(start, end, output_file_prefix="VERIF", output_dir=out)
                status = "ok"
            except ValueError:
                status = "valueerror"
            if rows is None:
                if status != "valueerror":
                    ctx.violation("%s Reader.save(start=%d): start beyond the %d valid lines was not rejected" % (fmt, start, num), payload,
                                  cls="start-beyond-not-rejected")
                ctx.case((fmt, lead, trail, start, end, nreq), branch="pipeline/reject")
                continue
            if status != "ok":
                ctx.violation("%s Reader.save(%d, %d) raised ValueError" % (fmt, start, end), payload, cls="save-fails:valueerror")
                continue
            with warnings.catch_warnings():
                warnings.simplefilter("ignore")
                ch = np.asarray(r.get_calibrated_channels())
                if ch.shape[-1] == 5:
                    # the six-slot layout of the files, laid out here (not by the reader): POD channel 3 in the 3b slot
                    ch = np.stack([ch[:, :, 0], ch[:, :, 1], np.full(ch.shape[:2], np.nan), ch[:, :, 2], ch[:, :, 3], ch[:, :, 4]], axis=2)
                lons, lats = r.get_lonlat()
                sat_azi, sat_zen, sun_azi, sun_zen, rel_azi = r.get_angles()
                times = np.asarray(r.get_times()).astype("datetime64[ms]").astype(np.int64)
            R = np.array(rows)
            enc = lambda a, sc, off, fill: np.where(np.isnan(a[R]), fill, np.trunc((a[R] - off) * sc)).astype(np.int64)
            fa = h5py.File(glob.glob(os.path.join(out, "VERIF_avhrr_*.h5"))[0], "r")
            fs = h5py.File(glob.glob(os.path.join(out, "VERIF_sunsatangles_*.h5"))[0], "r")
            fq = h5py.File(glob.glob(os.path.join(out, "VERIF_qualflags_*.h5"))[0], "r")
            bad = []
            for ds, (slot, off) in {"image1": (0, 0.0), "image2": (1, 0.0), "image6": (2, 0.0), "image3": (3, 273.15),
                                    "image4": (4, 273.15), "image5": (5, 273.15)}.items():
                g = fa["/%s/data" % ds][...].astype(np.int64)
                w = enc(ch[:, :, slot], 100.0, off, -32001)
                if g.shape != w.shape or np.abs(g - w).max() > 1:
                    bad.append("avhrr/" + ds)
            for ds, arr in {"image1": sun_zen, "image2": sat_zen, "image3": rel_azi, "image4": sun_azi, "image5": sat_azi}.items():
                g = fs["/%s/data" % ds][...].astype(np.int64)
                w = enc(arr, 100.0, 0.0, -32001)
                if g.shape != w.shape or np.abs(g - w).max() > 1:
                    bad.append("sunsatangles/" + ds)
            for nm, arr in (("lat", lats), ("lon", lons)):
                g = fa["/where/%s/data" % nm][...].astype(np.int64)
                w = enc(arr, 1000.0, 0.0, -999999)
                if g.shape != w.shape or np.abs(g - w).max() > 1:
                    bad.append("avhrr/where/" + nm)
            q = fq["/qual_flags/data"][...].astype(np.int64)
            if q.shape[0] != len(rows) or not np.array_equal(q[:, 0], np.asarray(r.scans["scan_line_number"]).astype(np.int64)[R]):
                bad.append("qualflags/qual_flags(line numbers)")
            ta = fa["/image1/what"].attrs
            st_attr = tuple((ta[k_].decode() if isinstance(ta[k_], bytes) else str(ta[k_])) for k_ in ("startdate", "starttime", "enddate", "endtime"))
            mid_attr = fq["/ancillary"].attrs["midnight_scanline"]
            mid_attr = mid_attr.decode() if isinstance(mid_attr, bytes) else str(mid_attr)
            fa.close()
            fs.close()
            fq.close()
            if bad:
                ctx.violation("%s Reader.save(%d, %d)%s, %d/%d lines without coordinates: %s differ from rows %d..%d of the reader's products" % (
                    fmt, start, end, "" if nreq == 0 else " (request no. %d on this reader)" % (nreq + 1), lead, trail, ", ".join(bad),
                    rows[0], rows[-1]), payload, cls="pipeline-rows")
            import datetime as _dt
            t_first = _dt.datetime(1970, 1, 1) + _dt.timedelta(milliseconds=int(times[rows[0]]))
            t_last = _dt.datetime(1970, 1, 1) + _dt.timedelta(milliseconds=int(times[rows[-1]]))
            want_st = (t_first.strftime("%Y%m%d"), t_first.strftime("%H%M%S"), t_last.strftime("%Y%m%d"), t_last.strftime("%H%M%S"))
            if st_attr != want_st:
                ctx.violation("%s Reader.save(%d, %d)%s: stored start / end %s, the first / last stored rows (%d, %d) have the times %s" % (
                    fmt, start, end, "" if nreq == 0 else " (request no. %d on this reader)" % (nreq + 1), st_attr, rows[0], rows[-1], want_st),
                    payload, cls="pipeline-start-end")
            days = times // 86400000
            steps = [i for i in range(len(days) - 1) if days[i + 1] > days[i]]
            mid = steps[0] if len(steps) == 1 else None
            want_mid = str(mid - rows[0]) if mid is not None and rows[0] <= mid <= rows[-1] else "None"
            if mid_attr != want_mid:
                ctx.violation("%s Reader.save(%d, %d)%s: midnight line attribute %r, expected %r (the date of the returned times changes after "
                              "line index %s; rows %d..%d written)" % (fmt, start, end, "" if nreq == 0 else " (request no. %d on this reader)" % (nreq + 1),
                                                                     mid_attr, want_mid, mid, rows[0], rows[-1]), payload, cls="pipeline-midnight")
            ctx.case((fmt, lead, trail, start, end, nreq, crossing, plat), nontrivial=True,
                     branch=("pipeline/rows/%s/%s" % ("crossing" if crossing else "same-day", "first" if nreq == 0 else "later"))
                     if plat is None else "pipeline/platform-sweep")


def run(ctx):
    direct_cases(ctx)
    pipeline_cases(ctx)
    ctx.sample({"products": PRODUCTS, "files": ["avhrr", "sunsatangles", "qualflags"]})


def replay(ctx, path):
    import random
    with open(path) as fh:
        body = json.load(fh)
    p = body.get("input", {})
    if p.get("stream") != "direct":
        print("replay: re-running the check")
        run(ctx)
        return 1 if ctx.input_violations else 0
    status, args, got = run_save(ctx, p["n"], p["lead"], p["trail"], p["start"], p["end"], p["midnight"], random.Random(0),
                                 interior=[tuple(x) for x in p.get("interior", [])])
    check_files(ctx, status, args, got, p)
    if ctx.input_violations:
        print("REPRODUCED: " + ctx.input_violations[0]["what"])
        return 1
    print("not reproduced")
    return 0


RULE = RULE + (" In the thorough tier, and in the quick tier whenever the source differs from the validated baseline, a LONG-PASS stream is added (passes of 1300 .. 12000 lines, just beyond multiples of 256 .. 8192, with the property-relevant event placed at and after such multiples; DESIGN 10.4 round 13).")
