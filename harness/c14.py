"""C14 — each KLM line delivers channel 3a or 3b, never both, never the wrong one."""
import json
import random

import numpy as np

from . import filegen
from .common import Driver

THEOREM_MODULES = ["PygacModel.Theorems.C14"]
RULE = ("KLM passes with channel-select sequences (random over {0,1,2}, all 3a, all 3b, all transition, 5-line passes, passes whose third sample is 0 / 1023 in every pixel, alternating, 3b with transition "
        "lines and no 3a line, single line) compared line by line with all-3a and all-3b reference passes of identical "
        "counts and telemetry, and with the Lean model's symbolic delivery; POD six-slot layout. A case = (pass, line); "
        "non-trivial = select value differs from the previous line or is 2; distinct by (format, sequence kind, seed, line)")
RULE += (" In the thorough tier, and in the quick tier whenever the source differs from the validated baseline, a LONG-PASS stream is added (passes of 1300 .. 12000 lines, just beyond multiples of 256 .. 8192, with the property-relevant event placed at and after such multiples; DESIGN 10.4 round 13).")


def sequence(kind, n, rng):
    if kind == "random":
        return np.array([rng.choice([0, 1, 2]) for _ in range(n)])
    if kind == "all3a":
        return np.ones(n, dtype=int)
    if kind == "all3b":
        return np.zeros(n, dtype=int)
    if kind == "alternate":
        return np.arange(n) % 2
    if kind == "3b+transition":
        s = np.zeros(n, dtype=int)
        s[n // 3] = 2
        s[-2:] = 2
        return s
    if kind == "3a+transition":
        s = np.ones(n, dtype=int)
        s[0] = 2
        s[n // 2] = 2
        return s
    if kind == "switch-once":
        s = np.zeros(n, dtype=int)
        s[n // 2:] = 1
        s[n // 2 - 1] = 2
        return s
    if kind == "all-transition":          # a segment cut inside the 3a/3b switch-over
        return np.full(n, 2, dtype=int)
    if kind == "3b-then-transition":      # two values only: 0 and 2
        s = np.zeros(n, dtype=int)
        s[n // 2:] = 2
        return s
    if kind == "blocks":                  # long pass: 3a up to line 1024, then 3b / transition alternating up to 2048, then 3b
        s = np.zeros(n, dtype=int)
        s[:1024] = 1
        s[1024:2048] = np.tile([0, 2], 512)[: max(0, min(n, 2048) - 1024)]
        return s
    raise ValueError(kind)


def channels(ctx, fmt, n, seed, sw, other_bits, start_ms=None, third_const=None, want_reader=False, flagged=None, first_sw=None,
             line_numbers=None):
    if first_sw is not None:
        # the reader object has ALREADY read and calibrated another file of the same pass (same lines, times, flags and
        # counts, another channel-select sequence) before it reads this one: a batch job re-using one configured reader
        import io
        pb0 = filegen.PassBuilder(ctx, fmt, n, random.Random(repr((seed, fmt, n))), start_ms=start_ms)
        if flagged is not None:
            pb0.quality[np.asarray(flagged, dtype=bool)] = 1 << 28
        pb0.samples[:, 2::5] = pb0.nprng.integers(60, 1000, size=pb0.samples[:, 2::5].shape)
        pb1 = filegen.PassBuilder(ctx, fmt, n, random.Random(repr((seed, fmt, n))), start_ms=start_ms)
        pb1.quality[:] = pb0.quality
        pb1.samples[:] = pb0.samples
        pb0.bitfield = ((other_bits << 2) | first_sw).astype(np.uint16)
        pb1.bitfield = ((other_bits << 2) | sw).astype(np.uint16)
        d0, d1 = pb0.tobytes(), pb1.tobytes()
        r = filegen.make_reader(ctx, fmt, data=d0, name=pb0.dsname)
        r.get_calibrated_channels()
        r.read(pb1.dsname, fileobj=io.BytesIO(d1))
        return np.array(r.get_calibrated_channels()), pb1
    pb = filegen.PassBuilder(ctx, fmt, n, random.Random(repr((seed, fmt, n))), start_ms=start_ms, line_numbers=line_numbers)
    if flagged is not None:
        pb.quality[np.asarray(flagged, dtype=bool)] = 1 << 28       # insufficient calibration data: the line is blanked
    pb.samples[:, 2::5] = pb.nprng.integers(60, 1000, size=pb.samples[:, 2::5].shape)
    if third_const is not None:
        pb.samples[:, 2::5] = third_const       # every third sample of the pass carries one (extreme but valid) value
    pb.bitfield = ((other_bits << 2) | sw).astype(np.uint16)
    r = filegen.make_reader(ctx, fmt, data=pb.tobytes(), name=pb.dsname)
    if want_reader:
        tele = [np.array(x, dtype=float) for x in r.get_telemetry()]
        return np.array(r.get_calibrated_channels()), pb, tele, [int(x) for x in r.scans["scan_line_number"]]
    return np.array(r.get_calibrated_channels()), pb


def check_constant_third(ctx, fmt, n, kind, seed, value):
    """Passes whose third sample is one constant in every pixel of every line (0 = saturated, 1023): the 3b lines must
    deliver the thermal calibration of that count, judged by a direct calibration of the count among other counts."""
    from . import c05
    rng = random.Random(repr((seed, fmt, n, kind, value)))
    sw = sequence(kind, n, rng)
    other = np.array([rng.getrandbits(14) for _ in range(n)])
    ch, pb, (prt, ict, space), nums = channels(ctx, fmt, n, seed, sw, other, third_const=value, want_reader=True)
    ref = c05.real_thermal("noaa16", 3, nums, prt, ict[:, 0], space[:, 0], [value, 500, 640, 300])
    payload = {"fmt": fmt, "n": n, "kind": kind, "seed": seed, "select": sw.tolist(), "third_const": value}
    if ref[0] != "ok":
        ctx.notes.append("constant-third reference calibration gave %s" % ref[0])
        return
    for l in range(n):
        s = int(sw[l])
        b = ch[l, :, 3]
        want = ref[1][l, 0] if s == 0 else np.nan
        okv = (np.isnan(b).all() and np.isnan(want)) or (not np.isnan(want) and np.allclose(b, want, atol=1e-6, equal_nan=False))
        if not okv:
            ctx.violation("%s %s, third sample %d in every pixel: line %d (select %d) delivers 3b = %s, the calibration of that count is %s" % (
                fmt, kind, value, l, s, b[:2], want), dict(payload, line=l), cls="3b-constant:select%d" % s)
            break
        ctx.case((fmt, kind, seed, l, "const", value), nontrivial=True, branch="constant-third/select%d" % s)


def check_single_3b(ctx, fmt, n, seed):
    """A pass in 3a except ONE 3b line, with realistic telemetry: while 3a is active the channel-3 internal-target words are
    dark (0), so that single line is the only one with valid 3b calibration data.  It must still deliver the calibration of
    its third sample - the same value as in an all-3b pass with the same samples and a constant internal-target count."""
    rng = random.Random(repr((seed, fmt, n, "single3b")))
    j = rng.choice([0, n - 1, rng.randrange(n)])
    vals = {}
    for tag in ("test", "ref"):
        pb = filegen.PassBuilder(ctx, fmt, n, random.Random(repr((seed, fmt, n))))
        pb.samples[:, 2::5] = pb.nprng.integers(60, 1000, size=pb.samples[:, 2::5].shape)
        sw = np.ones(n, dtype=int)
        sw[j] = 0
        if tag == "ref":
            sw[:] = 0
        else:
            dark = np.ones(n, dtype=bool)
            dark[j] = False
            pb.ict[dark, 0] = 0
        pb.bitfield = sw.astype(np.uint16)
        r = filegen.make_reader(ctx, fmt, data=pb.tobytes(), name=pb.dsname)
        vals[tag] = np.array(r.get_calibrated_channels())
    payload = {"fmt": fmt, "n": n, "seed": seed, "kind": "single-3b", "line": j}
    a, b = vals["test"][j, :, 3], vals["ref"][j, :, 3]
    if not np.allclose(a, b, atol=1e-6, equal_nan=True):
        ctx.violation("%s pass in 3a except line %d (3b; internal-target words dark on the 3a lines): that line delivers 3b = %s, the "
                      "calibration of its third sample is %s" % (fmt, j, a[:2], b[:2]), payload, cls="3b:single-line")
    others = [i for i in range(n) if i != j]
    if not np.isnan(vals["test"][others][:, :, 3]).all() or not np.isnan(vals["test"][j, :, 2]).all():
        ctx.violation("%s pass in 3a except line %d: 3a / 3b delivered on the wrong lines" % (fmt, j), payload, cls="3b:single-line-pattern")
    ctx.case((fmt, n, seed, "single3b", j), nontrivial=True, branch="single-3b-line")


def check_klm(ctx, fmt, n, kind, seed, drv, start_ms=None):
    rng = random.Random(repr((seed, fmt, n, kind)))
    sw = sequence(kind, n, rng)
    other = np.array([rng.getrandbits(14) for _ in range(n)])
    # every other pass carries one flagged (blanked) line: the 3a / 3b blanking of the OTHER lines must not depend on it
    flagged = np.zeros(n, dtype=bool)
    if seed % 2 == 1 and n > 3 and start_ms is None:      # (inside a scan-motor interval a blanked line changes its neighbours' 3x3 statistics)
        flagged[rng.randrange(n)] = True
    # on some passes two neighbouring records are stored in the wrong order (their numbers say so), right where the select
    # value changes: every product row is still the row of THAT record
    line_numbers = None
    if seed % 4 == 2 and start_ms is None and n >= 6:
        ln = np.arange(1, n + 1)
        cands = [i for i in range(1, n - 2) if sw[i] != sw[i + 1]] or [n // 2]
        for i in rng.sample(cands, min(2, len(cands))):
            if ln[i] < ln[i + 1]:
                ln[i], ln[i + 1] = ln[i + 1], ln[i]
        line_numbers = ln
    first_sw = None
    if seed % 3 == 0 and start_ms is None and line_numbers is None:
        first_sw = rng.choice([sw[::-1].copy(), np.ones(n, dtype=int), np.zeros(n, dtype=int), (sw + 1) % 3])
    ch, pb = channels(ctx, fmt, n, seed, sw, other, start_ms, flagged=flagged, first_sw=first_sw, line_numbers=line_numbers)
    ref_a, _ = channels(ctx, fmt, n, seed, np.ones(n, dtype=int), other, start_ms, line_numbers=line_numbers)
    ref_b, _ = channels(ctx, fmt, n, seed, np.zeros(n, dtype=int), other, start_ms, line_numbers=line_numbers)
    payload = {"fmt": fmt, "n": n, "kind": kind, "seed": seed, "select": sw.tolist(), "start_ms": start_ms,
               "reader_read_before_with_select": None if first_sw is None else np.asarray(first_sw).tolist(),
               "line_numbers": None if line_numbers is None else line_numbers.tolist()}
    if ch.shape[-1] != 6:
        ctx.violation("%s: %d channel slots instead of 6" % (fmt, ch.shape[-1]), payload, cls="klm-slots")
        return
    third = pb.samples[:, 2::5]
    for l in range(n):
        a, b = ch[l, :, 2], ch[l, :, 3]
        s = int(sw[l])
        exp_a = ref_a[l, :, 2] if (s == 1 and not flagged[l]) else np.full_like(a, np.nan)
        exp_b = ref_b[l, :, 3] if (s == 0 and not flagged[l]) else np.full_like(b, np.nan)
        if not np.array_equal(a, exp_a, equal_nan=True):
            kind_ = "3a delivered on a line whose select value is %d" % s if s != 1 else "3a is not the calibration of the third sample"
            ctx.violation("%s %s line %d: %s (value %s, count %d)" % (fmt, kind, l, kind_, a[np.isfinite(a)][:1] if s != 1 else a[:1], third[l, 0]),
                          dict(payload, line=l), cls="3a:select%d" % s)
        if not np.array_equal(b, exp_b, equal_nan=True):
            kind_ = "3b delivered on a line whose select value is %d" % s if s != 0 else "3b is not the calibration of the third sample"
            ctx.violation("%s %s line %d: %s (value %s, count %d)" % (fmt, kind, l, kind_, b[np.isfinite(b)][:1] if s != 0 else b[:1], third[l, 0]),
                          dict(payload, line=l), cls="3b:select%d" % s)
        for slot in (0, 1, 4, 5):
            if flagged[l]:
                continue
            if not np.array_equal(ch[l, :, slot], ref_a[l, :, slot], equal_nan=True):
                ctx.violation("%s %s line %d: channel slot %d depends on the channel-select sequence" % (fmt, kind, l, slot),
                              dict(payload, line=l), cls="other-slot:%d" % slot)
        p = 0
        if not flagged[l]:
            drv.append(("c14 %d %d" % (s, int(third[l, p])),
                        (fmt, kind, l, s, float(a[p]), float(b[p]), float(ref_a[l, p, 2]), float(ref_b[l, p, 3]))))
        ctx.case((fmt, kind, seed, l), nontrivial=(s == 2 or l == 0 or s != int(sw[l - 1])), branch="select%d" % s)
    ctx.sample({"fmt": fmt, "kind": kind, "n": n, "select": sw[:12].tolist()})


def check_pod(ctx, fmt, n, seed, plat=None):
    if plat is None:
        pb = filegen.PassBuilder(ctx, fmt, n, random.Random(repr((seed, fmt, n))))
    else:
        # PLATFORM SWEEP: every POD spacecraft (four- and five-channel instruments alike) on a date of its life
        pb, _ = filegen.platform_pass(ctx, fmt, n, random.Random(repr((seed, fmt, n, plat))), plat)
    r = filegen.make_reader(ctx, fmt, data=pb.tobytes(), name=pb.dsname)
    five = np.array(r.get_calibrated_channels())
    six = np.array(r._get_calibrated_channels_uniform_shape())
    payload = {"fmt": fmt, "n": n, "seed": seed, "pod": True, "plat": plat}
    ok = five.shape[-1] == 5 and six.shape[-1] == 6
    if ok:
        ok = np.isnan(six[:, :, 2]).all() and all(
            np.array_equal(six[:, :, d], five[:, :, s], equal_nan=True) for s, d in ((0, 0), (1, 1), (2, 3), (3, 4), (4, 5)))
        # channel 3 always thermal: brightness temperatures (K) or NaN, never reflectance-like small numbers
        bt = five[:, :, 2][np.isfinite(five[:, :, 2])]
        ok = ok and (len(bt) == 0 or (bt.min() >= 170 and bt.max() <= 350))
    if not ok:
        ctx.violation("%s: six-slot layout is not [1,2,NaN,3,4,5] of the five POD channels" % fmt, payload, cls="pod-layout")
    for l in range(n):
        ctx.case((fmt, "pod", seed, l, plat), nontrivial=True, branch="pod" if plat is None else "pod/platform-sweep")


def run(ctx):
    drv = []
    kinds = ["random", "all3a", "all3b", "alternate", "3b+transition", "3a+transition", "switch-once", "all-transition",
             "3b-then-transition"]
    k = 0
    for kind in kinds:
        check_klm(ctx, "klmGac", 24, kind, ctx.seed * 1000 + k, drv)
        k += 1
    check_klm(ctx, "klmLac", 9, "random", ctx.seed * 1000 + k, drv)
    check_klm(ctx, "klmLac", 7, "3b+transition", ctx.seed * 1000 + k + 1, drv)
    check_klm(ctx, "klmGac", 6, "all3a", ctx.seed * 1000 + k + 2, drv)
    for j, kind in enumerate(["all-transition", "all3b", "all3a"]):      # shortest calibratable passes (one PRT cycle) and a LAC segment
        check_klm(ctx, "klmGac", 5, kind, ctx.seed * 1000 + k + 10 + j, drv)
    check_klm(ctx, "klmLac", 5, "all-transition", ctx.seed * 1000 + k + 14, drv)
    for j, (kind, value) in enumerate([("random", 0), ("all3b", 0), ("switch-once", 1023), ("3b+transition", 0)]):
        check_constant_third(ctx, "klmGac", 20, kind, ctx.seed * 1000 + k + 20 + j, value)
    for j in range(3):
        check_single_3b(ctx, "klmGac", (8, 12, 60)[j], ctx.seed * 1000 + k + 30 + j)
    check_klm(ctx, "klmGac", 60, "random", ctx.seed * 1000 + k + 3, drv)
    # a NOAA-16 pass lying entirely inside a listed scan-motor interval (2004-01-14): the later masking step must not
    # undo the 3a / 3b blanking
    check_klm(ctx, "klmGac", 24, "random", ctx.seed * 1000 + k + 4, drv, start_ms=filegen.ydm_to_ms(2004, 14, 54000000))
    check_klm(ctx, "klmGac", 12, "3a+transition", ctx.seed * 1000 + k + 5, drv, start_ms=filegen.ydm_to_ms(2004, 14, 57600000))
    if ctx.thorough or getattr(ctx, "escalated", False):
        # one long pass (2100 lines) whose select value changes exactly at lines 1024 and 2048
        check_klm(ctx, "klmGac", 2100, "blocks", ctx.seed * 1000 + k + 41, drv)
    check_pod(ctx, "podGac", 12, ctx.seed)
    check_pod(ctx, "podLac", 6, ctx.seed)
    for kp in range(len(filegen.PLATFORMS["pod"])):
        check_pod(ctx, "podGac" if kp % 4 else "podLac", 6, ctx.seed, plat=kp)
    if ctx.thorough:
        for j in range(150):
            check_klm(ctx, "klmGac", 70 + j, kinds[j % len(kinds)], ctx.seed * 1000 + 100 + j, drv)
            check_klm(ctx, "klmLac", 12, kinds[(j + 3) % len(kinds)], ctx.seed * 1000 + 200 + j, drv)
    if not ctx.driver_ok:
        ctx.corr_break("lean driver unavailable: correspondence not run")
        return
    out = Driver(ctx).batch([d[0] for d in drv])

    def agree(sym, val, ra, rb):
        if sym == "nan":
            return np.isnan(val)
        ref = ra if sym[0] == "S" else rb
        return (np.isnan(val) and np.isnan(ref)) or val == ref
    for (cmd, (fmt, kind, l, s, a, b, ra, rb)), o in zip(drv, out):
        ma, mb = o.split()
        if not (agree(ma, a, ra, rb) and agree(mb, b, ra, rb)):
            ctx.corr_break("%s %s line %d select %d: model delivers (%s, %s), implementation (3a=%s, 3b=%s; references %s, %s)" % (
                fmt, kind, l, s, ma, mb, a, b, ra, rb))
    ctx.assumptions += ["reference all-3a / all-3b passes share counts and telemetry, so the per-line calibration functions are identical",
                        "select value 3 is not defined by the format and is not judged"]


def replay(ctx, path):
    with open(path) as fh:
        body = json.load(fh)
    inp = body.get("input", {})
    if "fmt" not in inp:
        print("replay file carries no input: %s" % body.get("broken_theorems_or_obligations"))
        return 1
    ctx.driver_ok = False
    if inp.get("pod"):
        check_pod(ctx, inp["fmt"], inp["n"], inp["seed"], plat=inp.get("plat"))
    else:
        check_klm(ctx, inp["fmt"], inp["n"], inp["kind"], inp["seed"], [], start_ms=inp.get("start_ms"))
    if ctx.input_violations:
        print("REPRODUCED: " + ctx.input_violations[0]["what"])
        return 1
    print("not reproduced")
    return 0
