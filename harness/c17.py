"""C17 — the TLE nearest the pass start is used, and never one older than the limit."""
import datetime
import json
import os
import random

import numpy as np

from . import filegen
from .common import Driver

THEOREM_MODULES = ["PygacModel.Theorems.C17"]
RULE = ("ordered TLE files (1..400 element sets, duplicates, gaps of days to years, epochs on both sides of the 1950 "
        "pivot), start times before / inside / exactly between (+-1 ms) / after the epochs, thresholds at the edge +-1 ms; "
        "real get_tle_lines() (asked two or three times on the same reader) vs Lean model and vs an exact-arithmetic oracle. A case = (file, start time, threshold); "
        "non-trivial = more than one element set in the file; distinct by (file hash, start time, threshold)")

EPOCH = datetime.datetime(1970, 1, 1)


def epoch_field(rng, year=None):
    """Returns (14-char field, exact ms (Fraction-free: integer + exact half info))"""
    yy = rng.randrange(100) if year is None else year % 100
    day = rng.randint(1, 365)
    frac = rng.choice(["00000000", "50000000", "25000000", "12500000", "%08d" % rng.randrange(10 ** 8), "%08d" % rng.randrange(10 ** 8)])
    return "%02d%03d.%s" % (yy, day, frac)


def exact_ms(field):
    """Exact epoch in ms as a python Fraction, and rounded half-even to int."""
    from fractions import Fraction
    x = Fraction(field)
    t = x + (1900000 if x > 50000 else 2000000)
    whole = t.numerator // t.denominator
    year, doy = whole // 1000, whole % 1000 - 1
    days = (datetime.date(year, 1, 1) - datetime.date(1970, 1, 1)).days + doy
    r = 86400000 * (t - whole)
    return days * 86400000 + r


def make_file(rng, n, kind):
    """Chronologically ordered epoch fields."""
    fields = []
    if kind == "dense":
        yy = rng.randrange(100)
        d = rng.randint(1, 300)
        for _ in range(n):
            fields.append("%02d%03d.%08d" % (yy, d, rng.randrange(10 ** 8)))
            d = min(365, d + rng.choice([0, 0, 1, 1, 2, 9]))
        fields.sort(key=exact_ms)
    else:
        fields = sorted({epoch_field(rng) for _ in range(n)}, key=exact_ms)
    if kind == "dups" and fields:
        for _ in range(max(1, len(fields) // 4)):
            k = rng.randrange(len(fields))
            fields.insert(k, fields[k])
    return fields


def tle_lines(fields):
    """Two lines per element set.  A set repeating the epoch of the set before it is either an exact copy of both lines
    (archives assembled from overlapping downloads) or a RE-ISSUE: identical line 2, line 1 with a new element-set number."""
    out = []
    l1id = l2id = 0
    for k, f in enumerate(fields):
        if k == 0 or f != fields[k - 1]:
            l1id = l2id = k
        elif k % 2:
            l1id = k                      # re-issued: only line 1 changes
        out.append("1 %05dU 00000A   %s  .00000000  00000-0  00000+0 0  %4d\n" % (l2id % 100000, f, l1id % 10000))
        out.append("2 %05d  98.7900 210.3675 0010476 274.6981  85.3501 14.10895524 %5d\n" % (l2id % 100000, l2id))
    return out


def real_select(ctx, path_dir, fields, sdate_ms, thresh):
    from pygac.gac_klm import GACKLMReader
    from pygac.reader import NoTLEData
    r = GACKLMReader(tle_dir=path_dir, tle_name="TLE_%(satname)s.txt", tle_thresh=thresh)
    r.spacecraft_name = "sat"
    # the pass start is the FIRST line's time; later lines may carry any (also earlier, unrepaired) time stamps
    import random as _r
    g = _r.Random(sdate_ms)
    others = [sdate_ms + g.choice([500, 1000, -86400000 * 400, 86400000 * 300, -3600000, 7200000]) for _ in range(g.choice([0, 0, 1, 3]))]
    r._times_as_np_datetime64 = np.array([sdate_ms] + others, dtype="datetime64[ms]")
    def query():
        try:
            l1, l2 = r.get_tle_lines()
        except NoTLEData:
            return "notle", None
        except IndexError:
            return "indexerror", None
        except Exception as e:      # noqa - neither a selection nor the documented "no TLE data": judged below
            return "raises:%s" % type(e).__name__, None
        return "chosen", (l1, l2)
    kind, pair = query()
    # asking again (as the angle computation does after the clock-drift correction asked) must give the same answer
    r._verif_repeats = [query() for _ in range(g.choice([1, 1, 2]))]
    return kind, pair, r


def check(ctx, fields, sdate_ms, thresh, drv, tag):
    d = os.path.join(ctx.scratch, "tle17")
    os.makedirs(d, exist_ok=True)
    lines = tle_lines(fields)
    with open(os.path.join(d, "TLE_sat.txt"), "w") as fh:
        fh.writelines(lines)
    kind, pair, r = real_select(ctx, d, fields, sdate_ms, thresh)
    payload = {"fields": fields if len(fields) <= 60 else fields[:60], "n_sets": len(fields), "sdate_ms": sdate_ms, "thresh_days": thresh, "tag": tag}
    ex = [exact_ms(f) for f in fields]
    for k2, p2 in r._verif_repeats:
        if (k2, p2) != (kind, pair):
            ctx.violation("start %d, limit %s days: the first query gave %s, a repeated query on the same reader gave %s%s" % (
                sdate_ms, thresh, kind, k2, " (a set is handed out after the pass was reported as having no TLE data)"
                if kind == "notle" and k2 == "chosen" else ""), payload, cls="repeat-differs")
            break
    # ---- oracle (exact arithmetic)
    if fields:
        dist = [abs(sdate_ms - e) for e in ex]
        dmin = min(dist)
        lim = thresh * 86400000
        near_edge = abs(dmin - lim) <= 1
        if kind == "chosen":
            l1, l2 = pair
            if l1 not in lines or lines.index(l1) % 2 != 0 or lines[lines.index(l1) + 1] != l2:
                # duplicates: accept any pair (2i, 2i+1) with these texts
                ok = any(lines[2 * i] == l1 and lines[2 * i + 1] == l2 for i in range(len(fields)))
                if not ok:
                    ctx.violation("the two returned lines do not belong to one element set", payload, cls="pair")
            idx = [i for i in range(len(fields)) if lines[2 * i] == l1 and lines[2 * i + 1] == l2]
            dsel = min(dist[i] for i in idx) if idx else None
            if dsel is not None and dsel > dmin + 1:
                ctx.violation("start %d: chose a set %.3f days away although one %.3f days away is in the file (%d sets)" % (
                    sdate_ms, float(dsel) / 86400000, float(dmin) / 86400000, len(fields)), payload, cls="not-nearest")
            if dsel is not None and dsel > lim + 1:
                ctx.violation("start %d: navigated with a set %.4f days old, limit %s days" % (sdate_ms, float(dsel) / 86400000, thresh),
                              payload, cls="stale-used")
        elif kind == "notle":
            if dmin < lim - 1:
                ctx.violation("start %d: reported no TLE data although a set %.4f days away exists (limit %s)" % (
                    sdate_ms, float(dmin) / 86400000, thresh), payload, cls="fresh-rejected")
        elif kind == "indexerror":
            ctx.violation("IndexError on a non-empty TLE file", payload, cls="indexerror")
        else:
            ctx.violation("start %d, %d sets: the selection ended in %s instead of an element set or 'no TLE data'" % (
                sdate_ms, len(fields), kind), payload, cls=kind)
        # epoch decoding clause (within 1 ms)
        dec = r.tle2datetime64(np.array([float(f) for f in fields])).astype("datetime64[ms]").astype(np.int64)
        bad = [i for i, (a, b) in enumerate(zip(dec.tolist(), ex)) if abs(a - b) > 1]
        if bad:
            i = bad[0]
            ctx.violation("epoch field %s decoded to %d ms, exact %.3f ms" % (fields[i], dec[i], float(ex[i])), payload, cls="epoch-decode")
    else:
        near_edge = False
    from fractions import Fraction
    th = Fraction(thresh) * 86400000
    th_s = "%d.%s" % (th.numerator // th.denominator, ("%06d" % int((th - th.numerator // th.denominator) * 10 ** 6)))
    if kind == "chosen":
        sel_idx = [i for i in range(len(fields)) if lines[2 * i] == pair[0] and lines[2 * i + 1] == pair[1]]
    else:
        sel_idx = []
    drv.append(("c17 %s %d %s" % (th_s, sdate_ms, ",".join(fields) if fields else "_"),
                (kind, sel_idx, ex, near_edge, tag)))
    ctx.case((hash(tuple(fields)), sdate_ms, str(thresh)), nontrivial=len(fields) > 1, branch=kind)


def run(ctx):
    rng = ctx.rng
    drv = []
    nfiles = ctx.n(40, 400)
    for k in range(nfiles):
        kind = rng.choice(["sparse", "dense", "dups", "dups", "dense"])
        n = rng.choice([1, 2, 3, 5, 20, 60] + ([200, 400] if (ctx.thorough or k % 10 == 0) else []))
        long_archive = (ctx.thorough or getattr(ctx, "escalated", False)) and k in (1, 2)
        if long_archive:
            # a multi-year archive (more than 512 / 1024 element sets): the selection must not depend on how many sets there
            # are - queried in the gaps around set numbers 256, 512, 1024 as everywhere else
            n, kind = (700, 1400)[k - 1], rng.choice(["sparse", "dups"])
        fields = make_file(rng, n, kind)
        ex = [exact_ms(f) for f in fields]
        starts = []
        ints = [int(e) for e in ex]
        starts += [ints[0] - rng.randint(1, 10 * 86400000), ints[-1] + rng.randint(1, 10 * 86400000), ints[0], ints[-1]]
        for _ in range(4):
            i = rng.randrange(len(ints))
            starts.append(ints[i] + rng.randint(-3 * 86400000, 3 * 86400000))
            if i + 1 < len(ints):
                mid = (ints[i] + ints[i + 1]) // 2
                starts += [mid - 1, mid, mid + 1]
        if long_archive:
            for j in (255, 256, 511, 512, 1023, 1024):
                if 0 < j < len(ints) and ints[j] > ints[j - 1]:
                    g = ints[j] - ints[j - 1]
                    starts += [ints[j - 1] + g // 4, ints[j - 1] + g // 2 - 1, ints[j - 1] + (3 * g) // 4, ints[j - 1] + 1, ints[j] - 1]
        for s in starts:
            dmin = min(abs(s - e) for e in ints)
            for thresh in (7, rng.choice([0, 1, 3, 30, 0.5]), max(0.0, (dmin + rng.choice([-2, 2, 40000])) / 86400000.0)):
                check(ctx, fields, s, thresh, drv, kind)
        if k < 3:
            ctx.sample({"kind": kind, "fields": fields[:5], "starts": starts[:4]})
    check(ctx, [], 0, 7, drv, "empty")
    if not ctx.driver_ok:
        ctx.corr_break("lean driver unavailable: correspondence not run")
        return
    out = Driver(ctx).batch([d[0] for d in drv])
    skipped = 0
    for (cmd, (kind, sel_idx, ex, near_edge, tag)), o in zip(drv, out):
        toks = o.split()
        mk, mi = toks[0], int(toks[1])
        mdates = [] if toks[2] == "_" else [int(x) for x in toks[2].split(",")]
        # model epochs are the exact instants rounded half-even
        for a, e in zip(mdates, ex):
            if abs(a - e) > 0.5:
                ctx.corr_break("model epoch %d vs exact %s" % (a, e))
                break
        if near_edge:
            skipped += 1
            continue
        agree = (mk == kind) and (kind != "chosen" or mi in sel_idx)
        if not agree and kind == "chosen" and mk == "chosen":
            # float rounding of an epoch may move a 1-ms tie; accept an equally near set
            s = int(cmd.split()[2])
            if abs(abs(s - ex[mi]) - min(abs(s - ex[i]) for i in sel_idx)) <= 1:
                skipped += 1
                continue
        if not agree:
            ctx.corr_break("model %s %d, implementation %s %s (%s)" % (mk, mi, kind, sel_idx[:3], cmd[:120]))
    ctx.extra["skipped_near_discontinuity"] = skipped
    ctx.assumptions += ["epochs are decoded in float64 by the code and exactly by the model; cases within 1 ms of the threshold or of a tie are counted but not judged"]


def replay(ctx, path):
    with open(path) as fh:
        body = json.load(fh)
    inp = body.get("input", {})
    if "fields" not in inp or inp.get("n_sets", 0) != len(inp["fields"]):
        print("replay file carries no complete input: %s" % (body.get("broken_theorems_or_obligations") or inp.get("tag")))
        return 1
    check(ctx, inp["fields"], inp["sdate_ms"], inp["thresh_days"], [], inp.get("tag"))
    if ctx.input_violations:
        print("REPRODUCED: " + ctx.input_violations[0]["what"])
        return 1
    print("not reproduced")
    return 0


RULE = RULE + (" In the thorough tier, and in the quick tier whenever the source differs from the validated baseline, a LONG-PASS stream is added (passes of 1300 .. 12000 lines, just beyond multiples of 256 .. 8192, with the property-relevant event placed at and after such multiples; DESIGN 10.4 round 13).")
