"""C13 — brightness temperatures behave physically: monotone, anchored, phase-free."""
import json
import warnings
from fractions import Fraction

import numpy as np

from . import c05
from .common import Driver

THEOREM_MODULES = ["PygacModel.Theorems.C13"]
RULE = ("calibrate_thermal for all 17 spacecraft x channels 3b/4/5 on passes longer than 51 lines with telemetry in the "
        "operating range (internal-target counts 300..600, space counts 900..1023, PRT temperatures 285..305 K): (i) ALL "
        "counts 0..1023 on sampled lines: BT non-increasing; (ii) scene count = smoothed internal-target count: |BT - T_BB| "
        "< 1 K (exactly T_BB where b = 0), T_BB from the model's smoothed PRT temperature; (iii) the same underlying pass "
        "read from first line numbers 1..5 (first k lines dropped): identical BT outside the 25-line edge zone; (iv) a "
        "pixel's BT unchanged when the other pixels of its line change; plus model correspondence (1e-6 K). A case = "
        "(spacecraft, channel, pass, clause); distinct by those keys")
RULE += (" In the thorough tier, and in the quick tier whenever the source differs from the validated baseline, a LONG-PASS stream is added (passes of 1300 .. 12000 lines, just beyond multiples of 256 .. 8192, with the property-relevant event placed at and after such multiples; DESIGN 10.4 round 13).")
TRUSTED_EXTRA = ["the 1 K bound on the non-linearity residue at the internal target and libm exp/log are numerical support, "
                 "not theorems; proved are monotonicity (bt_antitone + H_table for every row), the anchor algebra and phase freedom"]


def make_pass(rng, n, n0, phase, base_count):
    nums = list(range(n0, n0 + n))
    # the marker on the reset lines is "below 50 counts": exactly 0, one small value, or small values varying from line to line
    style = rng.choice(["zero", "zero", "const", "varying"])
    const = rng.randint(1, 49)
    mark = lambda: 0 if style == "zero" else (const if style == "const" else rng.randint(0, 49))      # noqa
    prt = [mark() if (x - phase) % 5 == 0 else base_count + ((x - phase) % 5) + rng.randint(-1, 1) for x in nums]
    ict_level = rng.randint(300, 600)
    sp_level = rng.randint(900, 1020)
    ict = [ict_level + rng.randint(-2, 2) for _ in nums]
    space = [sp_level + rng.randint(-1, 1) for _ in nums]
    return nums, prt, ict, space


def prt_count_for(tab, sat, kelvin):
    """a PRT count whose polynomial temperature is near `kelvin` (thermometer 1)"""
    th = tab[sat]["thermometer_1"]
    d = [float(th.get("d%d" % j, 0)) for j in range(5)]
    best = min(range(50, 1024), key=lambda c: abs(sum(d[j] * c ** j for j in range(5)) - kelvin))
    return best


def file_route(ctx, tab):
    """PLATFORM SWEEP through the readers: one 60-line file per spacecraft of either family (header id / platform code from the
    user's guides, a date of its life).  Per thermal channel, one pixel carries exactly the internal-target count of THAT channel
    (anchor: within 1 K of the smoothed PRT temperature, computed by the independent transcription), eight pixels carry a count
    ramp - ascending for channels 3 and 4, DESCENDING for channel 5, so that no channel can pass with another channel's result."""
    import io
    import random
    from . import filegen
    for fmt in ("podGac", "klmGac"):
        fam = filegen.FMT[fmt]["family"]
        for k, (sid, pcode, sat, (yy, dd)) in enumerate(filegen.PLATFORMS[fam]):
            n = 60
            pb, _ = filegen.platform_pass(ctx, fmt, n, random.Random(repr(("c13file", fmt, k, ctx.seed))), k, n0=1 + k % 5)
            ictc = [380, 410, 420]
            ramp = np.array([250, 300, 340, 390, 450, 520, 600, 700])
            for ci in range(3):
                col = 2 + ci
                pb.samples[:, 5 * 0 + col] = ictc[ci] + (0 if ci != 1 else 30)       # pixel 0 anchors channels 3 and 5
                pb.samples[:, 5 * 9 + col] = ictc[ci] + (0 if ci == 1 else -30)      # pixel 9 anchors channel 4
                for j in range(8):
                    pb.samples[:, 5 * (1 + j) + col] = ramp[j] if ci < 2 else ramp[7 - j]
            payload = {"stream": "file-route", "fmt": fmt, "platform": k, "spacecraft": sat}
            try:
                with warnings.catch_warnings():
                    warnings.simplefilter("ignore")
                    r = filegen.make_reader(ctx, fmt, data=pb.tobytes(), name=pb.dsname, adjust_clock_drift=False)
                    ch = np.asarray(r.get_calibrated_channels())
                    prt, ict, space = [np.asarray(x, dtype=float) for x in r.get_telemetry()]
            except Exception as e:
                ctx.violation("%s file of %s: calibration raised %s: %s" % (fmt, sat, type(e).__name__, e), payload,
                              cls="file-route:raises:%s" % type(e).__name__)
                continue
            nums = [int(x) for x in r.scans["scan_line_number"]]
            fr = lambda a: [Fraction(float(x)).limit_denominator(10 ** 6) for x in a]      # noqa
            for ci, chan in enumerate((3, 4, 5)):
                want = c05.oracle(tab[sat], chan, nums, fr(prt), fr(ict[:, ci]), fr(space[:, ci]), [0])
                if want[0] != "ok":
                    continue
                tprt = np.array([float(t) for t in want[2]])
                bt = ch[:, :, ci - 3]
                apix = 9 if ci == 1 else 0
                dev = np.abs(bt[:, apix] - tprt)
                if not np.all(np.isfinite(bt[:, apix])) or dev.max() > 1.0:
                    i = int(np.nanargmax(np.where(np.isfinite(dev), dev, np.inf)))
                    ctx.violation("%s file of %s, channel %d line %d: a scene count equal to the internal-target count (%d) reads %.3f K, the "
                                  "smoothed PRT temperature is %.3f K" % (fmt, sat, chan, i, ictc[ci], bt[i, apix], tprt[i]), payload,
                                  cls="file-route:anchor")
                cnts = ramp if ci < 2 else ramp[::-1]
                order = np.argsort(cnts)
                rows = bt[:, 1:9][:, order]
                inc = np.diff(rows, axis=1) > 1e-9
                if np.any(inc & np.isfinite(np.diff(rows, axis=1))):
                    i = int(np.nonzero(inc.any(axis=1))[0][0])
                    ctx.violation("%s file of %s, channel %d line %d: BT increases with the channel's own count (counts %s -> %s K)" % (
                        fmt, sat, chan, i, np.sort(cnts).tolist(), np.round(rows[i], 3).tolist()), payload, cls="file-route:monotone")
                ctx.case((fmt, sat, chan, "file-route"), nontrivial=True, branch="file-route/%s" % fam)


def run(ctx):
    rng = ctx.rng
    tab = c05.table()
    file_route(ctx, tab)
    sats = sorted(tab)
    lines, pend = [], []
    worst_anchor = 0.0
    for k in range(ctx.n(51, 408)):
        sat = sats[k % len(sats)]
        chan = 3 + (k // len(sats)) % 3
        n = rng.choice([56, 60, 120, 300, 47, 48, 49, 50])      # + 4: incl. 51 / 52 / 53 lines, either side of the smoothing-window switch
        if (ctx.thorough or getattr(ctx, "escalated", False)) and k < (3 if ctx.thorough else 2):
            n = [4000, 4096, 8000][k] + rng.randint(1, 17) - 4       # long passes, just beyond a multiple of 4000 / 4096
        kelvin = rng.uniform(285.5, 304.5)
        base = prt_count_for(tab, sat, kelvin)
        phase = rng.randrange(5)
        # first line number: 1, or such that the pass ENDS at the top of the 16-bit line-number field; the numbers reach the
        # calibration in the dtype the readers hand over (KLM unsigned, POD signed 16 bit) or as plain integers
        top = {0: None, 3: 65534, 4: 32767}.get(k % 5)
        n0 = 1 if top is None else top - rng.randint(0, 4) - (n + 4) + 1
        nums, prt, ict, space = make_pass(rng, n + 4, n0, phase, base)
        nd = {65534: ">u2", 32767: rng.choice([">i2", ">u2"])}.get(top) or rng.choice([None, ">u2", ">i2"])
        if k % 2 == 1:
            # isolated thermometer drop-outs (reading below 50 counts on a measurement line), one of them on the LAST
            # thermometer of the cycle: they are repaired by interpolation, so anchor, monotonicity and phase freedom still hold
            cand4 = [i for i, x in enumerate(nums) if (x - phase) % 5 == 4 and 12 <= i < len(nums) - 12]
            cand = [i for i, x in enumerate(nums) if (x - phase) % 5 in (1, 2, 3) and 12 <= i < len(nums) - 12]
            for i in ([rng.choice(cand4)] if cand4 else []) + (rng.sample(cand, 1) if cand and rng.random() < 0.5 else []):
                prt[i] = rng.choice([0, 7, 40])
        if k % 3 == 2:
            # a data gap aligned with the PRT cycle (the four thermometer lines after a reset line missing): the anchor
            # and monotonicity clauses must hold on such a pass, too (phase freedom is only compared on gap-free passes)
            resets = [i for i, x in enumerate(nums) if (x - phase) % 5 == 0 and 10 < i < len(nums) - 10]
            if resets:
                i0 = rng.choice(resets)
                sel = [i for i in range(len(nums)) if not (i0 < i <= i0 + 4)]
                nums, prt, ict, space = ([a[i] for i in sel] for a in (nums, prt, ict, space))
        payload = {"sat": sat, "chan": chan, "nums": nums, "prt": prt, "ict": ict, "space": space, "counts": list(range(1024)),
                   "info": {"n": len(nums), "n0": n0, "gaps": False, "kinds": [], "phase": phase, "num_dtype": nd}}
        # (i) monotone, all counts
        got = c05.real_thermal(sat, chan, nums, list(prt), list(ict), list(space), list(range(1024)), nd)
        if got[0] != "ok":
            ctx.violation("%s channel %d: calibrate_thermal outcome %s on an ordinary pass" % (sat, chan, got[0]), payload,
                          cls="thermal-outcome:%s" % got[0])
            continue
        bt = got[1]
        for line in rng.sample(range(len(nums)), 8):
            row = bt[line]
            fin = row[~np.isnan(row)]
            if len(fin) > 1 and np.any(np.diff(fin) > 1e-9):
                i = int(np.nonzero(np.diff(fin) > 1e-9)[0][0])
                ctx.violation("%s channel %d line %d: BT increases with the count (%.6f -> %.6f K)" % (sat, chan, line, fin[i], fin[i + 1]),
                              payload, cls="monotone")
                break
        ctx.case((sat, chan, "monotone", k), branch="monotone/ch%d" % chan)
        # (ii) anchored at the internal target
        want = c05.oracle(tab[sat], chan, nums, prt, ict, space, [0])
        if want[0] == "ok":
            tprt, icts = want[2], want[3]
            cnt = np.array([[float(icts[i])] for i in range(len(nums))])
            from pygac.calibration.noaa import Calibrator, calibrate_thermal
            with warnings.catch_warnings():
                warnings.simplefilter("ignore")
                b2 = calibrate_thermal(cnt, np.asarray(prt, dtype=float), np.asarray(ict, dtype=float),
                                       np.asarray(space, dtype=float), np.asarray(nums, dtype=nd), chan, Calibrator(sat))
            dev = np.abs(b2[:, 0] - np.array([float(t) for t in tprt]))
            ok_rows = [float(t) for t in tprt]
            if 285 <= min(ok_rows) and max(ok_rows) <= 305:
                worst_anchor = max(worst_anchor, float(np.nanmax(dev)))
                cc = tab[sat]["channel_%s" % {3: "3b", 4: "4", 5: "5"}[chan]]
                exact = all(Fraction(cc[x]) == 0 for x in ("b0", "b1", "b2"))
                lim = 1e-6 if exact else 1.0
                if not np.all(dev < lim):
                    i = int(np.nanargmax(dev))
                    ctx.violation("%s channel %d: scene count = internal-target count reads %.4f K, internal-target temperature "
                                  "%.4f K (limit %g K)" % (sat, chan, b2[i, 0], ok_rows[i], lim), payload, cls="anchor")
            ctx.case((sat, chan, "anchor", k), branch="anchor/ch%d" % chan)
        # (iii) phase freedom: drop the first k lines
        cs = sorted(set([rng.randint(100, 900) for _ in range(6)]))
        full = c05.real_thermal(sat, chan, nums, list(prt), list(ict), list(space), cs, nd)
        for drop in ((1, 2, 3, 4) if nums[-1] - nums[0] + 1 == len(nums) else ()):
            part = c05.real_thermal(sat, chan, nums[drop:], list(prt[drop:]), list(ict[drop:]), list(space[drop:]), cs, nd)
            if part[0] != "ok" or full[0] != "ok":
                ctx.violation("%s channel %d: outcome %s after dropping %d lines" % (sat, chan, part[0], drop), payload, cls="phase-outcome")
                break
            # lines whose 51-line window lies strictly inside BOTH passes (both are longer than 51 lines): a window
            # that contains the first line of the shorter pass sees a different neighbourhood of that line (a reset
            # line there is filled from one side only) - that is missing data, not cycle phase
            N = len(nums)
            a = full[1][drop + 26:N - 25]
            b = part[1][26:N - drop - 25]
            if a.shape[0] == 0:
                continue
            same = np.allclose(np.where(np.isnan(a), 0, a), np.where(np.isnan(b), 0, b), atol=1e-9) and \
                np.array_equal(np.isnan(a), np.isnan(b))
            if not same:
                ctx.violation("%s channel %d: BT outside the edge zone changes when the file starts %d lines later in the PRT cycle" % (
                    sat, chan, drop), dict(payload, drop=drop), cls="phase")
                break
            ctx.case((sat, chan, "phase", k, drop), branch="phase/drop%d" % drop)
        # (iv) pixel locality
        c_a = [500, 300, 700]
        c_b = [500, 900, 100]
        ra = c05.real_thermal(sat, chan, nums, list(prt), list(ict), list(space), c_a, nd)
        rb = c05.real_thermal(sat, chan, nums, list(prt), list(ict), list(space), c_b, nd)
        if ra[0] == "ok" and rb[0] == "ok" and not np.array_equal(np.nan_to_num(ra[1][:, 0]), np.nan_to_num(rb[1][:, 0])):
            ctx.violation("%s channel %d: a pixel's BT depends on the other pixels of its line" % (sat, chan), payload, cls="pixel-local")
        # ... also for counts beyond the space count (non-positive radiance: no temperature), alone and inside a warm scene
        for c0 in (min(1023, max(space) + 8), 1023, rng.randint(200, 800)):
            alone = c05.real_thermal(sat, chan, nums, list(prt), list(ict), list(space), [c0], nd)
            scene = c05.real_thermal(sat, chan, nums, list(prt), list(ict), list(space), [c0, 300, 420, 380], nd)
            if alone[0] == "ok" and scene[0] == "ok" and not np.array_equal(alone[1][:, 0], scene[1][:, 0], equal_nan=True):
                i = int(np.nonzero(~((alone[1][:, 0] == scene[1][:, 0]) | (np.isnan(alone[1][:, 0]) & np.isnan(scene[1][:, 0]))))[0][0])
                ctx.violation("%s channel %d line %d: count %d reads %s K when calibrated alone and %s K inside a warm scene" % (
                    sat, chan, i, c0, alone[1][i, 0], scene[1][i, 0]), dict(payload, count=c0), cls="pixel-local")
                break
            ctx.case((sat, chan, "local", k, c0), branch="pixel-local")
        # model correspondence on a subset of counts (a warm scene with two samples beyond the space count, so that no
        # sample lies just below the space count)
        sub = [200, 300, 380, 420, 500, 640, min(1023, max(space) + 8), 1023]
        bt = c05.real_thermal(sat, chan, nums, list(prt), list(ict), list(space), sub, nd)[1]
        j = lambda xs: ",".join(str(x) for x in xs)
        lines.append("c05 %s %d %s %s %s %s %s" % (sat, chan, j(nums), j(prt), j(ict), j(space), j(sub)))
        pend.append((bt, payload))
    ctx.extra["worst_anchor_residue_K"] = round(worst_anchor, 6)
    ctx.sample({"worst_anchor_residue_K": round(worst_anchor, 6)})
    if not ctx.driver_ok:
        ctx.corr_break("lean driver unavailable: correspondence not run")
        return
    out = Driver(ctx).batch(lines)
    for (got, payload), o in zip(pend, out):
        if not o.startswith("ok"):
            ctx.corr_break("model outcome %s, implementation ok" % o[:30], payload)
            continue
        rows = [[float("nan") if v == "nan" else float(v) for v in r.split(",")] for r in o.split(" | ")[4].split(";")]
        ok, detail = c05.compare_bt(got, rows)
        if not ok:
            ctx.corr_break("model vs implementation: %s (%s ch %d)" % (detail, payload["sat"], payload["chan"]), payload)


def replay(ctx, path):
    with open(path) as fh:
        body = json.load(fh)
    p = body.get("input", {})
    if "prt" not in p:
        print("replay: no concrete pass in the file (%s)" % (p or body.get("broken_theorems_or_obligations")))
        return 1
    nd = (p.get("info") or {}).get("num_dtype")
    got = c05.real_thermal(p["sat"], p["chan"], p["nums"], list(p["prt"]), list(p["ict"]), list(p["space"]), list(range(1024)), nd)
    bad = False
    if got[0] == "ok":
        for row in got[1]:
            fin = row[~np.isnan(row)]
            if len(fin) > 1 and np.any(np.diff(fin) > 1e-9):
                bad = True
        if "drop" in p:
            d = p["drop"]
            cs = [200, 500, 800]
            full = c05.real_thermal(p["sat"], p["chan"], p["nums"], list(p["prt"]), list(p["ict"]), list(p["space"]), cs, nd)
            part = c05.real_thermal(p["sat"], p["chan"], p["nums"][d:], list(p["prt"][d:]), list(p["ict"][d:]), list(p["space"][d:]), cs, nd)
            N = len(p['nums']); a, b = full[1][d + 26:N - 25], part[1][26:N - d - 25]
            bad = bad or not np.allclose(np.nan_to_num(a), np.nan_to_num(b), atol=1e-9)
    else:
        bad = True
    if bad:
        print("REPRODUCED")
        return 1
    print("not reproduced")
    return 0
