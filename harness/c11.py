"""C11 — scan-line-number sanitising only removes records, and only implausible ones."""
import json
import random

import numpy as np

from . import filegen
from .common import Driver

THEOREM_MODULES = ["PygacModel.Theorems.C11"]
RULE = ("line-number sequences (clean, gaps, k in {1,2,49,50,51,..} corrupted entries at deviation 499/500/501/random, "
        "out-of-range, negative (POD), zeros, wrap-around starts, lengths 1..3000 (thorough 15000)) given to the real "
        "correct_scan_line_numbers on tagged records (and through read() on real files); survivors compared with the "
        "Lean model and judged by the property's own clauses. A case = one sequence; non-trivial = at least one record "
        "removed or at least one corrupted entry; distinct by (family, resolution, sequence hash)")
RULE += (" In the thorough tier, and in the quick tier whenever the source differs from the validated baseline, a LONG-PASS stream is added (passes of 1300 .. 12000 lines, just beyond multiples of 256 .. 8192, with the property-relevant event placed at and after such multiples; DESIGN 10.4 round 13).")


def sanitise(fmt, raw16):
    """Run the real sanitising on tagged records. raw16: 16-bit patterns."""
    R = filegen.reader_class(fmt)
    r = R()
    n = len(raw16)
    scans = np.zeros(n, dtype=r.scanline_type)
    scans["scan_line_number"] = np.asarray(raw16, dtype=np.uint16).astype(scans.dtype["scan_line_number"].newbyteorder("=")) \
        if scans.dtype["scan_line_number"].kind == "u" else np.asarray(raw16, dtype=np.uint16).view(np.int16)
    scans["sensor_data"][:, 0] = np.arange(n)
    r.scans = scans
    try:
        r.correct_scan_line_numbers()
    except ValueError as e:
        return None, "ValueError: %s" % e
    except Exception as e:      # noqa - any other exception is judged (sanitising only ever removes records)
        return None, "%s: %s" % (type(e).__name__, e)
    return [(int(a), int(b)) for a, b in zip(r.scans["scan_line_number"], r.scans["sensor_data"][:, 0])], None


def interp_nums(fam, raw16):
    a = np.asarray(raw16, dtype=np.uint16)
    return (a.view(np.int16) if fam == "pod" else a).astype(np.int64)


def is_subsequence(sub, full):
    it = iter(full)
    return all(any(x == y for y in it) for x in sub)


def gen_sequence(rng, fam, res, thorough):
    """Returns (raw16 list, info) where info describes how it was built."""
    maxl = 15000 if res == "gac" else 65535
    kind = rng.choice(["clean", "gaps", "corrupt", "corrupt", "corrupt", "corrupt-many", "garbage", "wrap", "late-start",
                       "zeros", "first-corrupt", "top-of-range", "top-of-range", "out-of-range", "out-of-range"])
    # the model's median is a (kernel-evaluable) insertion sort, quadratic in the length: long sequences are rare
    n = rng.choice([1, 2, 3, 7, 60, 120, 400, 1500] * 3 + ([3000, 3000, 9000, 14000] if thorough else []))
    hi = min(maxl - 1, 32767 if fam == "pod" else 65535)
    n = min(n, hi - 2)
    n0 = rng.choice([1, 1, 1, 2, 5, 100, rng.randint(1, max(1, hi - n - 1))])
    if fam == "klm" and rng.random() < 0.2:
        n0 = 0
    n0 = min(n0, hi - n)
    if fam == "klm" and res == "lac" and n > 3 and rng.random() < 0.25:
        # the unsigned KLM field across 32767 -> 32768 (where a signed 16-bit view changes sign), few lines on one side
        side = rng.choice([1, 2, 30, 49]) if rng.random() < 0.7 else rng.randint(1, n - 1)
        side = min(side, n - 1)
        n0 = 32768 - side if rng.random() < 0.5 else 32768 - (n - side)
        if kind not in ("clean", "corrupt", "first-corrupt"):
            kind = rng.choice(["clean", "corrupt"])
    top = kind == "top-of-range"
    if top:
        # the pass ends exactly at the largest number the format admits (maxl-1, or the field's maximum)
        n0 = hi - n + 1 - rng.choice([0, 0, 1])
        kind = rng.choice(["clean", "corrupt"])
    nums = [n0 + i for i in range(n)]
    info = {"kind": kind, "top": top, "n": n, "n0": n0, "corrupted": [], "exact_clause": False}
    if kind == "gaps":
        out, cur = [], n0
        for i in range(n):
            out.append(cur)
            cur += 1 + (rng.randint(1, 40) if rng.random() < 0.05 else 0)
            if cur > hi:
                break
        nums = out
        info["n"] = len(nums)
    elif kind in ("corrupt", "first-corrupt"):
        k = rng.choice([1, 2, 3, 10, 49, 50, 51]) if n > 110 else rng.choice([1, 2, 3])
        k = min(k, (n - 1) // 2) if n > 2 else 0
        idx = rng.sample(range(1, n), k) if k and n > 1 else []
        if kind == "first-corrupt" and n > 2:
            idx = [0] + idx[: max(0, k - 1)]
        for i in idx:
            exp = n0 + i
            dev = rng.choice([499, 500, 501, -499, -500, -501, rng.randint(-3000, 3000), rng.randint(1, 400), 1, -1])
            v = exp + dev
            lo_allowed = n0 if fam == "pod" else 0
            if v < lo_allowed or v > hi:
                v = exp + abs(dev) if exp + abs(dev) <= hi else exp
            nums[i] = v
        info["corrupted"] = sorted(i for i in idx if nums[i] != n0 + i)
        kk = len(info["corrupted"])
        info["exact_clause"] = kk < 50 and 2 * kk < n
    elif kind == "out-of-range":
        # a few records carry numbers outside the valid range, close to (within 500 of) the expected number where the
        # field allows it: negative / zero for the signed POD field, >= max for either family
        cands = [-1, -2, -3, -40, -150, -498, -32768, 0] if fam == "pod" else [maxl, maxl + 1, 65535]
        if res == "gac":
            cands += [15000, 15001, 15400, 20000, 32767]
        for i in rng.sample(range(1, n), min((n - 1) // 4, rng.choice([1, 2, 4]))) if n > 4 else []:
            nums[i] = rng.choice(cands)
        info["corrupted"] = [i for i in range(n) if nums[i] != n0 + i]
        info["majority_intact"] = 4 * len(info["corrupted"]) < n
    elif kind == "corrupt-many":
        k = min(n // 3, rng.choice([60, 100, 300]))
        for i in rng.sample(range(n), k):
            nums[i] = max(0, min(hi, nums[i] + rng.choice([-1, 1]) * rng.randint(1, 2000)))
        info["corrupted"] = [i for i in range(n) if nums[i] != n0 + i]
    elif kind == "garbage":
        raw = [rng.getrandbits(16) if rng.random() < 0.1 else (x & 0xFFFF) for x in nums]
        return raw, info
    elif kind == "wrap" and n > 4:
        c = rng.randint(1, n - 1)
        nums = nums[c:] + nums[:c]
    elif kind == "late-start" and n > 4:
        c = rng.randint(1, min(n - 1, 30))
        junk = [rng.randint(n0 + 1, hi) for _ in range(c)]
        nums = junk + nums
    elif kind == "zeros":
        for i in rng.sample(range(n), min(n, 3)):
            nums[i] = 0
    return [x & 0xFFFF for x in nums], info


def judge(ctx, fmt, raw, info, surv, err):
    fam = filegen.FMT[fmt]["family"]
    res = filegen.FMT[fmt]["res"]
    maxl = filegen.FMT[fmt]["maxlines"]
    nums = interp_nums(fam, raw).tolist()
    inp = list(zip(nums, range(len(nums))))
    payload = {"fmt": fmt, "raw": raw if len(raw) <= 400 else None, "info": info, "nums_head": nums[:12]}
    if err is not None:
        # the only documented way out is an empty result of the common step (POD amin of an empty array)
        in_range = [x for x in nums if 0 <= x < maxl]
        # when every record is implausible (all deviate by more than the threshold from the median offset) nothing is
        # left and numpy's amin raises: the property is silent there. It does speak when records must be kept.
        must_keep = info["kind"] == "clean" or info.get("exact_clause") or info.get("majority_intact")
        if not err.startswith("ValueError"):
            ctx.violation("%s: sanitising raised %s on %s..." % (fmt, err, nums[:8]), payload, cls="raises-other:%s" % fam)
            return
        if not must_keep:
            ctx.branches["raises-on-all-implausible(no verdict)"] += 1
        if in_range and must_keep:
            ctx.violation("%s: sanitising raised %s on %s..." % (fmt, err, nums[:8]), payload, cls="raises:%s" % fam)
        return
    # (a) only removal, order kept (POD: up to one rotation)
    ok = is_subsequence(surv, inp)
    if not ok and fam == "pod":
        ok = any(is_subsequence(surv, inp[k:] + inp[:k]) for k in range(1, len(inp)))
    if not ok:
        ctx.violation("%s: survivors are not the file's records in order (%s... from %s...)" % (fmt, surv[:6], nums[:8]),
                      payload, cls="not-sublist:%s" % fam)
    # (b) range
    lo = 1 if fam == "pod" else 0
    bad = [s for s in surv if not (lo <= s[0] <= maxl - 1)]
    if bad:
        ctx.violation("%s: surviving number %d outside %d..%d" % (fmt, bad[0][0], lo, maxl - 1), payload, cls="range:%s" % fam)
    # (c)/(d) gap-free passes and the exactly-500 clause
    if info["kind"] in ("clean", "corrupt", "first-corrupt") and (info["kind"] == "clean" or info["exact_clause"]):
        n0 = info["n0"]
        if not (fam == "pod" and n0 < 1):
            want = [(v, i) for i, v in enumerate(nums) if abs(v - (n0 + i)) <= 500]
            # POD: the survivors may be rotated so that the lowest number comes first (the property says so)
            rotated = fam == "pod" and len(surv) == len(want) and any(surv == want[k:] + want[:k] for k in range(1, len(want)))
            if surv != want and not rotated:
                extra = sorted(set(want) - set(surv))
                missing = sorted(set(surv) - set(want))
                # the listed finding: POD's leading-line step drops every record stored before the one that holds the
                # lowest number - here: all wrongly removed records form that leading block, nothing else is wrong
                lowest = min(want)[1] if want else 0
                first_case = (fam == "pod" and bool(extra) and not missing and all(e[1] < lowest for e in extra)
                              and surv == [w for w in want if w[1] >= lowest])
                what = "%s: %s pass n0=%d len=%d, %d corrupted: " % (fmt, info["kind"], n0, len(nums), len(info["corrupted"]))
                if extra:
                    what += "record %d (number %d, expected %d, deviation %d <= 500) was removed" % (
                        extra[0][1], extra[0][0], n0 + extra[0][1], abs(extra[0][0] - n0 - extra[0][1]))
                elif missing:
                    what += "record %d (number %d, deviation %d > 500) was kept" % (
                        missing[0][1], missing[0][0], abs(missing[0][0] - n0 - missing[0][1]))
                else:
                    what += "the expected records survive, but not once each in the file's order (%s.. instead of %s..)" % (
                        surv[:5], want[:5])
                ctx.violation(what, payload, cls=("exact500:pod-first-record" if first_case else "exact500:%s" % fam))


def run_seq(ctx, fmt, raw, info, drv):
    fam = filegen.FMT[fmt]["family"]
    surv, err = sanitise(fmt, raw)
    judge(ctx, fmt, raw, info, surv, err)
    nums = interp_nums(fam, raw).tolist()
    drv.append(("c11 %s %d %s" % (fam, filegen.FMT[fmt]["maxlines"], ",".join(map(str, nums)) if nums else "_"),
                (fmt, info, None if surv is None else [t for _, t in surv])))
    removed = (len(raw) - len(surv)) if surv is not None else -1
    ctx.case((fmt, hash(tuple(raw))), nontrivial=bool(removed or info.get("corrupted")), branch=info["kind"] + ("@top-of-range" if info.get("top") else ""))


def named_cases():
    c = []
    base = list(range(1, 121))
    for fam_fmt in ("klmGac", "podGac", "klmLac", "podLac"):
        for dev in (499, 500, 501):
            x = list(base); x[60] += dev
            c.append((fam_fmt, x, {"kind": "corrupt", "n": 120, "n0": 1, "corrupted": [60], "exact_clause": True}))
            y = [v + 600 for v in base]; y[30] -= dev
            c.append((fam_fmt, y, {"kind": "corrupt", "n": 120, "n0": 601, "corrupted": [30], "exact_clause": fam_fmt.startswith("klm") or False}))
        c.append((fam_fmt, base, {"kind": "clean", "n": 120, "n0": 1, "corrupted": [], "exact_clause": True}))
        c.append((fam_fmt, [7], {"kind": "clean", "n": 1, "n0": 7, "corrupted": [], "exact_clause": True}))
        c.append((fam_fmt, base[50:] + base[:50], {"kind": "wrap", "n": 120, "n0": 1, "corrupted": []}))
        # a wrapped pass (first number = last + 1) in which two neighbouring records are stored in the wrong order, and a
        # very short one: the survivors keep FILE order, rotated so that the lowest number comes first - they are not sorted
        w = base[50:] + base[:50]
        w[10], w[11] = w[11], w[10]
        c.append((fam_fmt, w, {"kind": "wrap", "n": 120, "n0": 1, "corrupted": []}))
        w2 = base[50:] + base[:50]
        w2[80], w2[81] = w2[81], w2[80]
        c.append((fam_fmt, w2, {"kind": "wrap", "n": 120, "n0": 1, "corrupted": []}))
        c.append((fam_fmt, [4, 2, 9, 3], {"kind": "wrap", "n": 4, "n0": 2, "corrupted": []}))
        # ... and wrapped passes that also hold records numbered 0 (never a valid number for POD): they go, nothing else does
        for zpos in ([20], [90], [5, 100]):
            w3 = base[50:] + base[:50]
            for z in zpos:
                w3[z] = 0
            c.append((fam_fmt, w3, {"kind": "wrap", "n": 120, "n0": 1, "corrupted": list(zpos)}))
        c.append((fam_fmt, [0xFFFF, 0x8001] + base, {"kind": "garbage", "n": 122, "n0": 1, "corrupted": []}))
        z = list(base); z[0] = 301
        c.append((fam_fmt, z, {"kind": "first-corrupt", "n": 120, "n0": 1, "corrupted": [0], "exact_clause": True}))
    return c


def run(ctx):
    drv = []
    for fmt, nums, info in named_cases():
        run_seq(ctx, fmt, [x & 0xFFFF for x in nums], dict(info, exact_clause=info.get("exact_clause", False)), drv)
    if ctx.thorough or getattr(ctx, "escalated", False):
        # LONG full-resolution passes (4400 records, 70 MB of records): one record removed early, nothing to remove later on
        for fmt_ in ("klmLac", "podLac"):
            big = list(range(1, 4401))
            big[100] += 5000
            big[200] += 300
            run_seq(ctx, fmt_, [x & 0xFFFF for x in big], {"kind": "corrupt", "n": 4400, "n0": 1, "corrupted": [100], "exact_clause": True}, drv)
    nrand = ctx.n(160, 700)
    for i in range(nrand):
        fmt = ("klmGac", "podGac", "klmLac", "podLac")[i % 4]
        f = filegen.FMT[fmt]
        raw, info = gen_sequence(ctx.rng, f["family"], f["res"], ctx.thorough)
        run_seq(ctx, fmt, raw, info, drv)
        if i < 4:
            ctx.sample({"fmt": fmt, "info": {k: v for k, v in info.items() if k != "corrupted"}, "raw_head": raw[:10]})
    # glue: the same through read() on real files
    for k, fmt in enumerate(("klmGac", "podGac")):
        n = 40
        pb = filegen.PassBuilder(ctx, fmt, n, random.Random(repr((ctx.seed, fmt, "c11"))))
        ln = np.arange(1, n + 1)
        ln[10] = 2000
        ln[20] = 14999 + 1 if fmt == "klmGac" else -3
        pb.line_numbers = ln
        pb.overrides["scan_line_number"] = ln
        r = filegen.make_reader(ctx, fmt, data=pb.tobytes(), name=pb.dsname)
        got = r.scans["scan_line_number"].tolist()
        want = [int(x) for i, x in enumerate(ln) if i not in (10, 20)]
        if got != want:
            ctx.violation("%s: read() keeps numbers %s..., expected %s..." % (fmt, got[:12], want[:12]),
                          {"fmt": fmt, "file": True}, cls="read-glue:%s" % fmt)
        ctx.case((fmt, "file"), True, branch="file")
    # ... and full-resolution files of every transfer mode the LAC readers accept (LHRR / HRPT / FRAC, with the data type
    # code real files of that mode carry: 1 / 3 / 13), numbered from anywhere in the admitted range: a gap-free pass is kept whole
    for k in range(ctx.n(6, 24)):
        rng = ctx.rng
        fmt = rng.choice(["klmLac", "klmLac", "podLac"])
        mode, code = rng.choice([("LHRR", 1), ("HRPT", 3), ("FRAC", 13)] if fmt == "klmLac" else [("LHRR", 1), ("HRPT", 3)])
        n = 30
        top = 65534 if fmt == "klmLac" else 32767
        n0 = rng.choice([1, 14980, 15000, 20000, top - 2000, top - n + 1])
        ln = np.arange(n0, n0 + n)
        pb = filegen.PassBuilder(ctx, fmt, n, random.Random(repr((ctx.seed, fmt, "c11lac", k))), line_numbers=ln)
        pb.mode = mode
        pb.header_overrides["data_type_code"] = code
        r = filegen.make_reader(ctx, fmt, data=pb.tobytes(), name=pb.dsname)
        got = [int(x) for x in r.scans["scan_line_number"]]
        if got != ln.tolist():
            ctx.violation("%s file of transfer mode %s (data type code %d), gap-free lines %d..%d: read() keeps %d of %d records (%s...)" % (
                fmt, mode, code, n0, n0 + n - 1, len(got), n, got[:5]), {"fmt": fmt, "file": True, "mode": mode, "code": code, "n0": n0},
                cls="read-glue:%s:%s" % (fmt, mode))
        ctx.case((fmt, "file", mode, n0), True, branch="file/%s/%s" % (fmt, mode))
    if not ctx.driver_ok:
        ctx.corr_break("lean driver unavailable: correspondence not run")
        return
    out = Driver(ctx).batch([d[0] for d in drv])
    for (cmd, (fmt, info, tags)), o in zip(drv, out):
        m = None if o.strip() == "E" else ([int(x) for x in o.split(",")] if o.strip() else [])
        if m != tags:
            ctx.corr_break("%s %s: model keeps %s..., implementation %s..." % (
                fmt, info["kind"], None if m is None else m[:10], None if tags is None else tags[:10]),
                {"cmd": cmd[:400]})
    ctx.assumptions += ["the statistical threshold (>= 50 deviating lines) is evaluated exactly in the model and in float64 by the code; exact ties are not generated",
                        "sequences are given to correct_scan_line_numbers on in-memory tagged records; two real files exercise the read() glue"]


def replay(ctx, path):
    with open(path) as fh:
        body = json.load(fh)
    inp = body.get("input", {})
    if not inp.get("raw"):
        print("replay file carries no sequence: %s" % (body.get("broken_theorems_or_obligations") or inp))
        return 1
    surv, err = sanitise(inp["fmt"], inp["raw"])
    judge(ctx, inp["fmt"], inp["raw"], inp["info"], surv, err)
    if ctx.input_violations:
        print("REPRODUCED: " + ctx.input_violations[0]["what"])
        return 1
    print("not reproduced")
    return 0
