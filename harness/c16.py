"""C16 — calibration coefficients are a pure function of spacecraft, overrides and file."""
import copy
import datetime as dt
import json
import os
import warnings

import numpy as np

from .common import Driver

THEOREM_MODULES = ["PygacModel.Theorems.C16"]
RULE = ("histories of coefficient requests mixing all spacecraft of the shipped file, three files (shipped, byte-identical "
        "copy, two differently perturbed copies) and custom overrides of 0-3 top-level keys; every result (all namedtuple fields, version) "
        "compared with the pure function of (spacecraft, custom, file content) and with the Lean model's source map; the "
        "class-level defaults are compared with the file after every history. A case = one request in a history; "
        "non-trivial = the request differs from the previous one in file, spacecraft or custom set; distinct by "
        "(history index, position). READER ROUTES: small passes of the four reader classes calibrated with the custom set and the file "
        "named through every option route (calibration_parameters with one or both entries, the legacy keywords alone and together, empty "
        "custom sets); the coefficient object built by the calibration is captured and compared with the pure function. MISSING SPACECRAFT: "
        "for each spacecraft a user file lacking it; requests around a request for the missing one are compared with the pure function")

VIS = ("channel_1", "channel_2", "channel_3a")
IR = ("channel_3b", "channel_4", "channel_5")


def materialise(coeffs, sat, version):
    """Independent transposition of a merged coefficient dict into the calibrator's fields."""
    out = {}
    for key in ("dark_count", "gain_switch", "s0", "s1", "s2"):
        out[key] = np.array([coeffs[c][key] for c in VIS], dtype=float)
    for key in ("centroid_wavenumber", "space_radiance", "to_eff_blackbody_intercept", "to_eff_blackbody_slope"):
        out[key] = np.array([coeffs[c][key] for c in IR], dtype=float)
    out["b"] = np.array([[coeffs[c][k] for k in ("b0", "b1", "b2")] for c in IR], dtype=float)
    out["d"] = np.array([[coeffs.get("thermometer_%d" % t, {}).get("d%d" % d, 0.0) for t in range(5)] for d in range(5)], dtype=float)
    s = coeffs["date_of_launch"].replace("Z", "+00:00")
    out["date_of_launch"] = dt.datetime.fromisoformat(s).astimezone(dt.timezone.utc).replace(tzinfo=None)
    out["spacecraft"] = sat
    out["version"] = version
    return out


def same(a, b):
    if isinstance(a, np.ndarray) or isinstance(b, np.ndarray):
        return np.array_equal(np.asarray(a, dtype=float), np.asarray(b, dtype=float), equal_nan=True)
    return a == b


def perturb(v, rng):
    if isinstance(v, dict):
        return {k: perturb(x, rng) for k, x in v.items()}
    if isinstance(v, (int, float)) and v is not None:
        return round(v * rng.choice([1.5, 0.5, 2.0]) + rng.choice([0.125, 1.0]), 6)
    if isinstance(v, str) and "T" in v and v[:2] in ("19", "20"):
        w = v[:2] + ("%02d" % ((int(v[2:4]) + 1) % 100)) + v[4:]
        # ISO 8601 allows a numeric UTC offset instead of "Z": the launch date is the INSTANT, not the wall-clock digits
        if w.endswith("Z") and rng.random() < 0.5:
            w = w[:-1] + rng.choice(["+02:00", "-05:30", "+00:00", "+13:45"])
        return w
    return v


def missing_spacecraft_cases(ctx, tables, d, sats):
    """A user file that lacks ONE spacecraft (files derived from older coefficient releases predate the later launches): a request
    for the missing spacecraft - whatever it does, on this tree it raises KeyError - must leave no trace: the following requests
    with the SAME file are still the pure function of that file's content, the following default requests the shipped set."""
    from pygac.calibration.noaa import Calibrator
    rng = ctx.rng
    for k, miss in enumerate(sats):
        part = {s_: copy.deepcopy(v) for s_, v in tables[2].items() if s_ != miss}
        pm = os.path.join(d, "partial_%d.json" % k)
        with open(pm, "w") as fh:
            json.dump(part, fh)
        others = [s_ for s_ in sats if s_ != miss]
        a, b = rng.sample(others, 2)
        if k % 3 == 0:
            Calibrator.default_coeffs, Calibrator.default_file, Calibrator.default_version = None, None, None
        seq = [(a, pm), (miss, pm), (b, pm), (a, pm), (miss, None), (b, None)] if k % 2 == 0 else [(miss, pm), (a, pm), (a, None)]
        payload = {"stream": "missing-spacecraft", "missing": miss, "sequence": [(x, "partial" if y else "shipped") for x, y in seq]}
        for i, (sat, path) in enumerate(seq):
            with warnings.catch_warnings():
                warnings.simplefilter("ignore")
                try:
                    cal = Calibrator(sat, coeffs_file=path)
                except Exception as e:
                    if sat == miss and path is not None:
                        ctx.branches["missing-spacecraft/raises:%s" % type(e).__name__] += 1
                        continue
                    ctx.violation("request %d (%s, %s file) after a request for a spacecraft the file lacks raised %s: %s" % (
                        i, sat, "partial" if path else "shipped", type(e).__name__, e), payload, cls="missing-spacecraft:raises")
                    continue
            if sat == miss and path is not None:
                continue      # an answer for the missing spacecraft is not judged here, only what follows
            src = part if path else tables[0]
            want = materialise(dict(src[sat]), sat, None if path else "PATMOS-x, v2023")
            bad = [fld for fld in want if not same(getattr(cal, fld), want[fld])]
            if bad:
                ctx.violation("file without %s: request %d = (%s, %s file) differs from the pure function of (spacecraft, file content) in %s "
                              "after the file was asked for the spacecraft it lacks" % (miss, i, sat, "that" if path else "shipped", bad),
                              payload, cls="missing-spacecraft:impure")
            ctx.case(("missing-spacecraft", miss, i), nontrivial=True, branch="missing-spacecraft/request")
        os.remove(pm)


def reader_routes(ctx, tables, paths, versions, cur3, p3):
    """The coefficients USED by a reader: every way the reader options name a custom set and a coefficient file (the
    `calibration_parameters` dictionary with one or both entries, the legacy keywords `custom_calibration` /
    `calibration_file` alone and together) must hand the calibration exactly (spacecraft, custom, file); the coefficient
    object the calibration builds is captured and compared with the pure function."""
    import io
    import random
    from pygac.calibration import noaa
    from . import filegen
    rng = ctx.rng
    real = noaa.Calibrator
    built = {}
    route_lines = []
    for k in range(ctx.n(24, 160)):
        fmt = ["klmGac", "podGac", "klmLac", "podLac"][k % 4 if k % 8 < 6 else 0]
        route = ["params-both", "legacy-both", "legacy-custom", "legacy-file", "params-file", "params-custom", "legacy-both-empty",
                 "params-both-empty"][k % 8]
        # the file's spacecraft rotates over every spacecraft of the family; its NAME is taken from the user's-guide id table
        # (filegen.PLATFORMS), not from the reader's
        fam = filegen.FMT[fmt]["family"]
        kp = (k // 4) % len(filegen.PLATFORMS[fam])
        if (fmt, kp) not in built:
            pb, sat_name = filegen.platform_pass(ctx, fmt, 7, random.Random(repr(("c16r", fmt, kp))), kp)
            built[(fmt, kp)] = (pb.tobytes(), pb.dsname, sat_name)
        data, name, sat = built[(fmt, kp)]
        f = rng.choice([1, 2, 3])
        if paths[f] == p3:
            f = cur3
        if route in ("legacy-custom", "params-custom"):
            f = 0
        keys = sorted(tables[f][sat])
        custom = {}
        if route not in ("legacy-file", "params-file", "legacy-both-empty", "params-both-empty"):
            for key in rng.sample(keys, rng.choice([1, 2])):
                custom[key] = perturb(copy.deepcopy(tables[f][sat][key]), rng)
        kw = {"params-both": dict(calibration_parameters=dict(custom_coeffs=copy.deepcopy(custom), coeffs_file=paths[f])),
              "params-both-empty": dict(calibration_parameters=dict(custom_coeffs={}, coeffs_file=paths[f])),
              "params-file": dict(calibration_parameters=dict(coeffs_file=paths[f])),
              "params-custom": dict(calibration_parameters=dict(custom_coeffs=copy.deepcopy(custom))),
              "legacy-both": dict(custom_calibration=copy.deepcopy(custom), calibration_file=paths[f]),
              "legacy-both-empty": dict(custom_calibration={}, calibration_file=paths[f]),
              "legacy-custom": dict(custom_calibration=copy.deepcopy(custom)),
              "legacy-file": dict(calibration_file=paths[f])}[route]
        got, args = [], []

        class _Spy:
            def __call__(self, *a, **kws):
                c = real(*a, **kws)
                got.append(c)
                args.append((kws.get("custom_coeffs", a[1] if len(a) > 1 else None), kws.get("coeffs_file", a[2] if len(a) > 2 else None)))
                return c

            def __getattr__(self, nm):
                return getattr(real, nm)
        spy = _Spy()
        payload = {"route": route, "fmt": fmt, "file": f, "custom_keys": sorted(custom), "spacecraft": sat}
        noaa.Calibrator = spy
        try:
            with warnings.catch_warnings():
                warnings.simplefilter("ignore")
                r = filegen.make_reader(ctx, fmt, data=data, name=name, **kw)
                ds = r.get_calibrated_dataset()
        except Exception as e:
            ctx.violation("reader options %s (%s, file %d, custom %s): calibration raised %s: %s" % (route, fmt, f, sorted(custom), type(e).__name__, e),
                          payload, cls="reader-route:raises:%s" % type(e).__name__)
            continue
        finally:
            noaa.Calibrator = real
        merged = dict(tables[f][sat])
        merged.update(custom)
        want = materialise(merged, sat, None if custom else versions[f])
        if len(got) != 1:
            ctx.violation("reader options %s: the calibration built %d coefficient objects" % (route, len(got)), payload, cls="reader-route:count")
            continue
        bad = [fld for fld in want if not same(getattr(got[0], fld), want[fld])]
        if not bad and ds.attrs.get("calib_coeffs_version") != want["version"]:
            bad = ["calib_coeffs_version attribute"]
        if bad:
            ctx.violation("reader built with %s (%s, %s, file %d, custom keys %s): the coefficients used differ from the pure function of "
                          "(spacecraft, custom, file content) in %s" % (route, fmt, sat, f, sorted(custom), bad), payload,
                          cls="reader-route:%s" % route)
        ctx.case(("reader-route", k), nontrivial=True, branch="reader-route/" + route)
        # the model's option plumbing (`readerOpts` / `readerReq`) on the same route
        ct = "c" if custom else ("e" if route.endswith("-empty") else "_")
        ft = "_" if route in ("legacy-custom", "params-custom") else str(f)
        line = "c16route %s" % (" ".join(["P", ct, ft, "_", "_"]) if route.startswith("params") else " ".join(["N", "_", "_", ct, ft]))
        ic, ifile = args[0]
        impl = "%s %s" % ("_" if ic is None else ("c" if ic else "e"), "_" if ifile is None else (str(f) if ifile == paths[f] else "?"))
        route_lines.append((line, impl, payload))
    if ctx.driver_ok and route_lines:
        outs = Driver(ctx).batch([x[0] for x in route_lines])
        for (line, impl, payload), o in zip(route_lines, outs):
            if " ".join(o.split()[:2]) != impl:
                ctx.corr_break("reader options %s: the model hands the calibrator (custom, file) = %s, the implementation %s" % (
                    payload["route"], " ".join(o.split()[:2]), impl))


def run(ctx):
    from importlib.resources import files
    from pygac.calibration.noaa import Calibrator
    rng = ctx.rng
    shipped_path = str(files("pygac") / "data/calibration.json")
    with open(shipped_path, "rb") as fh:
        content = fh.read()
    table0 = json.loads(content)
    d = os.path.join(ctx.scratch, "c16")
    os.makedirs(d, exist_ok=True)
    p1 = os.path.join(d, "copy.json")
    with open(p1, "wb") as fh:
        fh.write(content)
    table2 = perturb(copy.deepcopy(table0), rng)
    p2 = os.path.join(d, "perturbed.json")
    with open(p2, "w") as fh:
        json.dump(table2, fh)
    # a second unrecognised file with other content (both have no version name)
    table3 = perturb(perturb(copy.deepcopy(table0), rng), rng)
    p3 = os.path.join(d, "perturbed2.json")
    with open(p3, "w") as fh:
        json.dump(table3, fh)
    tables = {0: table0, 1: json.loads(content), 2: table2, 3: table3}
    paths = {0: None, 1: p1, 2: p2, 3: p3}
    known = Calibrator.version_hashs.get(__import__("hashlib").md5(content).hexdigest(), {}).get("name")
    versions = {0: known, 1: known, 2: None, 3: None}
    if known != "PATMOS-x, v2023":
        ctx.violation("the shipped coefficient file is not recognised as 'PATMOS-x, v2023' (version %r)" % (known,), {}, cls="version-shipped")
    sats = sorted(s for s in table0 if isinstance(table0[s], dict) and "channel_1" in table0[s])
    # completeness of the shipped file, read STRICTLY (a key written twice counts as an error, not as "the last one wins"):
    # every spacecraft either reader family can report has every channel coefficient, the launch date, and four
    # thermometers with five coefficients each
    dups = []

    def _pairs(pairs):
        seen = {}
        for k_, v_ in pairs:
            if k_ in seen:
                dups.append(k_)
            seen[k_] = v_
        return seen
    strict = json.loads(content, object_pairs_hook=_pairs)
    if dups:
        ctx.violation("the shipped coefficient file writes key(s) %s twice inside one object: the parser keeps the last one and "
                      "drops the other silently" % sorted(set(dups)), {"duplicate_keys": sorted(set(dups))}, cls="shipped-file:duplicate-key")
    from pygac.klm_reader import KLMReader
    from pygac.pod_reader import PODReader
    need = (["channel_%s.%s" % (c_, k_) for c_ in ("1", "2", "3a") for k_ in ("dark_count", "gain_switch", "s0", "s1", "s2")] +
            ["channel_%s.%s" % (c_, k_) for c_ in ("3b", "4", "5") for k_ in ("centroid_wavenumber", "space_radiance",
                                                                             "to_eff_blackbody_intercept", "to_eff_blackbody_slope", "b0", "b1", "b2")] +
            ["thermometer_%d.d%d" % (t_, d_) for t_ in (1, 2, 3, 4) for d_ in range(5)] + ["date_of_launch"])
    for nm in sorted(set(KLMReader.spacecraft_names.values()) | set(PODReader.spacecraft_names.values())):
        ent = strict.get(nm)
        missing = [k_ for k_ in need if ent is None or (k_.split(".")[0] not in ent) or
                   ("." in k_ and k_.split(".")[1] not in ent[k_.split(".")[0]])]
        if missing:
            ctx.violation("shipped coefficient set of %s is incomplete: %s missing" % (nm, missing[:6]),
                          {"spacecraft": nm, "missing": missing}, cls="shipped-file:incomplete")
        ctx.case(("complete", nm), nontrivial=True, branch="shipped-file/complete-set")
    # the second unrecognised file is REWRITTEN now and then while another file is the current one; every content it has
    # had is a file id of its own for the expectation and the model (ids 3, 4, 5, ... all live at path p3)
    state3 = {"cur": 3, "next": 4}
    saved = (Calibrator.default_coeffs, Calibrator.default_file, Calibrator.default_version)
    drv = []
    nhist = ctx.n(60, 4000)
    try:
        for h in range(nhist):
            length = rng.choice([1, 2, 3, 5, 8, 12])
            # fresh process state for some histories, inherited state for the others
            if h % 3 == 0:
                Calibrator.default_coeffs, Calibrator.default_file, Calibrator.default_version = None, None, None
                carried = False
            else:
                carried = True
            reqs = []
            prev = None
            cur3_at_start = state3["cur"]
            hist_payload = []
            focus_sat = rng.choice(sats)
            # some histories pass ONE custom dict object to several requests (a settings dict reused for every file of a batch)
            shared = None
            if h % 3 == 1 and length > 1:
                common = sorted(set.intersection(*[set(tables[0][s_]) for s_ in sats]))
                sk = rng.sample(common, rng.choice([1, 2]))
                shared = {k_: perturb(copy.deepcopy(tables[0][focus_sat][k_]), rng) for k_ in sk}
            live_shared = copy.deepcopy(shared)
            for i in range(length):
                sat = focus_sat if rng.random() < 0.6 else rng.choice(sats)
                rewrite_to = None
                if prev is not None and paths[prev[1]] != p3 and rng.random() < 0.25:
                    # ids stay single digits (3..9, round robin, never the one in use): the source labels are one character
                    rewrite_to = 3 + (state3["next"] - 3) % 7
                    if rewrite_to == state3["cur"]:
                        state3["next"] += 1
                        rewrite_to = 3 + (state3["next"] - 3) % 7
                    state3["next"] += 1
                    if rng.random() < 0.3:
                        tables[rewrite_to], versions[rewrite_to] = json.loads(content), known      # now a copy of the shipped file
                    else:
                        tables[rewrite_to], versions[rewrite_to] = perturb(copy.deepcopy(tables[rng.choice([0, 2, state3["cur"]])]), rng), None
                    paths[rewrite_to] = p3
                    state3["cur"] = rewrite_to
                f = rng.choice([0, 0, 1, 2, 3, 3]) if rng.random() < 0.5 and prev else (prev[1] if prev else rng.choice([0, 1, 2, 3]))
                if paths[f] == p3:
                    f = state3["cur"]
                keys = list(tables[f][sat].keys())
                nc = rng.choice([0, 0, 1, 2, 3])
                ck = sorted(rng.sample(range(len(keys)), min(nc, len(keys))))
                custom = {keys[k]: perturb(copy.deepcopy(tables[f][sat][keys[k]]), rng) for k in ck}
                # a custom entry REPLACES the entry it names: a thermometer given with fewer terms than the shipped one
                # (legitimate: the calibrator reads missing terms as 0) must not inherit the shipped higher-order terms
                thermo = [k for k in tables[f][sat] if k.startswith("thermometer_")]
                if thermo and rng.random() < 0.35:
                    tk = rng.choice(thermo)
                    full = perturb(copy.deepcopy(tables[f][sat][tk]), rng)
                    keep = sorted(rng.sample(sorted(full), rng.randint(1, max(1, len(full) - 1))))
                    custom[tk] = {k2: full[k2] for k2 in keep}
                    ck = sorted(set(ck) | {keys.index(tk)})
                # an EMPTY thermometer entry is a legal override, too (the calibrator reads every missing term as 0): the named
                # entry is replaced by it - all-zero column - and the set is a custom one (no version)
                if thermo and rng.random() < 0.15:
                    tk = rng.choice(thermo)
                    custom[tk] = {}
                    ck = sorted(set(ck) | {keys.index(tk)})
                # a custom top-level entry that the file's entry for this spacecraft does NOT have (the shipped sets list no
                # `thermometer_0`; the calibrator reads it when given): it must be taken, not dropped
                if rng.random() < 0.2 and "thermometer_0" not in tables[f][sat]:
                    custom["thermometer_0"] = {"d0": round(rng.uniform(1, 300), 3), "d1": round(rng.uniform(0.01, 1), 4)}
                    ck = sorted(set(ck) | {len(keys)})      # for the model: one more key, beyond the file's own
                if shared is not None and rng.random() < 0.7:
                    if rng.random() < 0.5:
                        # the caller EDITS that one dict object in place between two requests (a sensitivity study tweaking one
                        # coefficient, adding or removing an entry): the next request must see the edited content
                        k_ = rng.choice(sorted(shared))
                        if len(shared) > 1 and rng.random() < 0.3:
                            del shared[k_]
                        else:
                            shared[k_] = perturb(copy.deepcopy(shared[k_]), rng)
                    custom = copy.deepcopy(shared)
                    ck = sorted(keys.index(k_) for k_ in shared)
                    reqs.append((sat, f, keys, ck, custom, True, rewrite_to))
                else:
                    reqs.append((sat, f, keys, ck, custom, False, rewrite_to))
                hist_payload.append({"sat": sat, "file": f, "custom_keys": sorted(custom), "path3_rewritten_before": rewrite_to})
                prev = (sat, f)
            tokens = []
            for i, (sat, f, keys, ck, custom, use_shared, rewrite_to) in enumerate(reqs):
                if rewrite_to is not None:
                    with open(p3, "wb") as fh3:
                        fh3.write(content if versions[rewrite_to] is not None else json.dumps(tables[rewrite_to]).encode())
                if use_shared:
                    # same object, new content (edited in place)
                    live_shared.clear()
                    live_shared.update(copy.deepcopy(custom))
                with warnings.catch_warnings():
                    warnings.simplefilter("ignore")
                    try:
                        cal = Calibrator(sat, custom_coeffs=(live_shared if use_shared else (copy.deepcopy(custom) or None)),
                                         coeffs_file=paths[f])
                    except Exception as e:
                        ctx.violation("request %d (%s, file %d, custom %s) raised %s: %s" % (i, sat, f, list(custom), type(e).__name__, e),
                                      {"history": hist_payload, "at": i}, cls="raises:%s" % type(e).__name__)
                        continue
                # the pure function
                merged = dict(tables[f][sat])
                merged.update(custom)
                want = materialise(merged, sat, None if custom else versions[f])
                bad = [fld for fld in want if not same(getattr(cal, fld), want[fld])]
                if bad:
                    earlier = [r for r in hist_payload[:i] if r["custom_keys"] or r["file"] != f]
                    ctx.violation("history of %d requests%s, request %d = (%s, file %d, custom keys %s): fields %s differ from the pure "
                                  "function of (spacecraft, custom, file content) e.g. %s=%s expected %s" % (
                                      i + 1, (" (process state carried over)" if carried else "") +
                                      (" (one custom dict object passed to several requests)" if use_shared else ""), i, sat, f, list(custom), bad,
                                      bad[0], np.asarray(getattr(cal, bad[0])).ravel()[:3], np.asarray(want[bad[0]]).ravel()[:3]),
                                  {"history": hist_payload[:i + 1], "carried": carried},
                                  cls="impure:%s" % ("version" if bad == ["version"] else "values"))
                tokens.append("%d/%d/%d/%s/%s" % (sats.index(sat), f, len(keys), ",".join(map(str, ck)) or "_",
                                                "_" if rewrite_to is None else rewrite_to))
                # implementation's source map for the model comparison: per key, which source does the result carry
                src = []
                for k, key in enumerate(keys):
                    probe = {}
                    for cand, lab in [(custom.get(key, None), "C")] + [(tables[g][sat][key], str(g)) for g in [f, 0, 1, 2] + sorted(g_ for g_ in tables if g_ >= 3)]:
                        if cand is None:
                            continue
                        m2 = dict(merged)
                        m2[key] = cand
                        w2 = materialise(m2, sat, None)
                        if all(same(getattr(cal, fld), w2[fld]) for fld in w2 if fld not in ("version",)):
                            probe = lab
                            break
                    src.append(probe if probe else "?")
                vtok = "n" if cal.version is None and (custom or versions[f] is None) else (str(f) if cal.version == versions[f] else "?")
                if not custom and versions[f] is None and cal.version is None:
                    vtok = str(f)     # the model's `ver` of an unrecognised file is that file's (absent) name
                drv.append((i, "".join(src) + "@" + vtok, hist_payload))
                ctx.case((h, i), nontrivial=(i == 0 or reqs[i][:2] != reqs[i - 1][:2] or bool(ck)), branch="custom%d" % len(ck))
            # shared defaults untouched
            if Calibrator.default_coeffs is not None:
                last_f = reqs[-1][1] if reqs else None       # the file of the last request is the one the class holds
                ref = tables[last_f] if last_f is not None and paths[last_f] == Calibrator.default_file else None
                if ref is not None and Calibrator.default_coeffs != ref:
                    ctx.violation("after the history the class-level default coefficients differ from the content of their file",
                                  {"history": hist_payload}, cls="defaults-mutated")
            drv_line = "c16 init/%d " % cur3_at_start + " ".join(tokens)
            if tokens:
                drv[-len(tokens)] = (drv[-len(tokens)][0], drv[-len(tokens)][1], hist_payload, drv_line)
            if h < 3:
                ctx.sample({"history": hist_payload})
    finally:
        Calibrator.default_coeffs, Calibrator.default_file, Calibrator.default_version = saved
    try:
        missing_spacecraft_cases(ctx, tables, d, sats)
        reader_routes(ctx, tables, paths, versions, state3["cur"], p3)
    finally:
        Calibrator.default_coeffs, Calibrator.default_file, Calibrator.default_version = saved
    if not ctx.driver_ok:
        ctx.corr_break("lean driver unavailable: correspondence not run")
        return
    # group per history
    lines, groups = [], []
    cur = []
    for item in drv:
        if len(item) == 4:
            if cur:
                groups.append(cur)
            cur = [item]
            lines.append(item[3])
        else:
            cur.append(item)
    if cur:
        groups.append(cur)
    out = Driver(ctx).batch(lines)
    for grp, o in zip(groups, out):
        toks = o.split()
        for item, mt in zip(grp, toks):
            impl = item[1]
            # the model labels a custom-less request on file f with version "f"; a custom request with "n"
            msrc, mver = mt.split("@")
            isrc, iver = impl.split("@")
            # byte-identical copy (file 1) and shipped file (0) have equal defaults: labels 0/1 are interchangeable
            norm = lambda s: s.replace("1", "0")   # noqa
            if norm(msrc) != norm(isrc) or norm(mver) != norm(iver):
                ctx.corr_break("request %d of history %s: model sources %s, implementation %s" % (item[0], grp[0][2][:4], mt, impl))
    ctx.assumptions += ["a file's content changes on disk only while ANOTHER file is the current one (the cache is keyed by file name: a file rewritten while it is the current one is not re-read - read as outside the property)",
                        "the byte-identical copy and the shipped file are indistinguishable by content (labels 0/1 identified)"]


def replay(ctx, path):
    from pygac.calibration.noaa import Calibrator
    with open(path) as fh:
        body = json.load(fh)
    hist = body.get("input", {}).get("history")
    if not hist:
        inp = body.get("input") or {}
        if inp.get("route") or inp.get("stream"):
            print("input:", json.dumps(inp))
            print("what :", body.get("what"))
            print("re-run ./check C16 --tier quick with VERIF_SEED=%s to regenerate the same case" % body.get("seed"))
            return 1
        print("replay file carries no history: %s" % body.get("broken_theorems_or_obligations"))
        return 1
    print("history:", hist)
    print("re-run ./check C16 --tier quick with VERIF_SEED=%s to regenerate the same histories" % body.get("seed"))
    return 1
