"""C10 — exactly one reader accepts a file, chosen by its data-set name alone."""
import gzip
import io
import json
import os
import pathlib
import random
import zlib

import numpy as np

from . import filegen
from .common import Driver

THEOREM_MODULES = ["PygacModel.Theorems.C10"]
RULE = ("files of all four formats whose header data-set name carries every transfer-mode x platform-code pair (ASCII "
        "and EBCDIC), header vs file-name fallback, +- archive header (same / unset / another name), supplied as path / bytes path / pathlib / open file at a "
        "non-zero position / BytesIO / gzip; plus random bytes, truncated files, truncated and bit-flipped gzip streams; "
        "after random histories of earlier selections. Judged: set of accepting readers, selected class, exception kind, "
        "file position. A case = (input, container, history); non-trivial = the input is accepted by some reader or is a "
        "malformed container; distinct by (name, format, variant)")

CLASSES = ["klmGac", "klmLac", "podGac", "podLac"]
MODES = {"GHRR": "Gac", "LHRR": "Lac", "HRPT": "Lac", "FRAC": "Lac"}
POD_IDS = ["TN", "NA", "NB", "NC", "ND", "NE", "NF", "NG", "NH", "NI", "NJ"]
KLM_IDS = ["NK", "NL", "NM", "NN", "NP", "M1", "M2", "M3"]
EXTRA_MODES = ["GHRX", "XXXX", "ghrr"]
EXTRA_IDS = ["NO", "M4", "XX", "nl", "N1"]


def spec_class(name):
    """The format's statement: class selected by a data-set name (None if none)."""
    import re
    if not re.match(r"[A-Za-z0-9_]{3}\.[A-Za-z0-9_]{4}\.[A-Za-z0-9_]{2}.D\d{5}\.S\d{4}\.E\d{4}\.B\d{7}\.[A-Za-z0-9_]{2}", name):
        return None
    parts = name.split(".")
    if len(parts) < 3:
        return None
    res = MODES.get(parts[1])
    fam = "pod" if parts[2] in POD_IDS else "klm" if parts[2] in KLM_IDS else None
    return fam + res if (res and fam) else None


def rclass(c):
    return filegen.reader_class(c)


POD_ERA_START = {1: (1990, 100), 2: (1993, 200), 3: (2000, 322)}     # header layouts: < 1992-09-08, .. 1994-11-15, later


def pod_era_of(fmt, mode, plat, variant):
    """POD files come with three header layouts of different length (84 / 188 / 146 bytes), chosen by the header's start
    time; which one a generated file has is a fixed function of the case, so that a replay rebuilds the same file"""
    if fmt.startswith("klm"):
        return 3
    return (3, 2, 1, 2)[zlib.crc32(repr((fmt, mode, plat, list(variant))).encode()) % 4]


def build_file(ctx, fmt, name, encoding="ascii", archive=False, name_in_header=True, seed=0, era=3):
    if fmt.startswith("klm") or era == 3:
        pb = filegen.PassBuilder(ctx, fmt, 2, random.Random(seed))
    else:
        y, d = POD_ERA_START[era]
        pb = filegen.PassBuilder(ctx, fmt, 2, random.Random(seed), start_ms=filegen.ydm_to_ms(y, d, 3600000), pod_epoch=era)
    pb.archive = archive
    hb = pb.header_block()     # sets pb.dsname
    data = bytearray(pb.tobytes())
    base = (512 if fmt.startswith("klm") else 122) if archive else 0
    off, ln = (22, 42) if fmt.startswith("klm") else (40, 42 if era == 2 else 44)
    raw = name.encode("cp500") if encoding == "cp500" else name.encode("ascii")
    if not name_in_header:
        raw = bytes(ln)
    elif encoding == "ascii-fill" and ln == 44:
        # the two bytes behind a 42-character name in a 44-byte field are FILL: whatever they hold (here: bytes that are
        # not valid UTF-8), the name is the name
        fill = [b"\xff\xff", b" \xfe", b"\x80\x81", b"\xc3\x28"][zlib.crc32(name.encode()) % 4]
        raw = raw[:42] + fill
    else:
        raw = raw[:ln] + (b"  " if (ln == 44 and encoding != "cp500") else b"")[: max(0, ln - len(raw))]
        raw = raw.ljust(ln, b"\x40" if encoding == "cp500" else b"\0")
    data[base + off: base + off + ln] = raw
    if archive:   # the archive header carries the same name, an unset one (NULs + two blanks), or another valid name
        aname = name if archive is True else "NSS.GHRR.NC.D81193.S0000.E0100.B0000000.GC" if archive == "other" else None
        araw = (aname.encode("ascii") + b"  ")[:44] if aname else 42 * b"\0" + b"  "
        if fmt.startswith("klm"):
            data[30:72] = araw[:42]
        else:
            data[30:74] = araw.ljust(44, b" ")
    return bytes(data)


def accept_set(ctx, path_or_name, fileobj=None):
    acc, errs = [], []
    for c in CLASSES:
        try:
            ok = rclass(c).can_read(path_or_name, fileobj=fileobj)
        except Exception as e:   # noqa
            ok = None
            errs.append("%s: %s" % (c, type(e).__name__))
        acc.append(ok)
    return acc, errs


def select(path_or_name, fileobj=None):
    import pygac
    try:
        cls = pygac.get_reader_class(path_or_name, fileobj=fileobj)
        return {"GACKLMReader": "klmGac", "LACKLMReader": "klmLac", "GACPODReader": "podGac", "LACPODReader": "podLac"}[cls.__name__], None
    except ValueError as e:
        if type(e) is ValueError:
            return "ValueError", None
        return "ValueError", type(e).__name__
    except Exception as e:  # noqa
        return "OTHER", "%s: %s" % (type(e).__name__, str(e)[:80])


def shuffle_history(rng):
    from pygac import runner
    rng.shuffle(runner._reader_classes)
    return [c.__name__ for c in runner._reader_classes]


def check_named(ctx, fmt, mode, plat, variant, drv, rng):
    name = "NSS.%s.%s.D02187.S1904.E2058.B0921517.GC" % (mode, plat)
    enc, archive, in_header, fname_kind, container = variant
    era = pod_era_of(fmt, mode, plat, variant)
    data = build_file(ctx, fmt, name, enc, archive, in_header, seed=1, era=era)
    d = os.path.join(ctx.scratch, "c10")
    os.makedirs(d, exist_ok=True)
    fname = name if fname_kind == "name" else ("other.bin" if fname_kind == "plain" else fname_kind)
    path = os.path.join(d, fname)
    payload = {"fmt": fmt, "mode": mode, "plat": plat, "variant": list(variant), "pod_header_era": era}
    # expected acceptors (the property's statement)
    seen_family = fmt[:3]
    want = set()
    if in_header:
        k = spec_class(name)
        if k and k[:3] == seen_family:
            want.add(k)
        # the other family cannot read this family's header name; it falls back to the file name
        kf = spec_class(fname)
        if kf and kf[:3] != seen_family:
            want.add(kf)
    else:
        kf = spec_class(fname)
        if kf:
            want.add(kf)
    fobj = None
    pos = None
    if container == "path":
        with open(path, "wb") as fh:
            fh.write(data)
        arg = path
    elif container == "bytespath":      # a bytes path (os.fsencode / os.listdir(b".")) is a legitimate path, too
        with open(path, "wb") as fh:
            fh.write(data)
        arg = os.fsencode(path)
    elif container == "pathlib":
        with open(path, "wb") as fh:
            fh.write(data)
        arg = pathlib.Path(path)
    elif container == "gzip":
        with gzip.open(path, "wb") as fh:
            fh.write(data)
        arg = path
    elif container == "fileobj":
        with open(path, "wb") as fh:
            fh.write(data)
        fobj = open(path, "rb")
        arg = path
        pos = 0
    elif container == "gzip-fileobj":    # gzip-compressed content handed over as an already open file object (position 0)
        fobj = io.BytesIO(gzip.compress(data))
        arg = fname
        pos = 0
    else:  # bytesio
        fobj = io.BytesIO(data)
        arg = fname
        pos = 0
    hist = shuffle_history(rng)
    try:
        acc, errs = accept_set(ctx, arg, fobj)
        if fobj is not None and fobj.tell() != pos:
            ctx.violation("%s: can_read left the supplied file object at %d, was %d" % (fmt, fobj.tell(), pos), payload, cls="position")
        sel, err = select(arg, fobj)
        if fobj is not None and fobj.tell() != pos:
            ctx.violation("%s: get_reader_class left the supplied file object at %d, was %d" % (fmt, fobj.tell(), pos), payload, cls="position")
    finally:
        if fobj is not None and container == "fileobj":
            fobj.close()
    got = {c for c, a in zip(CLASSES, acc) if a}
    cross = in_header and len(want) == 2
    if errs:
        ctx.violation("%s %s: can_read raised %s" % (fmt, name, errs[0]), payload, cls="canread-raises:" + errs[0].split(": ")[1])
    if got != want:
        ctx.violation("%s file, header name %s (%s, in header=%s), file name %s via %s: accepted by %s, the names select %s" % (
            fmt, name, enc, in_header, fname, container, sorted(got), sorted(want)), payload, cls="accept-set:%s" % container)
    if cross:
        ctx.violation("%s file whose header names %s and whose file name is %s: accepted by two readers %s; selected %s after history %s" % (
            fmt, name, fname, sorted(got), sel, hist[:2]), payload, cls="double-accept:header-vs-filename")
    else:
        exp = (sorted(want)[0] if want else "ValueError")
        if err is not None and sel == "OTHER":
            ctx.violation("%s %s via %s: %s instead of ValueError" % (fmt, name, container, err), payload, cls="raises:" + err.split(":")[0])
        elif sel != exp:
            ctx.violation("%s file, header name %s, file name %s via %s after history %s: selected %s, the name selects %s" % (
                fmt, name, fname, container, hist, sel, exp), payload, cls="selected:%s" % container)
    from pygac import runner
    if sorted(c.__name__ for c in runner._reader_classes) != sorted(["GACKLMReader", "LACKLMReader", "GACPODReader", "LACPODReader"]):
        ctx.violation("candidate list is no longer a permutation of the four readers", payload, cls="order-perm")
    # model: acceptance of the name that each family sees
    drv.append(("c10 " + ",".join(str(ord(ch)) for ch in name), ("name", name, fmt,
               [int(spec_class(name) == c) for c in CLASSES])))
    ctx.case((name, fmt, variant), nontrivial=bool(want) or container == "gzip", branch="accepted" if want else "rejected")


def check_garbage(ctx, rng, drv):
    d = os.path.join(ctx.scratch, "c10")
    os.makedirs(d, exist_ok=True)
    good = {f: build_file(ctx, f, "NSS.%s.%s.D02187.S1904.E2058.B0921517.GC" % (filegen.FMT[f]["mode"], filegen.FMT[f]["plat"]))
            for f in CLASSES}
    cases = []
    for n in [0, 1, 15, 16, 17, 83, 121, 122, 123, 145, 146, 423, 424, 425, 511, 512, 513, 935, 936, 937, 3219, 3220, 5000]:
        cases.append(("random-%d" % n, bytes(rng.randrange(256) for _ in range(n)), False))
    for n in [2, 3, 4, 10, 18, 500]:
        # junk that merely BEGINS with the gzip magic
        cases.append(("gzip-magic-then-junk-%d" % n, b"\x1f\x8b" + bytes(rng.choice([0, 1, 7, 9, 255, rng.randrange(256)]) for _ in range(n - 2)), False))
    for f, data in good.items():
        for cut in [0, 10, 16, 21, 39, 63, 64, 84, 100, 146, 188, 423, 424, 600]:
            # a truncation that leaves the whole header intact may still be selected by its name
            hdr = 424 if f.startswith("klm") else 146
            cases.append(("trunc-%s-%d" % (f, cut), data[:cut], False if cut < hdr else None))
        # the same file behind an archive header, cut at every structural boundary and one byte either side
        adata = build_file(ctx, f, "NSS.%s.%s.D02187.S1904.E2058.B0921517.GC" % (filegen.FMT[f]["mode"], filegen.FMT[f]["plat"]),
                           archive=True)
        base = 512 if f.startswith("klm") else 122
        rec = len(data) - 0
        marks = [base, base + 16, base + hdr, base + (4608 if f == "klmGac" else 15872 if f == "klmLac" else 3220 if f == "podGac" else 14800)]
        for m in marks:
            for cut in (m - 1, m, m + 1):
                if 0 < cut <= len(adata):
                    cases.append(("trunc-archive-%s-%d" % (f, cut), adata[:cut], False if cut < base + hdr else None))
        gz = gzip.compress(data)
        for cut in [5, 10, 18, 30, len(gz) // 2, len(gz) - 1]:
            # a stream cut after the header has been delivered may still be selected by its name
            cases.append(("gzip-trunc-%s-%d" % (f, cut), gz[:cut], False if cut <= 30 else None))
        for k in range(ctx.n(4, 40)):
            b = bytearray(gz)
            i = rng.randrange(10, len(b))
            b[i] ^= 1 << rng.randrange(8)
            cases.append(("gzip-flip-%s-%d" % (f, i), bytes(b), None))     # may still decode
        for hb in range(10):
            # damage in each byte of the 10-byte gzip member header (magic, compression method, flags, time, ...)
            for bit in (0, 3, 7):
                b = bytearray(gz)
                b[hb] ^= 1 << bit
                cases.append(("gzip-header-%s-%d.%d" % (f, hb, bit), bytes(b), False if hb < 3 else None))
        cases.append(("gzip-empty-%s" % f, gzip.compress(b""), False))
        cases.append(("gzip-of-garbage-%s" % f, gzip.compress(bytes(rng.randrange(256) for _ in range(2000))), False))
    for tag, data, acceptable in cases:
        path = os.path.join(d, "x_" + tag + ".bin")
        with open(path, "wb") as fh:
            fh.write(data)
        shuffle_history(rng)
        payload = {"garbage": tag, "data_b64": __import__("base64").b64encode(zlib.compress(data)).decode() if len(data) < 20000 else None}
        for via in ("path", "bytesio"):
            if via == "path":
                acc, errs = accept_set(ctx, path)
                sel, err = select(path)
            else:
                fo = io.BytesIO(data)
                acc, errs = accept_set(ctx, "x.bin", fo)
                sel, err = select("x.bin", fo)
            if errs:
                ctx.violation("%s via %s: can_read raised %s" % (tag, via, errs[0]), dict(payload, via=via),
                              cls="canread-raises:" + errs[0].split(": ")[1])
            if sel == "OTHER":
                ctx.violation("%s via %s: get_reader_class raised %s instead of ValueError" % (tag, via, err), dict(payload, via=via),
                              cls="raises:" + err.split(":")[0])
            elif acceptable is False and sel != "ValueError":
                ctx.violation("%s via %s: selected %s for an unreadable input" % (tag, via, sel), dict(payload, via=via), cls="garbage-accepted")
            ctx.case((tag, via), nontrivial=True, branch="garbage")


def run(ctx):
    rng = ctx.rng
    drv = []
    from pygac import runner
    saved = list(runner._reader_classes)
    try:
        variants_small = [("ascii", False, True, "plain", "path")]
        full = [("ascii", False, True, "name", "path"), ("cp500", False, True, "plain", "path"),
                ("ascii", True, True, "plain", "pathlib"), ("ascii", False, False, "name", "path"),
                ("ascii", False, True, "plain", "gzip"), ("ascii", False, True, "plain", "fileobj"),
                ("ascii", True, True, "name", "bytesio"), ("cp500", True, True, "plain", "bytesio"),
                ("ascii", "unset", True, "plain", "path"), ("ascii", "unset", True, "plain", "bytesio"),
                ("cp500", "unset", True, "plain", "gzip"), ("ascii", "other", True, "plain", "path"),
                ("ascii", False, True, "plain", "bytespath"), ("ascii", False, False, "name", "bytespath"),
                ("ascii", True, True, "name", "bytespath")]
        pairs = [(m, p) for m in list(MODES) + EXTRA_MODES for p in POD_IDS + KLM_IDS + EXTRA_IDS]
        for (m, p) in pairs:
            for fmt in CLASSES:
                matching = spec_class("NSS.%s.%s.D02187.S1904.E2058.B0921517.GC" % (m, p)) == fmt
                vs = list(variants_small)
                if matching:
                    vs += [("ascii", False, True, "plain", "gzip-fileobj")]
                if matching and fmt.startswith("pod"):
                    vs += [("ascii-fill", False, True, "plain", "path"), ("ascii-fill", True, True, "name", "bytesio")]
                if matching:
                    vs += full if ctx.thorough else [full[rng.randrange(len(full))], full[rng.randrange(len(full))]]
                elif ctx.thorough or rng.random() < 0.08:
                    vs += [full[rng.randrange(len(full))]]
                for v in vs:
                    check_named(ctx, fmt, m, p, v, drv, rng)
        # header name of one family, file name of the other (the documented fall-back makes both accept)
        check_named(ctx, "klmGac", "GHRR", "NL", ("ascii", False, True, "NSS.GHRR.NJ.D00322.S0100.E0110.B0000000.WI", "path"), drv, rng)
        check_named(ctx, "podGac", "GHRR", "NJ", ("ascii", False, True, "NSS.GHRR.NL.D02187.S1904.E2058.B0921517.GC", "path"), drv, rng)
        check_garbage(ctx, rng, drv)
        ctx.sample({"pairs": len(pairs), "example": pairs[0], "variants": [list(v) for v in full[:3]]})
    finally:
        runner._reader_classes[:] = saved
    # selection state machine vs model on random outcome vectors
    for _ in range(ctx.n(200, 3000)):
        order = list(range(4))
        rng.shuffle(order)
        outs = "".join(rng.choice("ovvv") for _ in range(4))
        exp_sel = next((str(i) for i in order if outs[i] == "o"), "V")
        exp_order = ([int(exp_sel)] + [i for i in order if i != int(exp_sel)]) if exp_sel != "V" else order
        drv.append(("c10sel %s %s" % (",".join(map(str, order)), outs), ("sel", exp_sel, exp_order, None)))
    if not ctx.driver_ok:
        ctx.corr_break("lean driver unavailable: correspondence not run")
        return
    out = Driver(ctx).batch([d[0] for d in drv])
    for (cmd, meta), o in zip(drv, out):
        if meta[0] == "name":
            _, name, fmt, want = meta
            # implementation: each class's own header validation on this name
            impl = []
            for c in CLASSES:
                try:
                    rclass(c)._validate_header({"data_set_name": name.encode()})
                    impl.append(1)
                except ValueError:
                    impl.append(0)
            m = [int(x) for x in o.split(",")]
            if m != impl:
                ctx.corr_break("name %s: model accepts %s, implementation %s" % (name, m, impl))
        else:
            _, exp_sel, exp_order, _ = meta
            want = "%s %s" % (exp_sel, ",".join(map(str, exp_order)))
            if o.strip() != want:
                ctx.corr_break("selection %s: model %s, reference %s" % (cmd, o.strip(), want))
    ctx.assumptions += ["names are ASCII (plus their cp500 encodings); Unicode word characters outside ASCII are not exercised",
                        "the file-name fall-back is documented behaviour; a header name of one family combined with a file name of the other family is the listed known finding"]


def replay(ctx, path):
    with open(path) as fh:
        body = json.load(fh)
    inp = body.get("input", {})
    rng = random.Random(0)
    from pygac import runner
    saved = list(runner._reader_classes)
    try:
        if "garbage" in inp:
            import base64
            if not inp.get("data_b64"):
                print("no data in replay")
                return 1
            data = zlib.decompress(base64.b64decode(inp["data_b64"]))
            sel, err = select("x.bin", io.BytesIO(data))
            print("get_reader_class ->", sel, err)
            return 1 if sel != "ValueError" else 0
        if "fmt" not in inp:
            print("replay file carries no input: %s" % body.get("broken_theorems_or_obligations"))
            return 1
        check_named(ctx, inp["fmt"], inp["mode"], inp["plat"], tuple(inp["variant"]), [], rng)
    finally:
        runner._reader_classes[:] = saved
    if ctx.input_violations:
        print("REPRODUCED: " + ctx.input_violations[0]["what"])
        return 1
    print("not reproduced")
    return 0
