"""Shared machinery of the pygac checks: build, audit, driver client, spec-driven file
writer, evidence / replay / known-findings plumbing.

Run under /venv/bin/python (which has pygac installed editable from /repo).
"""
import base64
import collections
import hashlib
import json
import os
import random
import re
import shutil
import subprocess
import sys
import time
import zlib

VERIF = os.path.dirname(os.path.dirname(os.path.abspath(__file__)))
LEAN = os.path.join(VERIF, "lean")
DRIVER = os.path.join(LEAN, ".lake", "build", "bin", "driver")
PY = "/venv/bin/python"
STD_AXIOMS = {"propext", "Classical.choice", "Quot.sound"}

TRUSTED_BASE = [
    "Lean 4.33.0 kernel (thorough tier: re-checked with leanchecker)",
    "axioms of every property theorem ⊆ {propext, Classical.choice, Quot.sound} (audited with #print axioms on every run); no native_decide, no bv_decide, no sorry, no axioms of our own",
    "tools/extract.py (translator: introspection of live pygac objects -> Generated/*.lean)",
    "harness correspondence check + canonicalisers (differential test of model vs implementation)",
    "hand-written Spec (transcription of the NOAA POD/KLM level-1b format and of the property statements)",
    "CPython / numpy / xarray execution of the code is modelled, not verified",
]


def env_clean():
    env = dict(os.environ)
    env.setdefault("LC_ALL", "C.UTF-8")
    return env


def run(cmd, cwd=None, timeout=None, inp=None):
    p = subprocess.run(cmd, cwd=cwd, capture_output=True, text=True, timeout=timeout, input=inp, env=env_clean())
    return p.returncode, p.stdout, p.stderr


# ---------------------------------------------------------------------------
# Context


class Ctx:
    def __init__(self, prop, tier, seed):
        self.prop = prop
        self.tier = tier
        self.seed = seed
        self.rng = random.Random((seed, prop).__repr__())
        self.t0 = time.time()
        self.obligations = []          # (name, ok, detail)
        self.evaluations = 0
        self.distinct = set()
        self.samples = []
        self.branches = collections.Counter()
        self.input_violations = []     # property fails on a concrete input (oracle)
        self.corr_breaks = []          # model != implementation
        self.notes = []
        self.extra = {}
        self.assumptions = []
        self.scratch = os.path.join(VERIF, ".scratch", "%s-%d" % (prop, os.getpid()))
        os.makedirs(self.scratch, exist_ok=True)
        self.generated_info = {}
        self.driver_ok = False

    @property
    def thorough(self):
        return self.tier == "thorough"

    def n(self, quick, thorough):
        """number of generated cases: thorough size in the thorough tier; in the quick tier three times the quick size
        (capped by the thorough size) when an anchored source file differs from the committed fingerprint baseline -
        a changed tree is examined harder, the unchanged tree costs nothing more"""
        if self.thorough:
            return thorough
        if getattr(self, "escalated", False):
            return min(thorough, 3 * quick)
        return quick

    # -- bookkeeping
    def case(self, key, nontrivial=True, branch=None):
        self.evaluations += 1
        if nontrivial:
            self.distinct.add(key if isinstance(key, (str, int, tuple)) else repr(key))
        if branch is not None:
            self.branches[branch] += 1

    def sample(self, obj, limit=6):
        if len(self.samples) < limit:
            self.samples.append(obj)

    def obligation(self, name, ok, detail=""):
        self.obligations.append((name, bool(ok), detail))

    def broken_obligations(self):
        return [(n, d) for n, ok, d in self.obligations if not ok]

    def violation(self, what, payload, cls):
        """The property itself fails on a concrete input of the implementation."""
        self.input_violations.append({"what": what, "class": cls, "payload": payload})

    def corr_break(self, what, payload=None):
        """Model and implementation disagree (not by itself a violation)."""
        self.corr_breaks.append({"what": what, "payload": payload})

    def cleanup(self):
        shutil.rmtree(self.scratch, ignore_errors=True)
        try:
            os.rmdir(os.path.join(VERIF, ".scratch"))
        except OSError:
            pass


# ---------------------------------------------------------------------------
# translator, build, audit


def run_extract(ctx):
    t = time.time()
    rc, out, err = run([PY, os.path.join(VERIF, "tools", "extract.py")], cwd=VERIF, timeout=600)
    ctx.extra["extract_s"] = round(time.time() - t, 2)
    if rc != 0:
        ctx.obligation("translator(tools/extract.py)", False, (err or out)[-1500:])
        return False
    ctx.obligation("translator(tools/extract.py)", True, out.strip().splitlines()[-1] if out.strip() else "")
    try:
        with open(os.path.join(LEAN, "PygacModel", "Generated", "generated.json")) as fh:
            ctx.generated_info = json.load(fh)
    except Exception as e:  # pragma: no cover
        ctx.notes.append("generated.json unreadable: %r" % (e,))
    # source fingerprints: a difference from the committed baseline raises no alarm, it enlarges the correspondence run
    try:
        with open(os.path.join(VERIF, "tools", "fingerprints_baseline.json")) as fh:
            base = json.load(fh)
        now = ctx.generated_info.get("fingerprints", {})
        changed = sorted(k for k in set(base) | set(now) if base.get(k) != now.get(k))
        # VERIF_ESCALATE=1 forces the enlarged run on an unchanged tree (used to validate that the enlarged generators
        # raise no alarm on code where the properties hold)
        ctx.escalated = bool(changed) or os.environ.get("VERIF_ESCALATE") == "1"
        ctx.extra["source_files_changed_vs_baseline"] = changed
        if changed:
            ctx.notes.append("source differs from the fingerprint baseline in %s: correspondence run enlarged" % ", ".join(changed[:6]))
    except OSError:
        ctx.escalated = False
    return True


_ERR_RE = re.compile(r"^error: (?:\./)?([^:]+\.lean):(\d+):(\d+):\s*(.*)$")


def _decl_at(path, line):
    """Name of the theorem/def enclosing `line` of a Lean file."""
    try:
        with open(path) as fh:
            lines = fh.read().splitlines()
    except OSError:
        return None
    ns = []
    name = None
    for i, l in enumerate(lines[:line], 1):
        m = re.match(r"\s*namespace\s+(\S+)", l)
        if m:
            ns.append(m.group(1))
        m = re.match(r"\s*end\s+(\S+)", l)
        if m and ns and ns[-1] == m.group(1):
            ns.pop()
        m = re.match(r"\s*(?:private\s+|protected\s+)?(?:theorem|lemma|def|example|instance|abbrev)\s+(\S+)", l)
        if m:
            name = ".".join(ns + [m.group(1)]) if m.group(1) != ":" else ".".join(ns + ["example@%d" % i])
    return name


def lake_build(ctx, targets, clean_modules=()):
    """Build targets; returns dict target -> (ok, failing declarations)."""
    res = {}
    for m in clean_modules:
        rel = m.replace(".", os.sep)
        for ext in (".olean", ".ilean", ".trace", ".olean.hash", ".ilean.hash"):
            p = os.path.join(LEAN, ".lake", "build", "lib", "lean", rel + ext)
            if os.path.exists(p):
                os.remove(p)
    for tgt in targets:
        t = time.time()
        rc, out, err = run(["lake", "build", tgt], cwd=LEAN, timeout=3000)
        txt = out + "\n" + err
        failing = []
        if rc != 0:
            for l in txt.splitlines():
                m = _ERR_RE.match(l.strip())
                if m:
                    path = os.path.join(LEAN, m.group(1))
                    d = _decl_at(path, int(m.group(2)))
                    failing.append((d or "%s:%s" % (m.group(1), m.group(2)), m.group(4)[:300]))
            if not failing:
                failing.append((tgt, txt[-1200:]))
        res[tgt] = (rc == 0, failing, round(time.time() - t, 2))
    return res


def theorem_names(module):
    """Names of the theorems declared in a Theorems/*.lean file."""
    path = os.path.join(LEAN, module.replace(".", os.sep) + ".lean")
    names = []
    ns = []
    with open(path) as fh:
        for l in fh:
            m = re.match(r"\s*namespace\s+(\S+)", l)
            if m:
                ns.append(m.group(1))
                continue
            m = re.match(r"\s*end\s+(\S+)", l)
            if m and ns and ns[-1] == m.group(1):
                ns.pop()
                continue
            m = re.match(r"\s*theorem\s+(\S+)", l)
            if m:
                names.append(".".join(ns + [m.group(1)]))
    return names


FORBIDDEN = re.compile(r"\b(sorry|admit|native_decide|bv_decide|implemented_by|unsafe)\b|^\s*axiom\s|maxHeartbeats\s+0")


def grep_forbidden(paths):
    hits = []
    for p in paths:
        in_block = 0
        with open(p) as fh:
            for i, l in enumerate(fh, 1):
                s = l
                # strip block comments (coarse) and line comments
                if "/-" in s:
                    in_block += s.count("/-")
                if in_block:
                    in_block -= s.count("-/")
                    continue
                s = s.split("--")[0]
                if FORBIDDEN.search(s):
                    hits.append("%s:%d:%s" % (os.path.relpath(p, LEAN), i, l.strip()[:120]))
    return hits


def lean_files_of(modules):
    """Transitive closure of local imports of the given modules."""
    seen = {}
    todo = list(modules)
    while todo:
        m = todo.pop()
        if m in seen:
            continue
        p = os.path.join(LEAN, m.replace(".", os.sep) + ".lean")
        if not os.path.exists(p):
            continue
        seen[m] = p
        with open(p) as fh:
            for l in fh:
                mm = re.match(r"\s*import\s+(\S+)", l)
                if mm and (mm.group(1).startswith("PygacModel") or mm.group(1).startswith("Driver")):
                    todo.append(mm.group(1))
    return seen


def audit_axioms(ctx, module, names):
    """#print axioms for each theorem; returns dict name -> list of axioms (or None if failed)."""
    src = "import %s\n" % module + "".join("#print axioms %s\n" % n for n in names)
    path = os.path.join(ctx.scratch, "Audit_%s.lean" % module.split(".")[-1])
    with open(path, "w") as fh:
        fh.write(src)
    rc, out, err = run(["lake", "env", "lean", path], cwd=LEAN, timeout=1800)
    txt = out + "\n" + err
    res = {}
    # messages look like: "'X' depends on axioms: [a, b]" or "'X' does not depend on any axioms"
    for m in re.finditer(r"'([^']+)' depends on axioms: \[([^\]]*)\]", txt):
        res[m.group(1)] = [a.strip() for a in m.group(2).replace("\n", " ").split(",") if a.strip()]
    for m in re.finditer(r"'([^']+)' does not depend on any axioms", txt):
        res[m.group(1)] = []
    for n in names:
        res.setdefault(n, None)
    return res


def build_and_audit(ctx, theorem_modules, extra_targets=("driver",)):
    """Steps 2-3 of the run flow. Records one obligation per theorem."""
    clean = theorem_modules if ctx.thorough else ()
    res = lake_build(ctx, list(theorem_modules) + list(extra_targets), clean_modules=clean)
    ctx.extra["build_s"] = {k: v[2] for k, v in res.items()}
    ctx.driver_ok = all(res[t][0] for t in extra_targets if t in res) and os.path.exists(DRIVER)
    if not ctx.driver_ok:
        ctx.obligation("lean driver builds (model + generated data compile)", False,
                       "; ".join("%s: %s" % f for t in extra_targets for f in res[t][1])[:1500])
    files = lean_files_of(list(theorem_modules) + ["Main"])
    hits = grep_forbidden(files.values())
    ctx.obligation("no sorry/admit/axiom/native_decide/bv_decide/implemented_by/unsafe/maxHeartbeats 0 in %d lean files"
                   % len(files), not hits, "; ".join(hits))
    for mod in theorem_modules:
        ok, failing, _ = res[mod]
        names = theorem_names(mod)
        fail_names = {f[0]: f[1] for f in failing}
        if ok:
            ax = audit_axioms(ctx, mod, names)
            for n in names:
                a = ax.get(n)
                good = a is not None and set(a) <= STD_AXIOMS
                ctx.obligation(n, good, "axioms=%s" % (a,))
        else:
            # a failing module discharges nothing; name the declarations that broke
            for n in names:
                if n in fail_names:
                    ctx.obligation(n, False, "proof fails: " + fail_names[n])
                else:
                    ctx.obligation(n, False, "not checked: module %s does not build (%s)"
                                   % (mod, ", ".join(sorted(set(fail_names))) or "see log"))
            for n, d in fail_names.items():
                if n not in names:
                    ctx.obligation(n, False, "build error: " + d)
    if ctx.thorough:
        mods = [m for m in theorem_modules if res[m][0]]
        if mods:
            t = time.time()
            rc, out, err = run(["lake", "env", "leanchecker"] + mods, cwd=LEAN, timeout=3000)
            ctx.extra["leanchecker_s"] = round(time.time() - t, 1)
            ctx.obligation("leanchecker " + " ".join(mods), rc == 0, (out + err)[-600:])
    return res


# ---------------------------------------------------------------------------
# driver client


class Driver:
    """Batch client for the compiled Lean model driver (line protocol)."""

    def __init__(self, ctx):
        self.ctx = ctx

    def batch(self, lines, expect_lines=None, timeout=1800):
        if not self.ctx.driver_ok:
            raise RuntimeError("driver not built")
        inp = "\n".join(lines) + "\n"
        p = subprocess.run([DRIVER], input=inp, capture_output=True, text=True, timeout=timeout)
        if p.returncode != 0:
            raise RuntimeError("driver failed: " + p.stderr[-500:])
        out = p.stdout.splitlines()
        return out

    def call(self, line):
        return self.batch([line])


_spec_cache = {}


def spec_layouts(ctx, which="spec"):
    if which not in _spec_cache:
        out = Driver(ctx).call("spec " + which)
        _spec_cache[which] = json.loads(out[0])
    return _spec_cache[which]


# ---------------------------------------------------------------------------
# spec-driven record writer


def leaf_range(leaf):
    w = leaf["width"]
    if leaf["kind"] == "i":
        return -(1 << (8 * w - 1)), (1 << (8 * w - 1)) - 1
    return 0, (1 << (8 * w)) - 1


def encode_int(v, w, kind, be=True):
    if kind == "i" and v < 0:
        v += 1 << (8 * w)
    b = int(v).to_bytes(w, "big")
    return b if be else b[::-1]


class RecordSpec:
    """One layout of the exported Spec, with helpers to build records field by field."""

    def __init__(self, layout):
        self.layout = layout
        self.size = layout["size"]
        self.leaves = layout["leaves"]
        self.by_name = {l["name"]: l for l in self.leaves}

    def blank(self):
        return bytearray(self.size)

    def put(self, buf, name, values, base=0):
        """values: int, list of ints, or bytes (for S / opaque leaves)."""
        l = self.by_name[name]
        if isinstance(values, (bytes, bytearray)):
            if l["kind"] in ("s", "opaque", "f"):
                ext = (l["count"] - 1) * l["stride"] + l["width"]
                if l["stride"] == l["width"]:
                    assert len(values) <= ext, (name, len(values), ext)
                    buf[base + l["off"]: base + l["off"] + len(values)] = values
                    return
            raise ValueError("bytes for numeric leaf " + name)
        if isinstance(values, int):
            values = [values]
        assert len(values) <= l["count"], name
        for j, v in enumerate(values):
            o = base + l["off"] + j * l["stride"]
            buf[o:o + l["width"]] = encode_int(v, l["width"], l["kind"], l["be"])

    def random_values(self, rng, mode="random"):
        """dict name -> list of ints (numeric leaves) / bytes (S, opaque, f8 leaves)."""
        vals = {}
        for l in self.leaves:
            k = l["kind"]
            if k in ("s", "opaque", "f"):
                ext = (l["count"] - 1) * l["stride"] + l["width"]
                if mode == "zero":
                    vals[l["name"]] = bytes(ext)
                elif k == "s":
                    # printable, no trailing NUL ambiguity: last byte non-NUL
                    vals[l["name"]] = bytes(rng.randrange(33, 127) for _ in range(ext))
                else:
                    vals[l["name"]] = bytes(rng.randrange(256) for _ in range(ext))
                continue
            lo, hi = leaf_range(l)
            if mode == "zero":
                vals[l["name"]] = [0] * l["count"]
            elif mode == "max":
                vals[l["name"]] = [hi] * l["count"]
            elif mode == "min":
                vals[l["name"]] = [lo] * l["count"]
            else:
                vals[l["name"]] = [rng.choice((lo, hi, rng.randint(lo, hi), rng.randint(lo, hi)))
                                   if rng.random() < 0.15 else rng.randint(lo, hi) for _ in range(l["count"])]
        return vals

    def build(self, vals):
        buf = self.blank()
        for name, v in vals.items():
            l = self.by_name[name]
            if isinstance(v, (bytes, bytearray)):
                if l["stride"] == l["width"]:
                    buf[l["off"]:l["off"] + len(v)] = v
                else:  # strided opaque: element by element
                    for j in range(l["count"]):
                        o = l["off"] + j * l["stride"]
                        buf[o:o + l["width"]] = v[j * l["width"]:(j + 1) * l["width"]]
            else:
                self.put(buf, name, v)
        return bytes(buf)


def pack_payload(obj):
    return base64.b64encode(zlib.compress(obj if isinstance(obj, (bytes, bytearray)) else json.dumps(obj).encode())).decode()


def unpack_payload(s):
    return zlib.decompress(base64.b64decode(s))


# ---------------------------------------------------------------------------
# known findings, replay, evidence, verdict


def load_known():
    p = os.path.join(VERIF, "known_findings.json")
    if not os.path.exists(p):
        return []
    with open(p) as fh:
        return json.load(fh).get("findings", [])


def finding_matches(entry, prop, vio):
    if entry.get("property") != prop or entry.get("status") != "known":
        return False
    return entry.get("class") == vio.get("class")


def write_replay(ctx, kind, body):
    os.makedirs(os.path.join(VERIF, "replays"), exist_ok=True)
    blob = json.dumps(body, sort_keys=True, default=str)
    h = hashlib.sha1(blob.encode()).hexdigest()[:10]
    path = os.path.join(VERIF, "replays", "%s-%s-%s.json" % (ctx.prop, kind, h))
    with open(path, "w") as fh:
        json.dump(dict(body, property=ctx.prop, kind=kind, seed=ctx.seed, tier=ctx.tier), fh, indent=1, default=str)
    return os.path.relpath(path, VERIF)


def finish(ctx, rule, level_note_extra=None):
    """Decide the verdict, write evidence, print VIOLATION / KNOWN-FINDING lines; returns exit code."""
    known = load_known()
    printed = []
    n_viol = 0
    exit_code = 0
    # 1. concrete failing inputs
    seen_classes = set()
    for v in ctx.input_violations:
        if v["class"] in seen_classes:
            continue
        seen_classes.add(v["class"])
        ent = next((e for e in known if finding_matches(e, ctx.prop, v)), None)
        if ent is not None:
            printed.append("KNOWN-FINDING: property=%s %s" % (ctx.prop, ent.get("what", v["what"])))
            continue
        path = write_replay(ctx, "input", {"what": v["what"], "class": v["class"], "input": v["payload"]})
        printed.append("VIOLATION property=%s replay=%s" % (ctx.prop, path))
        n_viol += 1
    # 2. broken obligations / correspondence with no failing input found
    broken = ctx.broken_obligations()
    # a broken obligation / correspondence is explained only by a failing input that is NOT a listed known finding
    unexplained = (broken or ctx.corr_breaks) and n_viol == 0
    if unexplained:
        path = write_replay(ctx, "obligation", {
            "broken_theorems_or_obligations": [{"name": n, "detail": d} for n, d in broken],
            "broken_correspondence": ctx.corr_breaks[:10],
            "note": "no input on which the property itself fails was found by the search"})
        printed.append("VIOLATION property=%s replay=%s no-failing-input-found" % (ctx.prop, path))
        n_viol += 1
    if n_viol:
        exit_code = 1
    n_obl = len(ctx.obligations)
    n_ok = sum(1 for _, ok, _ in ctx.obligations if ok)
    cov = {
        "obligations": n_obl,
        "discharged": n_ok,
        "checker_cmd": "cd lean && lake build <Theorems module> && lake env lean <#print axioms audit>"
                       + (" && lake env leanchecker <modules>" if ctx.thorough else ""),
        "trusted_base": TRUSTED_BASE + (level_note_extra or []),
        "evaluations": ctx.evaluations,
        "distinct_nontrivial": len(ctx.distinct),
        "rule": rule,
        "samples": ctx.samples or [{"obligation": n, "ok": ok, "detail": d[:200]} for n, ok, d in ctx.obligations[:3]],
        "obligation_list": [{"name": n, "ok": ok, "detail": d[:300]} for n, ok, d in ctx.obligations],
        "model_branches": dict(ctx.branches),
        "correspondence_disagreements": len(ctx.corr_breaks),
        "property_failures_on_impl": len(ctx.input_violations),
        "source_fingerprints": ctx.generated_info.get("fingerprints", {}),
        "generated_changed": ctx.generated_info.get("changed", []),
        "notes": ctx.notes,
    }
    cov.update(ctx.extra)
    ev = {
        "property_id": ctx.prop, "tier": ctx.tier, "seed": ctx.seed, "level": "proof",
        "coverage": cov, "assumptions": ctx.assumptions, "wall_s": round(time.time() - ctx.t0, 2),
        "violations": n_viol,
    }
    # runs against a deliberately modified /repo (seeded changes) must not overwrite the committed evidence
    evdir = os.environ.get("VERIF_EVIDENCE_DIR") or os.path.join(VERIF, "evidence")
    os.makedirs(evdir, exist_ok=True)
    with open(os.path.join(evdir, ctx.prop + ".json"), "w") as fh:
        json.dump(ev, fh, indent=1, default=str)
    for l in printed:
        print(l)
    print("%s %s: obligations %d/%d, correspondence cases %d (distinct non-trivial %d), model/impl disagreements %d, "
          "property failures %d, %.1fs" % (ctx.prop, ctx.tier, n_ok, n_obl, ctx.evaluations, len(ctx.distinct),
                                           len(ctx.corr_breaks), len(ctx.input_violations), time.time() - ctx.t0))
    return exit_code
