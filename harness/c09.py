"""C09 — POD clock-drift correction shifts time and position consistently, exactly once."""
import datetime
import io
import json
import random
import warnings
from fractions import Fraction

import numpy as np

from . import accessors as acc
from . import filegen, timesgen
from .common import Driver
from .filegen import FMT, ydm_to_ms

THEOREM_MODULES = ["PygacModel.Theorems.C09"]
RULE = ("(a) plan stream: POD GAC/LAC files whose tie-point latitude encodes the line number (n/128 deg along one "
        "meridian per column), clock errors injected through get_offsets (constant, sloped, sign changes, larger than "
        "one line period, real tables), gaps and first line numbers 1..2000; the rows read, the interpolation weight "
        "(decoded from the returned latitude = (n - e*rate)/128), the set and nominal times of the recomputed lines and "
        "the time shift are compared with the Lean plan; (b) orbit stream: tie points of a TLE-propagated NOAA-14 orbit, "
        "real and injected clock errors, gaps near and far from the first line, GAC and LAC: corrected positions vs the "
        "same orbit at the corrected times (0.02 deg); (c) skip stream: KLM, no table, stale TLE, disabled: coordinates "
        "and times unchanged, no exception; (d) real np.interp of the shipped tables vs the model; (e) passes of NOAA-7/9/11/12/14 "
        "at times inside / at the ends of / between / outside the rows of the published tables (every third one in a row "
        "that follows an out-of-order clock reset), read with the shipped table: time shift and placement vs the row's own "
        "linear interpolation (times where two rows overlap are skipped). A case = one pass; "
        "non-trivial = non-zero error or a gap; distinct by (format, line numbers, error profile)")
RULE += (" In the thorough tier, and in the quick tier whenever the source differs from the validated baseline, a LONG-PASS stream is added (passes of 1300 .. 12000 lines, just beyond multiples of 256 .. 8192, with the property-relevant event placed at and after such multiples; DESIGN 10.4 round 13).")
TRUSTED_EXTRA = ["pyorbital (SGP4, scan geometry) is an external parameter: the 0.02 deg agreement is numerical support",
                 "libm trigonometry of the great-circle interpolation is compared numerically"]


# ---------------------------------------------------------------------------- helpers

def pod_pass(ctx, fmt, nums, start, lats, lons, rng, step=None):
    tp = timesgen.TimePass(fmt, nums, start)
    if step is not None:        # the recorded times of day jump by step[1] ms from record step[0] on
        tp.msec[step[0]:] += step[1]
    b = tp.build(ctx, rng)
    b.lats, b.lons = lats, lons
    return b


class Offsets:
    """replacement for pygac.pod_reader.get_offsets"""

    def __init__(self, utcs_ms, errs):
        self.utcs_ms, self.errs = utcs_ms, errs

    def __call__(self, sat):
        ep = datetime.datetime(1970, 1, 1)
        return [ep + datetime.timedelta(milliseconds=int(t)) for t in self.utcs_ms], [float(e) for e in self.errs]


def error_profile(rng, t_first, t_last, per_s):
    kind = rng.choice(["const", "const-neg", "slope", "sign-change", "big", "tiny", "zero"])
    a, b = t_first - 3600000, t_last + 3600000
    if kind == "const":
        e = [rng.choice(["0.70", "0.25", "1.30", "0.10"])] * 2
    elif kind == "const-neg":
        e = [rng.choice(["-0.70", "-0.25", "-1.30"])] * 2
    elif kind == "slope":
        e = ["0.10", "1.90"]
        a, b = t_first, t_last
    elif kind == "sign-change":
        e = ["-0.80", "0.90"]
        a, b = t_first, t_last
    elif kind == "big":
        e = [rng.choice(["3.75", "-2.60", "7.36"])] * 2
    elif kind == "tiny":
        e = ["0.01", "0.01"]
    else:
        e = ["0.00", "0.00"]
    return kind, [a, b], e


def run_reader(ctx, b, fmt, offsets=None, capture=None, fake_missing=None, sanitise=True, **kw):
    """read the pass with a real reader; optionally inject clock errors and replace the orbit computation"""
    import pygac.pod_reader as pr
    cls = filegen.reader_class(fmt)
    k = dict(tle_dir=filegen.tle_dir(ctx), tle_name="TLE_%(satname)s.txt", interpolate_coords=False)
    k.update(kw)
    if fake_missing is not None:
        def _cm(self, missed_utcs):
            capture["missed_utcs"] = np.asarray(missed_utcs).astype("datetime64[us]").astype(np.int64).tolist()
            return fake_missing(self, missed_utcs)
        cls = type(cls.__name__ + "Probe", (cls,), {"_compute_missing_lonlat": _cm})
    if not sanitise:
        # the line-number sanitiser (C11's subject) would drop lines of a sparse pass
        cls = type(cls.__name__ + "NoSanitise", (cls,), {"correct_scan_line_numbers": lambda self: {}})
    r = cls(**k)
    data = b.tobytes()
    r.read(b.dsname, fileobj=io.BytesIO(data))
    if ctx.rng.random() < 0.4:
        # another spacecraft's reader, configured with the SAME element-set directory and file-name pattern, looks up its
        # own element set just before (an archive job working through files of several spacecraft): the correction of
        # this pass must still use this spacecraft's orbit
        from pygac.gac_klm import GACKLMReader
        other = GACKLMReader(tle_dir=k["tle_dir"], tle_name=k["tle_name"])
        other.spacecraft_name = "noaa16"
        other._times_as_np_datetime64 = np.array([filegen.ydm_to_ms(2002, 187, 68700000)], dtype="datetime64[ms]")
        try:
            other.get_tle_lines()
        except Exception:      # noqa - whatever the other reader finds is not this check's subject
            pass
        ctx.branches["other-spacecraft-lookup-before"] += 1
    orig = pr.get_offsets
    if offsets is not None:
        pr.get_offsets = offsets
    try:
        t_pre = np.array(r.get_times()).astype("datetime64[ms]").astype(np.int64)
        with warnings.catch_warnings():
            warnings.simplefilter("ignore")
            lons, lats = r.get_lonlat()
        t_post = np.array(r.get_times()).astype("datetime64[ms]").astype(np.int64)
    finally:
        pr.get_offsets = orig
    return r, t_pre, t_post, np.array(lons), np.array(lats)


# ---------------------------------------------------------------------------- (a) plan stream

def plan_case(ctx, rng, k, drv):
    fmt = rng.choice(["podGac", "podLac"]) if k >= 2 else ["podGac", "podLac"][k]
    num, den = timesgen.period(fmt)
    n = rng.choice([3, 8, 20, 40]) if fmt == "podLac" else rng.choice([3, 8, 30, 80])
    n0 = rng.choice([1, 1, 2, 9, 300, 2000, (32600 if fmt == "podLac" else 14850)])      # incl. the top of the admitted range
    nums, cur = [], n0
    for _ in range(n):
        nums.append(cur)
        cur += 1 + (rng.choice([1, 2, 5, 30]) if (rng.random() < 0.15 and k >= 2) else 0)
    nums = [x for x in nums if x <= (32767 if fmt == "podLac" else 14998)] or [n0]
    if fmt == "podLac" and n0 == 32600 and rng.random() < 0.5:
        # ... ending EXACTLY at the largest number the signed 16-bit field holds (before fix f795ded the line range of
        # the correction, `max_line + 1`, wrapped there and the lines before the first one were never computed)
        sh = 32767 - max(nums)
        nums = [x + sh for x in nums]
        n0 += sh
    if len(nums) > 6 and rng.random() < 0.15 and k >= 2:
        i = rng.randrange(1, len(nums) - 2)          # two neighbouring records stored in the wrong order
        nums[i], nums[i + 1] = nums[i + 1], nums[i]
    start = ydm_to_ms(2000, 322, rng.randint(3600000, 80000000))
    lat_base = n0 - 100          # latitude encodes (line number - lat_base) / 128 deg: exact in the 16-bit words
    lats = ((np.array(nums, dtype=float) - lat_base) / 128.0)[:, None] * np.ones((1, 51))
    lons = np.ones((len(nums), 1)) * np.linspace(-60, 60, 51)[None, :]
    b = pod_pass(ctx, fmt, nums, start, lats, lons, rng)
    # one or two interior lines flagged as unusable (fatal bit) in a third of the passes - and always in cases 2 and 3: their own
    # rows are blanked (C07's subject), but their tie points are still lines of the nominal trajectory - the unflagged lines next
    # to them are placed between them exactly as without the flag
    flagged = set()
    if len(nums) >= 8 and (k in (2, 3) or rng.random() < 0.33):
        for i in rng.sample(range(2, len(nums) - 2), rng.choice([1, 2])):
            b.quality[i] = 1 << 31
            flagged.add(int(nums[i]))
    offs = timesgen.ideal_offsets(fmt, nums)
    kind, tu, te = error_profile(rng, start, start + int(offs[-1]), num / den / 1000.0)
    if k in (2, 3):
        kind, tu, te = ("const", [start - 3600000, start + int(offs[-1]) + 3600000], ["0.70", "0.70"]) if k == 2 else \
            ("const-neg", [start - 3600000, start + int(offs[-1]) + 3600000], ["-1.30", "-1.30"])
    if k < 2:
        # corpus: a past failure runs first - error changing sign inside a gap-free pass (no line to recompute)
        kind, tu, te = "sign-change", [start, start + int(offs[-1])], ["-0.80", "0.90"]
    cap = {}

    def fake(self, missed_utcs):
        m = len(missed_utcs)
        # decode the line number from the nominal time the code asks for
        us = np.asarray(missed_utcs).astype("datetime64[us]").astype(np.int64)
        line = n0 + np.rint((us - start * 1000) * den / (num * 1000.0))
        return (np.ones((m, 1)) * np.linspace(-60, 60, 51)[None, :], ((line - lat_base) / 128.0)[:, None] * np.ones((1, 51)))

    payload = {"fmt": fmt, "nums": nums, "start": start, "profile": kind, "table_t": tu, "table_e": te, "stream": "plan",
               "flagged": sorted(flagged)}
    try:
        r, t_pre, t_post, lons_o, lats_o = run_reader(ctx, b, fmt, offsets=Offsets(tu, te), capture=cap, fake_missing=fake)
    except Exception as e:
        ctx.violation("%s plan case (%s): clock-drift correction raised %r" % (fmt, kind, e), payload, cls="raises:" + type(e).__name__)
        return
    # the line-number sanitiser (C11's subject) may have dropped records: judge the lines the reader kept
    nums = [int(x) for x in r.scans["scan_line_number"]]
    if nums != payload["nums"]:
        ctx.branches["plan/sanitiser-dropped-lines"] += 1
        payload["nums_kept"] = nums
    # errors at the line times (exact rational interpolation of the two-point table)
    errs = []
    for t in t_pre.tolist():
        if t <= tu[0]:
            e = Fraction(te[0])
        elif t >= tu[1]:
            e = Fraction(te[1])
        else:
            e = Fraction(te[0]) + (Fraction(te[1]) - Fraction(te[0])) * Fraction(t - tu[0], tu[1] - tu[0])
        errs.append(e)
    rate_us = 500000 if fmt == "podGac" else 166667
    shifted = [Fraction(nn) - e / Fraction(rate_us, 1000000) for nn, e in zip(nums, errs)]
    # property oracle: position = nominal trajectory at the fractional line number; time = time - error
    want_lat = (np.array([float(s) for s in shifted]) - lat_base) / 128.0
    good = np.array([nn not in flagged for nn in nums], dtype=bool)
    dlat = np.abs(lats_o - want_lat[:, None])
    dlat[~good] = 0.0        # the flagged lines' own rows are blank (C07)
    if not np.all(np.isfinite(lats_o[good])) or dlat.max() > 2e-6:
        i = int(np.nanargmax(np.where(np.isfinite(dlat), dlat, np.inf).max(axis=1)))
        ctx.violation("%s, lines %s.., clock error %s%s: line %d is placed at fractional line %.4f instead of %.4f" % (
            fmt, nums[:4], kind, (", lines %s flagged" % sorted(flagged)) if flagged else "", nums[i],
            float(lats_o[i, 25]) * 128 + lat_base, float(shifted[i])), payload, cls="plan-position")
    want_shift = [int(e * 1000) if e >= 0 else -int(-e * 1000) for e in errs]
    got_shift = (t_pre - t_post).tolist()
    if any(abs(a - b_) > 1 for a, b_ in zip(got_shift, want_shift)):
        ctx.violation("%s clock error %s: times shifted by %s.., expected %s.." % (fmt, kind, got_shift[:3], want_shift[:3]),
                      payload, cls="plan-timeshift")
    dec = lambda f: "%s%d.%09d" % ("-" if f < 0 else "", abs(f).numerator * 10 ** 9 // abs(f).denominator // 10 ** 9,
                                   abs(f).numerator * 10 ** 9 // abs(f).denominator % 10 ** 9)
    drv.append(("c09 plan %d %d %d %s %s" % (num, den, int(t_pre[0]), ",".join(map(str, nums)), ",".join(dec(e) for e in errs)),
                {"missed_us": cap.get("missed_utcs"), "shift": got_shift,
                 "lat128": np.where(good, lats_o[:, 25] * 128 + lat_base, np.nan).tolist()}, payload))
    ctx.case((fmt, tuple(nums), kind, start), nontrivial=kind != "zero" or len(set(np.diff(nums))) > 1,
             branch="plan/%s/%s" % (fmt, kind))


def judge_plan(ctx, drv):
    out = Driver(ctx).batch([d[0] for d in drv])
    for (cmd, got, payload), line in zip(drv, out):
        if line.startswith("error"):
            ctx.corr_break("driver: " + line, payload)
            continue
        fl, w, mm, missed, missed_ms, shift = [x.strip() for x in line.split(" | ")]
        fr = lambda s: [Fraction(x) for x in s.split(",")] if s != "_" else []
        fl = [int(x) for x in fl.split(",")]
        w = fr(w)
        m_shift = [int(x) for x in shift.split(",")]
        model_pos = [f + float(x) for f, x in zip(fl, w)]
        if any(abs(a - b) > 3e-4 for a, b in zip(model_pos, got["lat128"]) if b == b):      # NaN: a flagged line's own row
            ctx.corr_break("plan: model fractional lines %s.., implementation %s.." % (model_pos[:3], got["lat128"][:3]), payload)
        if any(abs(a - b) > 1 for a, b in zip(m_shift, got["shift"])):
            ctx.corr_break("plan: model time shifts %s.., implementation %s.." % (m_shift[:3], got["shift"][:3]), payload)
        mm_us = [float(x) * 1000 for x in fr(missed_ms)]
        got_us = got["missed_us"] or []      # the orbit computation is not called when no line has to be recomputed
        if len(mm_us) != len(got_us) or any(abs(a - b) > 1 for a, b in zip(mm_us, got_us)):
            ctx.corr_break("plan: nominal times of the recomputed lines differ (model %d lines %s.., implementation %s..)" % (
                len(mm_us), mm_us[:2], (got["missed_us"] or [])[:2]), payload)


# ---------------------------------------------------------------------------- (b) orbit stream

def orbit_positions(times_us, scan_points, freq_s):
    from pyorbital.geoloc import compute_pixels, get_lonlatalt
    from pyorbital.geoloc_instrument_definitions import avhrr_gac
    tle = filegen.NOAA14_TLE.splitlines()
    order = np.argsort(times_us)
    utcs = np.array(times_us, dtype=np.int64)[order].astype("datetime64[us]")
    with warnings.catch_warnings():
        warnings.simplefilter("ignore")
        sgeom = avhrr_gac(utcs.astype(datetime.datetime), np.asarray(scan_points, dtype=float), frequency=freq_s)
        t0 = utcs[0].astype(datetime.datetime)
        s_times = sgeom.times(t0)
        pos = compute_pixels((tle[0], tle[1]), sgeom, s_times, (0, 0, 0))
        lon, lat, _ = get_lonlatalt(pos, s_times)
    lon = lon.reshape(-1, len(scan_points))
    lat = lat.reshape(-1, len(scan_points))
    inv = np.argsort(order)
    return lon[inv], lat[inv]


def angdist(lon1, lat1, lon2, lat2):
    p1, p2 = np.deg2rad(lat1), np.deg2rad(lat2)
    dl = np.deg2rad(lon1 - lon2)
    a = np.sin((p1 - p2) / 2) ** 2 + np.cos(p1) * np.cos(p2) * np.sin(dl / 2) ** 2
    return np.rad2deg(2 * np.arcsin(np.sqrt(np.clip(a, 0, 1))))


def orbit_case(ctx, rng, k, long_stepped=False):
    fmt = rng.choice(["podGac", "podLac"])
    num, den = timesgen.period(fmt)
    shape = rng.choice(["dense", "gap-near", "gap-far", "late-start"])
    if long_stepped:
        # a LONG pass (4700 lines) whose recorded times jump by 3 s at line 1200 (a clock glitch below the 10 s repair limit;
        # the instrument went on scanning at its rate, so the positions follow the line numbers) with two short gaps far into
        # the pass: absent lines are recomputed at their nominal place in the pass, wherever the pass might be cut into pieces
        fmt, shape = "podGac", "long-stepped"
        num, den = timesgen.period(fmt)
    corpus = (not long_stepped) and k in (0, 1)
    if corpus:
        # runs first: a gap-free pass over a clock reset (error negative on the first lines, positive on the last): every line the
        # correction needs is in the file and NOTHING is to be recomputed - with the real recomputation routine in place (the plan
        # stream replaces it), the correction must still be carried out
        fmt, shape = ["podGac", "podLac"][k], "dense"
        num, den = timesgen.period(fmt)
    pts = 23.5 + 40.0 * np.arange(51) if fmt == "podGac" else 24.0 + 40.0 * np.arange(51)
    if shape == "long-stepped":
        nums = [x for x in range(1, 4701) if x not in (4400, 4401, 4402, 4600, 4601, 4602)]
    elif shape == "dense":
        nums = list(range(1, 31))
    elif shape == "gap-near":
        nums = list(range(1, 8)) + list(range(11, 30))
    elif shape == "gap-far":
        far = rng.choice([1500, 3000]) if fmt == "podGac" else rng.choice([3000, 9000])
        nums = list(range(1, 9)) + list(range(far, far + 12))
    else:
        n0 = rng.choice([40, 700])
        nums = list(range(n0, n0 + 6)) + list(range(n0 + 9, n0 + 25))
    start = ydm_to_ms(2000, 322, rng.randint(3600000, 60000000))
    offs = timesgen.ideal_offsets(fmt, nums)
    t_nom_us = (start + offs) * 1000
    lon, lat = orbit_positions(t_nom_us, pts, num / den / 1000.0)
    b = pod_pass(ctx, fmt, nums, start, lat, lon, rng, step=(1199, 3000) if shape == "long-stepped" else None)
    use_table = rng.random() < 0.4
    if shape == "long-stepped":
        use_table = True
    if corpus:
        use_table = False
    if use_table:
        kind, offsets, tu, te = "shipped-table(0.70)", None, None, None
    else:
        kind, tu, te = error_profile(rng, start, start + int(offs[-1]), num / den / 1000.0)
        if corpus:
            kind, tu, te = "sign-change", [start, start + int(offs[-1])], ["-0.80", "0.90"]
        offsets = Offsets(tu, te)
    payload = {"fmt": fmt, "nums": nums, "start": start, "profile": kind, "table_t": tu, "table_e": te, "stream": "orbit",
               "shape": shape}
    try:
        r, t_pre, t_post, lons_o, lats_o = run_reader(ctx, b, fmt, offsets=offsets, sanitise=(shape != "gap-far"))
    except Exception as e:
        ctx.violation("%s orbit case (%s, %s): clock-drift correction raised %r" % (fmt, shape, kind, e), payload,
                      cls="raises:" + type(e).__name__)
        return
    # truth: the same orbit at the corrected times (exact error, not truncated)
    if use_table:
        errs = np.full(len(nums), 0.70)
    else:
        errs = np.interp(t_pre.astype(float), np.array(tu, dtype=float), np.array([float(x) for x in te]))
    t_true_us = t_nom_us - np.rint(errs * 1e6).astype(np.int64)
    tlon, tlat = orbit_positions(t_true_us, pts, num / den / 1000.0)
    d = angdist(lons_o, lats_o, tlon, tlat)
    if not np.all(np.isfinite(d)):
        ctx.violation("%s orbit case: NaN coordinates after the correction" % fmt, payload, cls="orbit-nan")
    elif d.max() > 0.02:
        i = int(np.argmax(d.max(axis=1)))
        ctx.violation("%s pass (lines %s, %s), clock error %s: line %d is %.3f deg from the position of the same orbit at the "
                      "corrected time (limit 0.02)" % (fmt, "%d..%d" % (nums[0], nums[-1]), shape, kind, nums[i], d[i].max()),
                      payload, cls="orbit-position:%s:%s" % (fmt, "far" if shape == "gap-far" else "near"))
    want_shift = np.trunc(errs * 1000).astype(np.int64)
    if np.any(np.abs((t_pre - t_post) - want_shift) > 1):
        ctx.violation("%s orbit case: time shift %s.., expected %s.." % (fmt, (t_pre - t_post)[:3], want_shift[:3]), payload,
                      cls="orbit-timeshift")
    ctx.extra.setdefault("orbit_max_deg", 0.0)
    if np.all(np.isfinite(d)):
        ctx.extra["orbit_max_deg"] = max(ctx.extra["orbit_max_deg"], float(d.max()))
    ctx.case((fmt, tuple(nums), kind, start), nontrivial=True, branch="orbit/%s/%s" % (fmt, shape))


# ---------------------------------------------------------------------------- (c) skip stream, (d) tables

def skip_cases(ctx, rng):
    for cfg in acc.standard_configs(rng):
        if cfg.applies():
            continue
        s = acc.Subject(ctx, cfg, rng)
        payload = {"config": cfg.name, "stream": "skip"}
        try:
            r = s.reader(interpolate_coords=False)
            t0 = acc.times_ms(r.get_times())
            lon, lat = r.get_lonlat()
            t1 = acc.times_ms(r.get_times())
            flon, flat = r._get_lonlat_from_file()
        except Exception as e:
            ctx.violation("%s: coordinate computation raised %r although the correction must be skipped silently" % (cfg.name, e),
                          payload, cls="skip-raises")
            continue
        if t0 != t1:
            ctx.violation("%s: times changed although the correction does not apply" % cfg.name, payload, cls="skip-times")
        ok = np.allclose(np.where(np.isnan(lon), 0, lon), np.where(np.isnan(lon), 0, flon), atol=1e-9)
        if not ok:
            ctx.violation("%s: coordinates changed although the correction does not apply" % cfg.name, payload, cls="skip-position")
        ctx.case((cfg.name, "skip"), nontrivial=True, branch="skip/" + cfg.name)


def table_cases(ctx, rng):
    from pygac.clock_offsets_converter import get_offsets
    lines, exp = [], []
    for sat in ("noaa7", "noaa9", "noaa11", "noaa12", "noaa14"):
        ut, ce = get_offsets(sat)
        ut = np.array(list(ut), dtype="datetime64[ms]")
        ce = list(ce)
        lo, hi = ut.astype(np.int64).min(), ut.astype(np.int64).max()
        ts = sorted([int(lo - 86400000), int(hi + 86400000), int(lo), int(hi)] +
                    [rng.randint(int(lo), int(hi)) for _ in range(ctx.n(30, 300))])
        # the shipped noaa12 / noaa14 tables are not increasing everywhere; np.interp is undefined around such
        # entries (binary search on unsorted data), so times near them are counted but not compared
        u = ut.astype(np.int64)
        bad = [(min(u[max(0, i - 1):i + 3]), max(u[max(0, i - 1):i + 3])) for i in np.nonzero(np.diff(u) <= 0)[0]]
        keep = [t for t in ts if not any(a <= t <= b for a, b in bad)]
        ctx.branches["table-times-skipped(non-monotonic table)"] += len(ts) - len(keep)
        if bad:
            ctx.notes.append("clock table of %s is not increasing at %d places" % (sat, len(bad)))
        ts = keep
        got = np.interp(np.array(ts, dtype="datetime64[ms]").astype(np.uint64), ut.astype(np.uint64), ce)
        lines.append("c09 err %s %s" % (sat, ",".join(map(str, ts))))
        exp.append(got.tolist())
        for t in ts:
            ctx.case((sat, t), branch="table/" + sat)
    lines.append("c09 err noaa10 0")
    exp.append(None)
    if ctx.driver_ok:
        out = Driver(ctx).batch(lines)
        for l, o, e in zip(lines, out, exp):
            if e is None:
                if o.strip() != "notable":
                    ctx.corr_break("model has a clock table for noaa10")
                continue
            vals = [float(Fraction(x)) for x in o.split(",")]
            if len(vals) != len(e) or any(abs(a - b) > 1e-9 for a, b in zip(vals, e)):
                ctx.corr_break("clock error interpolation differs for %s" % l[:40])


# ---------------------------------------------------------------------------- (e) published tables through the real reader

SAT_IDS = {"noaa7": 4, "noaa9": 7, "noaa11": 1, "noaa12": 5, "noaa14": 3}


def table_rows(sat):
    """rows (start ms, error at start, end ms, error at end) of the published table, as printed in the source text"""
    from pygac.clock_offsets_converter import txt
    rows = []
    ep = datetime.datetime(1970, 1, 1)
    for line in txt[sat].split("\n"):
        e = line.split()
        if len(e) < 6:
            continue
        a = datetime.datetime.strptime(e[0] + e[1], "%y%j%H%M%S")
        b = datetime.datetime.strptime(e[3] + e[4], "%y%j%H%M%S")
        rows.append((int((a - ep).total_seconds() * 1000), Fraction(e[2]), int((b - ep).total_seconds() * 1000), Fraction(e[5])))
    return rows


def row_error(rows, t):
    """The clock error the published rows assign to time t: linear inside a row, linear across the gap between one row's
    end and the next row's start, constant outside the table; None where rows overlap or run backwards (the table gives
    two answers there)."""
    nodes = [(r[0], r[1]) for r in rows] + [(r[2], r[3]) for r in rows]
    lo, hi = min(n[0] for n in nodes), max(n[0] for n in nodes)
    if t < lo:
        return min(nodes)[1] if [n for n in nodes if n[0] == lo] else None
    if t > hi:
        return max(nodes)[1]
    inside = [r for r in rows if r[0] <= t <= r[2]]
    backward = [r for r in rows if r[2] < r[0] and r[2] <= t <= r[0]]
    if backward:
        return None
    vals = set()
    for r in inside:
        vals.add(r[1] if r[2] == r[0] else r[1] + (r[3] - r[1]) * Fraction(t - r[0], r[2] - r[0]))
    if len(vals) == 1:
        return vals.pop()
    if len(vals) > 1:
        return None
    # in a gap between the end of one row and the start of the next one (in table order)
    for r, q in zip(rows, rows[1:]):
        if r[2] < t < q[0]:
            return r[3] + (q[1] - r[3]) * Fraction(t - r[2], q[0] - r[2])
    return None


def realtable_case(ctx, rng, k):
    sat = ["noaa14", "noaa12", "noaa11", "noaa9", "noaa7"][k % 5]
    rows = table_rows(sat)
    i = rng.randrange(len(rows))
    if k % 3 == 0:
        # rows that follow a row whose end lies after their own start (a clock reset listed out of order)
        after = [j for j in range(1, len(rows)) if rows[j][0] < rows[j - 1][2]]
        i = rng.choice(after) if after else i
    r = rows[i]
    where = rng.choice(["inside", "inside", "inside", "near-start", "near-end", "gap", "outside"])
    if where == "inside" and r[2] > r[0]:
        t = rng.randint(r[0], r[2])
    elif where == "near-start":
        t = r[0] + rng.randint(0, 7200000)
    elif where == "near-end":
        t = r[2] - rng.randint(0, 7200000)
    elif where == "gap" and i + 1 < len(rows) and rows[i + 1][0] > r[2]:
        t = rng.randint(r[2], rows[i + 1][0])
    elif where == "outside":
        t = rng.choice([min(x[0] for x in rows) - rng.randint(1000, 10 ** 9), max(x[2] for x in rows) + rng.randint(1000, 10 ** 9)])
    else:
        t = rng.randint(min(r[0], r[2]), max(r[0], r[2]))
    fmt = "podGac"
    n0, n = rng.choice([1, 5, 400]), 6
    nums = list(range(n0, n0 + n))
    lat_base = n0 - 100
    lats = ((np.array(nums, dtype=float) - lat_base) / 128.0)[:, None] * np.ones((1, 51))
    lons = np.ones((n, 1)) * np.linspace(-60, 60, 51)[None, :]
    if t < ydm_to_ms(1979, 1, 0):
        return
    b = pod_pass(ctx, fmt, nums, t, lats, lons, rng)
    b.sat_id = SAT_IDS[sat]
    cap = {}

    def fake(self, missed_utcs):
        us = np.asarray(missed_utcs).astype("datetime64[us]").astype(np.int64)
        line = n0 + np.rint((us - t * 1000) / 500000.0)
        return (np.ones((len(us), 1)) * np.linspace(-60, 60, 51)[None, :], ((line - lat_base) / 128.0)[:, None] * np.ones((1, 51)))

    payload = {"stream": "realtable", "sat": sat, "start": t, "nums": nums, "row": i, "where": where}
    try:
        rd, t_pre, t_post, lons_o, lats_o = run_reader(ctx, b, fmt, capture=cap, fake_missing=fake)
    except Exception as e:
        ctx.violation("%s pass at %d: clock-drift correction raised %r" % (sat, t, e), payload, cls="raises:" + type(e).__name__)
        return
    if rd.spacecraft_name != sat or len(t_pre) != n:
        ctx.notes.append("real-table pass not read as intended (%s, %d lines)" % (rd.spacecraft_name, len(t_pre)))
        return
    errs = [row_error(rows, int(x)) for x in t_pre.tolist()]
    if any(e is None for e in errs):
        ctx.branches["realtable/ambiguous-rows-skipped"] += 1
        return
    want_shift = [int(e * 1000) if e >= 0 else -int(-e * 1000) for e in errs]
    got_shift = (t_pre - t_post).tolist()
    if any(abs(a - b_) > 1 for a, b_ in zip(got_shift, want_shift)):
        ctx.violation("%s pass at %s (table row %d, %s): times shifted by %s.. ms, the published row gives %s.. ms" % (
            sat, np.datetime64(int(t), "ms"), i, where, got_shift[:2], want_shift[:2]), payload, cls="table-timeshift")
    shifted = np.array([float(Fraction(nn) - e * 2) for nn, e in zip(nums, errs)])
    dlat = np.abs(lats_o - ((shifted - lat_base) / 128.0)[:, None])
    if not np.all(np.isfinite(lats_o)) or dlat.max() > 2e-6:
        ctx.violation("%s pass at %s (table row %d): line %d placed at fractional line %.4f, the published row gives %.4f" % (
            sat, np.datetime64(int(t), "ms"), i, nums[0], float(lats_o[0, 25]) * 128 + lat_base, shifted[0]), payload,
            cls="table-position")
    ctx.case((sat, t), nontrivial=any(e != 0 for e in errs), branch="realtable/%s/%s" % (sat, where))



def run(ctx):
    rng = ctx.rng
    drv = []
    for k in range(ctx.n(70, 400)):
        plan_case(ctx, rng, k, drv)
    for k in range(ctx.n(10, 80)):
        orbit_case(ctx, rng, k)
    if ctx.thorough or getattr(ctx, "escalated", False):
        orbit_case(ctx, rng, -1, long_stepped=True)
    skip_cases(ctx, rng)
    table_cases(ctx, rng)
    for k in range(ctx.n(60, 600)):
        realtable_case(ctx, rng, k)
    if not ctx.driver_ok:
        ctx.corr_break("lean driver unavailable: correspondence not run")
        return
    judge_plan(ctx, drv)
    ctx.sample({"plan_cases": len(drv), "orbit_max_deg": ctx.extra.get("orbit_max_deg")})
    ctx.assumptions.append("'missing TLE data' is read as the documented NoTLEData condition (no element set within tle_thresh "
                           "days); an unconfigured tle_dir raises the code's deliberate RuntimeError and is outside the property")


def replay(ctx, path):
    with open(path) as fh:
        body = json.load(fh)
    p = body.get("input", {})
    if p.get("stream") not in ("plan", "orbit", "realtable", "skip"):
        print("replay file carries no concrete pass: %s" % (body.get("broken_theorems_or_obligations") or p))
        return 1
    print("replay: re-running the %s stream with the recorded seed" % p["stream"])
    ctx.rng = random.Random(repr((body.get("seed", 0), "C09")))
    run(ctx)
    if ctx.input_violations:
        print("REPRODUCED: " + ctx.input_violations[0]["what"])
        return 1
    print("not reproduced")
    return 0
