"""Synthetic level-1b files written field by field from the Lean Spec layouts
(never from the numpy dtypes under test)."""
import datetime
import os

import numpy as np

from .common import RecordSpec, spec_layouts

FMT = {
    "klmGac": dict(family="klm", res="gac", width=409, words=682, mode="GHRR", plat="NL", sat_id=2,
                   reader=("pygac.gac_klm", "GACKLMReader"), period=(500, 1), maxlines=15000),
    "klmLac": dict(family="klm", res="lac", width=2048, words=3414, mode="LHRR", plat="NL", sat_id=2,
                   reader=("pygac.lac_klm", "LACKLMReader"), period=(500, 3), maxlines=65535),
    "podGac": dict(family="pod", res="gac", width=409, words=682, mode="GHRR", plat="NJ", sat_id=3,
                   reader=("pygac.gac_pod", "GACPODReader"), period=(500, 1), maxlines=15000),
    "podLac": dict(family="pod", res="lac", width=2048, words=3414, mode="LHRR", plat="NJ", sat_id=3,
                   reader=("pygac.lac_pod", "LACPODReader"), period=(500, 3), maxlines=65535),
}

EPOCH = datetime.datetime(1970, 1, 1)


# every spacecraft either reader family can report: (spacecraft id in the header, platform code of the data-set name, pygac's
# name, a date (year, day of year) inside the spacecraft's operational life).  Written down from the NOAA POD / KLM user's
# guides (spacecraft id tables, data-set naming), NOT from the readers' tables.
PLATFORMS = {
    "klm": [(4, "NK", "noaa15", (1999, 60)), (2, "NL", "noaa16", (2002, 187)), (6, "NM", "noaa17", (2003, 100)),
            (7, "NN", "noaa18", (2006, 50)), (8, "NP", "noaa19", (2010, 120)), (12, "M2", "metopa", (2008, 200)),
            (11, "M1", "metopb", (2014, 30)), (13, "M3", "metopc", (2019, 150))],
    "pod": [(1, "TN", "tirosn", (1979, 100)), (2, "NA", "noaa6", (1981, 50)), (4, "NC", "noaa7", (1983, 20)),
            (6, "NE", "noaa8", (1984, 100)), (7, "NF", "noaa9", (1986, 200)), (8, "NG", "noaa10", (1988, 150)),
            (1, "NH", "noaa11", (1990, 80)), (5, "ND", "noaa12", (1993, 250)), (3, "NJ", "noaa14", (2000, 322)),
            (1, "NH", "noaa11", (1994, 200)), (5, "ND", "noaa12", (1996, 10))],
}


def pod_epoch_of(y, doy):
    """POD header layout in force on a date: 1 before 8 Sep 1992, 2 up to 15 Nov 1994, 3 afterwards"""
    d = datetime.date(y, 1, 1) + datetime.timedelta(days=doy - 1)
    return 1 if d < datetime.date(1992, 9, 8) else (2 if d <= datetime.date(1994, 11, 15) else 3)


def platform_pass(ctx, fmt, n, rng, k, msd=None, **kw):
    """PassBuilder for platform number k (mod the family's list) on a date of that platform's life; returns (builder, name)"""
    fam = FMT[fmt]["family"]
    sat_id, plat, name, (y, doy) = PLATFORMS[fam][k % len(PLATFORMS[fam])]
    if msd is None:
        msd = 3600000 + 1000 * (rng.randrange(0, 70000))
    kw.setdefault("start_ms", ydm_to_ms(y, doy, msd))
    if fam == "pod":
        kw.setdefault("pod_epoch", pod_epoch_of(y, doy))
    pb = PassBuilder(ctx, fmt, n, rng, **kw)
    pb.sat_id, pb.plat = sat_id, plat
    return pb, name


def reader_class(fmt):
    import importlib
    m, c = FMT[fmt]["reader"]
    return getattr(importlib.import_module(m), c)


def ms_to_ydm(ms):
    """ms since 1970 -> (year, day of year, ms of day)"""
    d = EPOCH + datetime.timedelta(milliseconds=int(ms))
    y = d.year
    doy = (d.date() - datetime.date(y, 1, 1)).days + 1
    msd = ((d.hour * 60 + d.minute) * 60 + d.second) * 1000 + d.microsecond // 1000
    return y, doy, msd


def ydm_to_ms(y, doy, msd):
    d = datetime.datetime(y, 1, 1) + datetime.timedelta(days=doy - 1, milliseconds=msd)
    return int(round((d - EPOCH).total_seconds() * 1000))


def pod_timecode(y, doy, msd):
    return [((y % 100) << 9) | (doy & 0x1FF), (msd >> 16) & 2047, msd & 0xFFFF]


def dataset_name(fmt, start_ms, plat=None, mode=None, site="NSS"):
    y, doy, msd = ms_to_ydm(start_ms)
    hhmm = "%02d%02d" % (msd // 3600000, (msd // 60000) % 60)
    return "%s.%s.%s.D%02d%03d.S%s.E%s.B0000000.GC" % (site, mode or FMT[fmt]["mode"], plat or FMT[fmt]["plat"],
                                                     y % 100, doy, hhmm, hhmm)


def pack_words(samples, nwords, top_bits=None):
    """samples: int array (..., n) of 10-bit values -> uint32 words (3 per word, bits 29-20,19-10,9-0)."""
    s = np.zeros(samples.shape[:-1] + (nwords * 3,), dtype=np.uint32)
    s[..., :samples.shape[-1]] = samples
    s = s.reshape(samples.shape[:-1] + (nwords, 3))
    w = (s[..., 0] << 20) | (s[..., 1] << 10) | s[..., 2]
    if top_bits is not None:
        w = w | (np.asarray(top_bits, dtype=np.uint32) << 30)
    return w.astype(np.uint32)


class PassBuilder:
    """Builds one synthetic pass. All per-line quantities are numpy arrays that may be
    modified before `tobytes()`."""

    def __init__(self, ctx, fmt, n, rng, start_ms=None, n0=1, line_numbers=None, header_version=2,
                 pod_epoch=3):
        self.ctx = ctx
        self.fmt = fmt
        self.f = FMT[fmt]
        self.n = n
        self.rng = rng
        L = spec_layouts(ctx)
        self.rec = RecordSpec(L[fmt])
        fam = self.f["family"]
        if start_ms is None:
            start_ms = ydm_to_ms(2002, 187, 68700000) if fam == "klm" else ydm_to_ms(2000, 322, 3600000)
        self.start_ms = start_ms
        self.header_version = header_version
        self.pod_epoch = pod_epoch
        self.line_numbers = np.arange(n0, n0 + n) if line_numbers is None else np.asarray(line_numbers)
        num, den = self.f["period"]
        self.times_ms = start_ms + ((self.line_numbers - self.line_numbers[0]) * num) // den
        self.header_ms = start_ms
        self.quality = np.zeros(n, dtype=np.uint32)
        self.bitfield = np.zeros(n, dtype=np.uint16)           # KLM scan_line_bit_field (ch3 switch = &3)
        nprng = np.random.default_rng(rng.randrange(1 << 30))
        self.nprng = nprng
        w = self.f["width"]
        self.samples = nprng.integers(0, 1024, size=(n, w * 5), dtype=np.uint32)
        self.top_bits = np.zeros((n, self.f["words"]), dtype=np.uint32)
        # tie points (degrees): a plausible descending track
        self.lats = np.linspace(60.0, 60.0 - 0.03 * n, n)[:, None] + np.linspace(-3, 3, 51)[None, :] * 0.3
        self.lons = np.linspace(-20.0, -20.0 - 0.01 * n, n)[:, None] + np.linspace(-12, 12, 51)[None, :]
        # telemetry: PRT cycle with reset every 5th line (phase from line number), ICT ~ 400, space ~ 990
        self.prt = np.where((self.line_numbers % 5) == 0, 0, 280 + (self.line_numbers % 5))[:, None] * np.ones((1, 3), dtype=int)
        self.ict = np.tile(np.array([380, 410, 420]), (n, 1))   # channels 3b,4,5
        self.space = np.tile(np.array([990, 991, 992]), (n, 1))
        self.space_vis = np.tile(np.array([40, 41]), (n, 1))
        self.overrides = {}       # leaf name -> array (n, count) written last
        self.header_overrides = {}
        self.sat_id = self.f["sat_id"]
        self.plat = self.f["plat"]
        self.mode = self.f["mode"]
        self.name_in_header = True
        self.header_count = None
        self.archive = False
        self.tail = b""

    # ---- records
    def records(self):
        n = self.n
        size = self.rec.size
        buf = np.zeros((n, size), dtype=np.uint8)
        by = self.rec.by_name

        def put(name, arr):
            l = by[name]
            arr = np.asarray(arr)
            if arr.ndim == 1:
                arr = arr[:, None]
            dt = {("u", 1): ">u1", ("u", 2): ">u2", ("u", 4): ">u4", ("i", 1): ">i1", ("i", 2): ">i2", ("i", 4): ">i4"}[
                (l["kind"], l["width"])]
            raw = arr.astype(dt).view(np.uint8).reshape(n, arr.shape[1], l["width"])
            for j in range(arr.shape[1]):
                o = l["off"] + j * l["stride"]
                buf[:, o:o + l["width"]] = raw[:, j, :]

        fam = self.f["family"]
        words = pack_words(self.samples, self.f["words"], self.top_bits)
        put("sensor_data", words)
        if fam == "klm":
            put("scan_line_number", self.line_numbers)
            ydm = np.array([ms_to_ydm(t) for t in self.times_ms])
            put("scan_line_year", ydm[:, 0])
            put("scan_line_day_of_year", ydm[:, 1])
            put("scan_line_utc_time_of_day", ydm[:, 2])
            put("scan_line_bit_field", self.bitfield)
            put("quality_indicator_bit_field", self.quality)
            put("earth_location.lats", np.rint(self.lats * 1e4).astype(np.int64))
            put("earth_location.lons", np.rint(self.lons * 1e4).astype(np.int64))
            put("telemetry.PRT", self.prt)
            bs = np.zeros((n, 30), dtype=int)
            for c in range(3):
                bs[:, c::3] = self.ict[:, c:c + 1]
            put("back_scan", bs)
            sp = np.zeros((n, 50), dtype=int)
            for c in range(2):
                sp[:, c::5] = self.space_vis[:, c:c + 1]
            for c in range(3):
                sp[:, 2 + c::5] = self.space[:, c:c + 1]
            put("space_data", sp)
        else:
            put("scan_line_number", self.line_numbers)
            tc = np.array([pod_timecode(*ms_to_ydm(t)) for t in self.times_ms])
            put("time_code", tc)
            put("quality_indicators", self.quality)
            put("earth_location.lats", np.rint(self.lats * 128).astype(np.int64))
            put("earth_location.lons", np.rint(self.lons * 128).astype(np.int64))
            # 103 ten-bit telemetry words: 18-20 PRT, 23..52 ICT (3 channels x 10), 53..102 space (5 ch x 10)
            tele = np.zeros((n, 105), dtype=np.uint32)
            tele[:, 17:20] = self.prt
            for c in range(3):
                tele[:, 22 + c:50 + c:3] = self.ict[:, c:c + 1]
            for c in range(2):
                tele[:, 52 + c:98 + c:5] = self.space_vis[:, c:c + 1]
            for c in range(3):
                tele[:, 54 + c:100 + c:5] = self.space[:, c:c + 1]
            put("telemetry", pack_words(tele, 35))
        for name, arr in self.overrides.items():
            put(name, arr)
        return buf

    # ---- header
    def header_block(self):
        L = spec_layouts(self.ctx)
        fam = self.f["family"]
        size = self.rec.size
        block = bytearray(size)
        name = dataset_name(self.fmt, self.header_ms, plat=self.plat, mode=self.mode)
        self.dsname = name
        count = self.n if self.header_count is None else self.header_count
        y, doy, msd = ms_to_ydm(self.header_ms)
        if fam == "klm":
            h = RecordSpec(L["klmHeader"])
            hb = h.blank()
            h.put(hb, "data_set_creation_site_id", b"NSS")
            h.put(hb, "ascii_blank_=_x20", b" ")
            h.put(hb, "noaa_level_1b_format_version_number", self.header_version)
            h.put(hb, "count_of_header_records", 1)
            h.put(hb, "data_set_name", name.encode() if self.name_in_header else bytes(42))
            h.put(hb, "noaa_spacecraft_identification_code", self.sat_id)
            h.put(hb, "data_type_code", 2 if self.f["res"] == "gac" else 1)
            h.put(hb, "start_of_data_set_year", y)
            h.put(hb, "start_of_data_set_day_of_year", doy)
            h.put(hb, "start_of_data_set_utc_time_of_day", msd)
            h.put(hb, "count_of_data_records", count)
            for k, v in self.header_overrides.items():
                h.put(hb, k, v)
            block[:h.size] = hb
        else:
            h = RecordSpec(L["podHeader%d" % self.pod_epoch])
            hb = h.blank()
            h.put(hb, "noaa_spacecraft_identification_code", self.sat_id)
            h.put(hb, "data_type_code", 2 if self.f["res"] == "gac" else 1)
            h.put(hb, "start_time", pod_timecode(y, doy, msd))
            h.put(hb, "number_of_scans", count)
            h.put(hb, "end_time", pod_timecode(y, doy, msd))
            nm = name.encode() if self.name_in_header else b""
            if self.pod_epoch == 2:
                h.put(hb, "data_set_name", nm)
            else:
                h.put(hb, "data_set_name", nm + (b"  " if nm else b""))
            for k, v in self.header_overrides.items():
                h.put(hb, k, v)
            block[:h.size] = hb
        return bytes(block)

    def archive_header(self):
        L = spec_layouts(self.ctx)
        if not self.archive:
            return b""
        if self.f["family"] == "klm":
            a = RecordSpec(L["arsHeader"])
            ab = bytearray(b" " * a.size)
            a.put(ab, "data_set_name", self.dsname.encode())
            a.put(ab, "data_format", b"NOAA Level 1b v2    ")
            return bytes(ab)
        a = RecordSpec(L["tbmHeader"])
        ab = bytearray(b" " * a.size)
        a.put(ab, "data_set_name", self.dsname.encode() + b"  ")
        return bytes(ab)

    def tobytes(self):
        recs = self.records()
        hb = self.header_block()
        return self.archive_header() + hb + recs.tobytes() + self.tail

    def write(self, directory, fname=None):
        data = self.tobytes()
        path = os.path.join(directory, fname or self.dsname)
        with open(path, "wb") as fh:
            fh.write(data)
        return path

    def truth_times(self):
        return self.times_ms.copy()


# --- TLE support (element sets are data about the orbit, not code under test)
NOAA14_TLE = ("1 23455U 94089A   00322.04713399  .00000318  00000-0  19705-3 0  5298\n"
              "2 23455  99.1591 303.5706 0010037  25.7760 334.3905 14.12496755303183\n"
              "1 23455U 94089A   00322.96799836  .00000229  00000-0  14918-3 0  5303\n"
              "2 23455  99.1590 304.5117 0009979  23.1101 337.0518 14.12496633303313\n")


def retimed_tle(text, epochs):
    """the element sets of `text` with their epoch fields replaced (check digit of line 1 recomputed)"""
    lines = text.splitlines()
    out = []
    for k in range(0, len(lines), 2):
        l1 = lines[k][:18] + epochs[k // 2] + lines[k][32:68]
        chk = sum(int(c) for c in l1 if c.isdigit()) + l1.count("-")
        out += [l1 + str(chk % 10), lines[k + 1]]
    return "\n".join(out) + "\n"


def tle_dir(ctx):
    """Directory with TLE_noaa14.txt (2000-322) and TLE_noaa16.txt (2000-265 .. 2007-096)."""
    d = os.path.join(ctx.scratch, "tle")
    if not os.path.isdir(d):
        os.makedirs(d)
        with open(os.path.join(d, "TLE_noaa14.txt"), "w") as fh:
            fh.write(NOAA14_TLE)
        # the other spacecraft need a TLE file to be read with default options (clock drift, angles): the NOAA-14
        # element sets re-dated to the platform dates of PLATFORMS (the orbit itself does not matter to the checks using them)
        for _id, _pl, nm, (y, doy) in PLATFORMS["pod"] + PLATFORMS["klm"]:
            if nm not in ("noaa14", "noaa16"):
                with open(os.path.join(d, "TLE_%s.txt" % nm), "a") as fh:
                    fh.write(retimed_tle(NOAA14_TLE, ["%02d%03d.04713399" % (y % 100, doy), "%02d%03d.96799836" % (y % 100, doy)]))
                    if nm == "noaa10":
                        fh.write(NOAA14_TLE)      # the accessor checks read a NOAA-10 file dated 2000-322
        src = "/repo/gapfilled_tles/TLE_noaa16.txt"
        if os.path.exists(src):
            import shutil
            shutil.copy(src, os.path.join(d, "TLE_noaa16.txt"))
    return d


def make_reader(ctx, fmt, path=None, data=None, name=None, **kw):
    """Real reader of the given format, read from a path or from bytes."""
    import io
    cls = reader_class(fmt)
    kw.setdefault("tle_dir", tle_dir(ctx))
    kw.setdefault("tle_name", "TLE_%(satname)s.txt")
    r = cls(**kw)
    if data is not None:
        r.read(name, fileobj=io.BytesIO(data))
    else:
        r.read(path)
    return r
