"""C18 — pass metadata describe the data that are returned."""
import json
import random

from . import accessors as acc
from .accessors import COORD_OPS
from .common import Driver
from .filegen import ydm_to_ms

THEOREM_MODULES = ["PygacModel.Theorems.C18"]
RULE = ("passes of all four formats with UTC midnight at every offset within +-4 lines of the clock-drift-induced shift "
        "(POD, clock error 0.7 s), at random positions, absent, or crossed twice is impossible at these lengths; gaps and "
        "first line numbers 1..60; each coordinate-computing accessor (get_lonlat, dataset, calibrated channels, angles) as "
        "the first trigger, with get_times before or not; reader.meta_data and the dataset attrs compared with the "
        "property's own oracle evaluated on the times that get_times returns afterwards, and with the Lean model's "
        "prediction of when the metadata exist. A case = (pass, trigger sequence); non-trivial = pass with a midnight "
        "crossing, a gap or a drift shift; distinct by (format, start time, line numbers, trigger)")
TRUSTED_EXTRA = ["the cosine of the distance factor is evaluated by libm in the oracle (compared to 1e-12)"]


def gen_config(rng, k):
    fmt = rng.choice(["podGac", "podGac", "podLac", "klmGac", "klmLac"])
    n = rng.choice([12, 30]) if fmt.endswith("Lac") else rng.choice([20, 45])
    n0 = rng.choice([1, 1, 2, 7, 60])
    nums, cur = [], n0
    for _ in range(n):
        nums.append(cur)
        cur += 1 + (rng.randint(1, 5) if rng.random() < 0.1 else 0)
    # records out of order / with a slightly wrong number survive the sanitiser (deviation < 500): "missing" is a set
    # difference against 1..last, whatever the order of the records
    shape = rng.choice(["ordered", "ordered", "swapped", "flipped"])
    if shape == "swapped" and n > 6:
        i = rng.randrange(2, n - 2)
        nums[i], nums[i + 1] = nums[i + 1], nums[i]
    elif shape == "flipped" and n > 6:
        i = rng.randrange(2, n - 2)
        nums[i] = nums[i] + rng.choice([16, 64, 100])
    if fmt.endswith("Lac") and rng.random() < 0.2:
        # the pass ENDS at the largest line number its 16-bit field can hold (POD: signed, 32767; KLM full-resolution
        # readers accept up to 65534): "missing" is still everything absent between 1 and that number
        top = 32767 if fmt.startswith("pod") else 65534
        sh = top - max(nums)
        nums = [x + sh for x in nums]
    pod = fmt.startswith("pod")
    year, doy = (2000, 322) if pod else (2002, 187)
    per = 500 if fmt.endswith("Gac") else 166
    kind = rng.choice(["near-shift", "near-shift", "random-midnight", "none", "first-line", "last-line", "year-end"])
    if kind == "year-end":
        # the pass starts on 31 December of a leap year (day 366) shortly before midnight, or on 1 January
        year = 2000 if pod else 2004
        doy = rng.choice([366, 366, 1])
        kind_start = ydm_to_ms(year + (1 if doy == 1 else 0), doy, 0) + (86400000 - rng.randint(1, 8) * per if doy == 366 else rng.randint(0, 3) * per)
    span = (nums[-1] - nums[0]) * per
    if kind == "none":
        start = ydm_to_ms(year, doy, rng.randint(3600000, 80000000))
    elif kind == "first-line":
        start = ydm_to_ms(year, doy, rng.randint(0, 900))
    elif kind == "last-line":
        start = ydm_to_ms(year, doy, 0) - span + rng.randint(-900, 900)
    elif kind == "random-midnight":
        start = ydm_to_ms(year, doy, 0) - rng.randint(0, span)
    elif kind == "year-end":
        start = kind_start
    else:
        c = rng.randint(1, n - 1)
        start = ydm_to_ms(year, doy, 0) - (nums[c] - nums[0]) * per + rng.randint(-1800, 1800)
    kw = {}
    if rng.random() < 0.3:
        kw["interpolate_coords"] = False
    cfg = (1, 1, 1, 1) if pod else (0, 1, 0, 1)
    if pod and rng.random() < 0.2:
        kw["adjust_clock_drift"] = False
        cfg = (1, 0, 1, 1)
    return acc.Config("%s-%s-%d" % (fmt, kind, k), fmt, start, n, kw=kw, nums=nums, cfg=cfg), kind


def check_one(ctx, cfg, kind, rng, drv, seed):
    s = acc.Subject(ctx, cfg, random.Random(seed))
    trig = rng.choice(sorted(COORD_OPS) + ["dataset"])
    pre = rng.choice([[], ["getTimes"], ["readMeta"], ["getCounts", "getTimes"]])
    h = pre + [trig, "readMeta", "dataset", "getTimes"]
    r = s.reader()
    try:
        outs = [acc.perform(r, o) for o in h]
    except IndexError as e:
        if "No PRT 0-index" in str(e):
            # the thermal calibration needs a PRT reset line among the pass's line numbers (C05's subject); a pass
            # without one cannot be calibrated at all and is not judged here
            ctx.branches["not-calibratable(no PRT reset line): no verdict"] += 1
            return
        raise
    final = list(outs[-1][1])
    want = acc.meta_oracle(final, s.nums)
    payload = {"fmt": cfg.fmt, "start": cfg.start, "n": cfg.n, "nums": cfg.nums, "kw": cfg.kw, "cfg": list(cfg.cfg),
               "history": h, "seed": seed, "kind": kind}
    meta = outs[len(pre) + 1][1]
    attrs = outs[len(pre) + 2][4]
    ds_times = list(outs[len(pre) + 2][1])
    views = [("reader.meta_data", meta), ("dataset attrs", attrs)]
    if trig == "dataset":
        # the dataset that itself triggered the coordinate computation
        views.append(("attrs of the first dataset (the trigger)", outs[len(pre)][4]))
        if list(outs[len(pre)][1]) != final:
            ctx.violation("%s: times coordinate of the first dataset differs from get_times() afterwards" % cfg.name,
                          payload, cls="dataset-times")
    for name, got in views:
        if got is None:
            ctx.violation("%s: %s empty after %s" % (cfg.name, name, trig), payload, cls="meta-missing")
        elif got != want:
            part = [n for n, a, b in zip(("midnight line", "missing lines", "distance factor"), got, want) if a != b]
            ctx.violation("%s (%s) after %s%s: %s = %s but the returned times / line numbers give %s (%s)" % (
                cfg.fmt, kind, pre, trig, name, got, want, ", ".join(part)), payload, cls="meta:" + "+".join(part))
    if ds_times != final:
        ctx.violation("%s: dataset times coordinate differs from get_times() afterwards" % cfg.name, payload, cls="dataset-times")
    if "readMeta" in pre and outs[pre.index("readMeta")][1] is not None:
        ctx.violation("%s: meta_data filled before any coordinate computation" % cfg.name, payload, cls="meta-early")
    drv.append(("c12 %d %d %d %d %s" % (cfg.cfg + (",".join(acc.model_op(o) for o in h),)), outs, h, payload))
    days = [t // 86400000 for t in final]
    ctx.case((cfg.fmt, cfg.start, tuple(cfg.nums), trig, tuple(pre)),
             nontrivial=(days[0] != days[-1]) or len(want[1]) > 0 or cfg.applies(),
             branch="%s/%s/%s" % (cfg.fmt, kind, "midnight" if want[0] is not None else "no-midnight"))


def long_pass_cases(ctx, rng):
    """A pass of several thousand records with gaps and with two neighbouring records stored in the wrong order right at record
    4096 (and at 2048): the missing-line list and the midnight line still describe the returned data."""
    import io
    import warnings
    import numpy as np
    from . import filegen
    n = 4200
    ln = np.arange(1, n + 1) + 3
    ln[2000:] += 3                   # a gap of three lines
    for p_ in (2047, 4095):
        ln[p_], ln[p_ + 1] = ln[p_ + 1], ln[p_]
    start = ydm_to_ms(2002, 187, 86400000 - 500 * 3000)       # midnight inside the pass
    pb = filegen.PassBuilder(ctx, "klmGac", n, random.Random(repr((ctx.seed, "c18long"))), start_ms=start, line_numbers=ln)
    r = filegen.make_reader(ctx, "klmGac", data=pb.tobytes(), name=pb.dsname)
    with warnings.catch_warnings():
        warnings.simplefilter("ignore")
        r.get_lonlat()
        t = acc.times_ms(r.get_times())
    nums = [int(x) for x in r.scans["scan_line_number"]]
    got = acc.meta_view(r.meta_data)
    want = acc.meta_oracle(list(t), nums)
    payload = {"fmt": "klmGac", "n": n, "stream": "long-pass", "swapped_at": [2047, 4095]}
    if got != want:
        part = [nm for nm, a, b in zip(("midnight line", "missing lines", "distance factor"), got or (None,) * 3, want) if a != b]
        ctx.violation("klmGac pass of %d records (two neighbouring records swapped at record 2048 and at 4096): meta_data %s differ from "
                      "what the returned times / line numbers give (%s vs %s)" % (n, part, [g if not isinstance(g, tuple) else g[:8] for g in (got or ())],
                                                                                 [w if not isinstance(w, tuple) else w[:8] for w in want]),
                      payload, cls="meta-long:" + "+".join(part))
    ctx.case(("long", n), nontrivial=True, branch="long-pass")


def run(ctx):
    rng = ctx.rng
    drv = []
    if ctx.thorough or getattr(ctx, "escalated", False):
        long_pass_cases(ctx, rng)
    for k in range(ctx.n(120, 3000)):
        cfg, kind = gen_config(rng, k)
        check_one(ctx, cfg, kind, rng, drv, seed=rng.randrange(1 << 30))
        if k < 3:
            ctx.sample({"config": cfg.name, "start": cfg.start, "nums": cfg.nums[:8]})
    if not ctx.driver_ok:
        ctx.corr_break("lean driver unavailable: correspondence not run")
        return
    out = Driver(ctx).batch([d[0] for d in drv])
    for (cmd, outs, h, payload), line in zip(drv, out):
        syms = line.split(" | ")[0].split(";")
        for op, got, sym in zip(h, outs, syms):
            if op == "readMeta" and (sym == "meta:none") != (got[1] is None):
                ctx.corr_break("model says %s, implementation meta_data %s after %s" % (sym, got[1], h), payload)


def replay(ctx, path):
    with open(path) as fh:
        body = json.load(fh)
    p = body.get("input", {})
    if "history" not in p or "fmt" not in p:
        print("replay file carries no concrete pass: %s" % (body.get("broken_theorems_or_obligations") or p))
        return 1
    cfg = acc.Config("replay", p["fmt"], p["start"], p["n"], kw=p["kw"], nums=p["nums"], cfg=tuple(p["cfg"]))
    s = acc.Subject(ctx, cfg, random.Random(p["seed"]))
    r = s.reader()
    outs = [acc.perform(r, o) for o in p["history"]]
    want = acc.meta_oracle(list(outs[-1][1]), s.nums)
    metas = [o[1] for o, op in zip(outs, p["history"]) if op == "readMeta" and o[1] is not None]
    if any(m != want for m in metas):
        print("REPRODUCED: meta_data %s, returned times give %s" % (metas, want))
        return 1
    print("not reproduced")
    return 0


RULE = RULE + (" In the thorough tier, and in the quick tier whenever the source differs from the validated baseline, a LONG-PASS stream is added (passes of 1300 .. 12000 lines, just beyond multiples of 256 .. 8192, with the property-relevant event placed at and after such multiples; DESIGN 10.4 round 13).")
