"""C05 — thermal channels follow the documented NOAA KLM calibration procedure."""
import io
import json
import math
import warnings
from fractions import Fraction

import numpy as np

from . import filegen, timesgen
from .common import Driver
from .filegen import ydm_to_ms

THEOREM_MODULES = ["PygacModel.Theorems.C05"]
RULE = ("calibrate_thermal for all 17 spacecraft x channels 3b/4/5 on generated passes: lengths 6..52..400 (thorough 1500), "
        "first line numbers 1..5 and arbitrary (all PRT-cycle phases), line-number gaps, isolated invalid PRT / internal-"
        "target / space readings, reset markers 0..49, scene counts 0..1023 (16 per line quick, all 1024 thorough on "
        "selected lines); compared with the Lean model (discrete part exact, radiometric part in Float, 1e-6 K, guard band "
        "1e-6 K at 170 / 350 K) and with an independent straight-line transcription of KLM guide 7.1.2.4 with explicit "
        "window sums; plus the reader pipeline on KLM and POD files. A case = (spacecraft, channel, pass); non-trivial = "
        "pass with a gap, an invalid reading or a first line number other than 1; distinct by (spacecraft, channel, "
        "line numbers hash, telemetry hash)")
RULE += (" In the thorough tier, and in the quick tier whenever the source differs from the validated baseline, a LONG-PASS stream is added (passes of 1300 .. 12000 lines, just beyond multiples of 256 .. 8192, with the property-relevant event placed at and after such multiples; DESIGN 10.4 round 13).")
TRUSTED_EXTRA = ["libm exp/log are treated as the real functions to within the comparison tolerance (1e-6 K); numerical "
                 "agreement of the radiometric part is differential testing, not a theorem"]

C1 = 1.1910427e-5
C2 = 1.4387752


def table():
    from importlib.resources import files
    with open(files("pygac") / "data/calibration.json") as fh:
        t = json.load(fh, parse_float=str, parse_int=str)
    return {k: v for k, v in t.items() if isinstance(v, dict) and "channel_1" in v}


def median(xs):
    s = sorted(xs)
    n = len(s)
    if n == 0:
        return None
    return s[n // 2] if n % 2 else (s[n // 2 - 1] + s[n // 2]) / 2


def interp_idx(i, good_idx, good_val):
    """linear interpolation in index space between the nearest valid readings; constant beyond the ends"""
    if i <= good_idx[0]:
        return good_val[0]
    if i >= good_idx[-1]:
        return good_val[-1]
    for a in range(len(good_idx) - 1):
        if good_idx[a] <= i <= good_idx[a + 1]:
            x0, x1 = good_idx[a], good_idx[a + 1]
            return good_val[a] + (good_val[a + 1] - good_val[a]) * Fraction(i - x0, x1 - x0)
    raise AssertionError


def oracle(sat_tab, chan, nums, prt, ict, space, counts):
    """KLM guide 7.1.2.4 as documented by pygac, transcribed independently. Returns ("ok", bt[line][k]) or (kind,)"""
    n = len(nums)
    prt = [Fraction(x) for x in prt]
    ict = [Fraction(x) for x in ict]
    space = [Fraction(x) for x in space]
    res = [(x - nums[0]) % 5 for x in nums]
    off = None
    for k in range(5):
        m = median([p for p, r in zip(prt, res) if r == k])
        if m is not None and m < 50:
            off = k
            break
    if off is None:
        return ("noPrtIndex",)
    therm = [(x - nums[0] + 5 - off) % 5 for x in nums]
    for k in (1, 2, 3, 4):
        bad = [i for i in range(n) if therm[i] == k and prt[i] < 50]
        if bad:
            good = [i for i in range(n) if therm[i] == k and prt[i] > 50]
            if not good:
                return ("valueError",)
            vals = [prt[i] for i in good]
            for i in bad:
                prt[i] = interp_idx(i, good, vals)
    d = lambda t, j: Fraction(sat_tab.get("thermometer_%d" % t, {}).get("d%d" % j, "0"))
    tprt = [sum(d(therm[i], j) * prt[i] ** j for j in range(5)) if therm[i] else Fraction(0) for i in range(n)]
    good = [i for i in range(n) if therm[i] != 0]
    if not good:
        return ("valueError",)
    vals = [tprt[i] for i in good]
    tprt = [tprt[i] if therm[i] else interp_idx(i, good, vals) for i in range(n)]
    if chan == 3:
        good = [i for i in range(n) if ict[i] >= 100]
        if not good:
            return ("raw",)
        vals = [ict[i] for i in good]
        ict = [ict[i] if ict[i] >= 100 else interp_idx(i, good, vals) for i in range(n)]
        good = [i for i in range(n) if space[i] >= 100]
        if not good:
            return ("valueError",)
        vals = [space[i] for i in good]
        space = [space[i] if space[i] >= 100 else interp_idx(i, good, vals) for i in range(n)]
    h = 25 if n > 51 else 1

    def smooth(x):
        out = []
        for i in range(n):
            c = min(max(i, h), n - 1 - h)
            out.append(sum(x[c - h:c + h + 1]) / (2 * h + 1))
        return out

    tprt, ict, space = smooth(tprt), smooth(ict), smooth(space)
    cc = sat_tab["channel_%s" % {3: "3b", 4: "4", 5: "5"}[chan]]
    A, B = float(cc["to_eff_blackbody_intercept"]), float(cc["to_eff_blackbody_slope"])
    nu, nS = float(cc["centroid_wavenumber"]), float(cc["space_radiance"])
    b0, b1, b2 = float(cc["b0"]), float(cc["b1"]), float(cc["b2"])
    bts = []
    for i in range(n):
        tsBB = A + B * float(tprt[i])
        nBB = C1 * nu ** 3 / (math.exp(C2 * nu / tsBB) - 1.0)
        row = []
        for c in counts:
            cS, cBB, cE = float(space[i]), float(ict[i]), float(c)
            try:
                nlin = nS + (nBB - nS) * (cS - cE) / (cS - cBB)
                ne = nlin + b0 + b1 * nlin + b2 * nlin * nlin
                tsE = C2 * nu / math.log(1.0 + C1 * nu ** 3 / ne)
                bt = (tsE - A) / B
            except (ZeroDivisionError, ValueError):
                bt = float("nan")
            if chan == 3 and cE - cS >= 0:
                bt = 0.0
            if not (170.0 <= bt <= 350.0):
                bt = float("nan")
            row.append(bt)
        bts.append(row)
    return ("ok", bts, tprt, ict, space)


def gen_pass(rng, thorough):
    n = rng.choice([6, 7, 10, 23, 50, 51, 52, 53, 120, 400] + ([1500] if thorough else []))
    n0 = rng.choice([1, 2, 3, 4, 5, 1, 17, 1234])
    nums, cur = [], n0
    gaps = rng.random() < 0.4
    for _ in range(n):
        nums.append(cur)
        cur += 1 + (rng.choice([1, 2, 3, 5, 7, 11]) if gaps and rng.random() < 0.06 else 0)
    phase = rng.randrange(5)
    cyc = None
    if n >= 20 and rng.random() < 0.3:
        # gaps aligned with the PRT cycle: whole thermometer groups missing, so that reset lines become neighbours
        # in the file, or reset lines themselves missing
        cyc = rng.choice(["drop-thermometers", "drop-thermometers", "drop-reset", "drop-two-cycles"])
        keep = []
        resets = [x for x in nums if (x - phase) % 5 == 0]
        victims = set()
        pool = resets[1:-1] or resets
        for r0 in rng.sample(pool, min(len(pool), rng.randint(1, 3))):
            if cyc == "drop-thermometers":
                victims |= {r0 + 1, r0 + 2, r0 + 3, r0 + 4}
            elif cyc == "drop-two-cycles":
                victims |= set(range(r0 + 1, r0 + 10))
            else:
                victims |= {r0}
        nums = [x for x in nums if x not in victims]
        n = len(nums)
        gaps = True
    reset_val = rng.choice([0, 0, 0, 3, 49])
    base = rng.choice([180, 280, 330])
    prt = [reset_val if (x - phase) % 5 == 0 else base + ((x - phase) % 5) * 3 + rng.randint(-2, 2) for x in nums]
    ict = [rng.randint(330, 480) + rng.randint(-2, 2) for _ in nums]
    ict_level = rng.randint(330, 480)
    ict = [ict_level + rng.randint(-3, 3) for _ in nums]
    sp_level = rng.randint(960, 1000)
    space = [sp_level + rng.randint(-2, 2) for _ in nums]
    kind = []
    if rng.random() < 0.4:            # isolated invalid PRT readings on thermometer lines
        for _ in range(rng.randint(1, 3)):
            i = rng.randrange(n)
            if (nums[i] - phase) % 5 != 0:
                prt[i] = rng.choice([0, 10, 49])
                kind.append("bad-prt")
    if rng.random() < 0.3:            # a reset line whose PRT word carries a (high) thermometer-like or garbage count
        cand = [i for i in range(n) if (nums[i] - phase) % 5 == 0]
        if len(cand) > 3:
            for i in rng.sample(cand, rng.randint(1, 2)):
                prt[i] = rng.choice([50, 51, 300, 613, 1023])
                kind.append("bad-reset-high")
    if rng.random() < 0.3:
        for _ in range(rng.randint(1, 3)):
            ict[rng.randrange(n)] = rng.choice([0, 50, 99])
            kind.append("bad-ict")
    if rng.random() < 0.3:
        for _ in range(rng.randint(1, 3)):
            space[rng.randrange(n)] = rng.choice([0, 99])
            kind.append("bad-space")
    if rng.random() < 0.03:
        prt = [base + 5] * n
        kind.append("no-reset")
    if cyc:
        kind.append("cycle-gap:" + cyc)
    return nums, prt, ict, space, {"n": n, "n0": n0, "gaps": gaps, "phase": phase, "reset": reset_val, "kinds": sorted(set(kind))}


def pick_num_dtype(rng, nums):
    """the dtype the line numbers reach the calibration with: the readers pass the file's own field (KLM: big-endian
    unsigned 16 bit, POD: big-endian signed 16 bit), direct callers anything"""
    cands = [None]
    if 0 <= min(nums) and max(nums) <= 65535:
        cands += [">u2", ">u2"]
    if -32768 <= min(nums) and max(nums) <= 32767:
        cands += [">i2"]
    return rng.choice(cands)


_CALLS = [0]


def real_thermal(sat, chan, nums, prt, ict, space, counts, num_dtype=None):
    from pygac.calibration.noaa import Calibrator, calibrate_thermal
    _CALLS[0] += 1
    if _CALLS[0] % 3 == 0:
        # someone else in this process has just calibrated the same spacecraft with CUSTOM thermal coefficients (a
        # sensitivity experiment: every thermometer 5 K warmer, other channel coefficients): the default calibration
        # that follows must not see any of it
        tb = table()[sat]
        custom = {}
        for key in ("thermometer_1", "thermometer_2", "thermometer_3", "thermometer_4"):
            if key in tb:
                custom[key] = {k: float(v) + (5.0 if k == "d0" else 0.0) for k, v in tb[key].items()}
        for key in ("channel_3b", "channel_4", "channel_5"):
            custom[key] = {k: float(v) * 1.01 for k, v in tb[key].items()}
        Calibrator(sat, custom_coeffs=custom)
    cal = Calibrator(sat)
    n = len(nums)
    cnt = np.tile(np.asarray(counts, dtype=float)[None, :], (n, 1))
    with warnings.catch_warnings():
        warnings.simplefilter("ignore")
        try:
            bt = calibrate_thermal(cnt, np.asarray(prt, dtype=float), np.asarray(ict, dtype=float),
                                   np.asarray(space, dtype=float), np.asarray(nums, dtype=num_dtype), chan, cal)
        except IndexError:
            return ("noPrtIndex",)
        except ValueError:
            return ("valueError",)
    if bt is cnt or (np.array_equal(bt, cnt) and chan == 3):
        return ("raw",)
    return ("ok", np.asarray(bt))


def compare_bt(got, want, tol=1e-6):
    """max deviation outside the guard bands; returns (ok, detail)"""
    got = np.asarray(got, dtype=float)
    want = np.asarray(want, dtype=float)
    gn, wn = np.isnan(got), np.isnan(want)
    near_edge = np.zeros_like(gn)
    for v in (got, want):
        f = np.where(np.isnan(v), 0.0, v)
        near_edge |= (np.abs(f - 170.0) < 1e-5) | (np.abs(f - 350.0) < 1e-5)
    mism = (gn != wn) & ~near_edge
    if mism.any():
        i = np.argwhere(mism)[0]
        return False, "NaN pattern differs at line %d, count index %d (%s vs %s)" % (i[0], i[1], got[tuple(i)], want[tuple(i)])
    both = ~gn & ~wn
    if both.any():
        dmax = np.max(np.abs(got[both] - want[both]))
        if dmax > tol:
            i = np.argwhere(both & (np.abs(got - want) > tol))[0]
            return False, "line %d, count index %d: %.7f K vs %.7f K" % (i[0], i[1], got[tuple(i)], want[tuple(i)])
    return True, ""


def direct_cases(ctx, tab):
    rng = ctx.rng
    sats = sorted(tab)
    lines, pend = [], []
    ncase = ctx.n(150, 600)
    for k in range(ncase):
        sat = sats[k % len(sats)]
        chan = 3 + (k // len(sats)) % 3
        nums, prt, ict, space, info = gen_pass(rng, ctx.thorough)
        if (ctx.thorough or getattr(ctx, "escalated", False)) and k < (4 if ctx.thorough else 2):
            # LONG passes (several thousand lines, a little more than a multiple of 4000 / 4096): the 51-line window runs over
            # the whole pass - the last lines are smoothed exactly like all others, whatever the length
            L = [4096, 4000, 8192, 12000][k] + rng.randint(1, 21)
            n0_, ph_ = rng.choice([1, 3, 700]), rng.randrange(5)
            nums = list(range(n0_, n0_ + L))
            prt = [0 if (x - ph_) % 5 == 0 else 380 + 12 * ((x - ph_) % 5) + rng.randint(-2, 2) for x in nums]
            ict = [rng.randint(480, 520) for _ in nums]
            space = [rng.randint(985, 995) for _ in nums]
            info = {"n": L, "n0": n0_, "gaps": False, "phase": ph_, "reset": 0, "kinds": ["long"]}
        # some passes END at the largest line number their 16-bit field can hold (a full-resolution orbit has > 32767 lines;
        # LAC readers accept numbers up to 65534): only the position in the five-line cycle matters, not the magnitude
        r_ = rng.random()
        if r_ < 0.06 and len(nums) >= 12 and nums[-1] < 30000:
            # ... and some SPAN (almost) the whole unsigned range across one gap: first lines near 1, last lines near 65534
            # (before fix 4cb3134 the cycle position wrapped in 16-bit arithmetic beyond a span of 65530)
            h_ = len(nums) // 2
            sh = 65534 - rng.randint(0, 3) - nums[-1]
            nums = nums[:h_] + [x + sh for x in nums[h_:]]
            info = dict(info, num_dtype=">u2", gaps=True)
        elif r_ < 0.12 and nums[-1] - nums[0] < 30000:
            sh = 65534 - rng.randint(0, 3) - nums[-1]
            nums = [x + sh for x in nums]
            info = dict(info, n0=nums[0], num_dtype=">u2")
        elif r_ < 0.24 and nums[-1] - nums[0] < 30000:
            sh = 32767 - rng.randint(0, 3) - nums[-1]
            nums = [x + sh for x in nums]
            info = dict(info, n0=nums[0], num_dtype=rng.choice([">i2", ">u2"]))
        else:
            info = dict(info, num_dtype=pick_num_dtype(rng, nums))
        counts = sorted(set([0, 1023, 512] + [rng.randint(0, 1023) for _ in range(13)]))
        if ctx.thorough and k % 20 == 0:
            counts = list(range(1024))
        payload = {"sat": sat, "chan": chan, "nums": nums, "prt": prt, "ict": ict, "space": space, "counts": counts, "info": info}
        got = real_thermal(sat, chan, nums, list(prt), list(ict), list(space), counts, info["num_dtype"])
        want = oracle(tab[sat], chan, nums, prt, ict, space, counts)
        if got[0] != want[0]:
            ctx.violation("%s channel %d, %d lines from %d (%s): implementation outcome %s, KLM procedure gives %s" % (
                sat, chan, info["n"], info["n0"], info["kinds"], got[0], want[0]), payload, cls="thermal-outcome:%s" % got[0])
        elif got[0] == "ok":
            ok, detail = compare_bt(got[1], want[1])
            if not ok:
                ctx.violation("%s channel %d, %d lines from line %d (gaps=%s, %s): %s [implementation vs KLM procedure]" % (
                    sat, chan, info["n"], info["n0"], info["gaps"], info["kinds"], detail), payload, cls="thermal-value")
        j = lambda xs: ",".join(str(x) for x in xs)
        lines.append("c05 %s %d %s %s %s %s %s" % (sat, chan, j(nums), j(prt), j(ict), j(space), j(counts)))
        pend.append((got, payload))
        ctx.case((sat, chan, hash(tuple(nums)), hash(tuple(prt + ict + space))),
                 nontrivial=bool(info["gaps"] or info["kinds"] or info["n0"] != 1),
                 branch="direct/ch%d/%s/%s" % (chan, "short" if info["n"] <= 51 else "long", got[0]))
    if not ctx.driver_ok:
        ctx.corr_break("lean driver unavailable: correspondence not run")
        return
    out = Driver(ctx).batch(lines)
    for (got, payload), o in zip(pend, out):
        if o.startswith("error") or o == "raw":
            kind = {"error noPrtIndex": "noPrtIndex", "error valueError": "valueError", "raw": "raw"}.get(o.strip(), o)
            if kind != got[0]:
                ctx.corr_break("model outcome %s, implementation %s (%s)" % (kind, got[0], payload["info"]), payload)
            continue
        if got[0] != "ok":
            ctx.corr_break("model outcome ok, implementation %s (%s)" % (got[0], payload["info"]), payload)
            continue
        parts = o.split(" | ")
        rows = [[float("nan") if v == "nan" else float(v) for v in r.split(",")] for r in parts[4].split(";")]
        ok, detail = compare_bt(got[1], rows)
        if not ok:
            ctx.corr_break("model vs implementation: %s (%s %s)" % (detail, payload["sat"], payload["info"]), payload)


def pipeline_cases(ctx, tab):
    rng = ctx.rng
    nbase = ctx.n(4, 24)
    sweep = [("podGac", j) for j in range(len(filegen.PLATFORMS["pod"]))] + [("klmGac", j) for j in range(len(filegen.PLATFORMS["klm"]))]
    for k in range(nbase + len(sweep)):
        fmt = rng.choice(["klmGac", "podGac", "klmGac", "podLac"])
        n = rng.choice([12, 60]) if fmt.endswith("Gac") else 10
        sat = "noaa16" if fmt.startswith("klm") else "noaa14"
        start = ydm_to_ms(2002, 187, 40000000) if fmt.startswith("klm") else ydm_to_ms(2000, 322, 40000000)
        n0 = rng.choice([1, 3, 4])
        plat = None
        if k >= nbase:
            # PLATFORM SWEEP: a file of every spacecraft of either family (header id and platform code from the user's guides,
            # filegen.PLATFORMS - not from the readers' tables) is calibrated with THAT spacecraft's coefficient set
            fmt, plat = sweep[k - nbase]
            sid, pcode, sat, (yy, dd) = filegen.PLATFORMS[filegen.FMT[fmt]["family"]][plat]
            start = ydm_to_ms(yy, dd, 40000000)
            n = 12
        nums_file = list(range(n0, n0 + n))
        cls = filegen.reader_class(fmt)
        if k == 0:
            # a KLM LAC pass whose line numbers span more than 32767 across one data gap (FRAC orbits have ~36000 lines):
            # the unsigned 16-bit numbers must reach the calibration as they are (line-number sanitising, C11's subject, off)
            fmt, sat, n = "klmLac", "noaa16", 50
            start = ydm_to_ms(2002, 187, 40000000)
            nums_file = list(range(n0, n0 + 25)) + list(range(n0 + 32800, n0 + 32825))
            cls = type("LACKLMNoSanitise", (filegen.reader_class(fmt),), {"correct_scan_line_numbers": lambda self: {}})
        tp = timesgen.TimePass(fmt, nums_file, start)
        if plat is not None:
            b = tp.build(ctx, rng, **({"pod_epoch": filegen.pod_epoch_of(yy, dd)} if fmt.startswith("pod") else {}))
            b.sat_id, b.plat = sid, pcode
        else:
            b = tp.build(ctx, rng)
        b.samples = b.nprng.integers(300, 950, size=b.samples.shape, dtype=np.uint32)
        data = b.tobytes()
        r = cls(tle_dir=filegen.tle_dir(ctx), tle_name="TLE_%(satname)s.txt", adjust_clock_drift=False)
        r.read(b.dsname, fileobj=io.BytesIO(data))
        if r.is_tsm_affected():
            continue
        prt, ict, space = r.get_telemetry()
        # earth counts as written to the file (sample 5*p + c), not as reported by the reader
        counts = np.asarray(b.samples, dtype=np.int64).reshape(n, -1, 5)
        nums = [int(x) for x in r.scans["scan_line_number"]]
        try:
            with warnings.catch_warnings():
                warnings.simplefilter("ignore")
                ch = r.get_calibrated_channels()
                if k % 2:
                    ch = r.get_calibrated_channels()     # the second request on the same reader
        except Exception as e:      # noqa - these passes are calibratable: an exception is a failure of the procedure
            ctx.violation("%s pipeline, line numbers %s..%s: calibration raised %s: %s" % (
                fmt, nums_file[0], nums_file[-1], type(e).__name__, e), {"fmt": fmt, "stream": "pipeline", "n0": n0, "nums": nums_file},
                cls="thermal-pipeline-raises:%s" % type(e).__name__)
            continue
        for ci, chan in enumerate((3, 4, 5)):
            col = {3: -3, 4: -2, 5: -1}[chan]
            cidx = 2 + ci
            px = rng.sample(range(counts.shape[1]), 5)
            for line in rng.sample(range(n), min(n, 6)):
                cs = [int(counts[line, p, cidx]) for p in px]
                want = oracle(tab[sat], chan, nums, [Fraction(float(x)).limit_denominator(10 ** 6) for x in prt],
                              [Fraction(float(x)).limit_denominator(10 ** 6) for x in ict[:, ci]],
                              [Fraction(float(x)).limit_denominator(10 ** 6) for x in space[:, ci]], cs)
                if want[0] != "ok":
                    continue
                g = [ch[line, p, col] for p in px]
                if fmt.startswith("klm") and chan == 3:
                    continue      # 3b lines are blanked / routed by the channel-select bits (C14)
                ok, detail = compare_bt([g], [want[1][line]], tol=1e-5)
                if not ok:
                    ctx.violation("%s pipeline (%s) channel %d line %d: %s" % (fmt, sat, chan, line, detail),
                                  {"fmt": fmt, "stream": "pipeline", "n0": n0, "platform": plat, "spacecraft": sat}, cls="thermal-pipeline")
        ctx.case((fmt, n0, n, plat), nontrivial=True, branch=("pipeline/" + fmt) if plat is None else "pipeline/platform-sweep")


def run(ctx):
    tab = table()
    direct_cases(ctx, tab)
    pipeline_cases(ctx, tab)
    ctx.sample({"spacecraft": sorted(tab), "channels": [3, 4, 5]})


def replay(ctx, path):
    with open(path) as fh:
        body = json.load(fh)
    p = body.get("input", {})
    if "prt" not in p:
        print("replay: re-running the check (%s)" % (p or body.get("broken_theorems_or_obligations")))
        run(ctx)
    else:
        tab = table()
        got = real_thermal(p["sat"], p["chan"], p["nums"], list(p["prt"]), list(p["ict"]), list(p["space"]), p["counts"],
                           (p.get("info") or {}).get("num_dtype"))
        want = oracle(tab[p["sat"]], p["chan"], p["nums"], p["prt"], p["ict"], p["space"], p["counts"])
        if got[0] != want[0] or (got[0] == "ok" and not compare_bt(got[1], want[1])[0]):
            ctx.violation("implementation differs from the KLM procedure", p, cls="thermal-value")
    if ctx.input_violations:
        print("REPRODUCED: " + ctx.input_violations[0]["what"])
        return 1
    print("not reproduced")
    return 0
