"""C03 — recorded scan-line times are decoded exactly and consistent ones preserved."""
import json

import numpy as np

from . import filegen, timesgen
from .common import Driver
from .filegen import FMT, ms_to_ydm, ydm_to_ms
from .timesgen import DAY, TimePass

THEOREM_MODULES = ["PygacModel.Theorems.C03"]
RULE = ("consistent passes (recorded times = start + floor((n-n0)*period), header = first line's time) of all four "
        "formats: first line numbers 1..2100, gap patterns none/small/big/mixed, UTC midnight at every relative position "
        "(incl. first/last 1 %, exact ms=0 lines), year boundaries incl. leap years and day 366, both rates; real "
        "get_times() vs the Lean model (to 1 ms) and vs the recorded instants (the property's own oracle); plus decoding "
        "of random / extreme POD time words and KLM triples vs the model. A case = one pass or one decode; non-trivial = "
        "pass with >= 2 lines or any decode; distinct by (format, line numbers hash, start time)")
RULE += (" In the thorough tier, and in the quick tier whenever the source differs from the validated baseline, a LONG-PASS stream is added (passes of 1300 .. 12000 lines, just beyond multiples of 256 .. 8192, with the property-relevant event placed at and after such multiples; DESIGN 10.4 round 13).")
TRUSTED_EXTRA = ["float64 arithmetic of the code is modelled exactly (Rat); agreement is checked to 1 ms",
                 "datetime.now().year is read once by the harness and passed to the model"]

KNOWN_CLASSES = {"newyear-early"}


def classify(tp, res_times):
    """Class of a failing consistent pass (used to match known findings)."""
    years = set(tp.year.tolist())
    n = len(tp.nums)
    if len(years) > 1:
        first_year_lines = int(np.sum(tp.year == tp.year[0]))
        num, den = timesgen.period(tp.fmt)
        far = (tp.nums[0] - 1) * num / den > 360000
        if first_year_lines / float(n) < 0.01 or far:
            return "newyear-early"
        return "newyear"
    if len(set(tp.jday.tolist())) > 1:
        return "midnight"
    return "sameday"


def gen_pass(rng, thorough, k, long_ok=False):
    if long_ok and k % 16 == 13:
        # a LONG pass (2600 lines) that crosses midnight in its first third, has gaps of a few lines all along, and starts at
        # a line number for which the header time is of no help: consistent recorded times come back as recorded
        fmt = rng.choice(list(FMT))
        n0 = rng.choice([800, 4000])
        nums, cur = [], n0
        for i in range(2600):
            nums.append(cur)
            cur += 1 + (rng.choice([3, 7]) if (i > 950 and i % 211 == 0) else 0)
        offs = timesgen.ideal_offsets(fmt, nums)
        year = rng.choice([1996, 2000]) if FMT[fmt]["family"] == "pod" else rng.choice([2003, 2008])
        c = rng.randint(300, 900)
        start = ydm_to_ms(year, rng.randint(2, 300), 0) - rng.randint(int(offs[c - 1]) + 1, int(offs[c]))
        return TimePass(fmt, nums, start), {"kind": "midnight", "gaps": "small", "n": len(nums), "n0": n0}
    if k % 16 == 5:
        # the minimum-fraction limit of the second repair stage met EXACTLY: a pass crossing 1 January whose lines before
        # the new year are exactly 1 % of a line count that is a multiple of 100, the first line after it at 00:00:00.000
        fmt = rng.choice(list(FMT))
        n = rng.choice([100, 200, 300])
        nums = list(range(1, n + 1))
        offs = timesgen.ideal_offsets(fmt, nums)
        year = rng.choice([1992, 1996, 1999, 2000, 2003]) if FMT[fmt]["family"] == "pod" else rng.choice([1999, 2000, 2003, 2004, 2008])
        c = n // 100
        start = ydm_to_ms(year + 1, 1, 0) - int(offs[c])
        return TimePass(fmt, nums, start), {"kind": "newyear-1pct", "gaps": "none", "n": n, "n0": 1}
    if k % 16 == 9:
        # the shortest passes there are: one line (or the same line delivered twice), at exactly 00:00:00.000 or not
        fmt = rng.choice(list(FMT))
        n0 = rng.choice([1, 1, 37, 700])
        nums = [n0] if rng.random() < 0.7 else [n0, n0]
        year = rng.choice([1996, 2000, 2003]) if FMT[fmt]["family"] == "pod" else rng.choice([2000, 2004, 2009])
        start = ydm_to_ms(year, rng.choice([1, 60, 366 if year % 4 == 0 else 365]), rng.choice([0, 0, 1, 43200000, 86399999]))
        return TimePass(fmt, nums, start), {"kind": "one-line", "gaps": "none", "n": len(nums), "n0": n0}
    fmt = rng.choice(list(FMT))
    num, den = timesgen.period(fmt)
    n = rng.choice([1, 2, 3, 7, 60, 150, 400] + ([2000, 6000, 13000] if thorough else []) + ([1500] if k % 25 == 0 else []))
    hi = FMT[fmt]["maxlines"] - 1
    hi = min(hi, 32000)
    n0 = rng.choice([1, 1, 2, 3, 5, 100, 700, 722, 2000, 2100, rng.randint(1, 3000)])
    gaps = rng.choice(["none", "small", "big", "mixed"])
    nums = timesgen.line_numbers(rng, n, n0, gaps)
    nums = [x for x in nums if x <= hi] or [n0]
    n = len(nums)
    span = ((nums[-1] - nums[0]) * num) // den
    kind = rng.choice(["plain", "midnight", "midnight", "midnight-ms0", "newyear", "edge-first", "edge-last"])
    year = rng.choice([1981, 1992, 1996, 1999, 2000, 2003, 2004, 2008, 2015, 2020])
    if FMT[fmt]["family"] == "klm":
        year = rng.choice([1999, 2000, 2003, 2004, 2008, 2015, 2020, 2024])
    offs = timesgen.ideal_offsets(fmt, nums)
    if kind == "plain" or n < 2:
        doy = rng.randint(1, 365)
        start = ydm_to_ms(year, doy, rng.randint(0, max(0, DAY - 1 - span))) if span < DAY else ydm_to_ms(year, doy, 0)
    else:
        # choose the line that is the first after midnight
        if kind == "edge-first":
            c = rng.randint(1, max(1, n // 100 + 1))
        elif kind == "edge-last":
            c = n - rng.randint(1, max(1, n // 100 + 1))
        else:
            c = rng.randint(1, n - 1)
        c = min(max(c, 1), n - 1)
        if kind == "newyear":
            midnight = ydm_to_ms(year + 1, 1, 0)
        else:
            midnight = ydm_to_ms(year, rng.randint(2, 366 if year % 4 == 0 else 365), 0)
        # line c is at or just after midnight, line c-1 before
        lo, hi_ = int(offs[c - 1]), int(offs[c])
        if kind == "midnight-ms0" or rng.random() < 0.2:
            start = midnight - hi_            # line c exactly at 00:00:00.000
        else:
            start = midnight - rng.randint(lo + 1, hi_)
    tp = TimePass(fmt, nums, start)
    return tp, {"kind": kind, "gaps": gaps, "n": n, "n0": n0}


def check_pass(ctx, tp, info, drv):
    rng = ctx.rng
    # long passes are fed to the real time pipeline without a file (a 13000-line LAC file is 200 MB)
    res = timesgen.real_times(ctx, tp, rng, direct=len(tp.nums) > 1600)
    payload = dict(tp.describe(), info=info)
    truth = tp.truth.tolist()
    cls = classify(tp, res.get("times"))
    if res["kind"] != "times":
        ctx.violation("get_times() of a consistent pass gave %s %s" % (res["kind"], res.get("detail", "")), payload, cls="kind:" + res["kind"])
    elif len(res["times"]) != len(res["raw"][0]):
        ctx.violation("get_times() returned %d times for %d lines" % (len(res["times"]), len(res["raw"][0])), payload, cls="length")
    elif res["raw"][0] == tp.nums:
        dev = [abs(a - b) for a, b in zip(res["times"], truth)]
        worst = max(dev)
        if worst > 1:
            i = dev.index(worst)
            ctx.violation("%s consistent pass (%s, n0=%d, %d lines, gaps=%s): line index %d (number %d) returned %+d ms from its "
                          "recorded time" % (tp.fmt, info["kind"], tp.nums[0], len(tp.nums), info["gaps"], i, tp.nums[i],
                                             res["times"][i] - truth[i]), payload, cls="consistent:" + cls)
    else:
        ctx.notes.append("line-number sanitising changed a clean pass (C11's subject): not judged here")
    if res["head_ms"] is not None and not isinstance(res["head_ms"], str) and tp.header_fields is None:
        if res["head_ms"] != tp.header_ms:
            ctx.violation("header time decoded to %d, written %d" % (res["head_ms"], tp.header_ms), payload, cls="header-decode")
    # raw decode clause: the fields seen by the reader are the written ones
    if res["raw"][0] == tp.nums and (res["raw"][1] != tp.year.tolist() or res["raw"][2] != tp.jday.tolist()
                                     or res["raw"][3] != tp.msec.tolist()):
        ctx.violation("recorded (year, day, ms) decoded differently from what was written", payload, cls="field-decode")
    hm = res["head_ms"] if not isinstance(res["head_ms"], str) else None
    drv.append((timesgen.model_line(tp.fmt, res["raw"], hm), res, payload))
    ctx.case((tp.fmt, hash(tuple(tp.nums)), tp.start_ms), nontrivial=len(tp.nums) >= 2,
             branch="%s/%s/%s" % (FMT[tp.fmt]["family"], info["kind"], info["gaps"]))


def compare_with_model(ctx, drv):
    if not ctx.driver_ok:
        ctx.corr_break("lean driver unavailable: correspondence not run")
        return
    out = Driver(ctx).batch([d[0] for d in drv])
    refused = 0
    for (cmd, res, payload), o in zip(drv, out):
        if o.startswith("error"):
            ctx.corr_break("driver: " + o, payload)
            continue
        t1, fin, ref = timesgen.parse_model(o)
        refused += ref
        if res["kind"] != "times":
            ctx.corr_break("implementation gave %s, model gives times" % res["kind"], payload)
            continue
        dev = [abs(a - b) for a, b in zip(res["times"], fin)]
        if len(fin) != len(res["times"]) or (dev and max(dev) > 1):
            i = dev.index(max(dev)) if dev else -1
            ctx.corr_break("model and implementation differ by %s ms at line index %d (%s)" % (
                max(dev) if dev else "len", i, payload.get("info")), payload)
    ctx.extra["model_stage2_refusals"] = refused


def decode_cases(ctx):
    """POD time words / KLM triples -> instant: real decoding vs model vs arithmetic oracle."""
    from pygac.gac_pod import GACPODReader
    from pygac.reader import Reader
    rng = ctx.rng
    lines, exp = [], []
    n = ctx.n(300, 5000)
    for k in range(n):
        if k < 40:
            yy = [0, 75, 76, 99, 50, 96, 0, 4][k % 8]
            doy = [1, 365, 366, 59, 60, 61, 511, 0][(k // 8) % 8] if k < 32 else rng.randint(0, 511)
            ms = [0, DAY - 1, 1, 2 ** 27 - 1, 43200000][k % 5]
        else:
            yy, doy, ms = rng.randrange(100), rng.randrange(512), rng.randrange(2 ** 27)
        w0, w1, w2 = (yy << 9) | doy, (ms >> 16) | (rng.randrange(32) << 11), ms & 0xFFFF
        enc = np.array([[w0, w1, w2]], dtype=">u2")
        y, d, m = GACPODReader.decode_timestamps(enc)
        year_exp = 1900 + yy if yy > 75 else 2000 + yy
        if (int(y[0]), int(d[0]), int(m[0])) != (year_exp, doy, ms):
            ctx.violation("POD time words %04x %04x %04x decoded to (%d,%d,%d), format says (%d,%d,%d)" % (
                w0, w1, w2, y[0], d[0], m[0], year_exp, doy, ms), {"words": [w0, w1, w2]}, cls="pod-decode")
        t = Reader.to_datetime64(np.asarray(y), np.asarray(d), np.asarray(m)).astype("datetime64[ms]").astype(np.int64)[0]
        if doy >= 1:
            want = ydm_to_ms(year_exp, 1, 0) + (doy - 1) * DAY + ms
            if int(t) != want:
                ctx.violation("(%d, day %d, %d ms) converted to %d, expected %d" % (year_exp, doy, ms, t, want),
                              {"ydm": [year_exp, doy, ms]}, cls="instant")
        lines.append("c03 poddec %d %d %d" % (w0, w1, w2))
        exp.append("%d %d %d" % (y[0], d[0], m[0]))
        if doy >= 1:      # day 0 is not a date; numpy's unsigned (jday - 1) wraps there and stage 1 replaces it anyway
            lines.append("c03 instant %d %d %d" % (y[0], d[0], m[0]))
            exp.append(str(int(t)))
        ctx.case(("dec", w0, w1, w2), branch="decode")
    if ctx.driver_ok:
        out = Driver(ctx).batch(lines)
        for l, o, e in zip(lines, out, exp):
            if o.strip() != e:
                ctx.corr_break("decode: model %s, implementation %s for %s" % (o, e, l))


def run(ctx):
    drv = []
    decode_cases(ctx)
    npass = ctx.n(160, 1500)
    for k in range(npass):
        tp, info = gen_pass(ctx.rng, ctx.thorough, k, long_ok=(ctx.thorough or getattr(ctx, 'escalated', False)))
        check_pass(ctx, tp, info, drv)
        if k < 4:
            ctx.sample({"fmt": tp.fmt, "info": info, "nums": tp.nums[:6], "start_ms": tp.start_ms})
    compare_with_model(ctx, drv)


def replay(ctx, path):
    with open(path) as fh:
        body = json.load(fh)
    inp = body.get("input", {})
    if "nums" not in inp:
        print("replay file carries no concrete pass: %s" % (body.get("broken_theorems_or_obligations") or inp))
        return 1
    tp = TimePass.from_description(inp)
    check_pass(ctx, tp, inp.get("info", {"kind": "?", "gaps": "?"}), [])
    if ctx.input_violations:
        print("REPRODUCED: " + ctx.input_violations[0]["what"])
        return 1
    print("not reproduced")
    return 0
