"""C19 — scan-motor masking acts only inside the listed intervals, on the defined pixels."""
import datetime
import io
import json
import warnings

import numpy as np

from . import filegen, timesgen
from .common import Driver
from .filegen import FMT

THEOREM_MODULES = ["PygacModel.Theorems.C19"]
RULE = ("(a) gate: passes placed at every boundary of ALL 172 listed intervals (quick: 14 of 31 placements per interval) at offsets "
        "-1 line / exactly / +1 line for start and end, inside, outside, spanning two neighbouring intervals, and on other spacecraft of both families inside "
        "the intervals: real is_tsm_affected() vs Lean gate on the regenerated tables vs the property's statement; (b) pixel "
        "criterion: random images with planted noise, NaN pixels / rows / blocks in one channel pair, 1..12 lines x 3..20 columns: real get_tsm_idx vs "
        "the Lean model (exact variance > 4) vs explicit NaN-ignoring 3x3 standard deviation, guard band |var - 4| < 1e-6; "
        "(c) pipeline: synthetic KLM (NOAA-16) and POD (NOAA-14) files inside / straddling / outside an interval with noisy "
        "counts: get_calibrated_channels with the gate vs the same reader with the gate forced off - blanked pixels = "
        "criterion pixels in ALL channels, everything else bit-identical; (d) the masking step on scenes of 2000..14000 lines "
        "with an isolated noisy pixel on every second line vs the criterion evaluated on the whole scene. A case = one (pass, spacecraft) gate query, one "
        "image, or one file; distinct by those keys")
TRUSTED_EXTRA = ["bottleneck.nanstd is an external kernel; its agreement with the exact variance is checked on every image",
                 "a zero channel-5 value (division by zero in the relative difference) is outside the generator"]

EPOCH = datetime.datetime(1970, 1, 1)


def ms(d):
    return int(round((d - EPOCH).total_seconds() * 1000))


def tables():
    from pygac.correct_tsm_issue import TSM_AFFECTED_INTERVALS_KLM, TSM_AFFECTED_INTERVALS_POD
    return {"pod": TSM_AFFECTED_INTERVALS_POD, "klm": TSM_AFFECTED_INTERVALS_KLM}


def gate_oracle(tabs, fam, sid, ts, te):
    """the property's statement: spacecraft listed and the pass entirely inside one interval"""
    return any(ms(a) <= ts and te <= ms(b) for a, b in tabs[fam].get(sid, []))


def gate_cases(ctx):
    from pygac.gac_klm import GACKLMReader
    from pygac.gac_pod import GACPODReader
    rng = ctx.rng
    tabs = tables()
    readers = {"pod": GACPODReader, "klm": GACKLMReader}
    ids = {"pod": [25, 2, 4, 6, 7, 8, 1, 5, 3], "klm": [4, 2, 6, 7, 8, 12, 11, 13]}
    lines, exp = [], []
    todo = []
    for fam in ("pod", "klm"):
        for sid, ivs in tabs[fam].items():
            for k, (a, b) in enumerate(ivs):
                todo.append((fam, sid, ms(a), ms(b)))      # every listed interval, in both tiers: a query is cheap
    nxt = {}
    for fam in ("pod", "klm"):
        for sid, ivs in tabs[fam].items():
            srt = sorted((ms(a), ms(b)) for a, b in ivs)
            for (a1, b1), (a2, b2) in zip(srt, srt[1:]):
                nxt[(fam, sid, a1, b1)] = (a2, b2)
    for fam, sid, a, b in todo:
        cands = []
        if (fam, sid, a, b) in nxt:
            # a pass that starts inside this interval and ends inside the NEXT one (both ends are inside a listed
            # interval, the pass is not inside one): in both tiers, for every pair of neighbouring intervals
            a2, b2 = nxt[(fam, sid, a, b)]
            cands.append(((a + b) // 2, (a2 + b2) // 2))
            cands.append((b, a2))
        for dur in (500, 60000, min(3600000, max(1000, (b - a) // 2)), rng.randint(1000, 6600000)):
            cands += [(a, a + dur), (a - 500, a + dur), (a + 500, a + dur + 500), (b - dur, b), (b - dur, b + 500),
                      (b - dur - 500, b - 500), ((a + b) // 2, (a + b) // 2 + dur)]
        cands += [(a, b), (a - 500, b + 500), (a - 86400000, a - 86400000 + 60000)]
        if not ctx.thorough:
            span = [c for c in cands[:2] if (fam, sid, a, b) in nxt]
            cands = rng.sample(cands, 12) + [(a, b), (a, a + min(3600000, max(1000, (b - a) // 2)))] + span
        for ts, te in cands:
            for s in [sid] + ([x for x in ids[fam] if x != sid][:2] if rng.random() < 0.3 else []):
                r = readers[fam]()
                r.spacecraft_id = s
                r._times_as_np_datetime64 = np.array([ts, (ts + te) // 2, te], dtype="datetime64[ms]")
                r.scans = np.zeros(3, dtype=r.scanline_type)      # three unflagged records, so that any reader attribute can be derived
                got = bool(r.is_tsm_affected())
                want = gate_oracle(tabs, fam, s, ts, te)
                payload = {"fam": fam, "sid": s, "ts": ts, "te": te, "interval": [a, b], "stream": "gate"}
                if got != want:
                    ctx.violation("%s spacecraft id %d, pass %d..%d, listed interval %d..%d: masking %s, property says %s" % (
                        fam, s, ts, te, a, b, "applied" if got else "not applied", "applies" if want else "does not apply"),
                        payload, cls="gate:%s" % ("applied-outside" if got else "missed-inside"))
                lines.append("c19 gate %s %d %d %d" % (fam, s, ts, te))
                exp.append((got, payload))
                ctx.case((fam, s, ts, te), nontrivial=True, branch="gate/%s/%s" % (fam, "in" if want else "out"))
    if ctx.driver_ok:
        out = Driver(ctx).batch(lines)
        for (got, payload), o in zip(exp, out):
            if (o.strip() == "1") != got:
                ctx.corr_break("gate: model %s, implementation %s for %s" % (o.strip(), got, payload), payload)


def std3_oracle(img):
    """explicit NaN-ignoring 3x3 population standard deviation, edges included"""
    n, m = img.shape
    out = np.zeros((n, m))
    for i in range(n):
        for j in range(m):
            w = [img[a, b] for a in range(max(0, i - 1), min(n, i + 2)) for b in range(max(0, j - 1), min(m, j + 2))
                 if not np.isnan(img[a, b])]
            out[i, j] = float(np.std(w)) if w else 0.0
    return out


def gen_images(rng, nprng):
    n, m = rng.choice([1, 2, 3, 5, 8, 12]), rng.choice([3, 4, 9, 20])
    base1 = nprng.integers(10, 60, size=(n, m)).astype(float)
    ch1 = base1 + nprng.integers(0, 2, size=(n, m))
    ch2 = base1 * 1.0 + nprng.integers(0, 2, size=(n, m))
    ch4 = 250.0 + nprng.integers(0, 30, size=(n, m))
    ch5 = ch4 - nprng.integers(0, 3, size=(n, m))
    # planted noise
    for _ in range(rng.randint(0, 6)):
        i, j = rng.randrange(n), rng.randrange(m)
        if rng.random() < 0.7:
            ch1[i, j] += rng.choice([5, 9, 20, 50])
        if rng.random() < 0.7:
            ch4[i, j] += rng.choice([6, 12, 25, 60])
    for _ in range(rng.randint(0, 3)):
        i, j = rng.randrange(n), rng.randrange(m)
        rng.choice([ch1, ch2, ch4, ch5])[i, j] = np.nan
    if n > 2 and rng.random() < 0.2:
        r_ = rng.randrange(n)
        for c in (ch1, ch2, ch4, ch5):
            c[r_, :] = np.nan
    if n >= 3 and m >= 3 and rng.random() < 0.3:
        # a block without any valid value in ONE of the two difference images (brightness temperature out of range, or a
        # reflectance below the dark count), noisy in the other pair: a pixel whose whole 3x3 neighbourhood lies inside
        # has an undefined deviation there - it must not be selected
        h, w = rng.choice([3, 4, 5]), rng.choice([3, 4, 5])
        i0, j0 = rng.randrange(max(1, n - h + 1)), rng.randrange(max(1, m - w + 1))
        blk = (slice(i0, i0 + h), slice(j0, j0 + w))
        if rng.random() < 0.5:
            rng.choice([ch4, ch5])[blk] = np.nan
            ch1[blk] += nprng.integers(0, 2, size=ch1[blk].shape) * rng.choice([20, 50])
        else:
            rng.choice([ch1, ch2])[blk] = np.nan
            ch4[blk] += nprng.integers(0, 2, size=ch4[blk].shape) * rng.choice([25, 60])
    return ch1, ch2, ch4, ch5


def pixel_cases(ctx):
    from pygac.correct_tsm_issue import get_tsm_idx
    rng = ctx.rng
    nprng = np.random.default_rng(rng.randrange(1 << 30))
    lines, pend = [], []
    skipped = 0
    for k in range(ctx.n(150, 12000)):
        ch1, ch2, ch4, ch5 = gen_images(rng, nprng)
        with warnings.catch_warnings():
            warnings.simplefilter("ignore")
            idx = get_tsm_idx(ch1.copy(), ch2.copy(), ch4.copy(), ch5.copy())
            s12 = std3_oracle(np.abs(ch1 - ch2))
            s45 = std3_oracle(100.0 * (ch4 - ch5) / ch5)
        got = set(zip(idx[0].tolist(), idx[1].tolist()))
        near = (np.abs(s12 ** 2 - 4) < 1e-6) | (np.abs(s45 ** 2 - 4) < 1e-6)
        want = set(zip(*np.nonzero((s12 > 2.0) & (s45 > 2.0))))
        want = set((int(a), int(b)) for a, b in want)
        payload = {"ch1": ch1.tolist(), "ch2": ch2.tolist(), "ch4": ch4.tolist(), "ch5": ch5.tolist(), "stream": "pixel"}
        if near.any():
            skipped += 1
        elif got != want:
            ctx.violation("pixel criterion: implementation selects %s, both 3x3 standard deviations exceed 2 at %s" % (
                sorted(got ^ want)[:4], sorted(want)[:4]), payload, cls="pixel-criterion")
        enc = lambda a: ";".join(",".join("nan" if np.isnan(v) else repr(float(v)) for v in row) for row in a)
        lines.append("c19 pix %s %s %s %s" % (enc(ch1), enc(ch2), enc(ch4), enc(ch5)))
        pend.append((got, near.any(), payload))
        ctx.case(("pix", k, ch1.shape), nontrivial=len(want) > 0, branch="pixel/%s" % ("some" if want else "none"))
    ctx.extra["skipped_near_discontinuity"] = skipped
    if ctx.driver_ok:
        out = Driver(ctx).batch(lines)
        for (got, near, payload), o in zip(pend, out):
            m = set() if o.strip() == "_" else set(tuple(int(x) for x in t.split(":")) for t in o.split())
            if not near and m != got:
                ctx.corr_break("pixel criterion: model %s, implementation %s" % (sorted(m)[:5], sorted(got)[:5]), payload)


def pipeline_cases(ctx):
    rng = ctx.rng
    tabs = tables()
    for k in range(ctx.n(6, 120)):
        fmt = rng.choice(["klmGac", "podGac"])
        fam = FMT[fmt]["family"]
        sid = 2 if fam == "klm" else 3          # NOAA-16 / NOAA-14
        a, b = [(ms(x), ms(y)) for x, y in tabs[fam][sid]][rng.randrange(len(tabs[fam][sid]))]
        n = 14
        span = (n - 1) * 500
        where = ["inside", "straddle-start", "straddle-end", "outside", "inside"][k % 5]
        start = {"inside": a + rng.randint(0, max(0, b - a - span)), "straddle-start": a - 500 * rng.randint(1, n - 1),
                 "straddle-end": b - 500 * rng.randint(0, n - 2), "outside": a - 86400000}[where]
        tp = timesgen.TimePass(fmt, list(range(1, n + 1)), start)
        bld = tp.build(ctx, rng)
        bld.sat_id = sid if fam == "klm" else 3
        # a smooth scene (so that most pixels are NOT selected) with planted noise in a few places
        w = FMT[fmt]["width"]
        smp = np.zeros((n, w, 5), dtype=np.int64)
        for c, base in enumerate((300, 320, 500, 480, 470)):
            smp[:, :, c] = base + (np.arange(w)[None, :] // 40) + bld.nprng.integers(0, 2, size=(n, w))
        for _ in range(rng.randint(3, 10)):
            i, j = rng.randrange(n), rng.randrange(w)
            smp[i, j, 0] += rng.choice([150, 300])
            smp[i, j, 3] += rng.choice([250, 400])
            if rng.random() < 0.5:
                smp[i, j, 4] -= rng.choice([40, 90])
        bld.samples = smp.reshape(n, w * 5).astype(np.uint32)
        if fam == "klm":
            bld.bitfield[:] = np.array([rng.choice([0, 1, 1, 2]) for _ in range(n)], dtype=np.uint16)
        # flagged scan lines holding values unlike their neighbours: they are blanked BEFORE the criterion is evaluated,
        # so they must not influence the 3x3 statistics of the lines next to them
        if rng.random() < 0.6:
            for i in rng.sample(range(1, n - 1), rng.randint(1, 2)):
                bld.quality[i] = 1 << 31
                smp[i] = bld.nprng.integers(100, 1000, size=smp[i].shape)
            bld.samples = smp.reshape(n, w * 5).astype(np.uint32)
        if where.startswith("straddle") and (k // 5) % 2 == 0:
            # every line OUTSIDE the interval is flagged (blanked): the pass still does not lie entirely inside the interval,
            # so nothing may be masked on the lines inside
            t_lines = start + 500 * np.arange(n)
            outside = (t_lines < a) | (t_lines > b)
            if 0 < outside.sum() < n:
                bld.quality[:] = 0
                bld.quality[outside] = 1 << 31
                where = where + "/outside-lines-flagged"
        data = bld.tobytes()
        cls = filegen.reader_class(fmt)
        kw = dict(tle_dir=filegen.tle_dir(ctx), tle_name="TLE_%(satname)s.txt", adjust_clock_drift=False)
        r1 = cls(**kw)
        r1.read(bld.dsname, fileobj=io.BytesIO(data))
        off_cls = type(cls.__name__ + "GateOff", (cls,), {"is_tsm_affected": lambda self: False})
        r2 = off_cls(**kw)
        r2.read(bld.dsname, fileobj=io.BytesIO(data))
        with warnings.catch_warnings():
            warnings.simplefilter("ignore")
            gated = bool(r1.is_tsm_affected())
            c1 = r1.get_calibrated_channels()
            c2 = r2.get_calibrated_channels()
        t = np.asarray(r1.get_times()).astype("datetime64[ms]").astype(np.int64)
        want_gate = gate_oracle(tabs, fam, sid, int(t[0]), int(t[-1]))
        payload = {"fmt": fmt, "start": start, "where": where, "interval": [a, b], "stream": "pipeline"}
        if gated != want_gate:
            ctx.violation("%s pass %s of interval: gate %s, property says %s" % (fmt, where, gated, want_gate), payload, cls="gate:pipeline")
        sl = (0, 1, 4, 5) if fam == "klm" else (0, 1, 3, 4)
        if want_gate:
            with warnings.catch_warnings():
                warnings.simplefilter("ignore")
                s12 = std3_oracle(np.abs(c2[:, :, sl[0]] - c2[:, :, sl[1]]))
                s45 = std3_oracle(100.0 * (c2[:, :, sl[2]] - c2[:, :, sl[3]]) / c2[:, :, sl[3]])
            sel = (s12 > 2.0) & (s45 > 2.0)
            near = (np.abs(s12 ** 2 - 4) < 1e-6) | (np.abs(s45 ** 2 - 4) < 1e-6)
            expect = np.where(sel[:, :, None], np.nan, c2)
        else:
            sel = np.zeros(c2.shape[:2], dtype=bool)
            near = sel
            expect = c2
        same = np.array_equal(np.isnan(c1), np.isnan(expect)) and np.array_equal(np.nan_to_num(c1), np.nan_to_num(expect))
        if not same and not near.any():
            diff = np.argwhere(np.isnan(c1) != np.isnan(expect))
            ctx.violation("%s pass %s a listed interval: calibrated channels differ from %s (first at %s)" % (
                fmt, where, "the criterion-masked ones" if want_gate else "the unmasked ones", diff[:1].tolist()), payload,
                cls="pipeline:%s" % ("inside" if want_gate else "outside"))
        frac = float(sel.mean()) if sel.size else 0.0
        ctx.case((fmt, start), nontrivial=True, branch="pipeline/%s/%s/%s-masked" % (
            fam, where, "none" if frac == 0 else ("some" if frac < 0.5 else "most")))


def std3_fast(img):
    """the same 3x3 NaN-ignoring population standard deviation, vectorised (for long scenes)"""
    n, m = img.shape
    pad = np.full((n + 2, m + 2), np.nan)
    pad[1:-1, 1:-1] = img
    st = np.stack([pad[a:a + n, b:b + m] for a in range(3) for b in range(3)], axis=-1)
    with warnings.catch_warnings():
        warnings.simplefilter("ignore")
        out = np.nanstd(st, axis=-1)
    return np.where(np.isnan(out), 0.0, out)


def long_scene_cases(ctx):
    """the masking step itself (`mask_tsm_pixels`) on scenes of several thousand lines - a full orbit has ~13000 - with an
    isolated noisy pixel on every second line: blanked pixels = criterion pixels of the WHOLE scene, in all channels"""
    import xarray as xr
    from pygac.gac_klm import GACKLMReader
    from pygac.gac_pod import GACPODReader
    rng = ctx.rng
    nprng = np.random.default_rng(rng.randrange(1 << 30))
    plan = [(GACPODReader, 5, (0, 1, 3, 4), 4100), (GACKLMReader, 6, (0, 1, 4, 5), 8200), (GACPODReader, 5, (0, 1, 3, 4), rng.randint(2000, 14000))]
    if ctx.thorough:
        plan += [(GACKLMReader, 6, (0, 1, 4, 5), n) for n in (1025, 2049, 4097, 13000)] + [(GACPODReader, 5, (0, 1, 3, 4), 16385)]
    plan = [(a, b, c, d, 7) for a, b, c, d in plan]
    if ctx.thorough or getattr(ctx, "escalated", False):
        # one scene at the FULL-RESOLUTION width (2048 columns, LAC / HRPT / FRAC) just beyond 4096 lines: 8.4 million pixels
        from pygac.lac_pod import LACPODReader
        plan.append((LACPODReader, 5, (0, 1, 3, 4), 4100, 2048))
    for cls, nch, sel, n, m in plan:
        arr = np.empty((n, m, nch))
        base = nprng.integers(10, 60, size=(n, m)).astype(float)
        arr[:, :, sel[0]] = base
        arr[:, :, sel[1]] = base
        arr[:, :, sel[2]] = 260.0
        arr[:, :, sel[3]] = 258.0
        for c in range(nch):
            if c not in sel:
                arr[:, :, c] = nprng.integers(1, 300, size=(n, m))
        for i in range(0, n, 2):
            j = rng.randrange(m)
            arr[i, j, sel[0]] += 50
            arr[i, j, sel[2]] += 60
        for i in [x for x in (255, 511, 1023, 2047, 4095, 8191) if x < n - 1]:
            # ... and on the lines just before 256 / 512 / 1024 / ... (their neighbours on the NEXT line are selected only
            # because of them: the criterion is one evaluation over the whole scene, not a sequence of pieces)
            arr[i + 1, :, sel[0]] = base[i + 1]
            arr[i + 1, :, sel[2]] = 260.0
            j = rng.randrange(1, m - 1)
            arr[i, j, sel[0]] += 50
            arr[i, j, sel[2]] += 60
        before = arr.copy()
        ds = xr.Dataset({"channels": (("scan_line_index", "columns", "channel_name"), arr)})
        r = cls(tle_dir="/nonexistent", tle_name="x")
        payload = {"stream": "long-scene", "reader": cls.__name__, "lines": n, "columns": m}
        try:
            r.mask_tsm_pixels(ds)
        except Exception as e:
            ctx.violation("mask_tsm_pixels raised %r on a %d-line scene" % (e, n), payload, cls="long-raises")
            continue
        after = ds["channels"].values
        s12 = std3_fast(np.abs(before[:, :, sel[0]] - before[:, :, sel[1]]))
        s45 = std3_fast(100.0 * (before[:, :, sel[2]] - before[:, :, sel[3]]) / before[:, :, sel[3]])
        want = (s12 > 2.0) & (s45 > 2.0)
        sure = (np.abs(s12 ** 2 - 4) > 1e-6) & (np.abs(s45 ** 2 - 4) > 1e-6)
        blank = np.isnan(after).all(axis=2)
        bad = np.argwhere((blank != want) & sure)
        if len(bad):
            i, j = (int(x) for x in bad[0])
            ctx.violation("%s, scene of %d lines: pixel (line %d, column %d) is %s although its two 3x3 standard deviations are "
                          "%.2f and %.2f (%d pixels wrong, on lines %s..)" % (cls.__name__, n, i, j, "blanked" if blank[i, j] else "kept",
                                                                               s12[i, j], s45[i, j], len(bad), sorted(set(bad[:, 0].tolist()))[:4]),
                          payload, cls="long-scene")
        keep = ~blank
        if not np.array_equal(after[keep], before[keep]):
            ctx.violation("%s, scene of %d lines: a pixel outside the criterion was altered" % (cls.__name__, n), payload, cls="long-altered")
        ctx.case(("long", cls.__name__, n, m), nontrivial=True, branch="long-scene/%s%s" % ("pod" if nch == 5 else "klm", "" if m == 7 else "/full-width"))
        del arr, before, after, ds


def run(ctx):
    gate_cases(ctx)
    pixel_cases(ctx)
    pipeline_cases(ctx)
    long_scene_cases(ctx)
    ctx.sample({"intervals": {f: {k: len(v) for k, v in t.items()} for f, t in tables().items()}})


def replay(ctx, path):
    with open(path) as fh:
        body = json.load(fh)
    p = body.get("input", {})
    st = p.get("stream")
    if st == "gate":
        from pygac.gac_klm import GACKLMReader
        from pygac.gac_pod import GACPODReader
        r = (GACPODReader if p["fam"] == "pod" else GACKLMReader)()
        r.spacecraft_id = p["sid"]
        r._times_as_np_datetime64 = np.array([p["ts"], p["te"]], dtype="datetime64[ms]")
        if bool(r.is_tsm_affected()) != gate_oracle(tables(), p["fam"], p["sid"], p["ts"], p["te"]):
            print("REPRODUCED: gate")
            return 1
        print("not reproduced")
        return 0
    if st == "pixel":
        from pygac.correct_tsm_issue import get_tsm_idx
        a = [np.array(p[k], dtype=float) for k in ("ch1", "ch2", "ch4", "ch5")]
        with warnings.catch_warnings():
            warnings.simplefilter("ignore")
            idx = get_tsm_idx(*[x.copy() for x in a])
            s12 = std3_oracle(np.abs(a[0] - a[1]))
            s45 = std3_oracle(100.0 * (a[2] - a[3]) / a[3])
        got = set(zip(idx[0].tolist(), idx[1].tolist()))
        want = set((int(x), int(y)) for x, y in zip(*np.nonzero((s12 > 2.0) & (s45 > 2.0))))
        if got != want:
            print("REPRODUCED: pixel criterion")
            return 1
        print("not reproduced")
        return 0
    print("replay: re-running the check")
    run(ctx)
    return 1 if ctx.input_violations else 0


RULE = RULE + (" In the thorough tier, and in the quick tier whenever the source differs from the validated baseline, a LONG-PASS stream is added (passes of 1300 .. 12000 lines, just beyond multiples of 256 .. 8192, with the property-relevant event placed at and after such multiples; DESIGN 10.4 round 13).")
