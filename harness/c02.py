"""C02 — earth-view and telemetry counts are the format's 10-bit samples."""
import json
import random

import numpy as np

from . import filegen
from .common import Driver

THEOREM_MODULES = ["PygacModel.Theorems.C02"]
RULE = ("files with random 32-bit packed words (random top bits), random channel-select values 0..3 with random other "
        "bits of the bit field, random telemetry words; get_counts / get_telemetry / dataset variables compared per "
        "value with the format's div/mod formula (oracle) and with the Lean model. A case = (format, line); non-trivial "
        "= the line has at least two different samples; distinct by (format, seed, line)")
RULE += (" In the thorough tier, and in the quick tier whenever the source differs from the validated baseline, a LONG-PASS stream is added (passes of 1300 .. 12000 lines, just beyond multiples of 256 .. 8192, with the property-relevant event placed at and after such multiples; DESIGN 10.4 round 13).")
RULE += (" PLATFORM SWEEP: one 3-line pass per spacecraft of either family (on a date of its life), with zero samples next to non-zero ones.")
RULE += (" DATASET AFTER CALIBRATION: 60-line passes with realistic telemetry and drop-outs the calibration repairs in place; the counts "
         "dataset is rebuilt after get_calibrated_channels() and get_calibrated_dataset() on the same reader and compared with the means.")


def spec_counts(words, width):
    """Oracle: sample s = 5p+c of the stream, 3 samples per word in bits 29-20, 19-10, 9-0."""
    words = np.asarray(words, dtype=np.uint64)
    s = np.arange(width * 5)
    w = words[:, s // 3]
    sh = np.array([1 << 20, 1 << 10, 1], dtype=np.uint64)[s % 3]
    return ((w // sh) % 1024).reshape(len(words), width, 5).astype(np.int64)


def check_pass(ctx, fmt, n, seed, drv, top="random", uniform=None, plat=None):
    f = filegen.FMT[fmt]
    fam = f["family"]
    rng = random.Random(repr((seed, fmt, n)))
    if plat is None:
        pb = filegen.PassBuilder(ctx, fmt, n, rng)
    else:
        # PLATFORM SWEEP: the same decoding for every spacecraft of the family (on a date of its life); a fifth of the pixels
        # carry a fifth sample of 0 next to a fourth sample that is not (and the other way round)
        pb, _ = filegen.platform_pass(ctx, fmt, n, rng, plat)
        z = pb.nprng.random(size=(n, f["width"]))
        pb.samples[:, 4::5][z < 0.2] = 0
        pb.samples[:, 3::5][(z < 0.2) & (pb.samples[:, 3::5] == 0)] = 517
        pb.samples[:, 3::5][z > 0.9] = 0
    nprng = pb.nprng
    if top == "random":
        pb.top_bits = nprng.integers(0, 4, size=pb.top_bits.shape, dtype=np.uint32)
    elif top == "ones":
        pb.top_bits[:] = 3
    payload = {"fmt": fmt, "n": n, "seed": seed, "top": top, "uniform": uniform, "plat": plat}
    words = filegen.pack_words(pb.samples, f["words"], pb.top_bits)
    if fam == "klm":
        sw = nprng.integers(0, 4, size=n)
        if n >= 8:
            sw[:3] = [0, 1, 2]
            sw[3] = 3
        if uniform is not None and uniform != "blocks":
            sw[:] = uniform       # every line of the pass carries the same select value (a short pass cut inside a transition ...)
        if uniform == "blocks":
            # a LONG pass whose select value changes exactly at lines 1024 and 2048, with 3b and transition lines in equal number
            # between them: no line's routing depends on any other line, however the pass is cut into pieces
            sw[:1024] = 1
            sw[1024:2048] = np.tile([0, 2], 512)
            sw[2048:] = 0
        other = nprng.integers(0, 1 << 14, size=n) << 2
        pb.bitfield = (other | sw).astype(np.uint16)
        prt = nprng.integers(0, 1024, size=(n, 3))
        bs = nprng.integers(0, 1024, size=(n, 30))
        sp = nprng.integers(0, 1024, size=(n, 50))
        if n > 2:
            bs[1] = nprng.integers(0, 65536, size=30)
            sp[2] = nprng.integers(0, 65536, size=50)
            prt[0] = [65535, 0, 1]
        pb.overrides["telemetry.PRT"] = prt
        pb.overrides["back_scan"] = bs
        pb.overrides["space_data"] = sp
    else:
        tele = nprng.integers(0, 1024, size=(n, 105), dtype=np.uint32)
        ttop = nprng.integers(0, 4, size=(n, 35), dtype=np.uint32)
        tw = filegen.pack_words(tele, 35, ttop)
        pb.overrides["telemetry"] = tw
    r = filegen.make_reader(ctx, fmt, data=pb.tobytes(), name=pb.dsname)
    counts = np.asarray(r.get_counts())
    prt_i, ict_i, space_i = [np.asarray(x) for x in r.get_telemetry()]
    ds = r.create_counts_dataset()
    # ---- oracle
    sc = spec_counts(words, f["width"])
    if fam == "klm":
        want = np.zeros((n, f["width"], 6), dtype=np.int64)
        want[:, :, :2] = sc[:, :, :2]
        want[:, :, 4:] = sc[:, :, 3:]
        want[sw == 1, :, 2] = sc[sw == 1, :, 2]
        want[sw == 0, :, 3] = sc[sw == 0, :, 2]
        want_prt = prt.mean(axis=1)
        want_ict = np.stack([bs[:, c::3].mean(axis=1) for c in range(3)], axis=1)
        want_space = np.stack([sp[:, 2 + c::5].mean(axis=1) for c in range(3)], axis=1)
    else:
        want = sc
        want_prt = tele[:, 17:20].mean(axis=1)
        want_ict = np.stack([tele[:, [22 + c + 3 * k for k in range(10)]].mean(axis=1) for c in range(3)], axis=1)
        want_space = np.stack([tele[:, [54 + c + 5 * k for k in range(10)]].mean(axis=1) for c in range(3)], axis=1)
    if counts.shape != want.shape or not np.array_equal(counts, want):
        if counts.shape != want.shape:
            what = "%s: get_counts shape %s, expected %s" % (fmt, counts.shape, want.shape)
            cls = "counts-shape:%s" % fmt
        else:
            l, p, c = [int(x[0]) for x in np.nonzero(counts != want)]
            what = "%s: line %d pixel %d channel-index %d: get_counts %s, format says %s (packed word 0x%08x, select %s)" % (
                fmt, l, p, c, counts[l, p, c], want[l, p, c], int(words[l, (5 * p + min(c, 4)) // 3]), (int(sw[l]) if fam == "klm" else "-"))
            cls = "counts:%s:slot%d" % (fam, (5 * p + c) % 3 if fam == "pod" else c)
        ctx.violation(what, payload, cls=cls)
    for nm, got, wantv in (("prt", prt_i, want_prt), ("ict", ict_i, want_ict), ("space", space_i, want_space)):
        if got.shape != wantv.shape or not np.allclose(got, wantv, rtol=0, atol=1e-9):
            ctx.violation("%s: telemetry %s differs from the mean of the designated words (first line %s vs %s)" % (
                fmt, nm, np.asarray(got)[0], wantv[0]), payload, cls="telemetry:%s:%s" % (fam, nm))
    # counts and telemetry do not depend on earlier work on the same reader: ask again after a calibration
    # (which works in place on the arrays it was given)
    import warnings as _w
    with _w.catch_warnings():
        _w.simplefilter("ignore")
        try:
            r.get_calibrated_channels()
        except Exception as e:       # calibration of arbitrary counts may fail for reasons outside this property
            ctx.notes.append("calibration raised %r in the repeat-call probe" % (e,))
    counts2 = np.asarray(r.get_counts())
    prt2, ict2, space2 = [np.asarray(x) for x in r.get_telemetry()]
    if counts2.shape != want.shape or not np.array_equal(counts2, want):
        ctx.violation("%s: get_counts() after get_calibrated_channels() on the same reader no longer returns the format's "
                      "10-bit samples" % fmt, payload, cls="counts-after-calibration:%s" % fam)
    for nm, got, wantv in (("prt", prt2, want_prt), ("ict", ict2, want_ict), ("space", space2, want_space)):
        if got.shape != wantv.shape or not np.allclose(got, wantv, rtol=0, atol=1e-9):
            ctx.violation("%s: telemetry %s after a calibration differs from the mean of the designated words" % (fmt, nm),
                          payload, cls="telemetry-after-calibration:%s:%s" % (fam, nm))
    # dataset variables agree with the arrays
    for nm, arr in (("channels", counts), ("prt_counts", prt_i), ("ict_counts", ict_i), ("space_counts", space_i)):
        if not np.array_equal(np.asarray(ds[nm].data), arr):
            ctx.violation("%s: dataset variable %s differs from the array accessor" % (fmt, nm), payload, cls="dataset:%s" % nm)
    # ---- model
    lines = list(range(n)) if (ctx.thorough or f["res"] == "gac") else list(range(min(n, 4)))
    if n > 200:
        lines = sorted(set([0, 1, n - 1] + [1023, 1024, 2047, 2048][: (4 if n > 2048 else 0)]))
    for l in lines:
        bf = int(pb.bitfield[l]) if fam == "klm" else -1
        drv.append(("c02line %d %d %s" % (f["width"], bf, ",".join(str(int(x)) for x in words[l])),
                    ("counts", fmt, l, counts[l].reshape(-1).astype(np.int64).tolist())))
        if fam == "klm":
            drv.append(("c02tele klm %s %s %s" % (",".join(map(str, prt[l])), ",".join(map(str, bs[l])), ",".join(map(str, sp[l]))),
                        ("tele", fmt, l, [float(prt_i[l])] + ict_i[l].tolist() + space_i[l].tolist())))
        else:
            drv.append(("c02tele pod %s" % ",".join(str(int(x)) for x in tw[l]),
                        ("tele", fmt, l, [float(prt_i[l])] + ict_i[l].tolist() + space_i[l].tolist())))
        ctx.case((fmt, seed, l), nontrivial=len(set(pb.samples[l][:50].tolist())) > 1,
                 branch=("switch%d" % int(sw[l])) if fam == "klm" else "pod")
    ctx.sample({"fmt": fmt, "n": n, "seed": seed, "first_words": [hex(int(x)) for x in words[0][:3]],
                "select": (sw[:6].tolist() if fam == "klm" else None)})


def repeat_dataset_case(ctx, fmt, seed):
    """Telemetry of a pass with drop-outs (a PRT reading of 12 counts on a line that is no reset line, internal-target and
    space counts below 100 on channel-3b lines - the calibration REPAIRS such readings, in place, in the arrays it is handed):
    the counts dataset built after a calibration on the same reader still carries the means of the line's own words."""
    import warnings as _w
    n = 60
    pb = filegen.PassBuilder(ctx, fmt, n, random.Random(repr(("c02rep", seed, fmt))))
    pb.prt[17] = 12
    pb.prt[41] = 3
    pb.ict[30:33, 0] = 37
    pb.space[44:46, 0] = 20
    pb.ict[50, 1] = 0
    payload = {"fmt": fmt, "seed": seed, "stream": "dataset-after-calibration"}
    r = filegen.make_reader(ctx, fmt, data=pb.tobytes(), name=pb.dsname)
    want = {"prt_counts": pb.prt.mean(axis=1).astype(float), "ict_counts": pb.ict.astype(float), "space_counts": pb.space.astype(float)}
    for rnd, how in enumerate(("fresh", "get_calibrated_channels", "get_calibrated_dataset")):
        with _w.catch_warnings():
            _w.simplefilter("ignore")
            if rnd == 1:
                r.get_calibrated_channels()
            elif rnd == 2:
                r.get_calibrated_dataset()
            ds = r.create_counts_dataset()
        for nm, w in want.items():
            got = np.asarray(ds[nm].data, dtype=float)
            if got.shape != w.shape or not np.allclose(got, w, rtol=0, atol=1e-9):
                bad = np.argwhere(~np.isclose(got, w, rtol=0, atol=1e-9)) if got.shape == w.shape else []
                at = tuple(int(x) for x in bad[0]) if len(bad) else ()
                ctx.violation("%s: counts dataset built %s: %s%s is %s, the mean of the line's designated words is %s" % (
                    fmt, "on the fresh reader" if rnd == 0 else "after %s() on the same reader" % how, nm, list(at),
                    got[at] if len(bad) else got.shape, w[at] if len(bad) else w.shape), payload,
                    cls="dataset-telemetry-after-calibration:%s:%s" % (filegen.FMT[fmt]["family"], nm))
        ctx.case((fmt, seed, "dataset-after", rnd), nontrivial=True, branch="dataset-after/" + how)


def flush(ctx, drv):
    if not drv:
        return
    if not ctx.driver_ok:
        ctx.corr_break("lean driver unavailable: correspondence not run")
        del drv[:]
        return
    out = Driver(ctx).batch([d[0] for d in drv])
    for (cmd, (kind, fmt, l, got)), o in zip(drv, out):
        if kind == "counts":
            if "E" in o or o.startswith("error"):
                ctx.corr_break("model rejects line %d of %s: %s" % (l, fmt, o[:80]))
                continue
            m = [int(x) for x in o.split(",")]
            if m != got:
                k = next((j for j, (a, b) in enumerate(zip(m, got)) if a != b), -1)
                ctx.corr_break("%s line %d: model count #%d = %s, implementation %s" % (fmt, l, k, m[k] if k >= 0 else len(m), got[k] if k >= 0 else len(got)))
        else:
            vals = []
            for tok in o.split():
                a, b = tok.split("/")
                vals.append(int(a) / int(b))
            if len(vals) != len(got) or not np.allclose(vals, got, rtol=0, atol=1e-9):
                ctx.corr_break("%s line %d: model telemetry means %s, implementation %s" % (fmt, l, vals, got))
    del drv[:]


def run(ctx):
    drv = []
    plan = [("klmGac", 12, "random"), ("podGac", 12, "random"), ("klmLac", 6, "random"), ("podLac", 6, "random"),
            ("klmGac", 8, "ones"), ("podGac", 8, "ones"), ("klmGac", 1, "random"), ("podLac", 1, "ones")]
    if ctx.thorough:
        for k in range(10):
            plan += [("klmGac", 40, "random"), ("podGac", 40, "random"), ("klmLac", 16, "random"), ("podLac", 16, "random")]
    for k, (fmt, n, top) in enumerate(plan):
        check_pass(ctx, fmt, n, ctx.seed * 1000 + k, drv, top)
        flush(ctx, drv)
    if ctx.thorough or getattr(ctx, "escalated", False):
        check_pass(ctx, "klmGac", 2100, ctx.seed * 1000 + 900, drv, "random", uniform="blocks")
        flush(ctx, drv)
    # passes of 1, 2 and 5 lines whose lines ALL carry the same channel-select value, every value 0..3
    for j, (fmt, n, u) in enumerate([(f_, n_, u_) for f_ in ("klmGac", "klmLac") for n_ in (1, 2, 5) for u_ in (0, 1, 2, 3)]):
        check_pass(ctx, fmt, n, ctx.seed * 1000 + 500 + j, drv, "random", uniform=u)
        flush(ctx, drv)
    for fam_fmt in ("podGac", "klmGac"):
        for k in range(len(filegen.PLATFORMS[filegen.FMT[fam_fmt]["family"]])):
            fmt = fam_fmt if k % 6 else fam_fmt.replace("Gac", "Lac")
            check_pass(ctx, fmt, 3, ctx.seed * 1000 + 800 + k, drv, "random", plat=k)
            flush(ctx, drv)
    for j, fmt in enumerate(["klmGac", "podGac", "klmLac", "podLac"][: (4 if (ctx.thorough or getattr(ctx, "escalated", False)) else 2)]):
        repeat_dataset_case(ctx, fmt, ctx.seed * 1000 + 700 + j)
    ctx.assumptions += ["float64 means of <= 50 integers below 65536 are exact to 1e-9"]


def replay(ctx, path):
    with open(path) as fh:
        body = json.load(fh)
    inp = body.get("input", {})
    if "fmt" not in inp:
        print("replay file carries no input: %s" % body.get("broken_theorems_or_obligations"))
        return 1
    ctx.driver_ok = False
    if inp.get("stream") == "dataset-after-calibration":
        repeat_dataset_case(ctx, inp["fmt"], inp["seed"])
    else:
        check_pass(ctx, inp["fmt"], inp["n"], inp["seed"], [], inp.get("top", "random"), uniform=inp.get("uniform"), plat=inp.get("plat"))
    if ctx.input_violations:
        print("REPRODUCED: " + ctx.input_violations[0]["what"])
        return 1
    print("not reproduced")
    return 0
