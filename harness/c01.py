"""C01 — header and scan-line fields are decoded at the format's byte layout."""
import json
import os
import struct
import warnings

import numpy as np

from . import filegen
from .common import Driver, RecordSpec, spec_layouts, unpack_payload

THEOREM_MODULES = ["PygacModel.Theorems.C01"]
RULE = ("files written field by field from the exported Lean Spec (random / min / max / single-bit values in every leaf "
        "of header, analog telemetry, archive header and every record; 4 formats x header variants x archive on/off x "
        "tail junk x wrong header count), read with the real reader and decoded by the Lean driver with the generated "
        "layout; a case = (file variant, record); non-trivial = record with at least one non-zero field; distinct by "
        "(variant, record index, value mode)")
RULE += (" In the thorough tier, and in the quick tier whenever the source differs from the validated baseline, a LONG-PASS stream is added (passes of 1300 .. 12000 lines, just beyond multiples of 256 .. 8192, with the property-relevant event placed at and after such multiples; DESIGN 10.4 round 13).")


def _noop_reader(fmt):
    base = filegen.reader_class(fmt)

    class R(base):  # line-number sanitising is C11's subject; keep every record here
        def correct_scan_line_numbers(self):
            return {}
    R.__name__ = base.__name__
    return R


def _get(rec, name):
    v = rec
    for part in name.split("."):
        v = v[part]
    return v


def _cmp_leaf(leaf, written, got):
    """written: list of ints or bytes; got: numpy value."""
    k = leaf["kind"]
    if k == "opaque":
        return True
    if k == "s":
        g = np.asarray(got)
        if g.ndim == 0:
            return bytes(g.item()).rstrip(b"\0") == bytes(written).rstrip(b"\0")
        w = leaf["width"]
        return all(bytes(x).rstrip(b"\0") == bytes(written[j * w:(j + 1) * w]).rstrip(b"\0")
                   for j, x in enumerate(g.ravel().tolist()))
    if k == "f":
        exp = np.frombuffer(bytes(written), dtype=">f8")
        return np.array_equal(np.asarray(got, dtype="f8").ravel(), exp, equal_nan=True)
    g = np.asarray(got).ravel().astype(object).tolist()
    return [int(x) for x in g] == [int(x) for x in written]


def _values(spec, rng, mode, bit=None):
    if mode == "bit":
        vals = spec.random_values(rng, "zero")
        # set exactly one bit of the record (bit index counted over non-opaque bytes)
        total = spec.size * 8
        b = bit % total
        byte, inb = divmod(b, 8)
        for l in spec.leaves:
            if l["kind"] in ("opaque",):
                continue
            for j in range(l["count"]):
                o = l["off"] + j * l["stride"]
                if o <= byte < o + l["width"]:
                    if l["kind"] in ("s", "f"):
                        raw = bytearray(vals[l["name"]])
                        raw[byte - l["off"]] |= (0x80 >> inb)
                        vals[l["name"]] = bytes(raw)
                    else:
                        pos = (byte - o) if l["be"] else (l["width"] - 1 - (byte - o))
                        u = 1 << (8 * (l["width"] - 1 - pos) + (7 - inb))
                        if l["kind"] == "i" and u >= 1 << (8 * l["width"] - 1):
                            u -= 1 << (8 * l["width"])
                        vals[l["name"]][j] = u
                    return vals
        return vals
    vals = spec.random_values(rng, mode)
    for l in spec.leaves:   # finite doubles only
        if l["kind"] == "f":
            vals[l["name"]] = b"".join(struct.pack(">d", rng.uniform(-1e6, 1e6)) for _ in range(l["count"]))
    return vals


def make_case(ctx, fmt, variant, rng):
    """Returns (file bytes, description of what was written)."""
    L = spec_layouts(ctx)
    f = filegen.FMT[fmt]
    fam = f["family"]
    rec = RecordSpec(L[fmt])
    n = variant["n"]
    mode = variant["mode"]
    recs_vals = []
    for r in range(n):
        v = _values(rec, rng, mode, bit=variant.get("bit0", 0) + r)
        recs_vals.append(v)
    # header
    start_ms = filegen.ydm_to_ms(*variant["start"])
    name = filegen.dataset_name(fmt, start_ms)
    y, doy, msd = variant["start"]
    if fam == "klm":
        hs = RecordSpec(L["klmHeader"])
        hv = _values(hs, rng, variant["hmode"])
        hv["data_set_name"] = name.encode()
        hv["noaa_level_1b_format_version_number"] = [variant["version"]]
        hv["noaa_spacecraft_identification_code"] = [variant.get("sat_id") or rng.choice([4, 2, 6, 7, 8, 12, 11, 13])]
        hv["count_of_data_records"] = [variant["count"]]
        at = RecordSpec(L["klmAnalogV5" if variant["version"] >= 5 else "klmAnalogV2"])
        av = _values(at, rng, variant["hmode"])
        block = bytearray(rec.size)
        block[:hs.size] = hs.build(hv)
        block[hs.size:hs.size + at.size] = at.build(av)
        hdr = {"head": hv, "analog": av, "analog_layout": at.layout["name"], "head_layout": "klmHeader"}
        arch_spec = RecordSpec(L["arsHeader"])
    else:
        hname = "podHeader%d" % variant["epoch"]
        hs = RecordSpec(L[hname])
        hv = _values(hs, rng, variant["hmode"])
        hv["start_time"] = filegen.pod_timecode(y, doy, msd)
        hv["noaa_spacecraft_identification_code"] = [variant.get("sat_id") or rng.choice([2, 4, 6, 7, 8, 1, 5, 3])]
        hv["number_of_scans"] = [variant["count"]]
        hv["data_set_name"] = name.encode() + (b"" if variant["epoch"] == 2 else b"  ")
        if variant.get("noname"):
            # the header carries NO data-set name (NULs, or blanks): the name then comes from the file name. Together with an
            # all-zero header the bytes where an archive header would keep ITS name (offset 30..73) are NULs / blanks too -
            # and still there is no archive header in front of this file
            width = 42 if variant["epoch"] == 2 else 44
            hv["data_set_name"] = (b"\0" if variant["noname"] == "nul" else b" ") * width
        block = bytearray(rec.size)
        block[:hs.size] = hs.build(hv)
        hdr = {"head": hv, "head_layout": hname}
        arch_spec = RecordSpec(L["tbmHeader"])
    archive = b""
    if variant["archive"]:
        av2 = _values(arch_spec, rng, "random")
        if fam == "klm":
            av2["data_format"] = b"NOAA Level 1b v%d    " % (variant["version"] % 10)
            av2["data_set_name"] = name.encode()
        else:
            # the archive header's own name: ASCII, EBCDIC or unset (42 NULs and two blanks)
            av2["data_set_name"] = {"ascii": name.encode() + b"  ", "unset": 42 * b"\0" + b"  ",
                                    "cp500": (name + "  ").encode("cp500")}[variant.get("aname", "ascii")]
        archive = arch_spec.build(av2)
        hdr["archive"] = av2
    data = archive + bytes(block) + b"".join(rec.build(v) for v in recs_vals) + (bytes(variant["tail"]) if variant.get("tail_zero") else bytes(rng.randrange(256) for _ in range(variant["tail"])))
    return data, name, hdr, recs_vals


def check_case(ctx, fmt, variant, drv_lines, expectations):
    rng = __import__("random").Random(repr((ctx.seed, fmt, sorted(variant.items()))))
    L = spec_layouts(ctx)
    f = filegen.FMT[fmt]
    rec = RecordSpec(L[fmt])
    data, name, hdr, recs_vals = make_case(ctx, fmt, variant, rng)
    ctx._c01_k = getattr(ctx, "_c01_k", 0) + 1
    os.makedirs(os.path.join(ctx.scratch, "f%d" % ctx._c01_k), exist_ok=True)
    path = os.path.join(ctx.scratch, "f%d" % ctx._c01_k, name)
    with open(path, "wb") as fh:
        fh.write(data)
    R = _noop_reader(fmt)
    problems = []
    count_warn = False
    try:
        with warnings.catch_warnings(record=True) as wl:
            warnings.simplefilter("always")
            # half of the files are read with a reader instance that has already read other files of the same
            # format (batch use): the layout and the data offset must not depend on what was read before
            pool = ctx.__dict__.setdefault("_c01_readers", {})
            reused = fmt in pool and ctx.rng.random() < 0.5 and not variant.get("hdate")
            if variant.get("hdate"):
                # the header generation is NAMED by the caller (option header_date = the file's start date) instead of
                # being read from the file: the same bytes must come back
                import datetime
                y_, d_, _ = variant["start"]
                hd = datetime.date(y_, 1, 1) + datetime.timedelta(days=d_ - 1)
                reader = R(tle_dir="/nonexistent", tle_name="x", header_date=hd)
            else:
                reader = pool[fmt] if reused else R(tle_dir="/nonexistent", tle_name="x")
            variant = dict(variant, reader="reused" if reused else "fresh")
            reader.read(path)
            if not variant.get("hdate"):
                pool[fmt] = reader
            ctx.branches["reader/%s" % variant["reader"]] += 1
            count_warn = any("Unexpected number of scanlines" in str(w.message) for w in wl)
    except Exception as e:
        problems.append(("read() raised %s: %s" % (type(e).__name__, e), None))
        reader = None
    if reader is not None:
        n = variant["n"]
        if len(reader.scans) != n:
            problems.append(("number of records read %d != written %d" % (len(reader.scans), n), None))
        if (variant["count"] != n) != count_warn:
            problems.append(("count warning %s but header count %d vs %d records" % (count_warn, variant["count"], n), None))
        hl = RecordSpec(L[hdr["head_layout"]])
        for l in hl.leaves:
            if l["kind"] == "opaque":
                continue
            try:
                got = _get(reader.head, l["name"])
            except Exception as e:
                problems.append(("header field %s not readable: %r" % (l["name"], e), l["name"]))
                continue
            if l["name"] == "data_set_name" and variant.get("noname"):
                continue      # replaced by the file's name on purpose
            if not _cmp_leaf(l, hdr["head"][l["name"]], got):
                problems.append(("header %s: wrote %r read %r" % (l["name"], hdr["head"][l["name"]], got), "header." + l["name"]))
        if "analog" in hdr:
            al = RecordSpec([x for x in L.values() if x["name"] == hdr["analog_layout"]][0])
            for l in al.leaves:
                if l["kind"] == "opaque":
                    continue
                try:
                    got = _get(reader.analog_telemetry, l["name"])
                except Exception as e:
                    problems.append(("analog telemetry field %s not readable: %r" % (l["name"], e), "analog"))
                    continue
                if not _cmp_leaf(l, hdr["analog"][l["name"]], got):
                    problems.append(("analog %s: wrote %r read %r" % (l["name"], hdr["analog"][l["name"]], got), "analog." + l["name"]))
        arch = getattr(reader, "ars_head", None) if f["family"] == "klm" else getattr(reader, "tbm_head", None)
        if variant["archive"]:
            if arch is None:
                problems.append(("archive header written but not detected", "archive"))
            else:
                al = RecordSpec(L["arsHeader" if f["family"] == "klm" else "tbmHeader"])
                for l in al.leaves:
                    if l["kind"] != "opaque" and not _cmp_leaf(l, hdr["archive"][l["name"]], _get(arch, l["name"])):
                        problems.append(("archive %s differs" % l["name"], "archive." + l["name"]))
        elif arch is not None:
            problems.append(("archive header detected but none written", "archive"))
        for r in range(min(n, len(reader.scans))):
            row = reader.scans[r]
            for l in rec.leaves:
                if l["kind"] == "opaque":
                    continue
                try:
                    got = _get(row, l["name"])
                except Exception as e:
                    problems.append(("record field %s not readable: %r" % (l["name"], e), l["name"]))
                    break
                if not _cmp_leaf(l, recs_vals[r][l["name"]], got):
                    w = recs_vals[r][l["name"]]
                    problems.append(("record %d field %s: wrote %s read %s" % (
                        r, l["name"], (w[:4] if isinstance(w, list) else w[:8]), np.asarray(got).ravel()[:4]), l["name"]))
                    break
            nz = any((isinstance(v, list) and any(v)) or (isinstance(v, bytes) and any(v)) for v in recs_vals[r].values())
            ctx.case((fmt, tuple(sorted(variant.items())), r), nontrivial=nz, branch="%s/%s" % (fmt, variant["mode"]))
    if problems:
        what = "%s %s: %s" % (fmt, variant, problems[0][0])
        leaf = problems[0][1] or "structure"
        ctx.violation(what, {"fmt": fmt, "variant": variant, "problems": [p[0] for p in problems[:5]]},
                      cls="readback:%s:%s" % (fmt, leaf.split("[")[0]))
    # model side: the Lean driver decodes the same file with the *generated* layout
    arch_len = (512 if f["family"] == "klm" else 122) if variant["archive"] else 0
    if ctx.driver_ok:
        drv_lines.append("decode gen %s %s %d %d" % (fmt, path, arch_len + rec.size, 0))
        exp = []
        for v in recs_vals:
            row = []
            for l in rec.leaves:
                if l["kind"] in ("opaque", "f"):
                    continue
                if l["kind"] == "s":
                    w = l["width"]
                    row += [int.from_bytes(v[l["name"]][j * w:(j + 1) * w], "big") for j in range(l["count"])]
                else:
                    row += list(v[l["name"]])
            exp.append(row)
        expectations.append((fmt, variant, exp))
    return path


def rng_n(e):
    return (1, 5, 3)[e - 1]


def variants(ctx, fmt):
    fam = filegen.FMT[fmt]["family"]
    out = []
    starts = {1: (1990, 100, 3600000), 2: (1993, 200, 7200000), 3: (2000, 322, 3600000)}
    base = dict(n=3, mode="random", hmode="random", archive=False, tail=0, version=2, epoch=3, count=3,
                start=(2002, 187, 68700000) if fam == "klm" else starts[3], bit0=0)
    lst = [dict(base)]
    lst.append(dict(base, n=7, count=7, archive=True, tail=17))
    lst.append(dict(base, n=2, count=9, mode="max", hmode="max", tail=filegen.FMT[fmt]["width"]))
    lst.append(dict(base, n=1, count=1, mode="min", hmode="min"))
    lst.append(dict(base, n=1, count=1, mode="zero", hmode="zero", tail=1))
    if fam == "klm":
        lst.append(dict(base, n=4, count=4, version=5, archive=True))
        lst.append(dict(base, n=2, count=1, version=5, tail=4607))
    else:
        lst.append(dict(base, n=4, count=4, epoch=1, start=starts[1]))
        lst.append(dict(base, n=4, count=3, epoch=2, start=starts[2], archive=True))
        lst.append(dict(base, n=2, count=2, epoch=1, start=starts[1], archive=True, tail=3219))
        for e in (1, 2, 3):
            lst.append(dict(base, n=3, count=3, epoch=e, start=starts[e], archive=True, aname="unset"))
        lst.append(dict(base, n=3, count=3, archive=True, aname="cp500"))
        for e in (1, 2, 3):
            lst.append(dict(base, n=rng_n(e), count=rng_n(e), epoch=e, start=starts[e], hmode="zero", noname="nul"))
            lst.append(dict(base, n=2, count=2, epoch=e, start=starts[e], hmode="zero", noname="blank"))
        for e in (1, 2, 3):
            lst.append(dict(base, n=3, count=3, epoch=e, start=starts[e], archive=True, hdate="explicit"))
            lst.append(dict(base, n=2, count=2, epoch=e, start=starts[e], archive=False, hdate="explicit", tail=5))
        # header-epoch boundaries: last day of epoch 1, first/last day of epoch 2, first day of epoch 3
        lst.append(dict(base, n=2, count=2, epoch=1, start=(1992, 251, 1000)))
        lst.append(dict(base, n=2, count=2, epoch=2, start=(1992, 252, 1000)))
        lst.append(dict(base, n=2, count=2, epoch=2, start=(1994, 319, 86399000)))
        lst.append(dict(base, n=2, count=2, epoch=3, start=(1994, 320, 0)))
    # a header count SMALLER than the records that are there together with a trailing partial record of ZEROS (a file padded to
    # the block size of its medium): every complete record is read, the padding is ignored, the count only warns
    lst.append(dict(base, n=6, count=4, tail=100, tail_zero=True))
    lst.append(dict(base, n=5, count=2, tail=filegen.FMT[fmt]["width"] * 3, tail_zero=True, archive=True))
    lst.append(dict(base, n=3, count=7, tail=64, tail_zero=True))
    # PLATFORM SWEEP: one file per spacecraft either family can report, on a date of that spacecraft's life (TIROS-N shares id 1
    # with NOAA-11 and is told apart by the date: files of 1979 and of the last day of 1981 carry id 1, too); the header field
    # reads back as written whatever the reader derives from it
    for k, (sid, _pl, _nm, (yy, dd)) in enumerate(filegen.PLATFORMS[fam]):
        lst.append(dict(base, n=2, count=2, sat_id=sid, start=(yy, dd, 3600000 + 1000 * k), epoch=filegen.pod_epoch_of(yy, dd),
                        version=(5 if k % 2 else 2), archive=bool(k % 3 == 1)))
    if fam == "pod":
        lst.append(dict(base, n=2, count=2, sat_id=1, start=(1981, 365, 86000000), epoch=1))
        lst.append(dict(base, n=2, count=2, sat_id=1, start=(1982, 1, 0), epoch=1))
    # the header's record count UNDER-reports the file by several hundred records (a file extended after its header was
    # written): every record that is there is read, whatever the count says
    lst.append(dict(base, n=300, count=rng_n(3) * 10, mode="bit", bit0=ctx.rng.randrange(8 * 64)))
    if ctx.thorough or getattr(ctx, "escalated", False):
        lst.append(dict(base, n=700, count=60, mode="bit", bit0=ctx.rng.randrange(8 * 64), archive=(fam == "pod")))
    nb = ctx.n(16, 64)
    total_bits = None
    L = spec_layouts(ctx)
    total_bits = L[fmt]["size"] * 8
    rounds = ctx.n(2, (total_bits // nb) + 1) if fmt.endswith("Gac") else ctx.n(1, 24)
    for k in range(rounds):
        b0 = (ctx.rng.randrange(total_bits) if not ctx.thorough or not fmt.endswith("Gac") else k * nb)
        lst.append(dict(base, n=nb, count=nb, mode="bit", bit0=b0))
    return lst


def run(ctx):
    drv_lines, expectations = [], []
    for fmt in ("klmGac", "klmLac", "podGac", "podLac"):
        for v in variants(ctx, fmt):
            p = check_case(ctx, fmt, v, drv_lines, expectations)
            if len(drv_lines) >= 8:
                _flush(ctx, drv_lines, expectations)
            ctx.sample({"fmt": fmt, "variant": v})
    _flush(ctx, drv_lines, expectations)
    ctx.assumptions += ["CPython/numpy decode a dtype as documented (validated three-way: written values, real reader, Lean decoder with the generated layout)",
                        "records are compared with line-number sanitising disabled in a harness subclass (that step is property C11)"]


def _flush(ctx, drv_lines, expectations):
    if not drv_lines:
        return
    out = Driver(ctx).batch(drv_lines)
    i = 0
    for (fmt, variant, exp) in expectations:
        if i >= len(out) or out[i].startswith("error"):
            ctx.corr_break("driver decode failed for %s %s: %s" % (fmt, variant, out[i] if i < len(out) else "EOF"))
            i += 1
            continue
        n = int(out[i])
        rows = out[i + 1:i + 1 + n]
        i += 1 + n
        if n != len(exp):
            ctx.corr_break("model(generated layout) finds %d records, written %d (%s %s)" % (n, len(exp), fmt, variant))
            continue
        for r, row in enumerate(rows):
            got = [int(x) for x in row.split(",")] if row else []
            if got != exp[r]:
                k = next((j for j, (a, b) in enumerate(zip(got, exp[r])) if a != b), -1)
                ctx.corr_break("model(generated layout) decodes record %d differently from what was written at value #%d (%s %s)"
                               % (r, k, fmt, variant))
                break
    import shutil
    for f in os.listdir(ctx.scratch):
        p = os.path.join(ctx.scratch, f)
        if os.path.isdir(p) and f.startswith("f"):
            shutil.rmtree(p, ignore_errors=True)
    del drv_lines[:]
    del expectations[:]


def replay(ctx, path):
    from . import common
    with open(path) as fh:
        body = json.load(fh)
    inp = body.get("input", {})
    if "fmt" not in inp:
        print("replay file carries no input (obligation-only violation): %s" % body.get("broken_theorems_or_obligations"))
        return 1
    common.run_extract(ctx)
    res = common.lake_build(ctx, ["driver"])
    ctx.driver_ok = res["driver"][0]
    ctx.seed = body.get("seed", 0)
    check_case(ctx, inp["fmt"], inp["variant"], [], [])
    if ctx.input_violations:
        print("REPRODUCED: " + ctx.input_violations[0]["what"])
        return 1
    print("not reproduced")
    return 0
