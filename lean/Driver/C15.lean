import PygacModel.Model.Angles
import Driver.Util
import Driver.C09
namespace Driver
open PygacModel PygacModel.Angles

/-- cmd: c15 cm <values>            -> centered_modulus(x, 360) of each (exact rationals; input decimals or p/q)
    cmd: c15 az <sat values> <sun values> -> folded absolute azimuth differences -/
def parseRatAny (s : String) : Rat :=
  match s.splitOn "/" with
  | [a, b] => mkRat (parseInt! a) (parseNat! b)
  | _ => parseDecimal s

def cmdC15 (args : List String) : IO (List String) := do
  match args with
  | ["cm", xs] => return [showRats ((xs.splitOn ",").map (fun s => centered (parseRatAny s)))]
  | ["az", a, b] =>
    let sa := (a.splitOn ",").map parseRatAny
    let su := (b.splitOn ",").map parseRatAny
    return [showRats (List.zipWith absAzDiff sa su)]
  | _ => return ["error bad-args"]
end Driver
