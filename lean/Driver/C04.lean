import PygacModel.Model.Solar
import PygacModel.Generated.Calib
import Driver.Util
import Driver.C09
namespace Driver
open PygacModel PygacModel.Solar

def showOptRat : Option Rat → String
  | none => "nan"
  | some q => showRat q

/-- cmd: c04 <sat> <chan 0..2> <year> <jday> <corr decimal> <counts, comma separated>
  -> scaled radiances as exact rationals ("nan" for NaN); uses the regenerated coefficient table -/
def cmdC04 (args : List String) : IO (List String) := do
  match args with
  | [sat, ch, y, d, corr, counts] =>
    match Generated.solarTable.find? (fun t => t.1 == sat) with
    | none => return ["error unknown-spacecraft"]
    | some (_, launch, rs) =>
      let rows := rs.map Row.ofTuple
      let chan := parseNat! ch
      match rows[chan]? with
      | none => return ["error bad-channel"]
      | some r =>
        let t := tSince (parseInt! y) (parseInt! d) launch
        let single := isSingle rows
        let cs := (counts.splitOn ",").map parseDecimal
        return [",".intercalate (cs.map (fun c => showOptRat (scaled single chan r t (parseDecimal corr) c)))]
  | _ => return ["error bad-args"]
end Driver
