import PygacModel.Model.ClockDrift
import PygacModel.Generated.Clock
import Driver.Util
import Driver.C17
namespace Driver
open PygacModel PygacModel.Drift Np

def showRat (q : Rat) : String := toString q.num ++ "/" ++ toString q.den
def showRats (xs : List Rat) : String := if xs.isEmpty then "_" else ",".intercalate (xs.map showRat)
def showIntsU (xs : List Int) : String := if xs.isEmpty then "_" else showInts xs

/-- cmd: c09 plan <Pnum> <Pden> <t0> <nums> <errs: decimals, comma separated>
      -> "floor | weights | min max | missed | missedMs | shiftMs"
    cmd: c09 err <sat> <times ms, comma separated> -> errors (rationals); "notable" if no table -/
def cmdC09 (args : List String) : IO (List String) := do
  match args with
  | ["plan", pn, pd, t0, nums, errs] =>
    let P : Rat := mkRat (parseInt! pn) (parseNat! pd)
    let es := (errs.splitOn ",").map parseDecimal
    let p := plan P (parseInts nums) es (parseInt! t0)
    return [showIntsU p.floorL ++ " | " ++ showRats p.weight ++ " | " ++ toString p.minLine ++ " " ++ toString p.maxLine
      ++ " | " ++ showIntsU p.missed ++ " | " ++ showRats p.missedMs ++ " | " ++ showIntsU p.shiftMs]
  | ["err", sat, ts] =>
    match Generated.clockTables.find? (fun t => t.1 == sat) with
    | none => return ["notable"]
    | some (_, tt, te) =>
      return [showRats (errorsAt (tt.map (fun (t : Int) => (t : Rat))) te (parseInts ts))]
  | _ => return ["error bad-args"]
end Driver
