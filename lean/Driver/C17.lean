import PygacModel.Model.Tle
import Driver.Util
namespace Driver
open PygacModel

/-- exact decimal "123.456" / "-0.5" / "7" -> Rat -/
def parseDecimal (s : String) : Rat :=
  let neg := s.startsWith "-"
  let body := if neg then (s.drop 1).toString else s
  let v : Rat := match body.splitOn "." with
    | [a] => (parseNat! a : Rat)
    | [a, b] => (parseNat! a : Rat) + mkRat (parseNat! b) (10 ^ b.length)
    | _ => 0
  if neg then -v else v

/-- cmd: c17 <threshMs as decimal> <sdate ms> <epoch fields, comma separated | _>
 -> "<chosen i|notle|indexerror> <decoded epochs ms>" -/
def cmdC17 (args : List String) : IO (List String) := do
  match args with
  | [th, sd, eps] =>
    let fields := if eps == "_" then [] else eps.splitOn ","
    let dates := fields.map (fun f => tleEpochMs (parseDecimal f))
    let r := selectTle dates (parseInt! sd) (parseDecimal th)
    let rs := match r with
      | .chosen i => "chosen " ++ toString i
      | .noTleData => "notle -1"
      | .indexError => "indexerror -1"
    return [rs ++ " " ++ (if dates.isEmpty then "_" else showInts dates)]
  | _ => return ["error bad-args"]
end Driver
