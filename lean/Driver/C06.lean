import PygacModel.Model.LonLat
import Driver.Util
import Driver.C09
namespace Driver
open PygacModel PygacModel.LonLat

/-- cmd: c06 <pod 0/1> <flagged 0/1> <lon words> <lat words>  -> "lons | lats" (rationals, nan) with interpolation off -/
def cmdC06 (args : List String) : IO (List String) := do
  match args with
  | [p, fl, lo, la] =>
    let pod := p == "1"
    let raw : Grid × Grid := ([(parseInts lo).map (fun k => some (tiePoint pod k))], [(parseInts la).map (fun k => some (tiePoint pod k))])
    let r := getLonLat false id [fl == "1"] raw
    let sh := fun (row : List (Option Rat)) => ",".intercalate (row.map (fun v => match v with | none => "nan" | some q => showRat q))
    return [sh (r.1.headD []) ++ " | " ++ sh (r.2.headD [])]
  | _ => return ["error bad-args"]
end Driver
