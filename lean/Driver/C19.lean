import PygacModel.Model.Tsm
import PygacModel.Generated.Tsm
import Driver.Util
import Driver.C17
namespace Driver
open PygacModel PygacModel.Tsm

def parseOptRat (s : String) : Option Rat := if s == "nan" then none else some (parseDecimal s)

/-- rows separated by ';', values by ',' -/
def parseImg (s : String) : Img := (s.splitOn ";").map (fun r => (r.splitOn ",").map parseOptRat)

/-- cmd: c19 gate <pod|klm> <sid> <ts> <te>  -> 0/1
    cmd: c19 pix <ch1> <ch2> <ch4> <ch5>     -> selected pixels "i:j i:j ..." ("_" if none) -/
def cmdC19 (args : List String) : IO (List String) := do
  match args with
  | ["gate", fam, sid, ts, te] =>
    let tab := if fam == "pod" then Generated.tsmIntervalsPod else Generated.tsmIntervalsKlm
    return [if gate tab (parseNat! sid) (parseInt! ts) (parseInt! te) then "1" else "0"]
  | ["pix", a, b, c, d] =>
    let (i1, i2, i4, i5) := (parseImg a, parseImg b, parseImg c, parseImg d)
    let rows := i1.length
    let cols := (i1.headD []).length
    let sel := (List.range rows).flatMap (fun i => (List.range cols).filterMap (fun j =>
      if tsmPixel i1 i2 i4 i5 i j then some (toString i ++ ":" ++ toString j) else none))
    return [if sel.isEmpty then "_" else " ".intercalate sel]
  | _ => return ["error bad-args"]
end Driver
