import PygacModel.Model.LineNumbers
import Driver.Util
namespace Driver
open PygacModel
/-- cmd: c11 <klm|pod> <max> <nums>  -> surviving record indices; "E" when the code would raise
(POD step on an empty array) -/
def cmdC11 (args : List String) : IO (List String) := do
  match args with
  | [fam, mx, nums] =>
    let ns := parseInts nums
    let rs : List Rec := ns.zipIdx.map (fun p => ⟨p.1, p.2⟩)
    let m := parseInt! mx
    if fam == "klm" then
      return [showNats ((correctKlm statRule m rs).map (·.tag))]
    else
      let c := correctCommon statRule m rs
      if c.isEmpty then return ["E"] else
      return [showNats ((podPost c).map (·.tag))]
  | ["miss", nums] =>
    return [showInts (missLines (parseInts nums))]
  | _ => return ["error bad-args"]
end Driver
