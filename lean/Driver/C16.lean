import PygacModel.Model.Coeffs
import Driver.Util
namespace Driver
open PygacModel

/-- cmd: c16 init/<id> <sat/file/K/customkeys(,|_)/rewrite(id|_)> ...   (one token per request of a history)

File ids 0, 1, 2 are three paths with fixed content; ids 3.. are the successive CONTENTS of one further
path (path 3), `init/<id>` being the content it has when the history starts and `rewrite = id` meaning
that path 3 is overwritten with content `id` just before this request.  The model is the dynamic one
(`dynRun`: cache keyed by path, file system changing under it).
 -> per request "<K source letters: C custom, digit = content id whose default is used>@<version id|n>" -/
def cmdC16 (args : List String) : IO (List String) := do
  let content : Nat → Table String := fun id _ _ => toString id
  let pathOf (f : Nat) : Nat := if f ≥ 3 then 3 else f
  let (init3, toks) := match args with
    | a :: rest => (match a.splitOn "/" with
        | ["init", i] => (parseNat! i, rest)
        | _ => (3, args))
    | [] => (3, [])
  let w0 : World String :=
    { fs := fun p => if p = 3 then content init3 else content p,
      ver := fun p => if p = 3 then some init3 else some p,
      cache := none }
  let parsed : List (List (Ev String) × Nat) := toks.map (fun a =>
    match a.splitOn "/" with
    | [s, f, k, c, rw] =>
      let r : Req String := ⟨parseNat! s, pathOf (parseNat! f), (parseNats c).map (fun i => (i, "C"))⟩
      let pre : List (Ev String) := if rw == "_" then [] else [.write 3 (content (parseNat! rw)) (some (parseNat! rw))]
      (pre ++ [.req r], parseNat! k)
    | _ => ([.req ⟨0, 0, []⟩], 0))
  let evs := (parsed.map (·.1)).flatten
  let (_, outs) := dynRun w0 evs
  let results := outs.filterMap id
  let strs := (results.zip (parsed.map (·.2))).map (fun (o, k) =>
    String.join ((List.range k).map o.value) ++ "@" ++ (match o.version with | some v => toString v | none => "n"))
  return [" ".intercalate strs]
/-- cmd: c16route <P|N> <pc> <pf> <lc> <lf>   P = a non-empty `calibration_parameters` dictionary was given;
pc / lc in {_, e, c} (custom set absent, empty, non-empty), pf / lf in {_, file id}
 -> "<custom token> <file token>" as handed to the calibrator, and the request's file id and custom size -/
def cmdC16route (args : List String) : IO (List String) := do
  let cus (t : String) : Option (List (Nat × Unit)) := if t == "_" then none else if t == "e" then some [] else some [(0, ())]
  let fil (t : String) : Option Nat := if t == "_" then none else some (parseNat! t)
  match args with
  | [flag, pc, pf, lc, lf] =>
    let o := readerOpts (if flag == "P" then some ⟨cus pc, fil pf⟩ else none) (cus lc) (fil lf)
    let r := readerReq 0 o
    let ct := match o.custom with | none => "_" | some [] => "e" | some _ => "c"
    let ft := match o.file with | none => "_" | some f => toString f
    return [ct ++ " " ++ ft ++ " " ++ toString r.file ++ " " ++ toString r.custom.length]
  | _ => return ["error bad-args"]
end Driver
