import PygacModel.Model.Coeffs
import Driver.Util
namespace Driver
open PygacModel

/-- cmd: c16 <sat/file/K/customkeys(,|_)> ...   (one token per request of a history)
 -> per request "<K source letters: C custom, digit = file whose default is used>@<version file|n>" -/
def cmdC16 (args : List String) : IO (List String) := do
  let reqs : List (Req String × Nat) := args.map (fun a =>
    match a.splitOn "/" with
    | [s, f, k, c] => (⟨parseNat! s, parseNat! f, (parseNats c).map (fun i => (i, "C"))⟩, parseNat! k)
    | _ => (⟨0, 0, []⟩, 0))
  let fs : Nat → Table String := fun file _ _ => toString file
  let ver : Nat → Option Nat := fun file => some file
  let (_, outs) := calRun fs ver none (reqs.map (·.1))
  let strs := (outs.zip reqs).map (fun (o, (_, k)) =>
    String.join ((List.range k).map o.value) ++ "@" ++ (match o.version with | some v => toString v | none => "n"))
  return [" ".intercalate strs]
end Driver
