import PygacModel.Model.FlagsGen
import Driver.Util
namespace Driver
open PygacModel
/-- cmd: c07 <klm|pod> <lineNo> <q>  ->  "<mask 0/1> <7 summary columns>" -/
def cmdC07 (args : List String) : IO (List String) := do
  match args with
  | [fam, n, q] =>
    let F := if fam == "klm" then klmFlags else podFlags
    let qn := parseNat! q
    return [toString (b2i (lineMask F qn)) ++ " " ++ showInts (qualSummary F (parseInt! n) qn)]
  | _ => return ["error bad-args"]
end Driver
