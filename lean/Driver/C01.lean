import PygacModel.Spec.Layouts
import PygacModel.Generated.Layouts
import PygacModel.Model.Codec
import Driver.Util
namespace Driver
open PygacModel

def kindStr : Kind → String
  | .u => "u" | .i => "i" | .s => "s" | .f => "f" | .opaque => "opaque"

def leafJson (l : Leaf) : String :=
  "{\"name\":" ++ jsonStr l.name ++ ",\"off\":" ++ toString l.off ++ ",\"width\":" ++ toString l.width ++
  ",\"kind\":\"" ++ kindStr l.kind ++ "\",\"be\":" ++ toString l.be ++ ",\"count\":" ++ toString l.count ++
  ",\"stride\":" ++ toString l.stride ++ "}"

def layoutJson (L : Layout) : String :=
  "{\"name\":" ++ jsonStr L.name ++ ",\"size\":" ++ toString L.size ++ ",\"leaves\":[" ++
  ",".intercalate (L.leaves.map leafJson) ++ "]}"

def specLayouts : List (String × Layout) := [
  ("klmGac", Spec.klmGac), ("klmLac", Spec.klmLac), ("podGac", Spec.podGac), ("podLac", Spec.podLac),
  ("klmHeader", Spec.klmHeader), ("klmAnalogV2", Spec.klmAnalogV2), ("klmAnalogV5", Spec.klmAnalogV5),
  ("arsHeader", Spec.arsHeader), ("podHeader0", Spec.podHeader0), ("podHeader1", Spec.podHeader1),
  ("podHeader2", Spec.podHeader2), ("podHeader3", Spec.podHeader3), ("tbmHeader", Spec.tbmHeader)]

def genLayouts : List (String × Layout) := [
  ("klmGac", Generated.klmGac), ("klmLac", Generated.klmLac), ("podGac", Generated.podGac), ("podLac", Generated.podLac),
  ("klmHeader", Generated.klmHeader), ("klmAnalogV2", Generated.klmAnalogV2), ("klmAnalogV5", Generated.klmAnalogV5),
  ("arsHeader", Generated.arsHeader), ("podHeader0", Generated.podHeader0), ("podHeader1", Generated.podHeader1),
  ("podHeader2", Generated.podHeader2), ("podHeader3", Generated.podHeader3), ("tbmHeader", Generated.tbmHeader)]

def lookupLayout (tbl : List (String × Layout)) (n : String) : Option Layout :=
  (tbl.find? (fun p => p.1 == n)).map (·.2)

/-- fast array-based field decode for the driver (same meaning as `leafValue`, which is
defined on lists; equality of the two on samples is part of the C01 self-test). -/
def leafValueArr (file : ByteArray) (base : Nat) (l : Leaf) (j : Nat) : Int :=
  let start := base + l.off + j * l.stride
  let idxs := List.range l.width
  let bytes := idxs.map (fun k => (file.get! (start + k)))
  let bytes := if l.be then bytes else bytes.reverse
  let u := beDecode bytes
  match l.kind with
  | .i => toSigned l.width u
  | _ => (u : Int)

/-- All element values of one record, in leaf order, decoded with layout `L`; leaves that the
Spec layout `S` marks opaque (spare/fill) or floating point are skipped. -/
def decodeRecord (file : ByteArray) (base : Nat) (S L : Layout) : List Int :=
  (S.leaves.zip L.leaves).flatMap (fun (s, l) =>
    if s.kind == .opaque || s.kind == .f then []
    else (List.range l.count).map (fun j => leafValueArr file base l j))

/-- cmd: decode <gen|spec> <layout> <path> <dataOff> <stride> -> one line per complete record -/
def cmdDecode (args : List String) : IO (List String) := do
  match args with
  | [which, lname, path, dataOff, stride] =>
    let tbl := if which == "spec" then specLayouts else genLayouts
    match lookupLayout tbl lname, lookupLayout specLayouts lname with
    | none, _ => return ["error unknown-layout"]
    | _, none => return ["error unknown-layout"]
    | some L, some S =>
      if S.leaves.length != L.leaves.length then return ["error layout-length-mismatch"] else
      let file ← IO.FS.readBinFile path
      let off := parseNat! dataOff
      let st := parseNat! stride
      let st := if st == 0 then L.size else st
      let n := (file.size - off) / st
      let n := if L.size > st then 0 else n
      return [toString n] ++ (List.range n).map (fun r => showInts (decodeRecord file (off + r * st) S L))
  | _ => return ["error bad-args"]

def cmdSpec (args : List String) : IO (List String) := do
  match args with
  | [which] =>
    let tbl := if which == "spec" then specLayouts else genLayouts
    return ["{" ++ ",".intercalate (tbl.map (fun p => jsonStr p.1 ++ ":" ++ layoutJson p.2)) ++ "}"]
  | _ => return ["error bad-args"]

end Driver
