import PygacModel.Model.Accessors
import Driver.Util
namespace Driver
open PygacModel.Acc

def tmS : Tm → String
  | .pre => "pre"
  | .post => "post"

def outS : Out → String
  | .times t => "times:" ++ tmS t
  | .lonlat t => "lonlat:" ++ tmS t
  | .mask => "mask"
  | .qual => "qual"
  | .counts => "counts"
  | .tele => "tele"
  | .dataset t l a => "dataset:" ++ tmS t ++ "," ++ tmS l ++ "," ++ tmS a
  | .calibrated d c g => "calibrated:" ++ tmS d ++ "," ++ tmS c ++ "," ++ tmS g
  | .angles t l => "angles:" ++ tmS t ++ "," ++ tmS l
  | .metaOut none => "meta:none"
  | .metaOut (some t) => "meta:" ++ tmS t
  | .saved t => "saved:" ++ tmS t

def parseOp? : String → Option Op
  | "getTimes" => some .getTimes
  | "getLonLat" => some .getLonLat
  | "getMask" => some .getMask
  | "getQualFlags" => some .getQualFlags
  | "getCounts" => some .getCounts
  | "getTelemetry" => some .getTelemetry
  | "dataset" => some .dataset
  | "calibrated" => some .calibrated
  | "angles" => some .angles
  | "readMeta" => some .readMeta
  | "save" => some .save
  | _ => none

/-- cmd: c12 <pod 0/1> <enabled> <table> <tle> <ops, comma separated>
 -> "<out>;<out>;... | driftRuns" -/
def cmdC12 (args : List String) : IO (List String) := do
  match args with
  | [p, e, t, l, ops] =>
    let c : Cfg := ⟨p == "1", e == "1", t == "1", l == "1"⟩
    let names := if ops == "_" then [] else ops.splitOn ","
    match names.mapM parseOp? with
    | none => return ["error bad-op"]
    | some os =>
      let (s, outs) := os.foldl (fun (acc : St × List String) op =>
        let r := step c acc.1 op
        (r.1, acc.2 ++ [outS r.2])) ({}, [])
      return [";".intercalate outs ++ " | " ++ toString s.driftRuns]
  | _ => return ["error bad-args"]
end Driver
