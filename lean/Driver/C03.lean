import PygacModel.Model.Times
import Driver.Util
namespace Driver
open PygacModel PygacModel.Times

/-- cmd: c03 <pod|klm> <Pnum> <Pden> <nowYear> <head ms | none> <nums> <years> <jdays> <msecs>
 -> "<stage1 instants> | <final times> | <refused 0/1>" -/
def cmdC03 (args : List String) : IO (List String) := do
  match args with
  | [fam, pn, pd, ny, hd, nums, ys, js, ms] =>
    let P : Rat := mkRat (parseInt! pn) (parseNat! pd)
    let signed := fam == "pod"
    let r : RawTimes := { nums := parseInts nums, year := parseInts ys, jday := parseInts js, msec := parseInts ms }
    let head : Option Int := if hd == "none" then none else some (parseInt! hd)
    let t1 := s1Instants (stage1 P signed (parseInt! ny) r)
    let s2 := stage2 {} P signed r.nums head t1
    let (fin, refused) := match s2 with
      | .times ts => (ts, "0")
      | .mismatch => (t1, "1")
    return [showInts t1 ++ " | " ++ showInts fin ++ " | " ++ refused]
  | ["poddec", w0, w1, w2] =>
    let (y, d, m) := podDecode (parseNat! w0) (parseNat! w1) (parseNat! w2)
    return [s!"{y} {d} {m}"]
  | ["instant", y, d, m] =>
    return [toString (instant (parseInt! y) (parseInt! d) (parseInt! m))]
  | _ => return ["error bad-args"]
end Driver
