import PygacModel.Model.GacIo
import Driver.Util
import Driver.C17
namespace Driver
open PygacModel PygacModel.GacIo

/-- cmd: c20 sel <valid bits e.g. 0011110> <start> <stop> <midnight|none> <line numbers> <missing|_>
     -> "rows | midnight | missing"  or "valueerror"  or "novalid"
    cmd: c20 enc <scale> <offset> <fill> <values: decimals or nan>  -> stored integers -/
def cmdC20 (args : List String) : IO (List String) := do
  match args with
  | ["sel", bits, st, sp, mid, nums, miss] =>
    let valid := bits.toList.map (· == '1')
    let n := valid.length
    match stripInvalidLat valid with
    | none => return ["novalid"]
    | some (first, last) =>
      match checkUserScanlines (parseInt! st) (parseInt! sp) first last with
      | .error _ => return ["valueerror"]
      | .ok (s, e) =>
        let rows := sliceRows (List.range n) first last s e
        let m := sliceMidnight (if mid == "none" then none else some (parseInt! mid)) n first last s e
        let ms := updateMissing (parseInts miss) (parseInts nums) first last
        return [(if rows.isEmpty then "_" else showNats rows) ++ " | " ++ (match m with | none => "none" | some x => toString x)
          ++ " | " ++ (if ms.isEmpty then "_" else showInts ms)]
  | ["enc", sc, off, fill, vals] =>
    let vs := (vals.splitOn ",").map (fun s => if s == "nan" then none else some (parseDecimal s))
    return [showInts (vs.map (encode (parseDecimal sc) (parseDecimal off) (parseInt! fill)))]
  | _ => return ["error bad-args"]
end Driver
