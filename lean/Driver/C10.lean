import PygacModel.Model.Select
import Driver.Util
namespace Driver
open PygacModel

def classOrder : List ReaderClass := [⟨.klm, .gac⟩, ⟨.klm, .lac⟩, ⟨.pod, .gac⟩, ⟨.pod, .lac⟩]

def classIdx (k : ReaderClass) : Nat :=
  match k.fam, k.res with
  | .klm, .gac => 0 | .klm, .lac => 1 | .pod, .gac => 2 | .pod, .lac => 3

/-- cmd: c10 <code points of the name, comma separated | _>  -> four accept bits -/
def cmdC10 (args : List String) : IO (List String) := do
  match args with
  | [cps] =>
    let name := (parseNats cps).map Char.ofNat
    return [",".intercalate (classOrder.map (fun k => if accepts asciiClass k name then "1" else "0"))]
  | _ => return ["error bad-args"]

/-- cmd: c10sel <order as class indices> <outcomes per class index: o=ok v=ValueError-type e=EOFError z=zlib x=other>
 -> "<chosen index | V (ValueError) | X (other exception)> <new order>" -/
def cmdC10Sel (args : List String) : IO (List String) := do
  match args with
  | [ord, outs] =>
    let order := (parseNats ord).map (fun i => classOrder.getD i ⟨.klm, .gac⟩)
    let oc := outs.toList
    let outcome (k : ReaderClass) : HeaderOutcome :=
      match oc.getD (classIdx k) 'v' with
      | 'o' => .ok
      | 'v' => .raised .readerError
      | 'e' => .raised .eofError
      | 'z' => .raised .zlibError
      | _ => .raised .otherError
    let (r, newOrder) := selectReader order outcome
    let rs := match r with
      | .ok k => toString (classIdx k)
      | .error .valueError => "V"
      | .error _ => "X"
    return [rs ++ " " ++ showNats (newOrder.map classIdx)]
  | _ => return ["error bad-args"]
end Driver
