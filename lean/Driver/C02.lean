import PygacModel.Model.Counts
import Driver.Util
namespace Driver
open PygacModel

def optStr : Option Nat → String
  | some v => toString v
  | none => "E"

def chunk5 : List (Option Nat) → List (List (Option Nat))
  | a :: b :: c :: d :: e :: rest => [a, b, c, d, e] :: chunk5 rest
  | _ => []

/-- cmd: c02line <width> <bitfield | -1> <words>  -> counts of the line, pixel-major
(5 per pixel for POD, 6 per pixel after routing for KLM) -/
def cmdC02Line (args : List String) : IO (List String) := do
  match args with
  | [width, bf, words] =>
    let w := parseNat! width
    let ws := parseNats words
    let line := codeCountsLine w ws
    if bf == "-1" then
      return [",".intercalate (line.map optStr)]
    else
      let s := ch3Switch (parseNat! bf)
      let px := chunk5 line
      let routed := px.flatMap (fun p =>
        match p with
        | [some a, some b, some c, some d, some e] => (route s a b c d e).map (fun v => toString v)
        | _ => ["E"])
      return [",".intercalate routed]
  | _ => return ["error bad-args"]

def mq (m : MeanQ) : String := toString m.sum ++ "/" ++ toString m.n

/-- cmd: c02tele pod <35 words> | c02tele klm <3 prt> <30 back scan> <50 space> -/
def cmdC02Tele (args : List String) : IO (List String) := do
  match args with
  | ["pod", t] =>
    let ts := parseNats t
    return [" ".intercalate ([mq (podPrt ts)] ++ (List.range 3).map (fun c => mq (podIct ts c))
                             ++ (List.range 3).map (fun c => mq (podSpace ts c)))]
  | ["klm", p, b, s] =>
    let ps := parseNats p; let bs := parseNats b; let ss := parseNats s
    return [" ".intercalate ([mq (klmPrt ps)] ++ (List.range 3).map (fun c => mq (klmIct bs c))
                             ++ (List.range 3).map (fun c => mq (klmSpace ss c)))]
  | _ => return ["error bad-args"]

inductive Sym where
  | nan | S (c : Nat) | T (c : Nat)

def Sym.str : Sym → String
  | .nan => "nan" | .S c => "S" ++ toString c | .T c => "T" ++ toString c

/-- cmd: c14 <switch> <third>  -> symbolic (3a, 3b) delivery -/
def cmdC14 (args : List String) : IO (List String) := do
  match args with
  | [s, t] =>
    let r := klm3a3b Sym.nan Sym.S Sym.T (parseNat! s) (parseNat! t)
    return [r.1.str ++ " " ++ r.2.str]
  | _ => return ["error bad-args"]

end Driver
