import PygacModel.Model.Thermal
import PygacModel.Generated.Calib
import Driver.Util
import Driver.C09
namespace Driver
open PygacModel PygacModel.Thermal

/-- fixed-point rendering with 9 decimals (Float.toString keeps only 6) -/
def showFloat9 (f : Float) : String :=
  let n := (Float.round (f * 1000000000.0)).toInt64.toInt
  let a := n.natAbs
  let frac := toString (a % 1000000000)
  (if n < 0 then "-" else "") ++ toString (a / 1000000000) ++ "." ++ "".pushn '0' (9 - frac.length) ++ frac

def showFloatOpt : Option Float → String
  | none => "nan"
  | some f => showFloat9 f

/-- cmd: c05 <sat> <chan 3|4|5> <nums> <prt> <ict> <space> <counts>   (lists comma separated, decimals)
  -> "ok | tprt | ict | space | bt(line 0);bt(line 1);..."  each bt(line) = BTs of the given counts
     "raw" (3b without valid ICT), "error noPrtIndex", "error valueError" -/
def cmdC05 (args : List String) : IO (List String) := do
  match args with
  | [sat, ch, nums, prt, ict, space, counts] =>
    match Generated.thermalTable.find? (fun t => t.1 == sat) with
    | none => return ["error unknown-spacecraft"]
    | some (_, chans, d) =>
      let chan := parseNat! ch
      match chans[chan - 3]? with
      | none => return ["error bad-channel"]
      | some tup =>
        let co := ChanCoef.ofTuple tup
        let dec := fun (s : String) => (s.splitOn ",").map parseDecimal
        match prepare d (chan == 3) (parseInts nums) (dec prt) (dec ict) (dec space) with
        | .error .noPrtIndex => return ["error noPrtIndex"]
        | .error .valueError => return ["error valueError"]
        | .rawCounts => return ["raw"]
        | .ok t =>
          let cs := dec counts
          let tele : List (Float × Float × Float) := (List.zip t.tprt (List.zip t.ict t.space)).map
            (fun (p : Rat × Rat × Rat) => (ratToFloat p.1, ratToFloat p.2.1, ratToFloat p.2.2))
          let arr := calArray (α := Float) co (chan == 3) tele (tele.map (fun _ => cs.map ratToFloat))
          let rows := arr.map (fun row => ",".intercalate (row.map showFloatOpt))
          return ["ok | " ++ showRats t.tprt ++ " | " ++ showRats t.ict ++ " | " ++ showRats t.space ++ " | " ++ ";".intercalate rows]
  | _ => return ["error bad-args"]
end Driver
