/- Line-protocol helpers for the model driver (core Lean only). -/
namespace Driver

def parseInt? (s : String) : Option Int :=
  if s.startsWith "-" then (s.drop 1).toNat?.map (fun n => - (n : Int)) else s.toNat?.map (fun n => (n : Int))

def parseNat! (s : String) : Nat := s.toNat?.getD 0
def parseInt! (s : String) : Int := (parseInt? s).getD 0

/-- comma separated integers; "-" or "" = empty list -/
def parseInts (s : String) : List Int :=
  if s == "" || s == "_" then [] else (s.splitOn ",").map parseInt!

def parseNats (s : String) : List Nat :=
  if s == "" || s == "_" then [] else (s.splitOn ",").map parseNat!

def showInts (xs : List Int) : String := ",".intercalate (xs.map toString)
def showNats (xs : List Nat) : String := ",".intercalate (xs.map toString)

def jsonStr (s : String) : String :=
  "\"" ++ (s.foldl (fun acc c =>
    if c == '"' then acc ++ "\\\"" else if c == '\\' then acc ++ "\\\\" else acc.push c) "") ++ "\""

end Driver
