import Driver.Util
import Driver.C01
import Driver.C07
import Driver.C02
import Driver.C11
import Driver.C17
import Driver.C10
import Driver.C16
import Driver.C03
import Driver.C12
import Driver.C09
import Driver.C04
import Driver.C05
import Driver.C19
import Driver.C20
import Driver.C06
import Driver.C15
open Driver

/-- dispatch one request line; returns the output lines -/
def dispatch (line : String) : IO (List String) := do
  let toks := (line.trimAscii.toString.splitOn " ").filter (· ≠ "")
  match toks with
  | [] => return ["error empty"]
  | "spec" :: args => cmdSpec args
  | "decode" :: args => cmdDecode args
  | "c07" :: args => cmdC07 args
  | "c02line" :: args => cmdC02Line args
  | "c02tele" :: args => cmdC02Tele args
  | "c14" :: args => cmdC14 args
  | "c11" :: args => cmdC11 args
  | "c17" :: args => cmdC17 args
  | "c10" :: args => cmdC10 args
  | "c10sel" :: args => cmdC10Sel args
  | "c16" :: args => cmdC16 args
  | "c16route" :: args => cmdC16route args
  | "c03" :: args => cmdC03 args
  | "c12" :: args => cmdC12 args
  | "c09" :: args => cmdC09 args
  | "c04" :: args => cmdC04 args
  | "c05" :: args => cmdC05 args
  | "c19" :: args => cmdC19 args
  | "c20" :: args => cmdC20 args
  | "c06" :: args => cmdC06 args
  | "c15" :: args => cmdC15 args
  | _ => return ["error unknown-command"]

partial def loop (hin : IO.FS.Stream) (hout : IO.FS.Stream) : IO Unit := do
  let line ← hin.getLine
  if line.isEmpty then return ()
  let outs ← dispatch line
  for o in outs do hout.putStrLn o
  loop hin hout

def main : IO Unit := do
  let hin ← IO.getStdin
  let hout ← IO.getStdout
  loop hin hout
