/-
Basic data structures shared by Spec, Generated and Model.
Core Lean only (no Mathlib) so that the driver can be compiled natively.
-/
namespace PygacModel

/-- Kind of a leaf field of a level-1b record. `opaque` marks spare / fill / reserved
ranges of the format, which are compared by offset and extent only. -/
inductive Kind where
  | u | i | s | f | opaque
deriving DecidableEq, Repr, Inhabited

/-- A leaf field: `count` elements of `width` bytes; element `j` lives at
`off + j * stride`.  `be` = most significant byte first. -/
structure Leaf where
  name : String
  off : Nat
  width : Nat
  kind : Kind
  be : Bool
  count : Nat
  stride : Nat
deriving DecidableEq, Repr, Inhabited

structure Layout where
  name : String
  size : Nat
  leaves : List Leaf
deriving DecidableEq, Repr, Inhabited

/-- Extent (bytes covered from the first to one past the last element). -/
def Leaf.extent (l : Leaf) : Nat :=
  if l.count = 0 then 0 else (l.count - 1) * l.stride + l.width

def Layout.find? (L : Layout) (n : String) : Option Leaf :=
  L.leaves.find? (fun l => l.name == n)

/-- Does the layout read from the code (`g`) agree with the format's leaf (`s`)?
Spare/fill ranges (`opaque` in the spec) only need the same position and extent. -/
def leafAgrees (s g : Leaf) : Bool :=
  s.off == g.off && s.extent == g.extent &&
  (s.kind == .opaque ||
    (s.name == g.name && s.width == g.width && s.kind == g.kind && s.count == g.count &&
     s.stride == g.stride && (s.width == 1 || s.be == g.be)))

def leavesAgree : List Leaf → List Leaf → Bool
  | [], [] => true
  | s :: ss, g :: gs => leafAgrees s g && leavesAgree ss gs
  | _, _ => false

def layoutAgrees (s g : Layout) : Bool :=
  s.size == g.size && leavesAgree s.leaves g.leaves

end PygacModel
