/-
Model of the quality-flag handling of pygac/reader.py
(`_get_corrupt_mask`, `mask`, `get_qual_flags`, blanking of products).  Core Lean only.
-/
namespace PygacModel

/-- `_get_corrupt_mask(flags)`: `(quality & int(flags)).astype(bool)` for one line. -/
def corruptMask (flags q : Nat) : Bool := (q &&& flags) != 0

/-- The six flag values a reader family uses (taken from its `QFlag` IntFlag enum). -/
structure FlagSet where
  fatal : Nat
  cal : Nat
  noloc : Nat
  c3 : Nat
  c4 : Nat
  c5 : Nat
deriving Repr, DecidableEq

/-- `Reader.mask`: default flags = FATAL | CALIBRATION | NO_EARTH_LOCATION. -/
def lineMask (F : FlagSet) (q : Nat) : Bool := corruptMask (F.fatal ||| F.cal ||| F.noloc) q

def b2i (b : Bool) : Int := if b then 1 else 0

/-- `get_qual_flags`: the seven columns of one line. -/
def qualSummary (F : FlagSet) (lineNo : Int) (q : Nat) : List Int :=
  [lineNo, b2i (corruptMask F.fatal q), b2i (corruptMask F.cal q), b2i (corruptMask F.noloc q),
   b2i (corruptMask F.c3 q), b2i (corruptMask F.c4 q), b2i (corruptMask F.c5 q)]

/-- Set bits (below 32) of a mask. -/
def bitsOf (m : Nat) : List Nat := (List.range 32).filter (fun i => m.testBit i)

/-- Blanking of one product row: `arr[mask] = nan` / `ds.where(~mask)`. -/
def blankRow {α : Type} (nan : α) (m : Bool) (row : List α) : List α :=
  if m then row.map (fun _ => nan) else row

/-- A product row of a line: some function of the line's data *other than* the quality word,
blanked by the line's mask. -/
def productRow {α δ : Type} (nan : α) (F : FlagSet) (f : δ → List α) (d : δ) (q : Nat) : List α :=
  blankRow nan (lineMask F q) (f d)

end PygacModel
