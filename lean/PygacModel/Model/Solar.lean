/-
Model of the solar calibration (`calibration/noaa.py: calibrate_solar`) in exact rationals.
`none` stands for NaN.
-/
import PygacModel.Model.Tle
namespace PygacModel.Solar
open PygacModel

/-- one coefficient row: dark count, gain switch (null in the file = NaN), s0, s1, s2 -/
structure Row where
  dark : Rat
  switch : Option Rat
  s0 : Rat
  s1 : Rat
  s2 : Rat
deriving Repr, DecidableEq

def Row.ofTuple (t : Rat × Option Rat × Rat × Rat × Rat) : Row := ⟨t.1, t.2.1, t.2.2.1, t.2.2.2.1, t.2.2.2.2⟩

/-- `np.round(x, 3)` (half to even) -/
def round3 (x : Rat) : Rat := (roundHalfEven (x * 1000) : Rat) / 1000

/-- time since launch in years: `(year + jday / 365.0) - l_date` -/
def tSince (year jday : Int) (launch : Rat) : Rat := (year : Rat) + (jday : Rat) / 365 - launch

/-- gain factors (low, high) of channel index `chan` (0, 1: channels 1, 2; 2: channel 3a);
`single` = all three gain switches of the spacecraft are NaN -/
def gains (single : Bool) (chan : Nat) : Rat × Rat :=
  if single then (1, 1) else if chan = 2 then (1 / 4, 7 / 4) else (1 / 2, 3 / 2)

/-- the quadratic of the slope equation -/
def quad (r : Row) (t : Rat) : Rat := 100 + r.s1 * t + r.s2 * t * t

/-- calibration slope for a gain factor `g`: `round3 (g * S0) * (100 + S1 t + S2 t^2) / 100` -/
def slope (r : Row) (g : Rat) (t : Rat) : Rat := round3 (g * r.s0) * quad r t / 100

/-- scaled radiance before the NaN mask (`none`: a NaN gain switch inside a dual-gain set) -/
def rawRadiance (single : Bool) (chan : Nat) (r : Row) (t : Rat) (c : Rat) : Option Rat :=
  let g := gains single chan
  let stl := slope r g.1 t
  let sth := slope r g.2 t
  if single then some (stl * (c - r.dark))
  else match r.switch with
    | none => none
    | some b => some (if c ≤ b then (c - r.dark) * stl else (b - r.dark) * stl + (c - b) * sth)

/-- `calibrate_solar`: multiplied by `corr`, negative results are NaN -/
def scaled (single : Bool) (chan : Nat) (r : Row) (t : Rat) (corr : Rat) (c : Rat) : Option Rat :=
  match rawRadiance single chan r t c with
  | none => none
  | some v => if v * corr < 0 then none else some (v * corr)

/-- all three switches NaN? (the code's test `np.isnan(cal.gain_switch).all()`) -/
def isSingle (rows : List Row) : Bool := rows.all (fun r => r.switch.isNone)

/-- distance factor for a given value of the cosine -/
def distanceFactor (cosv : Rat) : Rat := 1 - mkRat 334 10000 * cosv

end PygacModel.Solar
