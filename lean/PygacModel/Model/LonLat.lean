/-
Model of the coordinate read-out (`_get_lonlat_from_file` of both families) and of the masks of
`Reader.get_lonlat`.  Exact rationals; `none` = NaN; the interpolator is a parameter.
-/
import PygacModel.Model.Np
import PygacModel.Basic
namespace PygacModel.LonLat
open PygacModel Np

/-- scale of an earth-location word: 1/128 degree (POD), 1e-4 degree (KLM) -/
def scale (pod : Bool) : Rat := if pod then mkRat 1 128 else mkRat 1 10000

def tiePoint (pod : Bool) (k : Int) : Rat := (k : Rat) * scale pod

/-- value range of a signed big-endian field of `width` bytes -/
def fitsSigned (width : Nat) (k : Int) : Bool := decide (-(2 ^ (8 * width - 1) : Int) ≤ k) && decide (k < (2 ^ (8 * width - 1) : Int))

abbrev Grid := List (List (Option Rat))

def maskLat (v : Option Rat) : Option Rat := match v with
  | some x => if absR x > 90 then none else some x
  | none => none

def maskLon (v : Option Rat) : Option Rat := match v with
  | some x => if absR x > 180 then none else some x
  | none => none

/-- flagged lines are blanked -/
def lineMask (mask : List Bool) (g : Grid) : Grid :=
  List.zipWith (fun (m : Bool) row => if m then row.map (fun _ => none) else row) mask g

/-- `get_lonlat` after the read-out: optional interpolation `f`, line mask, range mask.
Returns (lons, lats). -/
def getLonLat (interp : Bool) (f : Grid × Grid → Grid × Grid) (mask : List Bool) (raw : Grid × Grid) : Grid × Grid :=
  let g := if interp then f raw else raw
  ((lineMask mask g.1).map (fun row => row.map maskLon), (lineMask mask g.2).map (fun row => row.map maskLat))

end PygacModel.LonLat
