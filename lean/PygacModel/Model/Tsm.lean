/-
Model of the scan-motor (TSM) masking: platform / interval gate (`Reader.is_tsm_affected`),
pixel criterion (`correct_tsm_issue.get_tsm_idx`), blanking of all channels.  Exact rationals;
`none` = NaN.
-/
import PygacModel.Model.Np
namespace PygacModel.Tsm
open PygacModel Np

/-- `is_tsm_affected`: the spacecraft id has a table and one interval contains [first, last time] -/
def gate (table : List (Nat × String × List (Int × Int))) (sid : Nat) (ts te : Int) : Bool :=
  match table.find? (fun e => e.1 == sid) with
  | none => false                      -- KeyError: platform not affected at all
  | some e => e.2.2.any (fun iv => decide (iv.1 ≤ ts) && decide (te ≤ iv.2))

abbrev Img := List (List (Option Rat))

def pix (im : Img) (i j : Int) : Option Rat :=
  if 0 ≤ i ∧ 0 ≤ j then ((im.getD i.toNat []).getD j.toNat none) else none

/-- the non-NaN members of the NaN-padded 3x3 window -/
def window3 (im : Img) (i j : Nat) : List Rat :=
  ([(-1 : Int), 0, 1].flatMap (fun di => [(-1 : Int), 0, 1].map (fun dj => pix im ((i : Int) + di) ((j : Int) + dj)))).filterMap id

/-- `bn.nanstd` squared, then `nan_to_num`: population variance of the non-NaN members, 0 for an all-NaN window -/
def var3 (im : Img) (i j : Nat) : Rat :=
  let w := window3 im i j
  if w.isEmpty then 0 else variance w

def absDiff (a b : Option Rat) : Option Rat :=
  match a, b with
  | some x, some y => some (absR (x - y))
  | _, _ => none

/-- `100 * (ch4 - ch5) / ch5` (a zero divisor gives inf / NaN in numpy; the model treats it as NaN) -/
def relDiff (a b : Option Rat) : Option Rat :=
  match a, b with
  | some x, some y => if y = 0 then none else some (100 * (x - y) / y)
  | _, _ => none

def zipImg (f : Option Rat → Option Rat → Option Rat) (a b : Img) : Img :=
  List.zipWith (fun ra rb => List.zipWith f ra rb) a b

/-- pixels with both 3x3 standard deviations above 2 (variances above 4) -/
def tsmPixel (ch1 ch2 ch4 ch5 : Img) (i j : Nat) : Bool :=
  decide (var3 (zipImg absDiff ch1 ch2) i j > 4) && decide (var3 (zipImg relDiff ch4 ch5) i j > 4)

/-- the masking step of `get_calibrated_dataset`: inside the gate every channel of a selected pixel is blanked -/
def maskTsm (gated : Bool) (chans : List Img) (sel : List Nat) : List Img :=
  if !gated then chans
  else
    let g := fun k => chans.getD (sel.getD k 0) []
    chans.map (fun im => im.zipIdx.map (fun (row, i) => row.zipIdx.map (fun (v, j) =>
      if tsmPixel (g 0) (g 1) (g 2) (g 3) i j then none else v)))

end PygacModel.Tsm
