/-
Model of the byte-level decoding that pygac performs through numpy structured dtypes,
and of the way `read()` / `read_header()` / `_read_scanlines()` cut a file into an optional
archive header, a header record and scan-line records.
Core Lean only.
-/
import PygacModel.Basic
namespace PygacModel

abbrev Bytes := List UInt8

/-- Big-endian unsigned value of a byte string. -/
def beDecode (bs : Bytes) : Nat := bs.foldl (fun acc b => acc * 256 + b.toNat) 0

/-- Big-endian encoding of `v` on `w` bytes (value taken modulo 256^w). -/
def beEncode : Nat → Nat → Bytes
  | 0, _ => []
  | w + 1, v => beEncode w (v / 256) ++ [UInt8.ofNat (v % 256)]

/-- Two's complement reading of an unsigned value of `w` bytes. -/
def toSigned (w : Nat) (u : Nat) : Int :=
  if u < 2 ^ (8 * w - 1) then (u : Int) else (u : Int) - (2 ^ (8 * w) : Nat)

/-- Two's complement encoding of a signed value on `w` bytes. -/
def ofSigned (w : Nat) (v : Int) : Nat :=
  if 0 ≤ v then v.toNat else ((2 ^ (8 * w) : Nat) + v).toNat

def slice (bs : Bytes) (off len : Nat) : Bytes := (bs.drop off).take len

/-- Raw bytes of element `j` of a leaf inside one record. -/
def leafBytes (rec : Bytes) (l : Leaf) (j : Nat) : Bytes :=
  let b := slice rec (l.off + j * l.stride) l.width
  if l.be then b else b.reverse

/-- Numeric value of element `j` of a leaf (for `u`/`i` kinds). -/
def leafValue (rec : Bytes) (l : Leaf) (j : Nat) : Int :=
  let u := beDecode (leafBytes rec l j)
  match l.kind with
  | .i => toSigned l.width u
  | _ => (u : Int)

/-- numpy `S` fields compare modulo trailing NUL bytes. -/
def stripNul (bs : Bytes) : Bytes :=
  (bs.reverse.dropWhile (· == 0)).reverse

/-- Number of complete records after the data offset (`len(buffer) // itemsize`). -/
def recordCount (file : Bytes) (dataOff stride : Nat) : Nat :=
  (file.length - dataOff) / stride

/-- Record `r` of the scan-line area. -/
def record (file : Bytes) (dataOff stride r : Nat) : Bytes :=
  slice file (dataOff + r * stride) stride

/-- A file as the format describes it: optional archive header, a header block that is
padded to exactly one record length, `n` records, and an incomplete tail. -/
def writeFile (archive headerBlock : Bytes) (records : List Bytes) (tail : Bytes) : Bytes :=
  archive ++ headerBlock ++ records.flatten ++ tail

/-- Assemble a record from consecutive chunks (each chunk already encoded). -/
def assemble (chunks : List Bytes) : Bytes := chunks.flatten

/-- Offset of chunk `i` in an assembled record. -/
def chunkOff (chunks : List Bytes) (i : Nat) : Nat := ((chunks.take i).map List.length).sum

/-- Elementary intervals `(start, len)` occupied by a leaf. Contiguous arrays are one
interval; strided (interleaved) arrays are expanded element by element. -/
def Leaf.intervals (l : Leaf) : List (Nat × Nat) :=
  if l.stride = l.width then [(l.off, l.count * l.width)]
  else (List.range l.count).map (fun j => (l.off + j * l.stride, l.width))

/-- Insert into a list sorted by start. -/
def insertIv (x : Nat × Nat) : List (Nat × Nat) → List (Nat × Nat)
  | [] => [x]
  | y :: ys => if x.1 ≤ y.1 then x :: y :: ys else y :: insertIv x ys

def sortIvs (xs : List (Nat × Nat)) : List (Nat × Nat) := xs.foldr insertIv []

/-- Do sorted intervals tile `[pos, size)` without gap or overlap? -/
def tilesFrom : Nat → Nat → List (Nat × Nat) → Bool
  | pos, size, [] => pos == size
  | pos, size, (s, len) :: rest => s == pos && tilesFrom (pos + len) size rest

/-- A layout tiles its record: the fields, sorted by offset, are gap-free, overlap-free
and end at the record size. -/
def Layout.tiles (L : Layout) : Bool :=
  tilesFrom 0 L.size (sortIvs (L.leaves.flatMap Leaf.intervals))

end PygacModel
