/-
Model of `Reader.tle2datetime64` and `Reader.get_tle_lines` (reader.py).  Core Lean only.
Times are integers: milliseconds since 1970-01-01.
-/
import PygacModel.Model.Np
namespace PygacModel
open Np

/-- days from 1970-01-01 to January 1st of `y` (proleptic Gregorian). -/
def daysToYear (y : Int) : Int :=
  let p := y - 1
  365 * (y - 1970) + (p / 4 - 1969 / 4) - (p / 100 - 1969 / 100) + (p / 400 - 1969 / 400)

/-- round half to even (`np.rint`) -/
def roundHalfEven (x : Rat) : Int :=
  let f := x.floor
  let r := x - f
  if r < 1 / 2 then f else if r > 1 / 2 then f + 1 else (if f % 2 = 0 then f else f + 1)

/-- `tle2datetime64` of the epoch field `YYDDD.dddddddd` given as an exact decimal. -/
def tleEpochMs (x : Rat) : Int :=
  let t := if x > 50000 then x + 1900000 else x + 2000000
  let whole := t.floor
  let year := whole / 1000
  let doy := whole % 1000 - 1
  let frac := t - whole
  daysToYear year * 86400000 + doy * 86400000 + roundHalfEven (86400000 * frac)

/-- The exact instant the epoch field denotes, in (rational) milliseconds. -/
def tleEpochExact (x : Rat) : Rat :=
  let t := if x > 50000 then x + 1900000 else x + 2000000
  let whole := t.floor
  let year := whole / 1000
  let doy := whole % 1000 - 1
  ((daysToYear year * 86400000 + doy * 86400000 : Int) : Rat) + 86400000 * (t - whole)

/-- `np.searchsorted(dates, s)` on an ordered list: number of leading entries `< s`. -/
def ssLeft : List Int → Int → Nat
  | [], _ => 0
  | x :: xs, v => if x < v then ssLeft xs v + 1 else 0

def absI (x : Int) : Int := if x < 0 then -x else x

inductive TleResult where
  | chosen (idx : Nat)     -- element set `idx`: lines `2*idx` and `2*idx+1`
  | noTleData              -- `NoTLEData` (an `IndexError` subclass)
  | indexError             -- empty TLE file: bare `IndexError`
deriving Repr, DecidableEq

/-- index chosen by the neighbour comparison -/
def chooseIdx (dates : List Int) (s : Int) : Nat :=
  let i := ssLeft dates s
  if i = 0 then 0
  else if i = dates.length then i - 1
  else if absI (s - dates.getD (i - 1) 0) < absI (s - dates.getD i 0) then i - 1 else i

/-- `get_tle_lines`: `threshMs` = `tle_thresh` days in milliseconds (a rational). -/
def selectTle (dates : List Int) (s : Int) (threshMs : Rat) : TleResult :=
  if dates = [] then .indexError
  else
    let i := chooseIdx dates s
    if ((absI (s - dates.getD i 0) : Int) : Rat) > threshMs then .noTleData else .chosen i

/-- The reader remembers the element set it has selected (`self.tle_lines`): only a SUCCESSFUL selection is stored;
a query that ends in `NoTLEData` or `IndexError` leaves nothing behind. -/
def queryTle (dates : List Int) (s : Int) (threshMs : Rat) (cache : Option Nat) : Option Nat × TleResult :=
  match cache with
  | some i => (some i, .chosen i)
  | none =>
    match selectTle dates s threshMs with
    | .chosen i => (some i, .chosen i)
    | r => (none, r)

/-- `k` queries one after the other on one reader -/
def queryMany (dates : List Int) (s : Int) (threshMs : Rat) : Nat → Option Nat → List TleResult
  | 0, _ => []
  | k + 1, c => (queryTle dates s threshMs c).2 :: queryMany dates s threshMs k (queryTle dates s threshMs c).1

end PygacModel
