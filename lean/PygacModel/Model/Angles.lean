/-
Model of the angle range folding (`utils.centered_modulus`, `utils.get_absolute_azimuth_angle_diff`)
and of the zenith complement in `Reader.get_angles`.  Exact rationals.
-/
import PygacModel.Model.Np
namespace PygacModel.Angles
open PygacModel Np

/-- Python / numpy `x % m` for positive `m`: result in [0, m) -/
def pmod (x m : Rat) : Rat := x - m * ((x / m).floor : Rat)

/-- `centered_modulus(x, 360)`: into the half-open range (-180, 180] -/
def centered (x : Rat) : Rat :=
  let a := pmod x 360
  if a > 180 then a - 360 else a

/-- `get_absolute_azimuth_angle_diff`: |sat - sun| folded into [0, 180] -/
def absAzDiff (sat sun : Rat) : Rat :=
  let r := pmod (absR (sat - sun)) 360
  if r > 180 then 360 - r else r

/-- zenith = 90 - elevation -/
def zenith (elev : Rat) : Rat := 90 - elev

/-- which path supplies the satellite angles -/
inductive SatPath where
  | withTle | fallback
deriving DecidableEq, Repr

/-- `get_sat_angles`: TLE-based look angles, or the approximate fallback on `NoTLEData` -/
def satPath (tleOk : Bool) : SatPath := if tleOk then .withTle else .fallback

end PygacModel.Angles
