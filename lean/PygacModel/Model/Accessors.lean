/-
State machine of the reader's accessors and caches (reader.py: get_times, get_lonlat,
update_meta_data, create_counts_dataset, get_calibrated_dataset, get_angles, mask,
get_qual_flags; pod_reader.py / klm_reader.py: _adjust_clock_drift).  Core Lean only.

The numeric kernels are uninterpreted: an output is a *symbolic* value that records which
version of the scan-line times every ingredient was computed from - `T` (the times of
`get_times` before the clock-drift correction) or `T'` (after it).  The step function follows
the real call graph: which accessor fills which cache, in which order.
-/
namespace PygacModel.Acc

/-- which version of the pass's times a quantity was computed from -/
inductive Tm where
  | pre    -- T  : recorded / repaired times
  | post   -- T' : after the POD clock-drift shift
deriving DecidableEq, Repr, Inhabited

/-- per-reader configuration and the facts about the file that decide whether the clock-drift
correction applies -/
structure Cfg where
  pod : Bool            -- POD family (KLM: `_adjust_clock_drift` is a no-op)
  driftEnabled : Bool   -- `adjust_clock_drift` option
  hasTable : Bool       -- a clock-error table exists for the spacecraft
  tleOk : Bool          -- an element set within `tle_thresh` days exists (else `NoTLEData`)
deriving DecidableEq, Repr

def Cfg.applies (c : Cfg) : Bool := c.pod && c.driftEnabled && c.hasTable && c.tleOk

/-- the times the reader ends up with once coordinates have been computed -/
def Cfg.final (c : Cfg) : Tm := if c.applies then .post else .pre

structure St where
  times : Option Tm := none     -- `_times_as_np_datetime64`
  lonlat : Bool := false        -- `lons` / `lats` cached
  mdata : Option Tm := none      -- `meta_data` filled, from which times
  mask : Bool := false          -- `_mask` cached
  driftRuns : Nat := 0          -- ghost: how often the drift shift has been applied
deriving DecidableEq, Repr

inductive Op where
  | getTimes | getLonLat | getMask | getQualFlags | getCounts | getTelemetry
  | dataset | calibrated | angles | readMeta | save
deriving DecidableEq, Repr

/-- symbolic outputs -/
inductive Out where
  | times (t : Tm)
  | lonlat (corrected : Tm)
  | mask | qual | counts | tele
  /-- dataset view: times coordinate, coordinates, attrs (metadata) -/
  | dataset (timesCoord : Tm) (ll : Tm) (attrs : Tm)
  /-- calibrated channels: date of the first line taken from, distance factor from, scan-motor gate from -/
  | calibrated (date : Tm) (corr : Tm) (gate : Tm)
  | angles (t : Tm) (ll : Tm)
  | metaOut (m : Option Tm)
  /-- `save()`: everything written to the legacy files comes from the final times -/
  | saved (t : Tm)
deriving DecidableEq, Repr

/-- `get_times()` -/
def doTimes (s : St) : St × Tm :=
  match s.times with
  | some t => (s, t)
  | none => ({ s with times := some .pre }, .pre)

/-- `get_lonlat()`: read from file, clock drift (once), metadata, interpolation, masks -/
def doLonLat (c : Cfg) (s : St) : St :=
  if s.lonlat then s
  else
    let s1 := (doTimes s).1
    -- `_adjust_clock_drift` (POD, enabled, table, TLE) shifts the cached times in place
    let s2 := if c.applies then { s1 with times := some .post, driftRuns := s1.driftRuns + 1 } else s1
    -- `update_meta_data()` only fills missing keys
    let s3 := match s2.mdata with
      | some _ => s2
      | none => { s2 with mdata := s2.times }
    { s3 with lonlat := true, mask := true }

def curTimes (s : St) : Tm := s.times.getD .pre

/-- `create_counts_dataset()` -/
def doDataset (c : Cfg) (s : St) : St × Out :=
  let s1 := doLonLat c s            -- coordinates first, so that every ingredient sees the final times
  let (s2, t) := doTimes s1
  (s2, .dataset t (curTimes s2) (curTimes s2))

def step (c : Cfg) (s : St) : Op → St × Out
  | .getTimes => let (s', t) := doTimes s; (s', .times t)
  | .getLonLat => let s' := doLonLat c s; (s', .lonlat (curTimes s'))
  | .getMask => ({ s with mask := true }, .mask)
  | .getQualFlags => (s, .qual)
  | .getCounts => (s, .counts)
  | .getTelemetry => (s, .tele)
  | .dataset => doDataset c s
  | .calibrated =>
    match doDataset c s with
    | (s', .dataset t _ a) => ({ s' with mask := true }, .calibrated t a (curTimes s'))
    | (s', _) => (s', .mask)
  | .angles =>
    let s1 := (doTimes s).1
    let s2 := doLonLat c s1
    (s2, .angles (curTimes s2) (curTimes s2))
  | .readMeta => (s, .metaOut s.mdata)
  | .save =>
    -- get_lonlat, calibrated channels, angles, quality summary; then the writer (which must not touch the caches)
    let s1 := (doDataset c s).1
    ({ s1 with mask := true }, .saved (curTimes s1))

def run (c : Cfg) (s : St) : List Op → St
  | [] => s
  | op :: ops => run c (step c s op).1 ops

/-- output of `op` after the history `h` on a fresh reader -/
def outAfter (c : Cfg) (h : List Op) (op : Op) : Out := (step c (run c {} h) op).2

/-- does the history contain an operation that computes coordinates? -/
def computesCoords : Op → Bool
  | .getLonLat | .dataset | .calibrated | .angles | .save => true
  | _ => false

end PygacModel.Acc
