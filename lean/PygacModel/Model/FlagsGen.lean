import PygacModel.Model.Flags
import PygacModel.Generated.Flags
namespace PygacModel
/-- The flag values of the two families as the code defines them (regenerated on every run). -/
def klmFlags : FlagSet :=
  ⟨Generated.klm_FATAL_FLAG, Generated.klm_CALIBRATION, Generated.klm_NO_EARTH_LOCATION,
   Generated.klm_CH_3_CONTAMINATION, Generated.klm_CH_4_CONTAMINATION, Generated.klm_CH_5_CONTAMINATION⟩
def podFlags : FlagSet :=
  ⟨Generated.pod_FATAL_FLAG, Generated.pod_CALIBRATION, Generated.pod_NO_EARTH_LOCATION,
   Generated.pod_CH_3_CONTAMINATION, Generated.pod_CH_4_CONTAMINATION, Generated.pod_CH_5_CONTAMINATION⟩
end PygacModel
