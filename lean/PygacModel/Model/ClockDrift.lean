/-
Model of `PODReader._adjust_clock_drift` (pod_reader.py): clock error interpolation, fractional
line shift, the set of lines to recompute and their nominal times, row look-ups for the
great-circle interpolation, time shift.  Core Lean only; exact rationals.
-/
import PygacModel.Model.Np
import PygacModel.Model.Tle
namespace PygacModel.Drift
open PygacModel Np

/-- `scan_rate = timedelta(milliseconds=1/scan_freq)`: Python rounds to whole microseconds.
`P` is the exact period in ms; result in microseconds. -/
def scanRateUs (P : Rat) : Int := roundHalfEven (P * 1000)

/-- `scan_rate.total_seconds()` -/
def scanRateSec (P : Rat) : Rat := (scanRateUs P : Rat) / 1000000

def minL : List Int → Int
  | [] => 0
  | x :: xs => xs.foldl (fun a b => if b < a then b else a) x

def maxL : List Int → Int
  | [] => 0
  | x :: xs => xs.foldl (fun a b => if a < b then b else a) x

/-- integers `lo, lo+1, ..., lo+k-1` -/
def rangeFrom (lo : Int) : Nat → List Int
  | 0 => []
  | k + 1 => lo :: rangeFrom (lo + 1) k

structure Plan where
  shifted : List Rat        -- fractional line numbers n - error*rate
  floorL : List Int         -- their floors
  weight : List Rat         -- slerp parameter in [0, 1)
  minLine : Int
  maxLine : Int
  missed : List Int         -- lines of [minLine, maxLine] absent from the file (sorted)
  missedMs : List Rat       -- their nominal times (ms since 1970), before truncation
  shiftMs : List Int        -- amount subtracted from each line's time
deriving Repr

/-- `errs`: interpolated clock errors in seconds, one per line; `t0`: time of the first line (ms) -/
def plan (P : Rat) (nums : List Int) (errs : List Rat) (t0 : Int) : Plan :=
  let rate := scanRateSec P
  let shifted := List.zipWith (fun (n : Int) (e : Rat) => (n : Rat) - e / rate) nums errs
  let fl := shifted.map Rat.floor
  let mn := min (minL nums) (minL fl)
  let mx := max (maxL nums) (maxL fl + 1)
  let all := rangeFrom mn (mx - mn + 1).toNat
  let missed := all.filter (fun k => !nums.contains k)
  let n0 := nums.headD 0
  { shifted := shifted, floorL := fl,
    weight := List.zipWith (fun (s : Rat) (f : Int) => s - (f : Rat)) shifted fl,
    minLine := mn, maxLine := mx, missed := missed,
    -- `np.timedelta64(scan_rate, "us")`: whole microseconds per line
    missedMs := missed.map (fun m => (t0 : Rat) + ((m - n0 : Int) : Rat) * (scanRateUs P : Rat) / 1000),
    shiftMs := errs.map (fun e => truncR (e * 1000)) }

/-- new times: `times -= (offsets * 1000).astype("timedelta64[ms]")` -/
def shiftTimes (ts : List Int) (p : Plan) : List Int :=
  List.zipWith (fun t s => t - s) ts p.shiftMs

/-- clock error at the line times: `np.interp(times, table_times, table_errors)` -/
def errorsAt (tabT : List Rat) (tabE : List Rat) (ts : List Int) : List Rat :=
  ts.map (fun (t : Int) => interp (t : Rat) tabT tabE)

end PygacModel.Drift
