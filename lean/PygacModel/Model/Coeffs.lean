/-
Model of `Calibrator.__new__` / `read_coeffs` (calibration/noaa.py): the class-level cache of
the default coefficient table, reload when the file argument changes, copy-then-update merge
of custom coefficients, version from the file content.  Core Lean only.
-/
namespace PygacModel

/-- A coefficient table: spacecraft → top-level key → value. `ν` is the type of values. -/
abbrev Table (ν : Type) := Nat → Nat → ν

/-- One request: spacecraft, coefficient file (0 = the shipped file, i.e. `coeffs_file=None`),
custom coefficients as (top-level key, value) pairs. -/
structure Req (ν : Type) where
  sat : Nat
  file : Nat
  custom : List (Nat × ν)

/-- The class-level cache: `default_file`, `default_coeffs`, `default_version`. -/
structure Cache (ν : Type) where
  file : Nat
  table : Table ν
  version : Option Nat

/-- The result the calibrator is built from: value used for each top-level key, and version. -/
structure CoeffResult (ν : Type) where
  value : Nat → ν
  version : Option Nat

def lookupCustom {ν : Type} (c : List (Nat × ν)) (k : Nat) : Option ν :=
  (c.find? (fun p => p.1 == k)).map (·.2)

/-- `coeffs = defaults.copy(); coeffs.update(customs)`: later entries of `customs` win, as in
`dict.update` applied to a dict literal; we take the *last* binding of a key. -/
def mergeCustom {ν : Type} (defaults : Nat → ν) (c : List (Nat × ν)) (k : Nat) : ν :=
  match lookupCustom c.reverse k with
  | some v => v
  | none => defaults k

/-- One `Calibrator(sat, custom, file)` call. `fs` = content of each file (static file system),
`ver` = version name recognised for each file's content (md5 lookup). -/
def calStep {ν : Type} (fs : Nat → Table ν) (ver : Nat → Option Nat)
    (cache : Option (Cache ν)) (r : Req ν) : Option (Cache ν) × CoeffResult ν :=
  let cache' : Cache ν :=
    match cache with
    | some c => if c.file != r.file then ⟨r.file, fs r.file, ver r.file⟩ else c
    | none => ⟨r.file, fs r.file, ver r.file⟩
  let res : CoeffResult ν :=
    { value := mergeCustom (cache'.table r.sat) r.custom,
      version := if r.custom.isEmpty then cache'.version else none }
  (some cache', res)

/-- Run a history of requests; returns the final cache and the list of results. -/
def calRun {ν : Type} (fs : Nat → Table ν) (ver : Nat → Option Nat) :
    Option (Cache ν) → List (Req ν) → Option (Cache ν) × List (CoeffResult ν)
  | c, [] => (c, [])
  | c, r :: rs =>
    let (c1, o) := calStep fs ver c r
    let (c2, os) := calRun fs ver c1 rs
    (c2, o :: os)

/-- The pure function the property names: (spacecraft, custom coefficients, file content). -/
def calSpec {ν : Type} (fs : Nat → Table ν) (ver : Nat → Option Nat) (r : Req ν) : CoeffResult ν :=
  { value := mergeCustom (fs r.file r.sat) r.custom,
    version := if r.custom.isEmpty then ver r.file else none }

/-! ### The reader's options (`Reader.__init__`, `get_calibrated_dataset`)

How the custom set and the file reach the calibration: `calibration_parameters` (a dictionary that may hold
`custom_coeffs` and / or `coeffs_file`) or, when that dictionary is empty or absent, the legacy keywords
`custom_calibration` / `calibration_file`. -/

/-- the two calibration inputs as named by the caller; `none` = not given (or given as `None`) -/
structure CalOpts (ν : Type) where
  custom : Option (List (Nat × ν))
  file : Option Nat

/-- `self.calibration_parameters`: `params` = the non-empty dictionary if one was given (`none` for an absent or
empty one: `calibration_parameters or dict()` followed by `if not self.calibration_parameters`) -/
def readerOpts {ν : Type} (params : Option (CalOpts ν)) (legacyCustom : Option (List (Nat × ν)))
    (legacyFile : Option Nat) : CalOpts ν :=
  match params with
  | some p => p
  | none => ⟨legacyCustom, legacyFile⟩

/-- `calibrate(ds, custom_coeffs=None, coeffs_file=None)` -> `Calibrator(sat, custom_coeffs or {}, coeffs_file)`:
no file = the shipped file (id 0), no custom set = the empty one -/
def readerReq {ν : Type} (sat : Nat) (o : CalOpts ν) : Req ν := ⟨sat, o.file.getD 0, o.custom.getD []⟩

/-! ### Files that change on disk during a history

The cache is keyed by the file NAME (`cls.default_file != coeffs_file`), so what a request sees depends on
when a file was written.  `World` carries the file system as it is at each moment. -/

/-- One event of a history: a coefficient request, or a file being (re)written on disk with a new
content (and the version name, if any, that its new md5 is registered under). -/
inductive Ev (ν : Type) where
  | req (r : Req ν)
  | write (file : Nat) (t : Table ν) (v : Option Nat)

structure World (ν : Type) where
  fs : Nat → Table ν
  ver : Nat → Option Nat
  cache : Option (Cache ν)

def World.write {ν : Type} (w : World ν) (file : Nat) (t : Table ν) (v : Option Nat) : World ν :=
  { w with fs := fun g => if g = file then t else w.fs g,
           ver := fun g => if g = file then v else w.ver g }

def dynStep {ν : Type} (w : World ν) : Ev ν → World ν × Option (CoeffResult ν)
  | .req r =>
    let (c, o) := calStep w.fs w.ver w.cache r
    ({ w with cache := c }, some o)
  | .write f t v => (w.write f t v, none)

/-- Run a history of events; one output slot per event (`none` for a write). -/
def dynRun {ν : Type} : World ν → List (Ev ν) → World ν × List (Option (CoeffResult ν))
  | w, [] => (w, [])
  | w, e :: es =>
    let (w1, o) := dynStep w e
    let (w2, os) := dynRun w1 es
    (w2, o :: os)

/-- The world in which event `i` of the history takes place. -/
def worldAt {ν : Type} : World ν → List (Ev ν) → Nat → World ν
  | w, _, 0 => w
  | w, [], _ + 1 => w
  | w, e :: es, i + 1 => worldAt (dynStep w e).1 es i

/-- A write is *visible* when the file written is not the one the cache is labelled with. -/
def writeVisible {ν : Type} (w : World ν) : Ev ν → Bool
  | .req _ => true
  | .write f _ _ => match w.cache with
    | none => true
    | some c => c.file != f

end PygacModel
