/-
Model of `Calibrator.__new__` / `read_coeffs` (calibration/noaa.py): the class-level cache of
the default coefficient table, reload when the file argument changes, copy-then-update merge
of custom coefficients, version from the file content.  Core Lean only.
-/
namespace PygacModel

/-- A coefficient table: spacecraft → top-level key → value. `ν` is the type of values. -/
abbrev Table (ν : Type) := Nat → Nat → ν

/-- One request: spacecraft, coefficient file (0 = the shipped file, i.e. `coeffs_file=None`),
custom coefficients as (top-level key, value) pairs. -/
structure Req (ν : Type) where
  sat : Nat
  file : Nat
  custom : List (Nat × ν)

/-- The class-level cache: `default_file`, `default_coeffs`, `default_version`. -/
structure Cache (ν : Type) where
  file : Nat
  table : Table ν
  version : Option Nat

/-- The result the calibrator is built from: value used for each top-level key, and version. -/
structure CoeffResult (ν : Type) where
  value : Nat → ν
  version : Option Nat

def lookupCustom {ν : Type} (c : List (Nat × ν)) (k : Nat) : Option ν :=
  (c.find? (fun p => p.1 == k)).map (·.2)

/-- `coeffs = defaults.copy(); coeffs.update(customs)`: later entries of `customs` win, as in
`dict.update` applied to a dict literal; we take the *last* binding of a key. -/
def mergeCustom {ν : Type} (defaults : Nat → ν) (c : List (Nat × ν)) (k : Nat) : ν :=
  match lookupCustom c.reverse k with
  | some v => v
  | none => defaults k

/-- One `Calibrator(sat, custom, file)` call. `fs` = content of each file (static file system),
`ver` = version name recognised for each file's content (md5 lookup). -/
def calStep {ν : Type} (fs : Nat → Table ν) (ver : Nat → Option Nat)
    (cache : Option (Cache ν)) (r : Req ν) : Option (Cache ν) × CoeffResult ν :=
  let cache' : Cache ν :=
    match cache with
    | some c => if c.file != r.file then ⟨r.file, fs r.file, ver r.file⟩ else c
    | none => ⟨r.file, fs r.file, ver r.file⟩
  let res : CoeffResult ν :=
    { value := mergeCustom (cache'.table r.sat) r.custom,
      version := if r.custom.isEmpty then cache'.version else none }
  (some cache', res)

/-- Run a history of requests; returns the final cache and the list of results. -/
def calRun {ν : Type} (fs : Nat → Table ν) (ver : Nat → Option Nat) :
    Option (Cache ν) → List (Req ν) → Option (Cache ν) × List (CoeffResult ν)
  | c, [] => (c, [])
  | c, r :: rs =>
    let (c1, o) := calStep fs ver c r
    let (c2, os) := calRun fs ver c1 rs
    (c2, o :: os)

/-- The pure function the property names: (spacecraft, custom coefficients, file content). -/
def calSpec {ν : Type} (fs : Nat → Table ν) (ver : Nat → Option Nat) (r : Req ν) : CoeffResult ν :=
  { value := mergeCustom (fs r.file r.sat) r.custom,
    version := if r.custom.isEmpty then ver r.file else none }

end PygacModel
