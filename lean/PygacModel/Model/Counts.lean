/-
Model of `Reader.get_counts` (10-bit unpacking, reshape, 3a/3b routing), of the KLM/POD
`get_telemetry` word selection, and of the KLM `postproc` blanking.  Core Lean only.
-/
namespace PygacModel

/-- Sample `k` (0,1,2) of a packed 32-bit word, as the code computes it:
`(w >> 20) & 1023`, `(w >> 10) & 1023`, `w & 1023`. -/
def slot (w : Nat) (k : Nat) : Nat :=
  match k with
  | 0 => (w >>> 20) &&& 1023
  | 1 => (w >>> 10) &&& 1023
  | _ => w &&& 1023

/-- The format's statement: sample number `s` of a line's packed stream. -/
def specSample (words : List Nat) (s : Nat) : Nat := slot (words.getD (s / 3) 0) (s % 3)

/-- Element `i` of the flat `counts` array after the three strided assignments
`counts[k::3] = plane_k[:nb_k]` of `get_counts` (`none` = numpy would raise a shape error
or the index is outside the array). -/
def codeCountAt (width : Nat) (words : List Nat) (i : Nat) : Option Nat :=
  let n := width * 5
  let nb := n / 3
  let rem := n % 3
  let nb1 := if rem = 0 then nb else nb + 1
  let nb2 := if rem = 2 then nb + 1 else nb
  let nb3 := nb
  if i ≥ n then none
  else match i % 3 with
    | 0 => ((words.map (fun w => (w >>> 20) &&& 1023)).take nb1)[i / 3]?
    | 1 => ((words.map (fun w => (w >>> 10) &&& 1023)).take nb2)[i / 3]?
    | _ => ((words.map (fun w => w &&& 1023)).take nb3)[i / 3]?

/-- `counts.reshape(-1, width, 5)[l, p, c]` of one line. -/
def codeCount (width : Nat) (words : List Nat) (p c : Nat) : Option Nat :=
  codeCountAt width words (5 * p + c)

/-- The whole line as the driver prints it. -/
def codeCountsLine (width : Nat) (words : List Nat) : List (Option Nat) :=
  (List.range (width * 5)).map (codeCountAt width words)

/-- KLM routing of the third sample (`get_counts`, the `else` branch). `c` = the five counts of
a pixel, `switch` = channel-select value of the line. Result: six slots 1,2,3a,3b,4,5. -/
def route (switch : Nat) (c0 c1 c2 c3 c4 : Nat) : List Nat :=
  [c0, c1, if switch = 1 then c2 else 0, if switch = 0 then c2 else 0, c3, c4]

/-- `get_ch3_switch`: `scan_line_bit_field & 3`. -/
def ch3Switch (bitField : Nat) : Nat := bitField &&& 3

/-! ### telemetry -/

/-- Python slice indices `start:stop:step`. -/
def sliceIdx (start stop step : Nat) : List Nat :=
  (List.range ((stop - start + step - 1) / step)).map (fun k => start + k * step)

/-- `decode_tele[j]` of the POD reader: 105 ten-bit words from 35 packed words. -/
def podTeleWord (t : List Nat) (j : Nat) : Nat := slot (t.getD (j / 3) 0) (j % 3)

/-- Sum and number of the words entering a mean (means are compared as exact rationals). -/
structure MeanQ where
  sum : Nat
  n : Nat
deriving Repr, DecidableEq

def meanOf (xs : List Nat) : MeanQ := ⟨xs.sum, xs.length⟩

def podPrt (t : List Nat) : MeanQ := meanOf ((sliceIdx 17 20 1).map (podTeleWord t))
def podIct (t : List Nat) (c : Nat) : MeanQ := meanOf ((sliceIdx (22 + c) (50 + c) 3).map (podTeleWord t))
def podSpace (t : List Nat) (c : Nat) : MeanQ := meanOf ((sliceIdx (54 + c) (100 + c) 5).map (podTeleWord t))

def klmPrt (prt : List Nat) : MeanQ := meanOf prt
def klmIct (backScan : List Nat) (c : Nat) : MeanQ :=
  meanOf ((sliceIdx c backScan.length 3).map (fun j => backScan.getD j 0))
def klmSpace (spaceData : List Nat) (c : Nat) : MeanQ :=
  meanOf ((sliceIdx (2 + c) spaceData.length 5).map (fun j => spaceData.getD j 0))

/-! ### 3a / 3b delivery (C14) -/

/-- One KLM pixel through `get_counts` → calibration → `postproc`.
`calS`/`calT` = solar / thermal calibration of this line (arbitrary functions of the count). -/
def klm3a3b {α : Type} (nan : α) (calS calT : Nat → α) (switch third : Nat) : α × α :=
  let c3a := if switch = 1 then third else 0
  let c3b := if switch = 0 then third else 0
  (if switch = 0 ∨ switch = 2 then nan else calS c3a,
   if switch = 1 ∨ switch = 2 then nan else calT c3b)

/-- POD `_get_calibrated_channels_uniform_shape`: five channels into six slots. -/
def podUniform {α : Type} (nan : α) (ch : List α) : List α :=
  match ch with
  | [c1, c2, c3, c4, c5] => [c1, c2, nan, c3, c4, c5]
  | _ => []

end PygacModel
