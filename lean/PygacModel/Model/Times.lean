/-
Model of the scan-line time pipeline of `Reader.get_times` (reader.py):
POD time-code decoding, (year, day, ms) -> instant, `correct_times_median` (stage 1),
`correct_times_thresh` (stage 2) and their composition.  Core Lean only.

Instants are integers: milliseconds since 1970-01-01.  The nominal line period `P` is an exact
rational (500 ms GAC, 500/3 ms LAC); the code computes in float64, the model exactly - the
correspondence check compares to within 1 ms.
-/
import PygacModel.Model.Np
import PygacModel.Model.Tle
namespace PygacModel.Times
open PygacModel Np

/-! ## decoding -/

/-- POD time code (three 16-bit words) -> (year, day of year, ms of day); `decode_timestamps`. -/
def podDecode (w0 w1 w2 : Nat) : Int × Int × Int :=
  let yy := w0 / 512            -- enc0 >> 9
  let year := if yy > 75 then yy + 1900 else yy + 2000
  let jday := w0 % 512          -- enc0 & 0x1FF
  let msec := (w1 % 2048) * 65536 + w2   -- ((enc1 & 2047) << 16) | enc2
  (year, jday, msec)

/-- the inverse used by the format writer (years 1976 .. 2075) -/
def podEncode (year jday msec : Nat) : Nat × Nat × Nat :=
  ((year % 100) * 512 + jday, msec / 65536, msec % 65536)

def msPerDay : Int := 86400000

/-- `to_datetime64`: 1 January of `year` + (jday-1) days + ms (any integers; numpy does not
range-check day or ms). -/
def instant (year jday msec : Int) : Int :=
  daysToYear year * msPerDay + (jday - 1) * msPerDay + msec

def isLeap (y : Int) : Bool := (y % 4 == 0 && y % 100 != 0) || y % 400 == 0

/-! ## list helpers (numpy semantics) -/

/-- `np.ediff1d(x, to_begin=0)` -/
def ediffAux (prev : Rat) : List Rat → List Rat
  | [] => []
  | x :: xs => (x - prev) :: ediffAux x xs

def ediff : List Rat → List Rat
  | [] => []
  | x :: xs => 0 :: ediffAux x xs

/-- the same on an unsigned 32-bit array: differences wrap modulo 2^32 -/
def ediffU32Aux (prev : Int) : List Int → List Int
  | [] => []
  | x :: xs => ((x - prev) % 4294967296) :: ediffU32Aux x xs

def ediffU32 : List Int → List Int
  | [] => []
  | x :: xs => 0 :: ediffU32Aux x xs

def maxR : List Rat → Rat
  | [] => 0
  | x :: xs => xs.foldl (fun a b => if a < b then b else a) x

def medianD (xs : List Rat) : Rat := (median xs).getD 0

def headR (xs : List Rat) : Rat := xs.headD 0

/-! ## stage 1: `correct_times_median` -/

structure RawTimes where
  nums : List Int      -- scan line numbers as numpy sees them
  year : List Int
  jday : List Int
  msec : List Int      -- unsigned 32 bit
deriving Repr

structure S1Out where
  year : List Int      -- after `.astype(int)`; a scalar result is broadcast
  jday : List Int
  msec : List Rat
deriving Repr

/-- `scan_line_number - 1` as numpy computes it: the KLM field is unsigned 16 bit, so line
number 0 wraps to 65535; the POD field is signed. -/
def lineIdx (signed : Bool) (n : Int) : Int := if signed then n - 1 else (n - 1) % 65536

/-- ideal ms relative to the first line: `lineno2msec(n) - lineno2msec(n[0])` -/
def linenoRel (P : Rat) (signed : Bool) (nums : List Int) : List Rat :=
  nums.map (fun n => ((lineIdx signed n - lineIdx signed (nums.headD 0) : Int) : Rat) * P)

def jdayFix1 (jday : List Int) : List Rat :=
  let med := medianD (jday.map (fun (j : Int) => (j : Rat)))
  jday.map (fun (j : Int) => if j < 1 ∨ j > 366 then med else (j : Rat))

def jdayFix2 (j1 : List Rat) : List Rat :=
  let mx := maxR j1
  List.zipWith (fun w j => if w < 0 then mx else j) (ediff j1) j1

/-- `msec_lineno_of_day`: the ideal time of day wraps with the day of year -/
def linenoOfDay (P : Rat) (signed : Bool) (nums : List Int) (j2 : List Rat) : List Rat :=
  List.zipWith (fun l j => l - (j - headR j2) * 86400000) (linenoRel P signed nums) j2

/-- first `msec` step: any `msec < 1` replaces the whole series.
Returns the series and whether it is still the file's unsigned integer array. -/
def msecFix1 (P : Rat) (signed : Bool) (nums : List Int) (j2 : List Rat) (msec : List Int) : List Rat × Bool :=
  let mR := msec.map (fun (m : Int) => (m : Rat))
  match msec.findIdx? (fun m => m < 1) with
  | none => (mR, true)
  | some k =>
    if k ≠ 0 then ((linenoOfDay P signed nums j2).map (fun l => headR mR + l), false)
    else
      let rel := linenoRel P signed nums
      let m0 := medianD (List.zipWith (fun m l => m - l) mR rel)
      (rel.map (fun l => m0 + l), false)

/-- second `msec` step: jumps of more than 1000 ms that do not coincide with a day step -/
def msecFix2 (P : Rat) (signed : Bool) (nums : List Int) (j1 j2 : List Rat) (msecI : List Int) (m1 : List Rat)
    (stillInt : Bool) : List Rat :=
  let wj := ediff j1
  let wm : List Rat := if stillInt then (ediffU32 msecI).map (fun (d : Int) => (d : Rat)) else ediff m1
  let repl := (linenoOfDay P signed nums j2).map (fun l => headR m1 + l)
  List.zipWith (fun (c : Rat × Rat) (mr : Rat × Rat) =>
      if (c.1 < -1000 ∨ c.1 > 1000) ∧ c.2 ≠ 1 then mr.2 else mr.1)
    (List.zip wm wj) (List.zip m1 repl)

def stage1 (P : Rat) (signed : Bool) (nowYear : Int) (r : RawTimes) : S1Out :=
  let j1 := jdayFix1 r.jday
  let j2 := jdayFix2 j1
  let f1 := msecFix1 P signed r.nums j2 r.msec
  let m2 := msecFix2 P signed r.nums j1 j2 r.msec f1.1 f1.2
  let rel := linenoRel P signed r.nums
  match r.year.findIdx? (fun y => y < 1978 ∨ y > nowYear) with
  | none => { year := r.year, jday := j2.map truncR, msec := m2 }
  | some k =>
    if k ≠ 0 then
      { year := r.year.map (fun _ => r.year.headD 0),
        jday := j2.map (fun _ => truncR (headR j2)),
        msec := rel.map (fun l => headR m2 + l) }
    else
      let ym := truncR (medianD (r.year.map (fun (y : Int) => (y : Rat))))
      let jm := truncR (medianD j2)
      let m0 := medianD (List.zipWith (fun m l => m - l) m2 rel)
      { year := r.year.map (fun _ => ym), jday := j2.map (fun _ => jm), msec := rel.map (fun l => m0 + l) }

/-- `to_datetime64` of the stage-1 result (ms truncated toward zero) -/
def s1Instants (o : S1Out) : List Int :=
  List.zipWith (fun (yj : Int × Int) (m : Rat) => instant yj.1 yj.2 0 + truncR m) (List.zip o.year o.jday) o.msec

/-! ## stage 2: `correct_times_thresh` -/

inductive S2Result where
  | times (ts : List Int)
  | mismatch                -- `TimestampMismatch` raised (three refusals)
deriving Repr

def decreasing : List Int → Bool
  | a :: b :: rest => decide (b < a) || decreasing (b :: rest)
  | _ => false

/-- Parameters probed from the code: 6 min, 1 %, 10 s. -/
structure S2Params where
  maxDiffHead : Rat := 360000
  minFrac : Rat := 1 / 100
  maxDiffIdeal : Rat := 10000

/-- `tn = lineno2msec(nums)` -/
def tnOf (P : Rat) (signed : Bool) (nums : List Int) : List Rat :=
  nums.map (fun n => ((lineIdx signed n : Int) : Rat) * P)

/-- `offsets = t - tn` -/
def offsetsOf (t : List Int) (tn : List Rat) : List Rat :=
  List.zipWith (fun (ti : Int) (x : Rat) => (ti : Rat) - x) t tn

/-- offsets within `max_diff_from_t0_head` of the header time -/
def nearOf (prm : S2Params) (h : Int) (offsets : List Rat) : List Rat :=
  offsets.filter (fun o => decide (absR (o - (h : Rat)) ≤ prm.maxDiffHead))

/-- one line of the replacement step -/
def repairLine (prm : S2Params) (t0 : Rat) (ti : Int) (x : Rat) : Int :=
  if absR ((ti : Rat) - (x + t0)) > prm.maxDiffIdeal then truncR (x + t0) else ti

/-- `correct_times_thresh`; `signedNums` says whether a decrease of the line numbers is visible
to `np.diff` (POD: signed 16 bit; KLM: unsigned, the difference wraps and is never negative). -/
def stage2 (prm : S2Params) (P : Rat) (signedNums : Bool) (nums : List Int) (headMs : Option Int)
    (t : List Int) : S2Result :=
  if signedNums && decreasing nums then .mismatch
  else match headMs with
  | none => .mismatch
  | some h =>
    let tn := tnOf P signedNums nums
    let near := nearOf prm h (offsetsOf t tn)
    if (near.length : Rat) / (nums.length : Rat) ≥ prm.minFrac then
      .times (List.zipWith (repairLine prm (medianD near)) t tn)
    else .mismatch

/-- `get_times`: stage 2 applied to the stage-1 instants; on refusal the stage-1 instants. -/
def getTimes (prm : S2Params) (P : Rat) (nowYear : Int) (signedNums : Bool) (headMs : Option Int)
    (r : RawTimes) : List Int :=
  let t1 := s1Instants (stage1 P signedNums nowYear r)
  match stage2 prm P signedNums r.nums headMs t1 with
  | .times ts => ts
  | .mismatch => t1

end PygacModel.Times
