/-
Model of reader selection: data-set-name pattern, cooperative header validation of the four
reader classes, `can_read` with its exception filter, `get_reader_class` with move-to-front.
Core Lean only.
-/
namespace PygacModel

/-- Character classes of the regular expression (`\w`, `\d`); theorems hold for any. -/
structure CharClass where
  isWord : Char → Bool
  isDigit : Char → Bool

def asciiClass : CharClass :=
  { isWord := fun c => c.isAlphanum || c == '_', isDigit := fun c => c.isDigit }

inductive Pat where
  | word | digit | any | lit (c : Char)
deriving Repr, DecidableEq

/-- `\w{3}\.\w{4}\.\w{2}.D\d{5}\.S\d{4}\.E\d{4}\.B\d{7}\.\w{2}` -/
def dataSetPattern : List Pat :=
  [.word, .word, .word, .lit '.', .word, .word, .word, .word, .lit '.', .word, .word, .any, .lit 'D',
   .digit, .digit, .digit, .digit, .digit, .lit '.', .lit 'S', .digit, .digit, .digit, .digit,
   .lit '.', .lit 'E', .digit, .digit, .digit, .digit, .lit '.', .lit 'B',
   .digit, .digit, .digit, .digit, .digit, .digit, .digit, .lit '.', .word, .word]

def Pat.ok (cc : CharClass) : Pat → Char → Bool
  | .word, c => cc.isWord c
  | .digit, c => cc.isDigit c
  | .any, c => c != '\n'
  | .lit l, c => c == l

/-- `pattern.match(s)`: the pattern matches a prefix of `s`. -/
def matchPrefix (cc : CharClass) : List Pat → List Char → Bool
  | [], _ => true
  | _ :: _, [] => false
  | p :: ps, c :: cs => p.ok cc c && matchPrefix cc ps cs

/-- `s.split(".")` -/
def splitDots (s : List Char) : List (List Char) :=
  let r := s.foldr (fun c (acc : List Char × List (List Char)) =>
    if c == '.' then ([], acc.1 :: acc.2) else (c :: acc.1, acc.2)) ([], [])
  r.1 :: r.2

inductive Fam where | klm | pod deriving Repr, DecidableEq
inductive Res where | gac | lac deriving Repr, DecidableEq

structure ReaderClass where
  fam : Fam
  res : Res
deriving Repr, DecidableEq

def gacModes : List String := ["GHRR"]
def lacModes : List String := ["LHRR", "HRPT", "FRAC"]
def podIds : List String := ["TN", "NA", "NB", "NC", "ND", "NE", "NF", "NG", "NH", "NI", "NJ"]
def klmIds : List String := ["NK", "NL", "NM", "NN", "NP", "M1", "M2", "M3"]

def modeOk (r : Res) (m : String) : Bool :=
  match r with | .gac => gacModes.contains m | .lac => lacModes.contains m
def platOk (f : Fam) (p : String) : Bool :=
  match f with | .pod => podIds.contains p | .klm => klmIds.contains p

/-- `_validate_header` of a concrete class (all three cooperating checks). -/
def accepts (cc : CharClass) (k : ReaderClass) (name : List Char) : Bool :=
  matchPrefix cc dataSetPattern name &&
  match splitDots name with
  | _ :: m :: p :: _ => modeOk k.res (String.ofList m) && platOk k.fam (String.ofList p)
  | _ => false

/-! ### exceptions and `can_read` -/

/-- Exception classes that matter; `readerError`, `decodingError`, `unicodeError` are
`ValueError` subclasses. -/
inductive PyErr where
  | valueError | readerError | decodingError | unicodeError
  | eofError | zlibError | osError | otherError
deriving Repr, DecidableEq

def PyErr.isValueError : PyErr → Bool
  | .valueError | .readerError | .decodingError | .unicodeError => true
  | _ => false

/-- Outcome of `read_header` on a class for one input. -/
inductive HeaderOutcome where
  | ok
  | raised (e : PyErr)
deriving Repr, DecidableEq

/-- Exceptions `can_read` swallows: `(ReaderError, ValueError, EOFError, zlib.error)`. -/
def PyErr.caught (e : PyErr) : Bool := e.isValueError || e == .eofError || e == .zlibError

/-- `can_read`: `True`, `False` (swallowed exception) or the exception escapes. -/
def canRead : HeaderOutcome → Except PyErr Bool
  | .ok => .ok true
  | .raised e => if e.caught then .ok false else .error e

/-- `get_reader_class`: first candidate that can read; moved to the front on success;
`ValueError` when none. Returns the result and the new candidate order. -/
def selectReader (order : List ReaderClass) (outcome : ReaderClass → HeaderOutcome) :
    Except PyErr ReaderClass × List ReaderClass :=
  let rec go : List ReaderClass → Except PyErr ReaderClass
    | [] => .error .valueError
    | k :: ks =>
      match canRead (outcome k) with
      | .ok true => .ok k
      | .ok false => go ks
      | .error e => .error e
  match go order with
  | .ok k => (.ok k, k :: order.filter (· != k))
  | .error e => (.error e, order)

/-! ### container layer (`file_opener` / `gzip_inspected`) -/

/-- What probing one byte through `gzip.GzipFile` does. -/
inductive GzipProbe where
  | plain          -- not a gzip stream: `OSError` (BadGzipFile) -> use the file as it is
  | gzipOk         -- decompresses
  | truncated      -- `EOFError`
  | corrupt        -- `zlib.error`
deriving Repr, DecidableEq

/-- `gzip_inspected` after the repair: all three failure kinds fall back to the raw file. -/
def gzipInspected : GzipProbe → Except PyErr Bool   -- Bool: use the gzip view?
  | .plain => .ok false
  | .gzipOk => .ok true
  | .truncated => .ok false
  | .corrupt => .ok false

end PygacModel
