/-
Model of the row selection and encoding of the legacy HDF5 writer (gac_io.save_gac,
utils.check_user_scanlines / strip_invalid_lat / slice_channel / _slice / _update_scanline /
_update_missing_scanlines).  Core Lean only.
-/
import PygacModel.Model.Np
namespace PygacModel.GacIo
open PygacModel Np

/-- `strip_invalid_lat`: first and last row with a valid latitude (`none` when there is none: numpy raises) -/
def stripInvalidLat (valid : List Bool) : Option (Nat × Nat) :=
  let idx := (valid.zipIdx.filter (·.1)).map (·.2)
  match idx.head?, idx.getLast? with
  | some a, some b => some (a, b)
  | _, _ => none

inductive Sel where
  | rows (first last : Nat) (start stop : Int)   -- stripped range and the user's lines after validation
  | valueError
deriving Repr, DecidableEq

/-- `check_user_scanlines` with stripping enabled -/
def checkUserScanlines (start stop : Int) (first last : Nat) : Except Unit (Int × Int) :=
  let num : Int := (last : Int) - first + 1
  let stop' := if stop = 0 then num - 1 else if stop ≥ num then num - 1 else stop
  if start ≥ num then .error () else .ok (start, stop')

/-- Python slice `x[a : b+1]` for integers (negative indices count from the end) -/
def pySlice {α : Type} (xs : List α) (a b1 : Int) : List α :=
  let n : Int := xs.length
  let norm := fun (i : Int) => if i < 0 then max 0 (i + n) else min i n
  let lo := norm a
  let hi := norm b1
  (xs.drop lo.toNat).take (hi - lo).toNat

/-- `slice_channel` (stripping enabled) applied to the rows of one product -/
def sliceRows {α : Type} (xs : List α) (first last : Nat) (start stop : Int) : List α :=
  let ch := pySlice xs first ((last : Int) + 1)
  let stop' := min stop ((ch.length : Int) - 1)
  let start' := min start ((ch.length : Int) - 1)
  pySlice ch start' (stop' + 1)

/-- `_update_scanline` -/
def updateScanline (line : Option Int) (newStart newEnd : Int) : Option Int :=
  match line with
  | none => none
  | some l =>
    let l' := l - newStart
    if l' < 0 ∨ l' ≥ newEnd - newStart + 1 then none else some l'

/-- midnight line after stripping and user slicing -/
def sliceMidnight (midnight : Option Int) (n : Nat) (first last : Nat) (start stop : Int) : Option Int :=
  let m1 := updateScanline midnight first last
  let len : Int := ((List.range n).drop first |>.take (last + 1 - first)).length
  let stop' := min stop (len - 1)
  let start' := min start (len - 1)
  updateScanline m1 start' stop'

/-- `_update_missing_scanlines`: sorted unique union with the numbers of the stripped lines -/
def updateMissing (miss : List Int) (lineNumbers : List Int) (first last : Nat) : List Int :=
  let all := lineNumbers.take first ++ miss ++ lineNumbers.drop (last + 1)
  (all.foldl (fun acc x => if acc.contains x then acc else acc ++ [x]) []).mergeSort (· ≤ ·)

/-- stored integer of a value: `trunc (v * scale)` (HDF5 float -> integer conversion), fill for NaN -/
def encode (scale : Rat) (offset : Rat) (fill : Int) (v : Option Rat) : Int :=
  match v with
  | none => fill
  | some x => truncR ((x - offset) * scale)

def missingData : Int := -32001
def missingLatLon : Int := -999999

structure Request where
  n : Nat
  valid : List Bool           -- per row: has a valid latitude
  start : Int
  stop : Int
deriving Repr

/-- the whole selection: which rows of the pass end up in the files -/
def selectRows (rq : Request) : Except Unit (List Nat) :=
  match stripInvalidLat rq.valid with
  | none => .error ()
  | some (first, last) =>
    match checkUserScanlines rq.start rq.stop first last with
    | .error e => .error e
    | .ok (s, e) => .ok (sliceRows (List.range rq.n) first last s e)

end PygacModel.GacIo
