/-
Small exact models of the numpy functions pygac's repair heuristics use.
Core Lean only; numbers are exact rationals (`Rat`).
-/
namespace PygacModel.Np

def absR (x : Rat) : Rat := if x < 0 then -x else x

def leR (a b : Rat) : Bool := decide (a ≤ b)

/-- insertion into a sorted list (structural recursion, so that the kernel can evaluate it) -/
def insertR (x : Rat) : List Rat → List Rat
  | [] => [x]
  | y :: ys => if x ≤ y then x :: y :: ys else y :: insertR x ys

/-- insertion sort -/
def sortR (xs : List Rat) : List Rat := xs.foldr insertR []

/-- `np.median` (`none` for an empty array, where numpy returns NaN). -/
def median (xs : List Rat) : Option Rat :=
  let s := sortR xs
  let n := s.length
  if n = 0 then none
  else if n % 2 = 1 then s[n / 2]?
  else match s[n / 2 - 1]?, s[n / 2]? with
    | some a, some b => some ((a + b) / 2)
    | _, _ => none

def sumR (xs : List Rat) : Rat := xs.foldl (· + ·) 0

/-- `np.mean` -/
def mean (xs : List Rat) : Rat := sumR xs / (xs.length : Rat)

/-- population variance (`np.std` squared) -/
def variance (xs : List Rat) : Rat :=
  let m := mean xs
  sumR (xs.map (fun x => (x - m) * (x - m))) / (xs.length : Rat)

/-- `np.interp(x, xp, fp)` for increasing `xp`: linear inside, constant outside. -/
def interp (x : Rat) : List Rat → List Rat → Rat
  | x0 :: x1 :: xs, f0 :: f1 :: fs =>
    if x ≤ x0 then f0
    else if x ≤ x1 then
      (if x1 = x0 then f1 else f0 + (f1 - f0) * (x - x0) / (x1 - x0))
    else interp x (x1 :: xs) (f1 :: fs)
  | _, [f] => f
  | [_], f :: _ => f
  | _, _ => 0

/-- `np.searchsorted(a, v)` (side="left"): number of entries strictly below `v`
for a sorted `a`. -/
def searchsortedLeft (a : List Int) (v : Int) : Nat := (a.takeWhile (· < v)).length

/-- truncation toward zero (`astype(int)`, `astype("timedelta64[ms]")` of a float) -/
def truncR (x : Rat) : Int := if x < 0 then -((-x).floor) else x.floor

end PygacModel.Np
