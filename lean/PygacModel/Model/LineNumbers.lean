/-
Model of `Reader.correct_scan_line_numbers` (reader.py) and of the POD post-step
(pod_reader.py).  Records are (number, tag): the tag stands for the record's bytes.
-/
import PygacModel.Model.Np
namespace PygacModel
open Np

structure Rec where
  num : Int
  tag : Nat
deriving Repr, DecidableEq

/-- `within_range`: `num < max_scanlines` and `num >= 0`. -/
def inRange (max : Int) (r : Rec) : Bool := decide (r.num < max) && decide (r.num ≥ 0)

/-- offsets `num - ideal` with `ideal = 1, 2, …` -/
def offsetsOf (rs : List Rec) : List Rat := rs.zipIdx.map (fun p => ((p.1.num - ((p.2 : Int) + 1) : Int) : Rat))

/-- `diffs = |num - (ideal + med_offset)|` -/
def diffsOf (rs : List Rec) (med : Rat) : List Rat :=
  rs.zipIdx.map (fun p => absR ((p.1.num : Rat) - ((((p.2 : Int) + 1 : Int) : Rat) + med)))

/-- A decision rule on deviations, computed once per pass. -/
inductive KeepRule where
  | all                      -- keep everything
  | le (t : Rat)             -- keep iff d ≤ t
  | sigma (m v : Rat)        -- keep iff d ≤ m + 3·sqrt v, i.e. d ≤ m ∨ (d-m)² ≤ 9·v
  | pred (f : Rat → Bool)    -- anything else (used only to state theorems for arbitrary rules)

def KeepRule.keep : KeepRule → Rat → Bool
  | .all, _ => true
  | .le t, d => decide (d ≤ t)
  | .sigma m v, d => decide (d ≤ m) || decide ((d - m) * (d - m) ≤ 9 * v)
  | .pred f, d => f d

/-- The statistical threshold of the `else` branch (≥ 50 non-zero deviations), exact in
rationals. `mean/med < 3`: threshold `mean + 3·std`; otherwise `max(500, med + 3·mad)`. -/
def statRule (nz : List Rat) : KeepRule :=
  let m := mean nz
  match median nz with
  | none => .all
  | some md =>
    if m / md < 3 then .sigma m (variance nz)
    else
      match median (nz.map (fun x => absR (x - md))) with
      | none => .all
      | some mad => .le (if (500 : Rat) ≤ md + 3 * mad then md + 3 * mad else 500)

/-- fixed threshold 500 below 50 non-zero deviations -/
def keepRule (statK : List Rat → KeepRule) (nz : List Rat) : KeepRule :=
  if nz.length < 50 then .le 500 else statK nz

/-- `Reader.correct_scan_line_numbers` with the statistical branch as a parameter. -/
def correctCommon (statK : List Rat → KeepRule) (max : Int) (rs : List Rec) : List Rec :=
  let rs1 := rs.filter (inRange max)
  match median (offsetsOf rs1) with
  | none => rs1     -- empty
  | some med =>
    let diffs := diffsOf rs1 med
    let nz := diffs.filter (fun d => decide (d > 0))
    let rule := keepRule statK nz
    ((rs1.zip diffs).filter (fun p => rule.keep p.2)).map (·.1)

def minNum : List Rec → Int
  | [] => 0
  | r :: rs => rs.foldl (fun m x => if x.num < m then x.num else m) r.num

/-- POD post-step: rotate (when the first number follows the last) or drop leading records
until the smallest number comes first; then drop number 0. -/
def podPost (rs : List Rec) : List Rec :=
  match rs with
  | [] => []
  | first :: _ =>
    let m := minNum rs
    let k := (rs.takeWhile (fun r => r.num != m)).length
    let last := rs.getLast?.map (·.num) |>.getD 0
    let rs2 := if first.num = last + 1 then rs.drop k ++ rs.take k else rs.drop k
    rs2.filter (fun r => r.num != 0)

def correctKlm (statK : List Rat → KeepRule) (max : Int) (rs : List Rec) : List Rec :=
  correctCommon statK max rs

def correctPod (statK : List Rat → KeepRule) (max : Int) (rs : List Rec) : List Rec :=
  podPost (correctCommon statK max rs)

/-- Missing lines: `{1..last} \ present`, sorted (`get_miss_lines`). -/
def missLines (nums : List Int) : List Int :=
  match nums.getLast? with
  | none => []
  | some last => ((List.range last.toNat).map (fun (i : Nat) => ((i : Int) + 1))).filter (fun n => !nums.contains n)

/-- The same with the upper end `last + 1` computed in the signed 16-bit type of the POD line-number field, as the code
did before fix 7ab6521 (`range(1, scans["scan_line_number"][-1] + 1)`): the sum wraps at 32767. -/
def missLinesI16 (nums : List Int) : List Int :=
  match nums.getLast? with
  | none => []
  | some last =>
    let stop := (last + 1 + 32768) % 65536 - 32768
    ((List.range (stop - 1).toNat).map (fun (i : Nat) => ((i : Int) + 1))).filter (fun n => !nums.contains n)

end PygacModel
