/-
Model of the thermal calibration (`calibration/noaa.py: calibrate_thermal`).

Discrete procedure (PRT cycle location, repairs by interpolation, polynomial per thermometer,
smoothing window with edge replication) in exact rationals; the radiometric part (Planck, linear
estimate, non-linearity, inverse Planck) generic over an arithmetic class `Arith α`, instantiated
with `Float` for execution (here) and with the reals for the theorems (Lemmas/Thermal.lean), so
that the function that is proved about and the function that is run are the same definition.
Core Lean only.
-/
import PygacModel.Model.Np
namespace PygacModel.Thermal
open PygacModel Np

/-! ## arithmetic class -/

class Arith (α : Type) where
  add : α → α → α
  sub : α → α → α
  mul : α → α → α
  div : α → α → α
  ofRat : Rat → α
  exp : α → α
  log : α → α
  lt : α → α → Bool
  le : α → α → Bool

def ratToFloat (q : Rat) : Float := Float.ofInt q.num / Float.ofNat q.den

instance : Arith Float where
  add := (· + ·)
  sub := (· - ·)
  mul := (· * ·)
  div := (· / ·)
  ofRat := ratToFloat
  exp := Float.exp
  log := Float.log
  lt a b := a < b
  le a b := a ≤ b

/-! ## coefficients -/

structure ChanCoef where
  b0 : Rat
  b1 : Rat
  b2 : Rat
  nu : Rat       -- centroid wavenumber
  nS : Rat       -- space radiance
  A : Rat        -- to_eff_blackbody_intercept
  B : Rat        -- to_eff_blackbody_slope
deriving Repr, DecidableEq

def ChanCoef.ofTuple (t : Rat × Rat × Rat × Rat × Rat × Rat × Rat) : ChanCoef :=
  ⟨t.1, t.2.1, t.2.2.1, t.2.2.2.1, t.2.2.2.2.1, t.2.2.2.2.2.1, t.2.2.2.2.2.2⟩

def c1 : Rat := mkRat 11910427 1000000000000    -- 1.1910427e-5
def c2 : Rat := mkRat 14387752 10000000         -- 1.4387752

/-! ## discrete part -/

inductive Err where
  | noPrtIndex      -- IndexError("No PRT 0-index found!")
  | valueError      -- np.interp on an empty set of sample points
deriving Repr, DecidableEq

def prtThreshold : Rat := 50
def ictThreshold : Rat := 100

/-- readings of the residue class `k` of (line number - first line number) mod 5 -/
def classReadings (nums : List Int) (prt : List Rat) (k : Nat) : List Rat :=
  ((List.zip nums prt).filter (fun p => (p.1 - nums.headD 0) % 5 == (k : Int))).map (·.2)

/-- first residue class whose median reading is below the threshold -/
def findOffset (nums : List Int) (prt : List Rat) : Option Nat :=
  (List.range 5).find? (fun k => match median (classReadings nums prt k) with
    | some m => decide (m < prtThreshold)
    | none => false)

/-- thermometer index of every line; 0 marks the reset lines -/
def iprtOf (nums : List Int) (offset : Nat) : List Int :=
  nums.map (fun n => (n - nums.headD 0 + 5 - (offset : Int)) % 5)

/-- The same expression evaluated in the unsigned 16-bit dtype of the KLM line-number field, as numpy evaluates it when
the array is NOT converted first (every intermediate wraps modulo 2^16): `(n - n0 + 5 - off) % 5`. -/
def iprtU16 (n n0 off : Nat) : Nat :=
  ((((n + 65536 - n0) % 65536 + 5) % 65536 + 65536 - off) % 65536) % 5

/-- two's-complement wrap into the signed 16-bit range (the POD field) -/
def wrapI16 (x : Int) : Int := (x + 32768) % 65536 - 32768

def iprtI16 (n n0 : Int) (off : Nat) : Int := wrapI16 (wrapI16 (wrapI16 (n - n0) + 5) - (off : Int)) % 5

/-- `x[fix] = np.interp(fix, good, x[good])` over index sets given as predicates on (index, value) -/
def interpFill (xs : List Rat) (fix good : Nat → Rat → Bool) : Except Err (List Rat) :=
  let ix := xs.zipIdx
  let fixIdx := ix.filter (fun p => fix p.2 p.1)
  if fixIdx.isEmpty then .ok xs
  else
    let goodP := ix.filter (fun p => good p.2 p.1)
    if goodP.isEmpty then .error .valueError
    else
      let xp := goodP.map (fun p => (p.2 : Rat))
      let fp := goodP.map (·.1)
      .ok (ix.map (fun p => if fix p.2 p.1 then interp (p.2 : Rat) xp fp else p.1))

/-- the four per-thermometer repairs -/
def repairPrt (iprt : List Int) (prt : List Rat) : Except Err (List Rat) :=
  [1, 2, 3, 4].foldlM (fun (acc : List Rat) (k : Int) =>
    interpFill acc (fun i v => iprt.getD i 0 == k && decide (v < prtThreshold))
                   (fun i v => iprt.getD i 0 == k && decide (v > prtThreshold))) prt

/-- `polyval(prt, d[:, iprt])`; `d` holds the rows of thermometers 1..4 (`[d0..d4]` each), thermometer 0 is all zero -/
def polyPrt (d : List (List Rat)) (k : Int) (x : Rat) : Rat :=
  if k ≤ 0 then 0 else
  let co := d.getD (k - 1).toNat []
  co.getD 0 0 + co.getD 1 0 * x + co.getD 2 0 * x * x + co.getD 3 0 * x * x * x + co.getD 4 0 * x * x * x * x

/-- fill the entries selected by `bad` from the others (used for reset lines, and for ICT / space
counts of channel 3b below their threshold) -/
def fillBad (xs : List Rat) (bad : Nat → Rat → Bool) : Except Err (List Rat) :=
  let ix := xs.zipIdx
  let goodP := ix.filter (fun p => !bad p.2 p.1)
  if goodP.isEmpty then .error .valueError      -- numpy raises also when there is nothing to fill
  else
    let xp := goodP.map (fun p => (p.2 : Rat))
    let fp := goodP.map (·.1)
    .ok (ix.map (fun p => if bad p.2 p.1 then interp (p.2 : Rat) xp fp else p.1))

/-- value at an integer index, 0 outside the array (zero padding of `np.convolve`) -/
def getI (xs : List Rat) (j : Int) : Rat := if 0 ≤ j ∧ j < xs.length then xs.getD j.toNat 0 else 0

/-- sum of `len` consecutive entries starting at index `lo` -/
def windowSum (xs : List Rat) (lo : Int) : Nat → Rat
  | 0 => 0
  | k + 1 => windowSum xs lo k + getI xs (lo + k)

/-- `np.convolve(x, ones(w)/w, "same")` for odd `w = 2h+1` -/
def convSame (xs : List Rat) (h : Nat) : List Rat :=
  (List.range xs.length).map (fun (i : Nat) => windowSum xs ((i : Int) - h) (2 * h + 1) / ((2 * h + 1 : Nat) : Rat))

/-- `c[0:h] = c[h]` -/
def patchHead (h : Nat) (c : List Rat) : List Rat := List.replicate (min h c.length) (c.getD h 0) ++ c.drop h

/-- `c[-h:] = c[-(h+1)]` (for `h ≥ 1`) -/
def patchTail (h : Nat) (c : List Rat) : List Rat :=
  if h = 0 then c else c.take (c.length - h) ++ List.replicate (min h c.length) (c.getD (c.length - (h + 1)) 0)

/-- window half-width: 25 (51 lines) for passes of more than 51 lines, else 1 (3 lines) -/
def halfWidth (lines : Nat) : Nat := if lines > 51 then 25 else 1

/-- the smoothing as the code performs it -/
def smooth (xs : List Rat) : List Rat :=
  let h := halfWidth xs.length
  patchTail h (patchHead h (convSame xs h))

structure Telemetry where
  tprt : List Rat     -- smoothed PRT temperature per line
  ict : List Rat      -- smoothed internal-target count per line
  space : List Rat    -- smoothed space count per line
deriving Repr

inductive Prep where
  | ok (t : Telemetry)
  | rawCounts          -- channel 3b without any valid ICT reading: the counts are returned unchanged
  | error (e : Err)
deriving Repr

/-- everything of `calibrate_thermal` up to the per-pixel formulas; `is3b`: channel 3b -/
def prepare (d : List (List Rat)) (is3b : Bool) (nums : List Int) (prt ict space : List Rat) : Prep :=
  match findOffset nums prt with
  | none => .error .noPrtIndex
  | some off =>
    let iprt := iprtOf nums off
    match repairPrt iprt prt with
    | .error e => .error e
    | .ok prt' =>
      let tprt := List.zipWith (polyPrt d) iprt prt'
      match fillBad tprt (fun i _ => iprt.getD i 0 == 0) with
      | .error e => .error e
      | .ok tprt' =>
        if is3b then
          match fillBad ict (fun _ v => decide (v < ictThreshold)) with
          | .error _ => .rawCounts
          | .ok ict' =>
            match fillBad space (fun _ v => decide (v < ictThreshold)) with
            | .error e => .error e
            | .ok space' => .ok ⟨smooth tprt', smooth ict', smooth space'⟩
        else .ok ⟨smooth tprt', smooth ict, smooth space⟩

/-! ## radiometric part, generic -/

section
variable {α : Type} [Arith α]
open Arith

def r (q : Rat) : α := ofRat q

/-- Planck radiance at the effective temperature `tS` -/
def planck (co : ChanCoef) (tS : α) : α :=
  div (mul (r c1) (mul (r co.nu) (mul (r co.nu) (r co.nu))))
      (sub (exp (div (mul (r c2) (r co.nu)) tS)) (r 1))

/-- effective blackbody temperature `A + B * T` -/
def effTemp (co : ChanCoef) (t : α) : α := add (r co.A) (mul (r co.B) t)

/-- linear radiance estimate `N_S + (N_BB - N_S) (C_S - C_E) / (C_S - C_BB)` -/
def nLin (co : ChanCoef) (nBB cS cE cBB : α) : α :=
  add (r co.nS) (div (mul (sub nBB (r co.nS)) (sub cS cE)) (sub cS cBB))

/-- `N_E = N_lin + b0 + b1 N_lin + b2 N_lin^2` -/
def nE (co : ChanCoef) (n : α) : α :=
  add n (add (r co.b0) (add (mul (r co.b1) n) (mul (r co.b2) (mul n n))))

/-- inverse Planck and effective-temperature inversion -/
def invPlanck (co : ChanCoef) (n : α) : α :=
  div (sub (div (mul (r c2) (r co.nu))
                (log (add (r 1) (div (mul (r c1) (mul (r co.nu) (mul (r co.nu) (r co.nu)))) n))))
           (r co.A)) (r co.B)

/-- brightness temperature before the masks -/
def btRaw (co : ChanCoef) (tBB cS cBB cE : α) : α :=
  invPlanck co (nE co (nLin co (planck co (effTemp co tBB)) cS cE cBB))

/-- channel-3b clause and range mask; `none` = NaN -/
def btMasked (co : ChanCoef) (is3b : Bool) (tBB cS cBB cE : α) : Option α :=
  let bt0 := btRaw co tBB cS cBB cE
  let bt := if is3b && le cS cE then r 0 else bt0
  if lt bt (r 170) || lt (r 350) bt then none
  else if le (r 170) bt && le bt (r 350) then some bt else none   -- NaN compares false

/-- one line of the output array: the per-pixel formula mapped over the line's counts with the
line's smoothed telemetry -/
def calLine (co : ChanCoef) (is3b : Bool) (tBB cS cBB : α) (cs : List α) : List (Option α) :=
  cs.map (btMasked co is3b tBB cS cBB)

/-- the whole output array: line i uses telemetry row i (`(tBB, cBB, cS)`) and count row i -/
def calArray (co : ChanCoef) (is3b : Bool) (tele : List (α × α × α)) (counts : List (List α)) :
    List (List (Option α)) :=
  List.zipWith (fun p cs => calLine co is3b p.1 p.2.2 p.2.1 cs) tele counts
end

end PygacModel.Thermal
