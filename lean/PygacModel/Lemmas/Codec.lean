import PygacModel.Model.Codec
namespace PygacModel

theorem list_reverse_induction {α : Type} {P : List α → Prop} (nil : P [])
    (snoc : ∀ l a, P l → P (l ++ [a])) : ∀ l, P l := by
  intro l
  have : ∀ l : List α, P l.reverse := by
    intro l; induction l with
    | nil => exact nil
    | cons a l ih => rw [List.reverse_cons]; exact snoc _ _ ih
  have h := this l.reverse
  rwa [List.reverse_reverse] at h

theorem beDecode_append_single (bs : Bytes) (b : UInt8) :
    beDecode (bs ++ [b]) = beDecode bs * 256 + b.toNat := by
  simp [beDecode, List.foldl_append]

theorem beEncode_length (w v : Nat) : (beEncode w v).length = w := by
  induction w generalizing v with
  | zero => simp [beEncode]
  | succ w ih => simp [beEncode, ih]

theorem beDecode_beEncode (w v : Nat) (h : v < 256 ^ w) : beDecode (beEncode w v) = v := by
  induction w generalizing v with
  | zero =>
    simp at h; subst h; simp [beEncode, beDecode]
  | succ w ih =>
    rw [beEncode, beDecode_append_single]
    have h1 : v / 256 < 256 ^ w := by
      rw [Nat.div_lt_iff_lt_mul (by decide)]
      rw [Nat.pow_succ] at h; exact h
    rw [ih _ h1]
    have : (UInt8.ofNat (v % 256)).toNat = v % 256 := by
      simp [UInt8.toNat_ofNat]
    rw [this]
    omega

theorem beDecode_lt (bs : Bytes) : beDecode bs < 256 ^ bs.length := by
  induction bs using list_reverse_induction with
  | nil => simp [beDecode]
  | snoc bs b ih =>
    rw [beDecode_append_single]
    simp only [List.length_append, List.length_singleton, Nat.pow_succ]
    have hb : b.toNat < 256 := b.toNat_lt
    omega

theorem beEncode_beDecode (bs : Bytes) : beEncode bs.length (beDecode bs) = bs := by
  induction bs using list_reverse_induction with
  | nil => simp [beEncode]
  | snoc bs b ih =>
    simp only [List.length_append, List.length_singleton]
    rw [beEncode, beDecode_append_single]
    have hb : b.toNat < 256 := b.toNat_lt
    have h1 : (beDecode bs * 256 + b.toNat) / 256 = beDecode bs := by omega
    have h2 : (beDecode bs * 256 + b.toNat) % 256 = b.toNat := by omega
    rw [h1, h2, ih]
    simp

/-- Distinct byte strings of equal length decode to distinct values: every bit of a
field position matters. -/
theorem beDecode_injective (a b : Bytes) (hl : a.length = b.length)
    (h : beDecode a = beDecode b) : a = b := by
  have ha := beEncode_beDecode a
  have hb := beEncode_beDecode b
  rw [← ha, ← hb, hl, h]

theorem toSigned_ofSigned (w : Nat) (hw : 0 < w) (v : Int)
    (hlo : -(2 ^ (8 * w - 1) : Nat) ≤ v) (hhi : v < (2 ^ (8 * w - 1) : Nat)) :
    toSigned w (ofSigned w v) = v := by
  have hp : (2 : Nat) ^ (8 * w) = 2 * 2 ^ (8 * w - 1) := by
    have : 8 * w = (8 * w - 1) + 1 := by omega
    rw [this, Nat.pow_succ]; simp; omega
  unfold toSigned ofSigned
  rw [hp]
  generalize (2 : Nat) ^ (8 * w - 1) = P at *
  by_cases hv : 0 ≤ v
  · simp only [hv, if_true]; split <;> omega
  · simp only [hv, if_false]; push_cast; split <;> omega

theorem ofSigned_lt (w : Nat) (hw : 0 < w) (v : Int)
    (hlo : -(2 ^ (8 * w - 1) : Nat) ≤ v) (hhi : v < (2 ^ (8 * w - 1) : Nat)) :
    ofSigned w v < 256 ^ w := by
  have hp : (2 : Nat) ^ (8 * w) = 2 * 2 ^ (8 * w - 1) := by
    have : 8 * w = (8 * w - 1) + 1 := by omega
    rw [this, Nat.pow_succ]; simp; omega
  have h256 : (256 : Nat) ^ w = 2 ^ (8 * w) := by
    rw [show (256 : Nat) = 2 ^ 8 by rfl, ← Nat.pow_mul]
  rw [h256]
  unfold ofSigned
  rw [hp]
  generalize (2 : Nat) ^ (8 * w - 1) = P at *
  by_cases hv : 0 ≤ v
  · simp only [hv, if_true]; omega
  · simp only [hv, if_false]; push_cast; omega

/-! ### slicing -/

theorem slice_append_mid (a b c : Bytes) : slice (a ++ b ++ c) a.length b.length = b := by
  simp [slice, List.append_assoc]

theorem slice_mid (a b c : Bytes) (off len : Nat) (ho : off = a.length) (hl : len = b.length) :
    slice (a ++ b ++ c) off len = b := by
  subst ho hl; exact slice_append_mid a b c

theorem flatten_take_length (rs : List Bytes) (stride : Nat) (h : ∀ x ∈ rs, x.length = stride) :
    rs.flatten.length = rs.length * stride := by
  induction rs with
  | nil => simp
  | cons x xs ih =>
    have hx : x.length = stride := h x (by simp)
    have hxs := ih (fun y hy => h y (by simp [hy]))
    simp [hx, hxs, Nat.add_mul]; omega

/-- Splitting a flattened list of equal-length records around record `r`. -/
theorem flatten_split (rs : List Bytes) (r : Nat) (hr : r < rs.length) :
    rs.flatten = (rs.take r).flatten ++ rs[r] ++ (rs.drop (r + 1)).flatten := by
  have : rs = rs.take r ++ rs[r] :: rs.drop (r + 1) := by
    simp [List.getElem_cons_drop hr]
  have h2 := congrArg List.flatten this
  rw [h2]
  simp only [List.flatten_append, List.flatten_cons, List.append_assoc]

/-- Record `r` of a written file is the `r`-th record written, whatever precedes
(archive header, header block of the right total size) and whatever incomplete tail follows. -/
theorem record_writeFile (archive headerBlock : Bytes) (records : List Bytes) (tail : Bytes)
    (dataOff stride r : Nat)
    (hoff : archive.length + headerBlock.length = dataOff)
    (hlen : ∀ x ∈ records, x.length = stride) (hr : r < records.length) :
    record (writeFile archive headerBlock records tail) dataOff stride r = records[r] := by
  unfold record writeFile
  rw [flatten_split records r hr]
  have htake : ((records.take r).flatten).length = r * stride := by
    have := flatten_take_length (records.take r) stride
      (fun x hx => hlen x (List.mem_of_mem_take hx))
    rw [this, List.length_take]; congr 1; omega
  have hrl : (records[r]).length = stride := hlen _ (List.getElem_mem hr)
  have : archive ++ headerBlock ++ ((records.take r).flatten ++ records[r] ++
      (records.drop (r + 1)).flatten) ++ tail
      = (archive ++ headerBlock ++ (records.take r).flatten) ++ records[r] ++
        ((records.drop (r + 1)).flatten ++ tail) := by
    simp [List.append_assoc]
  rw [this]
  apply slice_mid
  · simp [htake, ← hoff]; omega
  · exact hrl.symm

/-- The number of complete records found is the number written; an incomplete tail
(shorter than one record) is ignored. The header's own count field plays no role. -/
theorem recordCount_writeFile (archive headerBlock : Bytes) (records : List Bytes) (tail : Bytes)
    (dataOff stride : Nat) (hs : 0 < stride)
    (hoff : archive.length + headerBlock.length = dataOff)
    (hlen : ∀ x ∈ records, x.length = stride) (ht : tail.length < stride) :
    recordCount (writeFile archive headerBlock records tail) dataOff stride = records.length := by
  unfold recordCount writeFile
  have := flatten_take_length records stride hlen
  simp only [List.length_append, this]
  have : archive.length + headerBlock.length + records.length * stride + tail.length - dataOff
      = records.length * stride + tail.length := by omega
  rw [this]
  rw [Nat.mul_comm, Nat.mul_add_div hs, Nat.div_eq_of_lt ht]; simp

/-! ### chunks inside a record -/

theorem chunkOff_eq (chunks : List Bytes) (i : Nat) :
    chunkOff chunks i = ((chunks.take i).flatten).length := by
  unfold chunkOff
  induction chunks generalizing i with
  | nil => simp
  | cons c cs ih =>
    cases i with
    | zero => simp
    | succ i => simp [ih i]

/-- Chunk `i` of an assembled record is found at its running offset. -/
theorem slice_assemble (chunks : List Bytes) (i : Nat) (hi : i < chunks.length) :
    slice (assemble chunks) (chunkOff chunks i) (chunks[i]).length = chunks[i] := by
  unfold assemble
  rw [flatten_split chunks i hi, chunkOff_eq]
  exact slice_append_mid _ _ _

end PygacModel
