import PygacModel.Lemmas.TimesDay
/-!
Consistent passes whose FIRST line is recorded at exactly 00:00:00.000: the one case in which stage 1 replaces
the whole time-of-day series by `median(msec - ideal) + ideal` (the branch `msec[0] < 1` of
`correct_times_median`).  Shown here: the result is within 1 ms of every recorded time.
-/
namespace PygacModel.Times
open PygacModel Np

/-- if every stage-1 time lies within 2 ms of `tn + c` for one offset `c`, `get_times` returns the stage-1 times:
stage 2 either refuses or estimates an offset within 2 ms of `c` and replaces nothing - whatever the header says -/
theorem getTimes_of_close (P : Rat) (sg : Bool) (nowYear : Int) (hd : Option Int) (r : RawTimes) (c : Rat)
    (hlen1 : (s1Instants (stage1 P sg nowYear r)).length = r.nums.length)
    (hclose : ∀ i (hi : i < r.nums.length) (hs : i < (s1Instants (stage1 P sg nowYear r)).length),
      absR ((((s1Instants (stage1 P sg nowYear r))[i] : Int) : Rat) - (((lineIdx sg r.nums[i] : Int) : Rat) * P + c)) < 2) :
    getTimes {} P nowYear sg hd r = s1Instants (stage1 P sg nowYear r) := by
  unfold getTimes
  simp only
  cases hs2 : stage2 {} P sg r.nums hd (s1Instants (stage1 P sg nowYear r)) with
  | mismatch => rfl
  | times ts =>
    simp only
    obtain ⟨hm, _, hfrac, hts⟩ := stage2_lines {} P sg r.nums hd _ ts hs2
    set t1 := s1Instants (stage1 P sg nowYear r) with ht1
    set tn := tnOf P sg r.nums with htn
    set near := nearOf {} hm (offsetsOf t1 tn) with hnear
    have htnlen : tn.length = r.nums.length := tnOf_length P sg r.nums
    have hoff : ∀ x ∈ offsetsOf t1 tn, c - 2 ≤ x ∧ x ≤ c + 2 := by
      intro x hx
      obtain ⟨i, hi, hxi⟩ := List.getElem_of_mem hx
      have hi' : i < r.nums.length := by
        simp only [offsetsOf, List.length_zipWith] at hi; omega
      have hs : i < t1.length := by omega
      have := hclose i hi' hs
      rw [absR_lt_iff] at this
      have hxe : x = ((t1[i] : Int) : Rat) - ((lineIdx sg r.nums[i] : Int) : Rat) * P := by
        rw [← hxi]
        simp only [offsetsOf, List.getElem_zipWith, htn, tnOf, List.getElem_map]
      rw [hxe]
      constructor <;> linarith [this.1, this.2]
    have hne : near ≠ [] := by
      intro he
      rw [he] at hfrac
      simp at hfrac
      have : ((1 : Rat) / 100) ≤ 0 := by simpa [S2Params.minFrac] using hfrac
      norm_num at this
    have ht0 : absR (medianD near - c) ≤ 2 := by
      obtain ⟨m, hmed, h1, h2⟩ := median_band_all near (c - 2) (c + 2) hne (by
        intro x hx
        exact hoff x (List.mem_filter.mp hx).1)
      unfold medianD
      rw [hmed, Option.getD_some, absR_le_iff]
      constructor <;> linarith
    rw [hts]
    apply List.ext_getElem
    · simp [htnlen, hlen1]
    · intro i h1 h2
      rw [List.getElem_zipWith]
      have hi' : i < r.nums.length := by omega
      have hb := hclose i hi' h2
      have htni : tn[i]'(by omega) = ((lineIdx sg r.nums[i] : Int) : Rat) * P := by
        simp only [htn, tnOf, List.getElem_map]
      apply (repairLine_spec {} (medianD near) c 2 t1[i] (tn[i]'(by omega)) ht0).1
      rw [htni, absR_le_iff]
      rw [absR_lt_iff] at hb
      have : ({} : S2Params).maxDiffIdeal = 10000 := rfl
      rw [this]
      constructor <;> linarith [hb.1, hb.2]

/-- A pass recorded consistently whose first line is at exactly 00:00:00.000: plausible years, all equal; one
day of year (a pass is shorter than a day); every recorded time of day is the ideal one `(n - n0) * P`
truncated to the millisecond. -/
structure AtMidnight (P : Rat) (sg : Bool) (nowYear : Int) (r : RawTimes) : Prop where
  n_pos : 0 < r.nums.length
  len_y : r.year.length = r.nums.length
  len_j : r.jday.length = r.nums.length
  len_m : r.msec.length = r.nums.length
  year_ok : ∀ y ∈ r.year, 1978 ≤ y ∧ y ≤ nowYear
  year_const : ∀ y ∈ r.year, y = r.year.headD 0
  jday_ok : 1 ≤ r.jday.headD 0 ∧ r.jday.headD 0 ≤ 366
  jday_const : ∀ j ∈ r.jday, j = r.jday.headD 0
  msec_zero : r.msec.headD 0 = 0
  floor_consistent : ∀ i (h1 : i < r.msec.length) (h2 : i < r.nums.length),
    ((r.msec[i] : Int) : Rat) ≤ ((lineIdx sg r.nums[i] - lineIdx sg (r.nums.headD 0) : Int) : Rat) * P ∧
    ((lineIdx sg r.nums[i] - lineIdx sg (r.nums.headD 0) : Int) : Rat) * P < ((r.msec[i] : Int) : Rat) + 1

namespace AtMidnight
variable {P : Rat} {sg : Bool} {nowYear : Int} {r : RawTimes}

theorem j1_eq (h : AtMidnight P sg nowYear r) : jdayFix1 r.jday = castL r.jday := by
  apply jdayFix1_clean
  intro j hj
  rw [h.jday_const j hj]
  exact h.jday_ok

theorem j2_eq (h : AtMidnight P sg nowYear r) : jdayFix2 (castL r.jday) = castL r.jday := by
  apply jdayFix2_clean
  intro w hw
  obtain ⟨i, hi, e⟩ := List.mem_iff_getElem.mp hw
  rw [← e]
  have hl : (ediff (castL r.jday)).length = r.jday.length := by simp
  cases i with
  | zero => rw [ediff_getElem_zero]
  | succ k =>
    rw [ediff_getElem_succ _ k hi (by simp; omega)]
    simp only [castL, List.getElem_map]
    rw [h.jday_const _ (List.getElem_mem (show k + 1 < r.jday.length by omega)),
      h.jday_const _ (List.getElem_mem (show k < r.jday.length by omega))]
    simp

/-- the offset the first `msec` step estimates: the median of recorded minus ideal times of day -/
def m0 (P : Rat) (sg : Bool) (r : RawTimes) : Rat :=
  medianD (List.zipWith (fun (m l : Rat) => m - l) (r.msec.map (fun (m : Int) => (m : Rat))) (linenoRel P sg r.nums))

theorem m0_range (h : AtMidnight P sg nowYear r) : -1 ≤ m0 P sg r ∧ m0 P sg r ≤ 0 := by
  unfold m0
  have hne : List.zipWith (fun (m l : Rat) => m - l) (r.msec.map (fun (m : Int) => (m : Rat))) (linenoRel P sg r.nums) ≠ [] := by
    intro he
    have hl := congrArg List.length he
    simp [linenoRel, h.len_m] at hl
    have hp := h.n_pos
    rw [List.length_eq_zero_iff.mpr hl] at hp
    exact absurd hp (by simp)
  obtain ⟨m, hm, h1, h2⟩ := median_band_all _ (-1) 0 hne (by
    intro x hx
    obtain ⟨i, hi, e⟩ := List.mem_iff_getElem.mp hx
    rw [← e]
    simp only [List.getElem_zipWith, List.getElem_map, linenoRel]
    have hi' := hi
    simp [linenoRel, h.len_m] at hi'
    have := h.floor_consistent i (by rw [h.len_m]; exact hi') hi'
    constructor <;> linarith [this.1, this.2])
  unfold medianD
  rw [hm, Option.getD_some]
  exact ⟨h1, h2⟩

theorem msecFix1_eq (h : AtMidnight P sg nowYear r) (j2 : List Rat) :
    msecFix1 P sg r.nums j2 r.msec = ((linenoRel P sg r.nums).map (fun l => m0 P sg r + l), false) := by
  have hm : 0 < r.msec.length := by rw [h.len_m]; exact h.n_pos
  obtain ⟨nums, year, jday, msec⟩ := r
  cases msec with
  | nil => simp at hm
  | cons a as =>
    have ha : a = 0 := by simpa using h.msec_zero
    subst ha
    have hf : List.findIdx? (fun m => decide (m < 1)) ((0 : Int) :: as) = some 0 := by
      simp [List.findIdx?_cons]
    unfold msecFix1 m0
    simp only [hf]
    simp

theorem lod_eq (h : AtMidnight P sg nowYear r) : linenoOfDay P sg r.nums (castL r.jday) = linenoRel P sg r.nums := by
  unfold linenoOfDay
  apply List.ext_getElem
  · simp [linenoRel, h.len_j]
  · intro i h1 h2
    simp only [List.getElem_zipWith]
    have hj : i < r.jday.length := by
      simp only [List.length_zipWith, castL_length] at h1; omega
    have e1 : (castL r.jday)[i]'(by simp; exact hj) = ((r.jday.headD 0 : Int) : Rat) := by
      simp only [castL, List.getElem_map]
      rw [h.jday_const _ (List.getElem_mem hj)]
    have e0 := headR_castL r.jday
    have : ((castL r.jday)[i]'(by simp; exact hj) - headR (castL r.jday)) * 86400000 = 0 := by rw [e1, e0]; ring
    linarith

theorem rel_head (h : AtMidnight P sg nowYear r) : headR (linenoRel P sg r.nums) = 0 := by
  have hn := h.n_pos
  obtain ⟨nums, year, jday, msec⟩ := r
  cases nums with
  | nil => simp at hn
  | cons a as => simp [linenoRel, headR]

theorem msecFix2_eq (h : AtMidnight P sg nowYear r) :
    msecFix2 P sg r.nums (castL r.jday) (castL r.jday) r.msec ((linenoRel P sg r.nums).map (fun l => m0 P sg r + l)) false
      = (linenoRel P sg r.nums).map (fun l => m0 P sg r + l) := by
  have hn := h.n_pos
  have hhead : headR ((linenoRel P sg r.nums).map (fun l => m0 P sg r + l)) = m0 P sg r := by
    rw [headR_eq_getElem _ (by simp [linenoRel]; exact hn)]
    simp only [List.getElem_map]
    have := h.rel_head
    rw [headR_eq_getElem _ (by simp [linenoRel]; exact hn)] at this
    rw [this]; ring
  unfold msecFix2
  simp only [Bool.false_eq_true, if_false, h.lod_eq, hhead]
  apply List.ext_getElem
  · simp [linenoRel, h.len_j]
  · intro i h1 h2
    obtain ⟨_, _, hp⟩ := zipWith_pick (fun (c : Rat × Rat) => (c.1 < -1000 ∨ c.1 > 1000) ∧ c.2 ≠ 1) _ _ _ i h1
    rcases hp with e | e <;> rw [e]

theorem stage1_eq (h : AtMidnight P sg nowYear r) :
    stage1 P sg nowYear r =
      { year := r.year, jday := r.jday, msec := (linenoRel P sg r.nums).map (fun l => m0 P sg r + l) } := by
  have hy : r.year.findIdx? (fun y => decide (y < 1978 ∨ y > nowYear)) = none := by
    rw [List.findIdx?_eq_none_iff]
    intro y hy
    have := h.year_ok y hy
    simp; omega
  have hjj : (castL r.jday).map truncR = r.jday := by
    simp only [castL, List.map_map]
    conv => rhs; rw [← List.map_id r.jday]
    apply List.map_congr_left
    intro j _
    simp [truncR_intCast]
  unfold stage1
  simp only [h.j1_eq, h.j2_eq, h.msecFix1_eq, h.msecFix2_eq, hy, hjj]

end AtMidnight

/-- **A consistent pass whose first line is at exactly 00:00:00.000 is preserved**: `get_times` returns one
instant per line, each within 1 ms of the recorded instant - whatever the header says. -/
theorem consistent_at_midnight (P : Rat) (sg : Bool) (nowYear : Int) (hd : Option Int) (r : RawTimes)
    (h : AtMidnight P sg nowYear r) :
    (getTimes {} P nowYear sg hd r).length = r.nums.length ∧
    ∀ i (h1 : i < (getTimes {} P nowYear sg hd r).length) (h2 : i < (recorded r).length),
      (recorded r)[i] - 1 ≤ (getTimes {} P nowYear sg hd r)[i] ∧
      (getTimes {} P nowYear sg hd r)[i] ≤ (recorded r)[i] + 1 := by
  have hst := h.stage1_eq
  have hm0 := h.m0_range
  have hlen1 : (s1Instants (stage1 P sg nowYear r)).length = r.nums.length := by
    rw [hst]; simp [s1Instants, h.len_y, h.len_j, linenoRel]
  -- line by line
  have hline : ∀ i (hi : i < r.nums.length) (hs : i < (s1Instants (stage1 P sg nowYear r)).length),
      ∃ q : Int, (s1Instants (stage1 P sg nowYear r))[i] = instant (r.year.headD 0) (r.jday.headD 0) 0 + q ∧
        (r.msec[i]'(by rw [h.len_m]; exact hi)) - 1 ≤ q ∧ q ≤ (r.msec[i]'(by rw [h.len_m]; exact hi)) + 1 ∧
        absR ((q : Rat) - ((lineIdx sg r.nums[i] - lineIdx sg (r.nums.headD 0) : Int) : Rat) * P) < 2 := by
    intro i hi hs
    have hy : r.year[i]'(by rw [h.len_y]; exact hi) = r.year.headD 0 := h.year_const _ (List.getElem_mem _)
    have hj : r.jday[i]'(by rw [h.len_j]; exact hi) = r.jday.headD 0 := h.jday_const _ (List.getElem_mem _)
    have hfc := h.floor_consistent i (by rw [h.len_m]; exact hi) hi
    set rel : Rat := ((lineIdx sg r.nums[i] - lineIdx sg (r.nums.headD 0) : Int) : Rat) * P with hrel
    refine ⟨truncR (AtMidnight.m0 P sg r + rel), ?_, ?_⟩
    · simp only [hst, s1Instants, List.getElem_zipWith, List.getElem_zip, List.getElem_map, linenoRel, hy, hj]
      rfl
    · have hc := truncR_close (AtMidnight.m0 P sg r + rel)
      rw [absR_lt_iff] at hc
      have a1 : (((r.msec[i]'(by rw [h.len_m]; exact hi)) - 2 : Int) : Rat) < ((truncR (AtMidnight.m0 P sg r + rel) : Int) : Rat) := by
        push_cast; linarith [hc.1, hfc.1, hfc.2, hm0.1, hm0.2]
      have a2 : ((truncR (AtMidnight.m0 P sg r + rel) : Int) : Rat) < (((r.msec[i]'(by rw [h.len_m]; exact hi)) + 2 : Int) : Rat) := by
        push_cast; linarith [hc.2, hfc.1, hfc.2, hm0.1, hm0.2]
      have b1 : (r.msec[i]'(by rw [h.len_m]; exact hi)) - 2 < truncR (AtMidnight.m0 P sg r + rel) := by exact_mod_cast a1
      have b2 : truncR (AtMidnight.m0 P sg r + rel) < (r.msec[i]'(by rw [h.len_m]; exact hi)) + 2 := by exact_mod_cast a2
      refine ⟨by omega, by omega, ?_⟩
      rw [absR_lt_iff]
      constructor <;> linarith [hc.1, hc.2, hm0.1, hm0.2]
  have hget := getTimes_of_close P sg nowYear hd r (passOffset P sg r) hlen1 (by
    intro i hi hs
    obtain ⟨q, e, _, _, hq⟩ := hline i hi hs
    rw [e]
    rw [absR_lt_iff] at hq ⊢
    unfold passOffset instant msPerDay
    rw [h.msec_zero]
    push_cast
    push_cast at hq
    constructor <;> linarith [hq.1, hq.2])
  refine ⟨by rw [hget, hlen1], ?_⟩
  intro i h1 h2
  have hi : i < r.nums.length := by rw [hget, hlen1] at h1; exact h1
  have hs : i < (s1Instants (stage1 P sg nowYear r)).length := by rw [hlen1]; exact hi
  rw [List.getElem_of_eq hget h1]
  obtain ⟨q, e, hq1, hq2, _⟩ := hline i hi hs
  have hrec : (recorded r)[i] = instant (r.year.headD 0) (r.jday.headD 0) 0 + r.msec[i]'(by rw [h.len_m]; exact hi) := by
    simp only [recorded, List.getElem_zipWith, List.getElem_zip]
    rw [h.year_const _ (List.getElem_mem _), h.jday_const _ (List.getElem_mem _)]
    exact instant_split _ _ _
  rw [e, hrec]
  constructor <;> omega

end PygacModel.Times
