import PygacModel.Lemmas.TimesRepair
import Mathlib.Data.Finset.Card
import Mathlib.Data.Finset.Image
import Mathlib.Tactic.Ring
/-!
Stage 1 + stage 2 on passes whose DAY-OF-YEAR and MILLISECOND fields carry arbitrary garbage on some
lines (years, line numbers, header time and the first line intact).  Stage 1 is a cascade of global
replacements; what is shown here is what it does line by line for ARBITRARY day / ms fields, and
from that the end-to-end repair guarantee for fewer than 40 % corrupt lines (`repair_day_ms_garbage`).
-/
namespace PygacModel.Times
open PygacModel Np

/-! ### `ediff`, `maxR` entry by entry -/

theorem ediffAux_getElem_zero (p : Rat) (xs : List Rat) (h : 0 < (ediffAux p xs).length) (h' : 0 < xs.length) :
    (ediffAux p xs)[0] = xs[0] - p := by
  cases xs with
  | nil => simp at h'
  | cons x xs => simp [ediffAux]

theorem ediffAux_getElem_succ (p : Rat) (xs : List Rat) (i : Nat) (h : i + 1 < (ediffAux p xs).length)
    (h1 : i + 1 < xs.length) : (ediffAux p xs)[i + 1] = xs[i + 1] - xs[i] := by
  induction xs generalizing p i with
  | nil => simp at h1
  | cons x xs ih =>
    simp only [ediffAux, List.getElem_cons_succ]
    cases i with
    | zero =>
      rw [ediffAux_getElem_zero x xs (by simpa [ediffAux] using h) (by simpa using h1)]
      simp
    | succ j =>
      rw [ih x j (by simpa [ediffAux] using h) (by simpa using h1)]
      simp

theorem ediff_getElem_zero (xs : List Rat) (h : 0 < (ediff xs).length) : (ediff xs)[0] = 0 := by
  cases xs with
  | nil => simp [ediff] at h
  | cons x xs => simp [ediff]

theorem ediff_getElem_succ (xs : List Rat) (i : Nat) (h : i + 1 < (ediff xs).length) (h1 : i + 1 < xs.length) :
    (ediff xs)[i + 1] = xs[i + 1] - xs[i] := by
  cases xs with
  | nil => simp at h1
  | cons x xs =>
    simp only [ediff, List.getElem_cons_succ]
    cases i with
    | zero =>
      rw [ediffAux_getElem_zero x xs (by simpa [ediff] using h) (by simpa using h1)]
      simp
    | succ j =>
      rw [ediffAux_getElem_succ x xs j (by simpa [ediff] using h) (by simpa using h1)]
      simp

theorem ediffU32Aux_getElem_zero (p : Int) (xs : List Int) (h : 0 < (ediffU32Aux p xs).length) (h' : 0 < xs.length) :
    (ediffU32Aux p xs)[0] = (xs[0] - p) % 4294967296 := by
  cases xs with
  | nil => simp at h'
  | cons x xs => simp [ediffU32Aux]

theorem ediffU32Aux_getElem_succ (p : Int) (xs : List Int) (i : Nat) (h : i + 1 < (ediffU32Aux p xs).length)
    (h1 : i + 1 < xs.length) : (ediffU32Aux p xs)[i + 1] = (xs[i + 1] - xs[i]) % 4294967296 := by
  induction xs generalizing p i with
  | nil => simp at h1
  | cons x xs ih =>
    simp only [ediffU32Aux, List.getElem_cons_succ]
    cases i with
    | zero =>
      rw [ediffU32Aux_getElem_zero x xs (by simpa [ediffU32Aux] using h) (by simpa using h1)]
      simp
    | succ j =>
      rw [ih x j (by simpa [ediffU32Aux] using h) (by simpa using h1)]
      simp

theorem ediffU32_getElem_succ (xs : List Int) (i : Nat) (h : i + 1 < (ediffU32 xs).length) (h1 : i + 1 < xs.length) :
    (ediffU32 xs)[i + 1] = (xs[i + 1] - xs[i]) % 4294967296 := by
  cases xs with
  | nil => simp at h1
  | cons x xs =>
    simp only [ediffU32, List.getElem_cons_succ]
    cases i with
    | zero =>
      rw [ediffU32Aux_getElem_zero x xs (by simpa [ediffU32] using h) (by simpa using h1)]
      simp
    | succ j =>
      rw [ediffU32Aux_getElem_succ x xs j (by simpa [ediffU32] using h) (by simpa using h1)]
      simp

theorem foldl_max_ge_init (xs : List Rat) (a : Rat) : a ≤ xs.foldl (fun a b => if a < b then b else a) a := by
  induction xs generalizing a with
  | nil => simp
  | cons x xs ih =>
    simp only [List.foldl_cons]
    split
    · exact le_trans (le_of_lt ‹a < x›) (ih x)
    · exact ih a

theorem foldl_max_ge_mem (xs : List Rat) (a : Rat) : ∀ x ∈ xs, x ≤ xs.foldl (fun a b => if a < b then b else a) a := by
  induction xs generalizing a with
  | nil => intro x hx; simp at hx
  | cons y ys ih =>
    intro x hx
    simp only [List.foldl_cons]
    rcases List.mem_cons.mp hx with e | e
    · subst e
      split
      · exact foldl_max_ge_init ys x
      · rename_i hlt
        exact le_trans (not_lt.mp hlt) (foldl_max_ge_init ys a)
    · exact ih _ x e

theorem foldl_max_mem (xs : List Rat) (a : Rat) :
    xs.foldl (fun a b => if a < b then b else a) a = a ∨ xs.foldl (fun a b => if a < b then b else a) a ∈ xs := by
  induction xs generalizing a with
  | nil => left; rfl
  | cons y ys ih =>
    simp only [List.foldl_cons]
    split
    · rcases ih y with e | e
      · right; rw [e]; exact List.mem_cons_self
      · right; exact List.mem_cons_of_mem _ e
    · rcases ih a with e | e
      · left; exact e
      · right; exact List.mem_cons_of_mem _ e

theorem maxR_ge (xs : List Rat) : ∀ x ∈ xs, x ≤ maxR xs := by
  cases xs with
  | nil => intro x hx; simp at hx
  | cons y ys =>
    intro x hx
    simp only [maxR]
    rcases List.mem_cons.mp hx with e | e
    · subst e; exact foldl_max_ge_init ys x
    · exact foldl_max_ge_mem ys y x e

theorem maxR_mem (xs : List Rat) (h : xs ≠ []) : maxR xs ∈ xs := by
  cases xs with
  | nil => exact absurd rfl h
  | cons y ys =>
    simp only [maxR]
    rcases foldl_max_mem ys y with e | e
    · rw [e]; exact List.mem_cons_self
    · exact List.mem_cons_of_mem _ e

/-! ### the day-of-year steps on arbitrary fields -/

/-- second day step: an entry is kept, or replaced by the maximum where the series steps down -/
theorem jdayFix2_getElem (j1 : List Rat) (i : Nat) (hi : i < (jdayFix2 j1).length) (h1 : i < j1.length)
    (he : i < (ediff j1).length) :
    ((jdayFix2 j1)[i] = j1[i] ∧ ¬ (ediff j1)[i] < 0) ∨ ((jdayFix2 j1)[i] = maxR j1 ∧ (ediff j1)[i] < 0) := by
  simp only [jdayFix2, List.getElem_zipWith]
  by_cases hneg : (ediff j1)[i] < 0
  · right; rw [if_pos hneg]; exact ⟨rfl, hneg⟩
  · left; rw [if_neg hneg]; exact ⟨rfl, hneg⟩

/-- first day step: an in-range entry is kept, any other replaced by the median of all entries -/
theorem jdayFix1_getElem (J : List Int) (i : Nat) (hi : i < (jdayFix1 J).length) (h1 : i < J.length) :
    (jdayFix1 J)[i] = if J[i] < 1 ∨ J[i] > 366 then medianD (castL J) else (J[i] : Rat) := by
  simp only [jdayFix1, List.getElem_map, castL]

/-! ### the millisecond steps on arbitrary fields -/

/-- ideal time of day of every line for a given (repaired) day series `j2`, anchored at `m0` -/
def idealOf (P : Rat) (sg : Bool) (nums : List Int) (j2 : List Rat) (m0 : Rat) : List Rat :=
  (linenoOfDay P sg nums j2).map (fun l => m0 + l)

theorem idealOf_length (P : Rat) (sg : Bool) (nums : List Int) (j2 : List Rat) (m0 : Rat) (h : j2.length = nums.length) :
    (idealOf P sg nums j2 m0).length = nums.length := by
  simp [idealOf, linenoOfDay_length P sg nums j2 h]

theorem idealOf_getElem (P : Rat) (sg : Bool) (nums : List Int) (j2 : List Rat) (m0 : Rat) (i : Nat)
    (hi : i < (idealOf P sg nums j2 m0).length) (hn : i < nums.length) (hj : i < j2.length) :
    (idealOf P sg nums j2 m0)[i] = m0 + (((lineIdx sg nums[i] - lineIdx sg (nums.headD 0) : Int) : Rat) * P
      - (j2[i] - headR j2) * 86400000) := by
  simp only [idealOf, linenoOfDay, linenoRel, List.getElem_map, List.getElem_zipWith]

theorem headR_eq_getElem (xs : List Rat) (h : 0 < xs.length) : headR xs = xs[0] := by
  cases xs with
  | nil => simp at h
  | cons x xs => simp [headR]

theorem headD_eq_getElem (xs : List Int) (h : 0 < xs.length) : xs.headD 0 = xs[0] := by
  cases xs with
  | nil => simp at h
  | cons x xs => simp

theorem idealOf_head (P : Rat) (sg : Bool) (nums : List Int) (j2 : List Rat) (m0 : Rat) (hn : 0 < nums.length)
    (hj : j2.length = nums.length) : headR (idealOf P sg nums j2 m0) = m0 := by
  have hl := idealOf_length P sg nums j2 m0 hj
  rw [headR_eq_getElem _ (by omega), idealOf_getElem P sg nums j2 m0 0 (by omega) hn (by omega),
    headR_eq_getElem j2 (by omega), headD_eq_getElem nums hn]
  simp

/-- first `msec` step on arbitrary fields (first time of day at least 1 ms): either nothing is
changed, or the whole series becomes the ideal one for the day series `j2` -/
theorem msecFix1_spec (P : Rat) (sg : Bool) (nums : List Int) (j2 : List Rat) (msec : List Int)
    (hfirst : 1 ≤ msec.headD 0) :
    msecFix1 P sg nums j2 msec = (castL msec, true) ∨
    msecFix1 P sg nums j2 msec = (idealOf P sg nums j2 ((msec.headD 0 : Int) : Rat), false) := by
  unfold msecFix1
  split
  · left; rfl
  · rename_i k hk
    have hk0 : k ≠ 0 := by
      intro h0
      subst h0
      obtain ⟨hlt, hp, _⟩ := List.findIdx?_eq_some_iff_getElem.mp hk
      have : msec[0] < 1 := by simpa using hp
      have := headD_eq_getElem msec hlt
      omega
    simp only [hk0, ne_eq, not_false_eq_true, if_true]
    right
    have := headR_castL msec
    unfold castL at this
    rw [this]
    rfl

/-- second `msec` step on arbitrary fields, entry by entry: the ideal value for `j2`, or the recorded
value - the latter only where the recorded series does not jump (or the day series steps by one) -/
theorem msecFix2_spec (P : Rat) (sg : Bool) (nums : List Int) (j1 j2 : List Rat) (msec : List Int)
    (hfirst : 1 ≤ msec.headD 0) (hn : 0 < nums.length) (h1 : j1.length = nums.length) (h2 : j2.length = nums.length)
    (h3 : msec.length = nums.length) (i : Nat) (hi : i < nums.length)
    (hm : i < (msecFix2 P sg nums j1 j2 msec (msecFix1 P sg nums j2 msec).1 (msecFix1 P sg nums j2 msec).2).length) :
    (msecFix2 P sg nums j1 j2 msec (msecFix1 P sg nums j2 msec).1 (msecFix1 P sg nums j2 msec).2)[i]
        = (idealOf P sg nums j2 ((msec.headD 0 : Int) : Rat))[i]'(by rw [idealOf_length P sg nums j2 _ h2]; exact hi) ∨
    ((msecFix2 P sg nums j1 j2 msec (msecFix1 P sg nums j2 msec).1 (msecFix1 P sg nums j2 msec).2)[i]
        = ((msec[i]'(by omega) : Int) : Rat) ∧
      ¬ (((((ediffU32 msec)[i]'(by simp; omega) : Int) : Rat) < -1000 ∨ ((((ediffU32 msec)[i]'(by simp; omega) : Int) : Rat) > 1000))
          ∧ (ediff j1)[i]'(by simp; omega) ≠ 1)) := by
  have hil := idealOf_length P sg nums j2 ((msec.headD 0 : Int) : Rat) h2
  rcases msecFix1_spec P sg nums j2 msec hfirst with e | e
  · -- nothing replaced by the first step
    have hrepl : (linenoOfDay P sg nums j2).map (fun l => headR (castL msec) + l)
        = idealOf P sg nums j2 ((msec.headD 0 : Int) : Rat) := by
      rw [headR_castL]; rfl
    simp only [e, msecFix2, if_true, hrepl, List.getElem_zipWith, List.getElem_zip, List.getElem_map]
    by_cases hc : ((((ediffU32 msec)[i]'(by simp; omega) : Int) : Rat) < -1000 ∨ (((ediffU32 msec)[i]'(by simp; omega) : Int) : Rat) > 1000)
        ∧ (ediff j1)[i]'(by simp; omega) ≠ 1
    · left; rw [if_pos hc]
    · right; rw [if_neg hc]
      refine ⟨?_, hc⟩
      simp [castL]
  · -- the whole series already ideal
    left
    have hrepl : (linenoOfDay P sg nums j2).map (fun l => headR (idealOf P sg nums j2 ((msec.headD 0 : Int) : Rat)) + l)
        = idealOf P sg nums j2 ((msec.headD 0 : Int) : Rat) := by
      rw [idealOf_head P sg nums j2 _ hn h2]; rfl
    simp only [e, msecFix2, hrepl, List.getElem_zipWith, List.getElem_zip]
    split <;> simp only [ite_self]

end PygacModel.Times
