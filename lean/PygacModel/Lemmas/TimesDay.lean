import PygacModel.Lemmas.TimesRepair
import PygacModel.Lemmas.MajorityCount
import Mathlib.Data.Finset.Card
import Mathlib.Data.Finset.Image
import Mathlib.Tactic.Ring
/-!
Stage 1 + stage 2 on passes whose DAY-OF-YEAR and MILLISECOND fields carry arbitrary garbage on some
lines (years, line numbers, header time and the first line intact).  Stage 1 is a cascade of global
replacements; what is shown here is what it does line by line for ARBITRARY day / ms fields, and
from that the end-to-end repair guarantee for fewer than 40 % corrupt lines (`repair_day_ms_garbage`).
-/
namespace PygacModel.Times
open PygacModel Np

theorem getD_eq {α : Type} (l : List α) (d : α) {i : Nat} (h : i < l.length) : l.getD i d = l[i] :=
  (List.getElem_eq_getD d).symm

/-! ### `ediff`, `maxR` entry by entry -/

theorem ediffAux_getElem_zero (p : Rat) (xs : List Rat) (h : 0 < (ediffAux p xs).length) (h' : 0 < xs.length) :
    (ediffAux p xs)[0] = xs[0] - p := by
  cases xs with
  | nil => simp at h'
  | cons x xs => simp [ediffAux]

theorem ediffAux_getElem_succ (p : Rat) (xs : List Rat) (i : Nat) (h : i + 1 < (ediffAux p xs).length)
    (h1 : i + 1 < xs.length) : (ediffAux p xs)[i + 1] = xs[i + 1] - xs[i] := by
  induction xs generalizing p i with
  | nil => simp at h1
  | cons x xs ih =>
    simp only [ediffAux, List.getElem_cons_succ]
    cases i with
    | zero =>
      rw [ediffAux_getElem_zero x xs (by simpa [ediffAux] using h) (by simpa using h1)]
      simp
    | succ j =>
      rw [ih x j (by simpa [ediffAux] using h) (by simpa using h1)]
      simp

theorem ediff_getElem_zero (xs : List Rat) (h : 0 < (ediff xs).length) : (ediff xs)[0] = 0 := by
  cases xs with
  | nil => simp [ediff] at h
  | cons x xs => simp [ediff]

theorem ediff_getElem_succ (xs : List Rat) (i : Nat) (h : i + 1 < (ediff xs).length) (h1 : i + 1 < xs.length) :
    (ediff xs)[i + 1] = xs[i + 1] - xs[i] := by
  cases xs with
  | nil => simp at h1
  | cons x xs =>
    simp only [ediff, List.getElem_cons_succ]
    cases i with
    | zero =>
      rw [ediffAux_getElem_zero x xs (by simpa [ediff] using h) (by simpa using h1)]
      simp
    | succ j =>
      rw [ediffAux_getElem_succ x xs j (by simpa [ediff] using h) (by simpa using h1)]
      simp

theorem ediffU32Aux_getElem_zero (p : Int) (xs : List Int) (h : 0 < (ediffU32Aux p xs).length) (h' : 0 < xs.length) :
    (ediffU32Aux p xs)[0] = (xs[0] - p) % 4294967296 := by
  cases xs with
  | nil => simp at h'
  | cons x xs => simp [ediffU32Aux]

theorem ediffU32Aux_getElem_succ (p : Int) (xs : List Int) (i : Nat) (h : i + 1 < (ediffU32Aux p xs).length)
    (h1 : i + 1 < xs.length) : (ediffU32Aux p xs)[i + 1] = (xs[i + 1] - xs[i]) % 4294967296 := by
  induction xs generalizing p i with
  | nil => simp at h1
  | cons x xs ih =>
    simp only [ediffU32Aux, List.getElem_cons_succ]
    cases i with
    | zero =>
      rw [ediffU32Aux_getElem_zero x xs (by simpa [ediffU32Aux] using h) (by simpa using h1)]
      simp
    | succ j =>
      rw [ih x j (by simpa [ediffU32Aux] using h) (by simpa using h1)]
      simp

theorem ediffU32_getElem_succ (xs : List Int) (i : Nat) (h : i + 1 < (ediffU32 xs).length) (h1 : i + 1 < xs.length) :
    (ediffU32 xs)[i + 1] = (xs[i + 1] - xs[i]) % 4294967296 := by
  cases xs with
  | nil => simp at h1
  | cons x xs =>
    simp only [ediffU32, List.getElem_cons_succ]
    cases i with
    | zero =>
      rw [ediffU32Aux_getElem_zero x xs (by simpa [ediffU32] using h) (by simpa using h1)]
      simp
    | succ j =>
      rw [ediffU32Aux_getElem_succ x xs j (by simpa [ediffU32] using h) (by simpa using h1)]
      simp

theorem foldl_max_ge_init (xs : List Rat) (a : Rat) : a ≤ xs.foldl (fun a b => if a < b then b else a) a := by
  induction xs generalizing a with
  | nil => simp
  | cons x xs ih =>
    simp only [List.foldl_cons]
    split
    · exact le_trans (le_of_lt ‹a < x›) (ih x)
    · exact ih a

theorem foldl_max_ge_mem (xs : List Rat) (a : Rat) : ∀ x ∈ xs, x ≤ xs.foldl (fun a b => if a < b then b else a) a := by
  induction xs generalizing a with
  | nil => intro x hx; simp at hx
  | cons y ys ih =>
    intro x hx
    simp only [List.foldl_cons]
    rcases List.mem_cons.mp hx with e | e
    · subst e
      split
      · exact foldl_max_ge_init ys x
      · rename_i hlt
        exact le_trans (not_lt.mp hlt) (foldl_max_ge_init ys a)
    · exact ih _ x e

theorem foldl_max_mem (xs : List Rat) (a : Rat) :
    xs.foldl (fun a b => if a < b then b else a) a = a ∨ xs.foldl (fun a b => if a < b then b else a) a ∈ xs := by
  induction xs generalizing a with
  | nil => left; rfl
  | cons y ys ih =>
    simp only [List.foldl_cons]
    split
    · rcases ih y with e | e
      · right; rw [e]; exact List.mem_cons_self
      · right; exact List.mem_cons_of_mem _ e
    · rcases ih a with e | e
      · left; exact e
      · right; exact List.mem_cons_of_mem _ e

theorem maxR_ge (xs : List Rat) : ∀ x ∈ xs, x ≤ maxR xs := by
  cases xs with
  | nil => intro x hx; simp at hx
  | cons y ys =>
    intro x hx
    simp only [maxR]
    rcases List.mem_cons.mp hx with e | e
    · subst e; exact foldl_max_ge_init ys x
    · exact foldl_max_ge_mem ys y x e

theorem maxR_mem (xs : List Rat) (h : xs ≠ []) : maxR xs ∈ xs := by
  cases xs with
  | nil => exact absurd rfl h
  | cons y ys =>
    simp only [maxR]
    rcases foldl_max_mem ys y with e | e
    · rw [e]; exact List.mem_cons_self
    · exact List.mem_cons_of_mem _ e

/-! ### the day-of-year steps on arbitrary fields -/

/-- second day step: an entry is kept, or replaced by the maximum where the series steps down -/
theorem jdayFix2_getElem (j1 : List Rat) (i : Nat) (hi : i < (jdayFix2 j1).length) (h1 : i < j1.length)
    (he : i < (ediff j1).length) :
    ((jdayFix2 j1)[i] = j1[i] ∧ ¬ (ediff j1)[i] < 0) ∨ ((jdayFix2 j1)[i] = maxR j1 ∧ (ediff j1)[i] < 0) := by
  simp only [jdayFix2, List.getElem_zipWith]
  by_cases hneg : (ediff j1)[i] < 0
  · right; rw [if_pos hneg]; exact ⟨rfl, hneg⟩
  · left; rw [if_neg hneg]; exact ⟨rfl, hneg⟩

/-- first day step: an in-range entry is kept, any other replaced by the median of all entries -/
theorem jdayFix1_getElem (J : List Int) (i : Nat) (hi : i < (jdayFix1 J).length) (h1 : i < J.length) :
    (jdayFix1 J)[i] = if J[i] < 1 ∨ J[i] > 366 then medianD (castL J) else (J[i] : Rat) := by
  simp only [jdayFix1, List.getElem_map, castL]

/-! ### the millisecond steps on arbitrary fields -/

/-- ideal time of day of every line for a given (repaired) day series `j2`, anchored at `m0` -/
def idealOf (P : Rat) (sg : Bool) (nums : List Int) (j2 : List Rat) (m0 : Rat) : List Rat :=
  (linenoOfDay P sg nums j2).map (fun l => m0 + l)

theorem idealOf_length (P : Rat) (sg : Bool) (nums : List Int) (j2 : List Rat) (m0 : Rat) (h : j2.length = nums.length) :
    (idealOf P sg nums j2 m0).length = nums.length := by
  simp [idealOf, linenoOfDay_length P sg nums j2 h]

theorem idealOf_getElem (P : Rat) (sg : Bool) (nums : List Int) (j2 : List Rat) (m0 : Rat) (i : Nat)
    (hi : i < (idealOf P sg nums j2 m0).length) (hn : i < nums.length) (hj : i < j2.length) :
    (idealOf P sg nums j2 m0)[i] = m0 + (((lineIdx sg nums[i] - lineIdx sg (nums.headD 0) : Int) : Rat) * P
      - (j2[i] - headR j2) * 86400000) := by
  simp only [idealOf, linenoOfDay, linenoRel, List.getElem_map, List.getElem_zipWith]

theorem headR_eq_getElem (xs : List Rat) (h : 0 < xs.length) : headR xs = xs[0] := by
  cases xs with
  | nil => simp at h
  | cons x xs => simp [headR]

theorem headD_eq_getElem (xs : List Int) (h : 0 < xs.length) : xs.headD 0 = xs[0] := by
  cases xs with
  | nil => simp at h
  | cons x xs => simp

theorem idealOf_head (P : Rat) (sg : Bool) (nums : List Int) (j2 : List Rat) (m0 : Rat) (hn : 0 < nums.length)
    (hj : j2.length = nums.length) : headR (idealOf P sg nums j2 m0) = m0 := by
  have hl := idealOf_length P sg nums j2 m0 hj
  rw [headR_eq_getElem _ (by omega), idealOf_getElem P sg nums j2 m0 0 (by omega) hn (by omega),
    headR_eq_getElem j2 (by omega), headD_eq_getElem nums hn]
  simp

/-- first `msec` step on arbitrary fields (first time of day at least 1 ms): either nothing is
changed, or the whole series becomes the ideal one for the day series `j2` -/
theorem msecFix1_spec (P : Rat) (sg : Bool) (nums : List Int) (j2 : List Rat) (msec : List Int)
    (hfirst : 1 ≤ msec.headD 0) :
    msecFix1 P sg nums j2 msec = (castL msec, true) ∨
    msecFix1 P sg nums j2 msec = (idealOf P sg nums j2 ((msec.headD 0 : Int) : Rat), false) := by
  unfold msecFix1
  split
  · left; rfl
  · rename_i k hk
    have hk0 : k ≠ 0 := by
      intro h0
      subst h0
      obtain ⟨hlt, hp, _⟩ := List.findIdx?_eq_some_iff_getElem.mp hk
      have : msec[0] < 1 := by simpa using hp
      have := headD_eq_getElem msec hlt
      omega
    simp only [hk0, ne_eq, not_false_eq_true, if_true]
    right
    have := headR_castL msec
    unfold castL at this
    rw [this]
    rfl

/-- second `msec` step on arbitrary fields, entry by entry: the ideal value for `j2`, or the recorded
value - the latter only where the recorded series does not jump (or the day series steps by one) -/
theorem msecFix2_spec (P : Rat) (sg : Bool) (nums : List Int) (j1 j2 : List Rat) (msec : List Int)
    (hfirst : 1 ≤ msec.headD 0) (hn : 0 < nums.length) (h1 : j1.length = nums.length) (h2 : j2.length = nums.length)
    (h3 : msec.length = nums.length) (i : Nat) (hi : i < nums.length)
    (hm : i < (msecFix2 P sg nums j1 j2 msec (msecFix1 P sg nums j2 msec).1 (msecFix1 P sg nums j2 msec).2).length) :
    (msecFix2 P sg nums j1 j2 msec (msecFix1 P sg nums j2 msec).1 (msecFix1 P sg nums j2 msec).2)[i]
        = (idealOf P sg nums j2 ((msec.headD 0 : Int) : Rat))[i]'(by rw [idealOf_length P sg nums j2 _ h2]; exact hi) ∨
    ((msecFix2 P sg nums j1 j2 msec (msecFix1 P sg nums j2 msec).1 (msecFix1 P sg nums j2 msec).2)[i]
        = ((msec[i]'(by omega) : Int) : Rat) ∧
      ¬ (((((ediffU32 msec)[i]'(by simp; omega) : Int) : Rat) < -1000 ∨ ((((ediffU32 msec)[i]'(by simp; omega) : Int) : Rat) > 1000))
          ∧ (ediff j1)[i]'(by simp; omega) ≠ 1)) := by
  have hil := idealOf_length P sg nums j2 ((msec.headD 0 : Int) : Rat) h2
  rcases msecFix1_spec P sg nums j2 msec hfirst with e | e
  · -- nothing replaced by the first step
    have hrepl : (linenoOfDay P sg nums j2).map (fun l => headR (castL msec) + l)
        = idealOf P sg nums j2 ((msec.headD 0 : Int) : Rat) := by
      rw [headR_castL]; rfl
    simp only [e, msecFix2, if_true, hrepl, List.getElem_zipWith, List.getElem_zip, List.getElem_map]
    by_cases hc : ((((ediffU32 msec)[i]'(by simp; omega) : Int) : Rat) < -1000 ∨ (((ediffU32 msec)[i]'(by simp; omega) : Int) : Rat) > 1000)
        ∧ (ediff j1)[i]'(by simp; omega) ≠ 1
    · left; rw [if_pos hc]
    · right; rw [if_neg hc]
      refine ⟨?_, hc⟩
      simp [castL]
  · -- the whole series already ideal
    left
    have hrepl : (linenoOfDay P sg nums j2).map (fun l => headR (idealOf P sg nums j2 ((msec.headD 0 : Int) : Rat)) + l)
        = idealOf P sg nums j2 ((msec.headD 0 : Int) : Rat) := by
      rw [idealOf_head P sg nums j2 _ hn h2]; rfl
    simp only [e, msecFix2, hrepl, List.getElem_zipWith, List.getElem_zip]
    split <;> simp only [ite_self]

/-! ### stage 1 when every year is plausible -/

/-- the fields a pass must have for the line-by-line description below: plausible years, a first
time of day of at least 1 ms, equal lengths -/
structure YearOk (nowYear : Int) (r : RawTimes) : Prop where
  n_pos : 0 < r.nums.length
  len_y : r.year.length = r.nums.length
  len_j : r.jday.length = r.nums.length
  len_m : r.msec.length = r.nums.length
  year_ok : ∀ y ∈ r.year, 1978 ≤ y ∧ y ≤ nowYear
  msec_first : 1 ≤ r.msec.headD 0

def j1Of (r : RawTimes) : List Rat := jdayFix1 r.jday
def j2Of (r : RawTimes) : List Rat := jdayFix2 (jdayFix1 r.jday)
def m2Of (P : Rat) (sg : Bool) (r : RawTimes) : List Rat :=
  msecFix2 P sg r.nums (j1Of r) (j2Of r) r.msec (msecFix1 P sg r.nums (j2Of r) r.msec).1 (msecFix1 P sg r.nums (j2Of r) r.msec).2

theorem j1Of_length (r : RawTimes) : (j1Of r).length = r.jday.length := by simp [j1Of, jdayFix1]
theorem j2Of_length (r : RawTimes) : (j2Of r).length = r.jday.length := by simp [j2Of, jdayFix2, jdayFix1]

theorem stage1_yearOk (P : Rat) (sg : Bool) (nowYear : Int) (r : RawTimes) (h : YearOk nowYear r) :
    stage1 P sg nowYear r = { year := r.year, jday := (j2Of r).map truncR, msec := m2Of P sg r } := by
  have hy : r.year.findIdx? (fun y => decide (y < 1978 ∨ y > nowYear)) = none := by
    rw [List.findIdx?_eq_none_iff]
    intro y hy
    have := h.year_ok y hy
    simp; omega
  unfold stage1 m2Of j2Of j1Of
  simp only [hy]

theorem m2Of_length (P : Rat) (sg : Bool) (nowYear : Int) (r : RawTimes) (h : YearOk nowYear r) :
    (m2Of P sg r).length = r.nums.length := by
  unfold m2Of
  apply msecFix2_length
  · rw [j1Of_length, h.len_j]
  · rw [j2Of_length, h.len_j]
  · exact h.len_m
  · rcases msecFix1_spec P sg r.nums (j2Of r) r.msec h.msec_first with e | e <;> rw [e]
    · simp [h.len_m]
    · exact idealOf_length P sg r.nums (j2Of r) _ (by rw [j2Of_length, h.len_j])

theorem s1_yearOk_length (P : Rat) (sg : Bool) (nowYear : Int) (r : RawTimes) (h : YearOk nowYear r) :
    (s1Instants (stage1 P sg nowYear r)).length = r.nums.length := by
  rw [stage1_yearOk P sg nowYear r h]
  simp [s1Instants, h.len_y, j2Of_length, h.len_j, m2Of_length P sg nowYear r h]

theorem s1_yearOk_getElem (P : Rat) (sg : Bool) (nowYear : Int) (r : RawTimes) (h : YearOk nowYear r)
    (i : Nat) (hi : i < r.nums.length) (hs : i < (s1Instants (stage1 P sg nowYear r)).length) :
    (s1Instants (stage1 P sg nowYear r))[i] =
      instant (r.year[i]'(by have := h.len_y; omega)) (truncR ((j2Of r)[i]'(by rw [j2Of_length, h.len_j]; exact hi))) 0
        + truncR ((m2Of P sg r)[i]'(by rw [m2Of_length P sg nowYear r h]; exact hi)) := by
  have e := stage1_yearOk P sg nowYear r h
  simp only [s1Instants, e, List.getElem_zipWith, List.getElem_zip, List.getElem_map]

/-! ### whole-number day series -/

theorem j1_getElem (r : RawTimes) (i : Nat) (hi : i < (j1Of r).length) (h1 : i < r.jday.length) :
    (j1Of r)[i] = if r.jday[i] < 1 ∨ r.jday[i] > 366 then medianD (castL r.jday) else (r.jday[i] : Rat) :=
  jdayFix1_getElem r.jday i hi h1

theorem j1_int (r : RawTimes) (hmed : ∃ k : Int, medianD (castL r.jday) = (k : Rat)) (i : Nat)
    (hi : i < (j1Of r).length) : ∃ z : Int, (j1Of r)[i] = (z : Rat) := by
  have h1 : i < r.jday.length := by rwa [j1Of_length] at hi
  rw [j1_getElem r i hi h1]
  split
  · exact hmed
  · exact ⟨_, rfl⟩

theorem maxR_j1_int (r : RawTimes) (hmed : ∃ k : Int, medianD (castL r.jday) = (k : Rat)) (hn : 0 < r.jday.length) :
    ∃ z : Int, maxR (j1Of r) = (z : Rat) := by
  have hne : j1Of r ≠ [] := by
    intro h
    have := j1Of_length r
    rw [h] at this
    simp at this
    omega
  obtain ⟨i, hi, e⟩ := List.mem_iff_getElem.mp (maxR_mem (j1Of r) hne)
  rw [← e]
  exact j1_int r hmed i hi

/-- every entry of the repaired day series is its first-step value or the maximum; in the second case the
first-step series steps down at that line -/
theorem j2_getElem (r : RawTimes) (i : Nat) (hi : i < (j2Of r).length) (h1 : i < (j1Of r).length)
    (he : i < (ediff (j1Of r)).length) :
    ((j2Of r)[i] = (j1Of r)[i] ∧ ¬ (ediff (j1Of r))[i] < 0) ∨ ((j2Of r)[i] = maxR (j1Of r) ∧ (ediff (j1Of r))[i] < 0) :=
  jdayFix2_getElem (j1Of r) i hi h1 he

theorem j2_int (r : RawTimes) (hmed : ∃ k : Int, medianD (castL r.jday) = (k : Rat)) (i : Nat)
    (hi : i < (j2Of r).length) : ∃ z : Int, (j2Of r)[i] = (z : Rat) := by
  have hl1 := j1Of_length r
  have hl2 := j2Of_length r
  rcases j2_getElem r i hi (by omega) (by simp; omega) with ⟨e, _⟩ | ⟨e, _⟩
  · rw [e]; exact j1_int r hmed i (by omega)
  · rw [e]; exact maxR_j1_int r hmed (by omega)

theorem j2_ge_j1 (r : RawTimes) (i : Nat) (hi : i < (j2Of r).length) (h1 : i < (j1Of r).length) :
    (j1Of r)[i] ≤ (j2Of r)[i] := by
  rcases j2_getElem r i hi h1 (by simp; omega) with ⟨e, _⟩ | ⟨e, _⟩
  · rw [e]
  · rw [e]; exact maxR_ge _ _ (List.getElem_mem h1)

/-- the first line's day is never altered by the second step -/
theorem j2_head (r : RawTimes) (h0 : 0 < (j2Of r).length) (h1 : 0 < (j1Of r).length) : (j2Of r)[0] = (j1Of r)[0] := by
  rcases j2_getElem r 0 h0 h1 (by simp; omega) with ⟨e, _⟩ | ⟨_, hneg⟩
  · exact e
  · rw [ediff_getElem_zero] at hneg
    exact absurd hneg (lt_irrefl 0)

/-! ### half-integer day series (no assumption on the median) -/

/-- the median of whole numbers is a whole number or lies half way between two -/
theorem median_half (L : List Int) : ∃ k : Int, medianD (castL L) = (k : Rat) / 2 := by
  have hmem : ∀ x, x ∈ sortR (castL L) → ∃ z : Int, x = (z : Rat) := by
    intro x hx
    have := (sortR_perm (castL L)).mem_iff.mp hx
    simp only [castL, List.mem_map] at this
    obtain ⟨z, _, e⟩ := this
    exact ⟨z, e.symm⟩
  unfold medianD median
  simp only []
  split
  · exact ⟨0, by simp⟩
  · split
    · cases hq : (sortR (castL L))[(sortR (castL L)).length / 2]? with
      | none => exact ⟨0, by simp⟩
      | some a =>
        obtain ⟨z, hz⟩ := hmem a (List.mem_of_getElem? hq)
        exact ⟨2 * z, by simp [hz]⟩
    · cases hq1 : (sortR (castL L))[(sortR (castL L)).length / 2 - 1]? with
      | none => exact ⟨0, by simp⟩
      | some a =>
        cases hq2 : (sortR (castL L))[(sortR (castL L)).length / 2]? with
        | none => exact ⟨0, by simp⟩
        | some b =>
          obtain ⟨z1, hz1⟩ := hmem a (List.mem_of_getElem? hq1)
          obtain ⟨z2, hz2⟩ := hmem b (List.mem_of_getElem? hq2)
          exact ⟨z1 + z2, by simp [hz1, hz2]⟩

theorem j1_half (r : RawTimes) (i : Nat) (hi : i < (j1Of r).length) : ∃ k : Int, (j1Of r)[i] = (k : Rat) / 2 := by
  have h1 : i < r.jday.length := by rwa [j1Of_length] at hi
  rw [j1_getElem r i hi h1]
  split
  · exact median_half r.jday
  · exact ⟨2 * r.jday[i], by push_cast; ring⟩

theorem j2_half (r : RawTimes) (i : Nat) (hi : i < (j2Of r).length) : ∃ k : Int, (j2Of r)[i] = (k : Rat) / 2 := by
  have hl1 := j1Of_length r
  have hl2 := j2Of_length r
  rcases j2_getElem r i hi (by omega) (by simp; omega) with ⟨e, _⟩ | ⟨e, _⟩
  · rw [e]; exact j1_half r i (by omega)
  · rw [e]
    have hne : j1Of r ≠ [] := by
      intro h
      rw [h] at hl1
      simp at hl1
      omega
    obtain ⟨j, hj, ej⟩ := List.mem_iff_getElem.mp (maxR_mem (j1Of r) hne)
    rw [← ej]
    exact j1_half r j hj

/-- truncation toward zero of a half-integer: exact, or off by exactly one half -/
theorem truncR_half (k : Int) :
    ((truncR ((k : Rat) / 2) : Int) : Rat) = (k : Rat) / 2 ∨
    absR (((truncR ((k : Rat) / 2) : Int) : Rat) - (k : Rat) / 2) = 1 / 2 := by
  rcases Int.emod_two_eq_zero_or_one k with h | h
  · left
    obtain ⟨m, hm⟩ : ∃ m, k = 2 * m := ⟨k / 2, by omega⟩
    have : (k : Rat) / 2 = (m : Rat) := by rw [hm]; push_cast; ring
    rw [this, truncR_intCast]
  · right
    obtain ⟨m, hm⟩ : ∃ m, k = 2 * m + 1 := ⟨k / 2, by omega⟩
    have hx : (k : Rat) / 2 = (m : Rat) + 1 / 2 := by rw [hm]; push_cast; ring
    rw [hx]
    unfold truncR
    by_cases hneg : (m : Rat) + 1 / 2 < 0
    · rw [if_pos hneg]
      have hm1 : m ≤ -1 := by
        by_contra hc
        have : (0 : Rat) ≤ (m : Rat) := by exact_mod_cast (by omega : 0 ≤ m)
        linarith
      have hfl : ⌊-((m : Rat) + 1 / 2)⌋ = -m - 1 := by
        rw [Int.floor_eq_iff]
        constructor
        · push_cast; linarith
        · push_cast; linarith
      show absR (((-⌊-((m : Rat) + 1 / 2)⌋ : Int) : Rat) - ((m : Rat) + 1 / 2)) = 1 / 2
      rw [hfl]
      push_cast
      have e : -(-(m : Rat) - 1) - ((m : Rat) + 1 / 2) = 1 / 2 := by ring
      rw [e]
      unfold absR
      norm_num
    · rw [if_neg hneg]
      have hfl : ⌊(m : Rat) + 1 / 2⌋ = m := by
        rw [Int.floor_eq_iff]
        constructor
        · linarith
        · linarith
      show absR (((⌊(m : Rat) + 1 / 2⌋ : Int) : Rat) - ((m : Rat) + 1 / 2)) = 1 / 2
      rw [hfl]
      unfold absR
      norm_num

/-! ### the scenario: arbitrary day / ms fields on the lines marked `good = false` -/

/-- `r0` is what the instrument should have recorded (plausible, one calendar year, every line consistent
with the line numbers to the millisecond); `r` is the file: the same line numbers, and on the lines marked
`good` the same year, day and ms fields - on the other lines ANY values (years plausible: an implausible year
is the subject of `repair_year_out_of_range`).  Only side condition: the first line is good. -/
structure GarbledAny (P : Rat) (sg : Bool) (nowYear : Int) (r0 r : RawTimes) (good : List Bool) : Prop where
  clean : Clean nowYear r0
  year_const : ∀ y ∈ r0.year, y = r0.year.headD 0
  truth : ∀ i, i < r0.nums.length → GoodAt P sg r0 i
  nums_eq : r.nums = r0.nums
  len_y : r.year.length = r0.nums.length
  len_j : r.jday.length = r0.nums.length
  len_m : r.msec.length = r0.nums.length
  len_g : good.length = r0.nums.length
  year_ok : ∀ y ∈ r.year, 1978 ≤ y ∧ y ≤ nowYear
  first_good : ∀ h : 0 < good.length, good[0] = true
  good_y : ∀ i (h1 : i < good.length) (h2 : i < r.year.length) (h3 : i < r0.year.length),
    good[i] = true → r.year[i] = r0.year[i]
  good_j : ∀ i (h1 : i < good.length) (h2 : i < r.jday.length) (h3 : i < r0.jday.length),
    good[i] = true → r.jday[i] = r0.jday[i]
  good_m : ∀ i (h1 : i < good.length) (h2 : i < r.msec.length) (h3 : i < r0.msec.length),
    good[i] = true → r.msec[i] = r0.msec[i]

/-- the stronger scenario of the 40 % guarantee: in addition EVERY year is intact, the median of the recorded day
numbers is a whole number, the ms field lies within its unsigned 32 bits, and the pass spans at most six hours -/
structure Garbled (P : Rat) (sg : Bool) (nowYear : Int) (r0 r : RawTimes) (good : List Bool) : Prop
    extends GarbledAny P sg nowYear r0 r good where
  year_eq : r.year = r0.year
  med_int : ∃ k : Int, medianD (castL r.jday) = (k : Rat)
  msec_u32 : ∀ m ∈ r.msec, 0 ≤ m ∧ m < 4294967296
  span : ∀ i (h : i < r0.nums.length),
    0 ≤ ((lineIdx sg r0.nums[i] - lineIdx sg (r0.nums.headD 0) : Int) : Rat) * P ∧
    ((lineIdx sg r0.nums[i] - lineIdx sg (r0.nums.headD 0) : Int) : Rat) * P ≤ 21600000

namespace GarbledAny
variable {P : Rat} {sg : Bool} {nowYear : Int} {r0 r : RawTimes} {good : List Bool}

theorem msec_head (h : GarbledAny P sg nowYear r0 r good) : r.msec.headD 0 = r0.msec.headD 0 := by
  have hn := h.clean.n_pos
  have h1 : 0 < r.msec.length := by rw [h.len_m]; exact hn
  have h2 : 0 < r0.msec.length := by rw [h.clean.len_m]; exact hn
  have hg : 0 < good.length := by rw [h.len_g]; exact hn
  rw [headD_eq_getElem _ h1, headD_eq_getElem _ h2]
  exact h.good_m 0 hg h1 h2 (h.first_good hg)

theorem jday_head (h : GarbledAny P sg nowYear r0 r good) : r.jday.headD 0 = r0.jday.headD 0 := by
  have hn := h.clean.n_pos
  have h1 : 0 < r.jday.length := by rw [h.len_j]; exact hn
  have h2 : 0 < r0.jday.length := by rw [h.clean.len_j]; exact hn
  have hg : 0 < good.length := by rw [h.len_g]; exact hn
  rw [headD_eq_getElem _ h1, headD_eq_getElem _ h2]
  exact h.good_j 0 hg h1 h2 (h.first_good hg)

theorem yearOk (h : GarbledAny P sg nowYear r0 r good) : YearOk nowYear r where
  n_pos := by rw [h.nums_eq]; exact h.clean.n_pos
  len_y := by rw [h.nums_eq]; exact h.len_y
  len_j := by rw [h.nums_eq]; exact h.len_j
  len_m := by rw [h.nums_eq]; exact h.len_m
  year_ok := h.year_ok
  msec_first := by rw [h.msec_head]; exact h.clean.msec_first

/-- the first-step day of a good line is its true day -/
theorem j1_good (h : GarbledAny P sg nowYear r0 r good) (i : Nat) (hi : i < r0.nums.length)
    (hg : good[i]'(by rw [h.len_g]; exact hi) = true) :
    (j1Of r)[i]'(by rw [j1Of_length, h.len_j]; exact hi) = ((r0.jday[i]'(by rw [h.clean.len_j]; exact hi) : Int) : Rat) := by
  have h1 : i < r.jday.length := by rw [h.len_j]; exact hi
  have h2 : i < r0.jday.length := by rw [h.clean.len_j]; exact hi
  have e := h.good_j i (by rw [h.len_g]; exact hi) h1 h2 hg
  have hr := h.clean.jday_ok _ (List.getElem_mem h2)
  rw [j1_getElem r i (by rw [j1Of_length]; exact h1) h1, e, if_neg (by omega)]

/-- the head of the repaired day series is the true first day -/
theorem j2_headR (h : GarbledAny P sg nowYear r0 r good) : headR (j2Of r) = ((r0.jday.headD 0 : Int) : Rat) := by
  have hn := h.clean.n_pos
  have hl2 : (j2Of r).length = r0.nums.length := by rw [j2Of_length, h.len_j]
  have hl1 : (j1Of r).length = r0.nums.length := by rw [j1Of_length, h.len_j]
  have hg : 0 < good.length := by rw [h.len_g]; exact hn
  rw [headR_eq_getElem _ (by omega), j2_head r (by omega) (by omega), h.j1_good 0 hn (h.first_good hg),
    headD_eq_getElem _ (by rw [h.clean.len_j]; exact hn)]

end GarbledAny

/-! ### what stage 1 returns for each line of such a pass -/

/-- deviation of line `i`'s stage-1 offset from the pass offset -/
def offErr (P : Rat) (sg : Bool) (nowYear : Int) (r0 r : RawTimes) (i : Nat) : Rat :=
  (((s1Instants (stage1 P sg nowYear r)).getD i 0 : Int) : Rat)
    - ((lineIdx sg (r0.nums.getD i 0) : Int) : Rat) * P - passOffset P sg r0

theorem instant_cast (Y z : Int) :
    ((instant Y z 0 : Int) : Rat) = (daysToYear Y : Rat) * 86400000 + ((z : Rat) - 1) * 86400000 := by
  unfold instant msPerDay; push_cast; ring

/-- **Line by line**: the repaired day `z` is a whole number, and the stage-1 time is either the ideal one
(to the ms) or the recorded time of day on day `z` - the latter only where the recorded series does not
jump. -/
theorem line_cases {P : Rat} {sg : Bool} {nowYear : Int} {r0 r : RawTimes} {good : List Bool}
    (h : GarbledAny P sg nowYear r0 r good) (hmed : ∃ k : Int, medianD (castL r.jday) = (k : Rat))
    (i : Nat) (hi : i < r0.nums.length)
    (hyi : r.year.getD i 0 = r0.year.headD 0) :
    ∃ z : Int, (j2Of r).getD i 0 = (z : Rat) ∧
      (absR (offErr P sg nowYear r0 r i) < 1 ∨
       (offErr P sg nowYear r0 r i = ((z : Rat) - ((r0.jday.getD i 0 : Int) : Rat)) * 86400000
            + (((r.msec.getD i 0 : Int) : Rat) - (idealOfDay P sg r0).getD i 0) ∧
        ¬ (((((ediffU32 r.msec).getD i 0 : Int) : Rat) < -1000 ∨ (((ediffU32 r.msec).getD i 0 : Int) : Rat) > 1000)
            ∧ (ediff (j1Of r)).getD i 0 ≠ 1))) := by
  have hY := h.yearOk
  have hin : i < r.nums.length := by rw [h.nums_eq]; exact hi
  have hl2 : (j2Of r).length = r0.nums.length := by rw [j2Of_length, h.len_j]
  have hl1 : (j1Of r).length = r0.nums.length := by rw [j1Of_length, h.len_j]
  have hlm : (m2Of P sg r).length = r0.nums.length := by rw [m2Of_length P sg nowYear r hY, h.nums_eq]
  have hls : (s1Instants (stage1 P sg nowYear r)).length = r0.nums.length := by
    rw [s1_yearOk_length P sg nowYear r hY, h.nums_eq]
  have hlj0 : r0.jday.length = r0.nums.length := h.clean.len_j
  have hly0 : r0.year.length = r0.nums.length := h.clean.len_y
  have hlid : (idealOfDay P sg r0).length = r0.nums.length := idealOfDay_length P sg r0 h.clean.len_j
  obtain ⟨z, hz⟩ := j2_int r hmed i (by omega)
  refine ⟨z, by rw [getD_eq _ _ (by omega), hz], ?_⟩
  -- the stage-1 instant of this line
  have hs := s1_yearOk_getElem P sg nowYear r hY i hin (by omega)
  have hyr : r.year[i]'(by rw [h.len_y]; exact hi) = r0.year.headD 0 := by
    rw [← hyi, getD_eq _ _ (by rw [h.len_y]; exact hi)]
  have hyr0 : r0.year[i]'(by omega) = r0.year.headD 0 := h.year_const _ (List.getElem_mem _)
  -- the truth of this line
  have hid := ideal_instant_identity P sg nowYear r0 h.clean h.year_const i hi
  rw [hyr0, instant_cast] at hid
  have htr : truncR (j2Of r)[i] = z := by rw [hz, truncR_intCast]
  unfold offErr
  rw [getD_eq _ _ (by omega), getD_eq (r0.nums) _ (by omega), hs, hyr, htr]
  have hmsec : (m2Of P sg r)[i]'(by omega)
        = (idealOf P sg r.nums (j2Of r) ((r.msec.headD 0 : Int) : Rat))[i]'(by
            rw [idealOf_length P sg r.nums (j2Of r) _ (by rw [hl2, h.nums_eq])]; exact hin) ∨
      ((m2Of P sg r)[i]'(by omega) = ((r.msec[i]'(by rw [h.len_m]; exact hi) : Int) : Rat) ∧
        ¬ (((((ediffU32 r.msec)[i]'(by simp; rw [h.len_m]; exact hi) : Int) : Rat) < -1000 ∨
            ((((ediffU32 r.msec)[i]'(by simp; rw [h.len_m]; exact hi) : Int) : Rat) > 1000))
          ∧ (ediff (j1Of r))[i]'(by simp; omega) ≠ 1)) := by
    unfold m2Of
    exact msecFix2_spec P sg r.nums (j1Of r) (j2Of r) r.msec hY.msec_first hY.n_pos
      (by rw [hl1, h.nums_eq]) (by rw [hl2, h.nums_eq]) hY.len_m i hin (by
        have : (m2Of P sg r).length = r0.nums.length := hlm
        unfold m2Of at this; omega)
  rcases hmsec with e | ⟨e, hk⟩
  · -- replaced by the ideal value for the repaired day: exactly the true time
    left
    rw [e, idealOf_getElem P sg r.nums (j2Of r) _ i (by rw [idealOf_length P sg r.nums (j2Of r) _ (by rw [hl2, h.nums_eq])]; exact hin)
      hin (by omega), hz, h.j2_headR, h.msec_head]
    have hn0 : r.nums[i] = r0.nums[i] := by simp only [h.nums_eq]
    have hn1 : r.nums.headD 0 = r0.nums.headD 0 := by rw [h.nums_eq]
    rw [hn0, hn1]
    set R : Rat := ((r0.msec.headD 0 : Int) : Rat) + (((lineIdx sg r0.nums[i] - lineIdx sg (r0.nums.headD 0) : Int) : Rat) * P
      - ((z : Rat) - ((r0.jday.headD 0 : Int) : Rat)) * 86400000) with hR
    have hc := truncR_close R
    have : ((instant (r0.year.headD 0) z 0 + truncR R : Int) : Rat) - ((lineIdx sg r0.nums[i] : Int) : Rat) * P - passOffset P sg r0
        = ((truncR R : Int) : Rat) - R := by
      push_cast
      rw [instant_cast, hR]
      unfold passOffset instant msPerDay
      push_cast
      ring
    rw [this]
    exact hc
  · -- the recorded time of day, on day `z`
    right
    refine ⟨?_, ?_⟩
    · rw [e, truncR_intCast, getD_eq _ _ (by omega), getD_eq (r.msec) _ (by rw [h.len_m]; exact hi),
        getD_eq (idealOfDay P sg r0) _ (by omega)]
      push_cast
      rw [instant_cast]
      linarith [hid]
    · rw [getD_eq _ _ (by simp; rw [h.len_m]; exact hi), getD_eq _ _ (by simp; omega)]
      exact hk

/-- **Line by line, without any assumption on the day fields** (the repaired day may be a half-integer median):
with `z` the whole-number day the repaired day is truncated to, the stage-1 time is the ideal one (to the ms),
or at least twelve hours away from it, or the recorded time of day on day `z`. -/
theorem line_cases_half {P : Rat} {sg : Bool} {nowYear : Int} {r0 r : RawTimes} {good : List Bool}
    (h : GarbledAny P sg nowYear r0 r good) (i : Nat) (hi : i < r0.nums.length)
    (hyi : r.year.getD i 0 = r0.year.headD 0) :
    ∃ z : Int, z = truncR ((j2Of r).getD i 0) ∧
      ((absR (offErr P sg nowYear r0 r i) < 1 ∧ ((j2Of r).getD i 0 = (z : Rat))) ∨
       (absR (offErr P sg nowYear r0 r i) > 720000 ∧ ((j2Of r).getD i 0 ≠ (z : Rat))) ∨
       (offErr P sg nowYear r0 r i = ((z : Rat) - ((r0.jday.getD i 0 : Int) : Rat)) * 86400000
            + (((r.msec.getD i 0 : Int) : Rat) - (idealOfDay P sg r0).getD i 0))) := by
  have hY := h.yearOk
  have hin : i < r.nums.length := by rw [h.nums_eq]; exact hi
  have hl2 : (j2Of r).length = r0.nums.length := by rw [j2Of_length, h.len_j]
  have hl1 : (j1Of r).length = r0.nums.length := by rw [j1Of_length, h.len_j]
  have hlm : (m2Of P sg r).length = r0.nums.length := by rw [m2Of_length P sg nowYear r hY, h.nums_eq]
  have hls : (s1Instants (stage1 P sg nowYear r)).length = r0.nums.length := by
    rw [s1_yearOk_length P sg nowYear r hY, h.nums_eq]
  have hlj0 : r0.jday.length = r0.nums.length := h.clean.len_j
  have hly0 : r0.year.length = r0.nums.length := h.clean.len_y
  have hlid : (idealOfDay P sg r0).length = r0.nums.length := idealOfDay_length P sg r0 h.clean.len_j
  obtain ⟨k, hk2⟩ := j2_half r i (by omega)
  refine ⟨truncR ((j2Of r).getD i 0), rfl, ?_⟩
  rw [getD_eq (j2Of r) _ (by omega)]
  set z := truncR (j2Of r)[i] with hzdef
  have hs := s1_yearOk_getElem P sg nowYear r hY i hin (by omega)
  have hyr : r.year[i]'(by rw [h.len_y]; exact hi) = r0.year.headD 0 := by
    rw [← hyi, getD_eq _ _ (by rw [h.len_y]; exact hi)]
  have hyr0 : r0.year[i]'(by omega) = r0.year.headD 0 := h.year_const _ (List.getElem_mem _)
  have hid := ideal_instant_identity P sg nowYear r0 h.clean h.year_const i hi
  rw [hyr0, instant_cast] at hid
  unfold offErr
  rw [getD_eq _ _ (by omega), getD_eq (r0.nums) _ (by omega), hs, hyr, ← hzdef]
  have hmsec : (m2Of P sg r)[i]'(by omega)
        = (idealOf P sg r.nums (j2Of r) ((r.msec.headD 0 : Int) : Rat))[i]'(by
            rw [idealOf_length P sg r.nums (j2Of r) _ (by rw [hl2, h.nums_eq])]; exact hin) ∨
      ((m2Of P sg r)[i]'(by omega) = ((r.msec[i]'(by rw [h.len_m]; exact hi) : Int) : Rat) ∧
        ¬ (((((ediffU32 r.msec)[i]'(by simp; rw [h.len_m]; exact hi) : Int) : Rat) < -1000 ∨
            ((((ediffU32 r.msec)[i]'(by simp; rw [h.len_m]; exact hi) : Int) : Rat) > 1000))
          ∧ (ediff (j1Of r))[i]'(by simp; omega) ≠ 1)) := by
    unfold m2Of
    exact msecFix2_spec P sg r.nums (j1Of r) (j2Of r) r.msec hY.msec_first hY.n_pos
      (by rw [hl1, h.nums_eq]) (by rw [hl2, h.nums_eq]) hY.len_m i hin (by
        have : (m2Of P sg r).length = r0.nums.length := hlm
        unfold m2Of at this; omega)
  rcases hmsec with e | ⟨e, _⟩
  · -- replaced by the ideal value for the (possibly half-integer) repaired day
    rw [e, idealOf_getElem P sg r.nums (j2Of r) _ i (by rw [idealOf_length P sg r.nums (j2Of r) _ (by rw [hl2, h.nums_eq])]; exact hin)
      hin (by omega), h.j2_headR, h.msec_head]
    have hn0 : r.nums[i] = r0.nums[i] := by simp only [h.nums_eq]
    have hn1 : r.nums.headD 0 = r0.nums.headD 0 := by rw [h.nums_eq]
    rw [hn0, hn1]
    set R : Rat := ((r0.msec.headD 0 : Int) : Rat) + (((lineIdx sg r0.nums[i] - lineIdx sg (r0.nums.headD 0) : Int) : Rat) * P
      - ((j2Of r)[i] - ((r0.jday.headD 0 : Int) : Rat)) * 86400000) with hR
    have hc := truncR_close R
    rw [absR_lt_iff] at hc
    have hoff : ((instant (r0.year.headD 0) z 0 + truncR R : Int) : Rat) - ((lineIdx sg r0.nums[i] : Int) : Rat) * P - passOffset P sg r0
        = ((z : Rat) - (j2Of r)[i]) * 86400000 + (((truncR R : Int) : Rat) - R) := by
      push_cast
      rw [instant_cast, hR]
      unfold passOffset instant msPerDay
      push_cast
      ring
    rw [hoff]
    have hth := truncR_half k
    rw [← hk2, ← hzdef] at hth
    rcases hth with hexact | hhalf
    · left
      refine ⟨?_, hexact.symm⟩
      rw [hexact, absR_lt_iff]
      constructor <;> linarith [hc.1, hc.2]
    · right; left
      refine ⟨?_, ?_⟩
      · unfold absR at hhalf ⊢
        split at hhalf <;> split <;> nlinarith [hc.1, hc.2]
      · intro heq
        rw [heq] at hhalf
        unfold absR at hhalf
        norm_num at hhalf
  · -- the recorded time of day, on day `z`
    right; right
    rw [e, truncR_intCast, getD_eq _ _ (by omega), getD_eq (r.msec) _ (by rw [h.len_m]; exact hi),
      getD_eq (idealOfDay P sg r0) _ (by omega)]
    push_cast
    rw [instant_cast]
    linarith [hid]

/-! ### good lines, lost lines and the lines before them -/

theorem le_absR (x : Rat) : x ≤ absR x := by
  unfold absR; split <;> linarith

theorem neg_le_absR (x : Rat) : -x ≤ absR x := by
  unfold absR; split <;> linarith

section
variable {P : Rat} {sg : Bool} {nowYear : Int} {r0 r : RawTimes} {good : List Bool}

/-- the condition under which the second ms step keeps the recorded value of line `i` -/
def KeptCond (r : RawTimes) (i : Nat) : Prop :=
  ¬ (((((ediffU32 r.msec).getD i 0 : Int) : Rat) < -1000 ∨ (((ediffU32 r.msec).getD i 0 : Int) : Rat) > 1000)
      ∧ (ediff (j1Of r)).getD i 0 ≠ 1)

/-- a good line comes out of stage 1 within 1 ms of its true time, or a whole number of days away from it
(its day was replaced by the maximum and its recorded time of day kept) -/
theorem good_line (h : GarbledAny P sg nowYear r0 r good) (hmed : ∃ k : Int, medianD (castL r.jday) = (k : Rat))
    (i : Nat) (hi : i < r0.nums.length) (hg : good.getD i false = true) :
    absR (offErr P sg nowYear r0 r i) < 1 ∨
    (absR (offErr P sg nowYear r0 r i) > 720000 ∧ (j2Of r).getD i 0 ≠ (j1Of r).getD i 0 ∧ KeptCond r i) := by
  have hgl : i < good.length := by rw [h.len_g]; exact hi
  have hg' : good[i] = true := by rw [getD_eq _ _ hgl] at hg; exact hg
  have hm1 : i < r.msec.length := by rw [h.len_m]; exact hi
  have hm0 : i < r0.msec.length := by rw [h.clean.len_m]; exact hi
  have hj0 : i < r0.jday.length := by rw [h.clean.len_j]; exact hi
  have hl1 : i < (j1Of r).length := by rw [j1Of_length, h.len_j]; exact hi
  have hyi : r.year.getD i 0 = r0.year.headD 0 := by
    have hy1 : i < r.year.length := by rw [h.len_y]; exact hi
    have hy0 : i < r0.year.length := by rw [h.clean.len_y]; exact hi
    rw [getD_eq _ _ hy1, h.good_y i hgl hy1 hy0 hg']
    exact h.year_const _ (List.getElem_mem hy0)
  obtain ⟨z, hz, hc⟩ := line_cases h hmed i hi hyi
  rcases hc with hrep | ⟨hoff, hk⟩
  · left; exact hrep
  · obtain ⟨_, h2, hlo, hhi⟩ := h.truth i hi
    have hmm : r.msec.getD i 0 = r0.msec[i] := by rw [getD_eq _ _ hm1]; exact h.good_m i hgl hm1 hm0 hg'
    rw [hmm, getD_eq _ _ h2, getD_eq _ _ hj0] at hoff
    by_cases hzj : z = r0.jday[i]
    · left
      rw [hoff, hzj, absR_lt_iff]
      constructor <;> linarith
    · right
      refine ⟨?_, ?_, hk⟩
      · rcases lt_or_gt_of_ne hzj with hlt | hgt
        · have : (z : Rat) ≤ (r0.jday[i] : Rat) - 1 := by
            have : z ≤ r0.jday[i] - 1 := by omega
            exact_mod_cast this
          have hneg := neg_le_absR (offErr P sg nowYear r0 r i)
          rw [hoff] at hneg ⊢
          nlinarith
        · have : (r0.jday[i] : Rat) + 1 ≤ (z : Rat) := by
            have : r0.jday[i] + 1 ≤ z := by omega
            exact_mod_cast this
          have hpos := le_absR (offErr P sg nowYear r0 r i)
          rw [hoff] at hpos ⊢
          nlinarith
      · rw [hz, getD_eq _ _ hl1, h.j1_good i hi hg']
        intro hEq
        exact hzj (by exact_mod_cast hEq)

/-- the same without any assumption on the day fields (and without the record of why the time of day was kept) -/
theorem good_line_half (h : GarbledAny P sg nowYear r0 r good) (i : Nat) (hi : i < r0.nums.length)
    (hg : good.getD i false = true) :
    absR (offErr P sg nowYear r0 r i) < 1 ∨
    (absR (offErr P sg nowYear r0 r i) > 720000 ∧ (j2Of r).getD i 0 ≠ (j1Of r).getD i 0) := by
  have hgl : i < good.length := by rw [h.len_g]; exact hi
  have hg' : good[i] = true := by rw [getD_eq _ _ hgl] at hg; exact hg
  have hm1 : i < r.msec.length := by rw [h.len_m]; exact hi
  have hm0 : i < r0.msec.length := by rw [h.clean.len_m]; exact hi
  have hj0 : i < r0.jday.length := by rw [h.clean.len_j]; exact hi
  have hl1 : i < (j1Of r).length := by rw [j1Of_length, h.len_j]; exact hi
  have hyi : r.year.getD i 0 = r0.year.headD 0 := by
    have hy1 : i < r.year.length := by rw [h.len_y]; exact hi
    have hy0 : i < r0.year.length := by rw [h.clean.len_y]; exact hi
    rw [getD_eq _ _ hy1, h.good_y i hgl hy1 hy0 hg']
    exact h.year_const _ (List.getElem_mem hy0)
  have hj1 : (j1Of r).getD i 0 = ((r0.jday[i] : Int) : Rat) := by rw [getD_eq _ _ hl1, h.j1_good i hi hg']
  obtain ⟨z, hz, hc⟩ := line_cases_half h i hi hyi
  rcases hc with ⟨hrep, _⟩ | ⟨hfar, hne⟩ | hoff
  · left; exact hrep
  · right
    refine ⟨hfar, ?_⟩
    intro heq
    -- the first-step day of a good line is a whole number, and truncation leaves whole numbers alone
    apply hne
    rw [hz, heq, hj1, truncR_intCast]
  · obtain ⟨_, h2, hlo, hhi⟩ := h.truth i hi
    have hmm : r.msec.getD i 0 = r0.msec[i] := by rw [getD_eq _ _ hm1]; exact h.good_m i hgl hm1 hm0 hg'
    rw [hmm, getD_eq _ _ h2, getD_eq _ _ hj0] at hoff
    by_cases hzj : z = r0.jday[i]
    · left
      rw [hoff, hzj, absR_lt_iff]
      constructor <;> linarith
    · right
      refine ⟨?_, ?_⟩
      · rcases lt_or_gt_of_ne hzj with hlt | hgt
        · have : (z : Rat) ≤ (r0.jday[i] : Rat) - 1 := by
            have : z ≤ r0.jday[i] - 1 := by omega
            exact_mod_cast this
          have hneg := neg_le_absR (offErr P sg nowYear r0 r i)
          rw [hoff] at hneg ⊢
          nlinarith
        · have : (r0.jday[i] : Rat) + 1 ≤ (z : Rat) := by
            have : r0.jday[i] + 1 ≤ z := by omega
            exact_mod_cast this
          have hpos := le_absR (offErr P sg nowYear r0 r i)
          rw [hoff] at hpos ⊢
          nlinarith
      · intro heq
        apply hzj
        rw [hz, heq, hj1, truncR_intCast]

/-- where the repaired day differs from the first-step day, the first-step series steps down from the
line before -/
theorem day_replaced_step (r : RawTimes) (i : Nat) (hi : i < r.jday.length)
    (hne : (j2Of r).getD i 0 ≠ (j1Of r).getD i 0) :
    ∃ p, i = p + 1 ∧ (j1Of r).getD (p + 1) 0 < (j1Of r).getD p 0 := by
  have hl1 : (j1Of r).length = r.jday.length := j1Of_length r
  have hl2 : (j2Of r).length = r.jday.length := j2Of_length r
  rw [getD_eq _ _ (by omega), getD_eq _ _ (by omega)] at hne
  rcases j2_getElem r i (by omega) (by omega) (by simp; omega) with ⟨e, _⟩ | ⟨_, hneg⟩
  · exact absurd e hne
  · cases i with
    | zero => rw [ediff_getElem_zero] at hneg; exact absurd hneg (lt_irrefl 0)
    | succ p =>
      refine ⟨p, rfl, ?_⟩
      rw [ediff_getElem_succ _ p (by simp; omega) (by omega)] at hneg
      rw [getD_eq _ _ (by omega), getD_eq _ _ (by omega)]
      linarith

/-- ... and that line before is not a good one (the true days never decrease) -/
theorem pred_not_good (h : GarbledAny P sg nowYear r0 r good) (p : Nat) (hp : p + 1 < r0.nums.length)
    (hgi : good.getD (p + 1) false = true) (hlt : (j1Of r).getD (p + 1) 0 < (j1Of r).getD p 0) :
    ¬ good.getD p false = true := by
  intro hgp
  have hl1 : (j1Of r).length = r0.nums.length := by rw [j1Of_length, h.len_j]
  have hgl : good.length = r0.nums.length := h.len_g
  rw [getD_eq _ _ (by omega), getD_eq _ _ (by omega)] at hlt
  rw [getD_eq _ _ (by omega)] at hgi hgp
  rw [h.j1_good (p + 1) hp hgi, h.j1_good p (by omega) hgp] at hlt
  have hlen : (castL r0.jday).length = r0.nums.length := by simp [h.clean.len_j]
  have hel : p + 1 < (ediff (castL r0.jday)).length := by rw [ediff_length, hlen]; exact hp
  have hmono := h.clean.jday_mono _ (List.getElem_mem hel)
  rw [ediff_getElem_succ _ p hel (by omega)] at hmono
  simp only [castL, List.getElem_map] at hmono
  linarith

/-- **The line before a lost line**: if good line `p + 1` kept its recorded time of day although its day was
replaced (the first-step day series steps down from `p`, the recorded ms series does not jump), then line
`p` itself comes out either at its true time or at least 18 hours away from it - never near the pass offset
with a wrong value. -/
theorem line_before_lost (h : Garbled P sg nowYear r0 r good) (p : Nat) (hp : p + 1 < r0.nums.length)
    (hgi : good.getD (p + 1) false = true) (hlt : (j1Of r).getD (p + 1) 0 < (j1Of r).getD p 0)
    (hk : KeptCond r (p + 1)) :
    absR (offErr P sg nowYear r0 r p) < 1 ∨ absR (offErr P sg nowYear r0 r p) > 720000 := by
  have hpp : p < r0.nums.length := by omega
  have hl1 : (j1Of r).length = r0.nums.length := by rw [j1Of_length, h.len_j]
  have hl2 : (j2Of r).length = r0.nums.length := by rw [j2Of_length, h.len_j]
  have hgl : good.length = r0.nums.length := h.len_g
  have hlm : r.msec.length = r0.nums.length := h.len_m
  have hlm0 : r0.msec.length = r0.nums.length := h.clean.len_m
  have hlj0 : r0.jday.length = r0.nums.length := h.clean.len_j
  have hlid : (idealOfDay P sg r0).length = r0.nums.length := idealOfDay_length P sg r0 h.clean.len_j
  have hyp : r.year.getD p 0 = r0.year.headD 0 := by
    have hy0 : p < r0.year.length := by rw [h.clean.len_y]; exact hpp
    rw [h.year_eq, getD_eq _ _ hy0]
    exact h.year_const _ (List.getElem_mem hy0)
  obtain ⟨z, hz, hc⟩ := line_cases h.toGarbledAny h.med_int p hpp hyp
  rcases hc with hrep | ⟨hoff, _⟩
  · left; exact hrep
  · right
    have hgi' : good[p + 1] = true := by rw [getD_eq _ _ (by omega)] at hgi; exact hgi
    -- the repaired day of line p lies above the true day of line p + 1
    have hzgt : r0.jday[p + 1] + 1 ≤ z := by
      have h1 := j2_ge_j1 r p (by omega) (by omega)
      rw [getD_eq _ _ (by omega)] at hz
      rw [getD_eq _ _ (by omega), getD_eq _ _ (by omega), h.j1_good (p + 1) hp hgi'] at hlt
      rw [hz] at h1
      have : ((r0.jday[p + 1] : Int) : Rat) < (z : Rat) := lt_of_lt_of_le hlt h1
      have : r0.jday[p + 1] < z := by exact_mod_cast this
      omega
    have hzgtR : ((r0.jday[p + 1] : Int) : Rat) + 1 ≤ (z : Rat) := by exact_mod_cast hzgt
    -- the recorded ms of line p is at most 1000 below the (true) ms of line p + 1
    have hwj : (ediff (j1Of r)).getD (p + 1) 0 ≠ 1 := by
      rw [getD_eq _ _ (by simp; omega), ediff_getElem_succ _ p (by simp; omega) (by omega)]
      rw [getD_eq _ _ (by omega), getD_eq _ _ (by omega)] at hlt
      intro he; linarith
    have hwm : ((ediffU32 r.msec).getD (p + 1) 0 : Int) ≤ 1000 := by
      unfold KeptCond at hk
      by_contra hgt
      apply hk
      refine ⟨Or.inr ?_, hwj⟩
      have : (1000 : Int) < (ediffU32 r.msec).getD (p + 1) 0 := by omega
      exact_mod_cast this
    rw [getD_eq _ _ (by simp; omega), ediffU32_getElem_succ _ p (by simp; omega) (by omega)] at hwm
    have hu1 := h.msec_u32 _ (List.getElem_mem (l := r.msec) (show p < r.msec.length by omega))
    have hu2 := h.msec_u32 _ (List.getElem_mem (l := r.msec) (show p + 1 < r.msec.length by omega))
    have hg : r.msec[p + 1] - 1000 ≤ r.msec[p] := by omega
    have hgR : ((r.msec[p + 1] : Int) : Rat) - 1000 ≤ ((r.msec[p] : Int) : Rat) := by exact_mod_cast hg
    have hmt : r.msec[p + 1] = r0.msec[p + 1] := h.good_m (p + 1) (by omega) (by omega) (by omega) hgi'
    obtain ⟨_, _, hlo, _⟩ := h.truth (p + 1) hp
    -- the ideal times of day of the two lines
    have hi1 := idealOfDay_getElem P sg r0 (p + 1) hp (by omega) (by omega)
    have hi0 := idealOfDay_getElem P sg r0 p hpp (by omega) (by omega)
    have hs1 := (h.span (p + 1) hp).1
    have hs0 := (h.span p hpp).2
    rw [getD_eq _ _ (by omega), getD_eq (r.msec) _ (by omega), getD_eq (idealOfDay P sg r0) _ (by omega)] at hoff
    have hpos := le_absR (offErr P sg nowYear r0 r p)
    rw [hmt] at hgR
    rw [hoff] at hpos ⊢
    linarith

end

/-! ### the end-to-end guarantee -/

/-- index predicates of the counting argument -/
def GoodI (good : List Bool) (i : Nat) : Prop := good.getD i false = true
def NearI (P : Rat) (sg : Bool) (nowYear : Int) (r0 r : RawTimes) (hd : Int) (i : Nat) : Prop :=
  absR (offErr P sg nowYear r0 r i + (passOffset P sg r0 - (hd : Rat))) ≤ 360000
def BandI (P : Rat) (sg : Bool) (nowYear : Int) (r0 r : RawTimes) (i : Nat) : Prop :=
  absR (offErr P sg nowYear r0 r i) ≤ 2

section
variable {P : Rat} {sg : Bool} {nowYear : Int} {r0 r : RawTimes} {good : List Bool}

theorem far_not_near (hd : Int) (hhead : absR (passOffset P sg r0 - (hd : Rat)) ≤ 360000 - 2) (i : Nat)
    (hf : absR (offErr P sg nowYear r0 r i) > 720000) : ¬ NearI P sg nowYear r0 r hd i := by
  intro hnr
  unfold NearI at hnr
  rw [absR_le_iff] at hnr hhead
  unfold absR at hf
  split at hf <;> linarith [hnr.1, hnr.2, hhead.1, hhead.2]

theorem close_near_band (hd : Int) (hhead : absR (passOffset P sg r0 - (hd : Rat)) ≤ 360000 - 2) (i : Nat)
    (hc : absR (offErr P sg nowYear r0 r i) < 1) : NearI P sg nowYear r0 r hd i ∧ BandI P sg nowYear r0 r i := by
  rw [absR_lt_iff] at hc
  rw [absR_le_iff] at hhead
  unfold NearI BandI
  rw [absR_le_iff, absR_le_iff]
  refine ⟨⟨?_, ?_⟩, ⟨?_, ?_⟩⟩ <;> linarith [hc.1, hc.2, hhead.1, hhead.2]

/-- a good line near the header time is right -/
theorem good_near_band (h : GarbledAny P sg nowYear r0 r good) (hd : Int)
    (hhead : absR (passOffset P sg r0 - (hd : Rat)) ≤ 360000 - 2) (i : Nat) (hi : i < r0.nums.length)
    (hg : GoodI good i) (hnr : NearI P sg nowYear r0 r hd i) : BandI P sg nowYear r0 r i := by
  rcases good_line_half h i hi hg with hc | ⟨hf, _⟩
  · exact (close_near_band hd hhead i hc).2
  · exact absurd hnr (far_not_near hd hhead i hf)

/-- a good line NOT near the header time follows a bad line from which the first-step day series steps down,
and kept its recorded time of day -/
theorem good_lost (h : GarbledAny P sg nowYear r0 r good) (hmed : ∃ k : Int, medianD (castL r.jday) = (k : Rat)) (hd : Int)
    (hhead : absR (passOffset P sg r0 - (hd : Rat)) ≤ 360000 - 2) (i : Nat) (hi : i < r0.nums.length)
    (hg : GoodI good i) (hnn : ¬ NearI P sg nowYear r0 r hd i) :
    ∃ p, i = p + 1 ∧ ¬ GoodI good p ∧ (j1Of r).getD (p + 1) 0 < (j1Of r).getD p 0 ∧ KeptCond r (p + 1) := by
  rcases good_line h hmed i hi hg with hc | ⟨_, hne, hk⟩
  · exact absurd (close_near_band hd hhead i hc).1 hnn
  · obtain ⟨p, hip, hlt⟩ := day_replaced_step r i (by rw [h.len_j]; exact hi) hne
    subst hip
    exact ⟨p, rfl, pred_not_good h p hi hg hlt, hlt, hk⟩

/-- the same without any assumption on the day fields: a good line not near the header time follows a bad line -/
theorem good_lost_half (h : GarbledAny P sg nowYear r0 r good) (hd : Int)
    (hhead : absR (passOffset P sg r0 - (hd : Rat)) ≤ 360000 - 2) (i : Nat) (hi : i < r0.nums.length)
    (hg : GoodI good i) (hnn : ¬ NearI P sg nowYear r0 r hd i) :
    ∃ p, i = p + 1 ∧ ¬ GoodI good p := by
  rcases good_line_half h i hi hg with hc | ⟨_, hne⟩
  · exact absurd (close_near_band hd hhead i hc).1 hnn
  · obtain ⟨p, hip, hlt⟩ := day_replaced_step r i (by rw [h.len_j]; exact hi) hne
    subst hip
    exact ⟨p, rfl, pred_not_good h p hi hg hlt⟩

open Classical in
theorem bad_card (h : GarbledAny P sg nowYear r0 r good) :
    ((Finset.range r0.nums.length).filter (fun i => ¬ GoodI good i)).card = good.count false := by
  classical
  have := Count.countP_eq_card good false (fun b => b == false)
  rw [List.count_eq_countP]
  rw [show (fun x : Bool => x == false) = (fun b => b == false) from rfl] at *
  rw [this, h.len_g]
  congr 1
  apply Finset.filter_congr
  intro i _
  unfold GoodI
  cases good.getD i false <;> simp

open Classical in
/-- from "the right lines are a strict majority of the near ones, and more than a fifth of all lines" to the
result of `get_times` -/
theorem finish_from_majority (h : GarbledAny P sg nowYear r0 r good) (hd : Int)
    (hdec : (sg && decreasing r.nums) = false)
    (hhead : absR (passOffset P sg r0 - (hd : Rat)) ≤ 360000 - 2)
    (hcount : ((Finset.range r0.nums.length).filter (NearI P sg nowYear r0 r hd)).card <
      2 * ((Finset.range r0.nums.length).filter (fun i => NearI P sg nowYear r0 r hd i ∧ BandI P sg nowYear r0 r i)).card)
    (hmany : r0.nums.length <
      5 * ((Finset.range r0.nums.length).filter (fun i => NearI P sg nowYear r0 r hd i ∧ BandI P sg nowYear r0 r i)).card) :
    (getTimes {} P nowYear sg (some hd) r).length = r0.nums.length ∧
    ∀ i (hi : i < r0.nums.length) (h1 : i < (getTimes {} P nowYear sg (some hd) r).length),
      absR ((((getTimes {} P nowYear sg (some hd) r)[i] : Int) : Rat)
        - (((lineIdx sg r0.nums[i] : Int) : Rat) * P + passOffset P sg r0)) ≤ 10002 := by
  classical
  have hY := h.yearOk
  set n := r0.nums.length with hn
  have hnpos : 0 < n := h.clean.n_pos
  have hlen1 : (s1Instants (stage1 P sg nowYear r)).length = n := by
    rw [s1_yearOk_length P sg nowYear r hY, h.nums_eq]
  set t1 := s1Instants (stage1 P sg nowYear r) with ht1
  set tn := tnOf P sg r.nums with htn
  have htnlen : tn.length = n := by rw [htn, tnOf_length, h.nums_eq]
  set C := passOffset P sg r0 with hC
  have htni : ∀ i (hi : i < tn.length) (hi' : i < n), tn[i] = ((lineIdx sg r0.nums[i] : Int) : Rat) * P := by
    intro i hi hi'
    simp only [htn, tnOf, List.getElem_map, h.nums_eq]
  set offs := offsetsOf t1 tn with hoffs
  have hofflen : offs.length = n := by simp [hoffs, offsetsOf, hlen1, htnlen]
  have hoffi : ∀ i, i < n → offs.getD i 0 = offErr P sg nowYear r0 r i + C := by
    intro i hi
    rw [getD_eq _ _ (by omega)]
    simp only [hoffs, offsetsOf, List.getElem_zipWith]
    rw [htni i (by omega) hi]
    unfold offErr
    rw [getD_eq _ _ (by rw [← ht1, hlen1]; exact hi), getD_eq (r0.nums) _ hi]
    ring
  set near := nearOf {} hd offs with hnear
  have hmd : ({} : S2Params).maxDiffHead = 360000 := rfl
  have hnearlen : near.length = ((Finset.range n).filter (NearI P sg nowYear r0 r hd)).card := by
    rw [hnear, nearOf, ← List.countP_eq_length_filter, Count.countP_eq_card offs 0, hofflen]
    congr 1
    apply Finset.filter_congr
    intro i hi
    rw [Finset.mem_range] at hi
    rw [hoffi i hi, hmd]
    unfold NearI
    simp only [decide_eq_true_eq]
    rw [show offErr P sg nowYear r0 r i + C - (hd : Rat) = offErr P sg nowYear r0 r i + (C - (hd : Rat)) by ring]
  have hnearband : near.countP (inBand (C - 2) (C + 2)) =
      ((Finset.range n).filter (fun i => NearI P sg nowYear r0 r hd i ∧ BandI P sg nowYear r0 r i)).card := by
    rw [hnear, nearOf, List.countP_filter, Count.countP_eq_card offs 0, hofflen]
    congr 1
    apply Finset.filter_congr
    intro i hi
    rw [Finset.mem_range] at hi
    rw [hoffi i hi, hmd]
    unfold NearI BandI
    simp only [inBand, Bool.and_eq_true, decide_eq_true_eq]
    rw [show offErr P sg nowYear r0 r i + C - (hd : Rat) = offErr P sg nowYear r0 r i + (C - (hd : Rat)) by ring,
      absR_le_iff (offErr P sg nowYear r0 r i) 2]
    constructor
    · rintro ⟨⟨h1, h2⟩, h3⟩
      exact ⟨h3, by linarith, by linarith⟩
    · rintro ⟨h3, h1, h2⟩
      exact ⟨⟨by linarith, by linarith⟩, h3⟩
  have hmaj' : near.length < 2 * near.countP (inBand (C - 2) (C + 2)) := by rw [hnearlen, hnearband]; exact hcount
  have ht0 := t0_in_band near C 2 hmaj'
  have hfrac : ({} : S2Params).minFrac ≤ (near.length : Rat) / (r.nums.length : Rat) := by
    have hge : near.countP (inBand (C - 2) (C + 2)) ≤ near.length := List.countP_le_length
    have h5 : n < 5 * near.length := by
      rw [hnearband] at hge
      omega
    have h5R : (n : Rat) < 5 * (near.length : Rat) := by exact_mod_cast h5
    have hnR : (0 : Rat) < (n : Rat) := by exact_mod_cast hnpos
    have hmf : ({} : S2Params).minFrac = 1 / 100 := rfl
    rw [hmf, h.nums_eq, le_div_iff₀ hnR]
    linarith
  have hs2 : stage2 {} P sg r.nums (some hd) t1 = .times (List.zipWith (repairLine {} (medianD near)) t1 tn) := by
    unfold stage2
    simp only [hdec, Bool.false_eq_true, if_false]
    rw [if_pos hfrac]
  have hget : getTimes {} P nowYear sg (some hd) r = List.zipWith (repairLine {} (medianD near)) t1 tn := by
    unfold getTimes
    simp only [← ht1, hs2]
  rw [hget]
  refine ⟨by rw [List.length_zipWith, hlen1, htnlen, Nat.min_self], ?_⟩
  intro i hi h1
  rw [List.getElem_zipWith]
  have hspec := repairLine_spec {} (medianD near) C 2 (t1[i]'(by omega)) (tn[i]'(by omega)) ht0
  have hmi : ({} : S2Params).maxDiffIdeal = 10000 := rfl
  rw [hmi] at hspec
  rw [← htni i (by omega) hi]
  rcases hspec.2.1 with hle | hlt
  · linarith
  · linarith

end

/-- **Garbage in the day-of-year and millisecond fields of fewer than 40 % of the lines is repaired**
(scenario `Garbled`; header time within 6 min - 2 ms of the pass offset; line numbers not decreasing for the
signed POD field): `get_times` returns one time per line and every returned time is within 10 s (+ 2 ms) of
the true time `tn + passOffset`. -/
theorem repair_day_ms_garbage (P : Rat) (sg : Bool) (nowYear : Int) (hd : Int) (r0 r : RawTimes) (good : List Bool)
    (h : Garbled P sg nowYear r0 r good)
    (hdec : (sg && decreasing r.nums) = false)
    (hbad : 5 * good.count false < 2 * r0.nums.length)
    (hhead : absR (passOffset P sg r0 - (hd : Rat)) ≤ 360000 - 2) :
    (getTimes {} P nowYear sg (some hd) r).length = r0.nums.length ∧
    ∀ i (hi : i < r0.nums.length) (h1 : i < (getTimes {} P nowYear sg (some hd) r).length),
      absR ((((getTimes {} P nowYear sg (some hd) r)[i] : Int) : Rat)
        - (((lineIdx sg r0.nums[i] : Int) : Rat) * P + passOffset P sg r0)) ≤ 10002 := by
  have ha := good_near_band h.toGarbledAny hd hhead
  have hb : ∀ i, i < r0.nums.length → GoodI good i → ¬ NearI P sg nowYear r0 r hd i →
      ∃ p, i = p + 1 ∧ ¬ GoodI good p ∧ (BandI P sg nowYear r0 r p ∨ ¬ NearI P sg nowYear r0 r hd p) := by
    intro i hi hg hnn
    obtain ⟨p, hip, hng, hlt, hk⟩ := good_lost h.toGarbledAny h.med_int hd hhead i hi hg hnn
    subst hip
    refine ⟨p, rfl, hng, ?_⟩
    rcases line_before_lost h p hi hg hlt hk with hc | hf
    · left; exact (close_near_band hd hhead p hc).2
    · right; exact far_not_near hd hhead p hf
  have hbc := bad_card h.toGarbledAny
  obtain ⟨hcount, hmany⟩ := Count.majority_count r0.nums.length (GoodI good) (NearI P sg nowYear r0 r hd)
    (BandI P sg nowYear r0 r) ha hb (by rw [hbc]; omega)
  rw [hbc] at hmany
  exact finish_from_majority h.toGarbledAny hd hdec hhead hcount (by omega)

/-- **ANY garbage - year, day-of-year and millisecond fields - on fewer than one third of the lines is
repaired** (scenario `GarbledAny`: the corrupt lines carry arbitrary plausible years, arbitrary days, arbitrary
ms values, with no restriction on the ms field's size, on the recorded days or on the length of the pass): every returned time is
within 10 s (+ 2 ms) of the true time.  Nothing is known here about where the corrupt lines end up, so each
may both count against the right ones near the header time and spoil the good line after it: hence one third. -/
theorem repair_any_garbage_third (P : Rat) (sg : Bool) (nowYear : Int) (hd : Int) (r0 r : RawTimes) (good : List Bool)
    (h : GarbledAny P sg nowYear r0 r good)
    (hdec : (sg && decreasing r.nums) = false)
    (hbad : 3 * good.count false < r0.nums.length)
    (hhead : absR (passOffset P sg r0 - (hd : Rat)) ≤ 360000 - 2) :
    (getTimes {} P nowYear sg (some hd) r).length = r0.nums.length ∧
    ∀ i (hi : i < r0.nums.length) (h1 : i < (getTimes {} P nowYear sg (some hd) r).length),
      absR ((((getTimes {} P nowYear sg (some hd) r)[i] : Int) : Rat)
        - (((lineIdx sg r0.nums[i] : Int) : Rat) * P + passOffset P sg r0)) ≤ 10002 := by
  have ha := good_near_band h hd hhead
  have hb : ∀ i, i < r0.nums.length → GoodI good i → ¬ NearI P sg nowYear r0 r hd i →
      ∃ p, i = p + 1 ∧ ¬ GoodI good p := by
    intro i hi hg hnn
    exact good_lost_half h hd hhead i hi hg hnn
  have hbc := bad_card h
  obtain ⟨hcount, hmany⟩ := Count.third_count r0.nums.length (GoodI good) (NearI P sg nowYear r0 r hd)
    (BandI P sg nowYear r0 r) ha hb (by rw [hbc]; omega)
  rw [hbc] at hmany
  exact finish_from_majority h hd hdec hhead hcount (by omega)

end PygacModel.Times

namespace PygacModel.Times
open PygacModel Np

/-! ### an implausible year anywhere: the whole pass is rebuilt from its first line -/

/-- what is needed of the first line and of the lengths -/
structure FirstLineOk (nowYear : Int) (r : RawTimes) : Prop where
  n_pos : 0 < r.nums.length
  len_y : r.year.length = r.nums.length
  len_j : r.jday.length = r.nums.length
  len_m : r.msec.length = r.nums.length
  year0 : 1978 ≤ r.year.headD 0 ∧ r.year.headD 0 ≤ nowYear
  jday0 : 1 ≤ r.jday.headD 0 ∧ r.jday.headD 0 ≤ 366
  msec0 : 1 ≤ r.msec.headD 0

theorem j2_headR_first (nowYear : Int) (r : RawTimes) (h : FirstLineOk nowYear r) :
    headR (j2Of r) = ((r.jday.headD 0 : Int) : Rat) := by
  have hn := h.n_pos
  have hl2 : (j2Of r).length = r.nums.length := by rw [j2Of_length, h.len_j]
  have hl1 : (j1Of r).length = r.nums.length := by rw [j1Of_length, h.len_j]
  have hj : 0 < r.jday.length := by rw [h.len_j]; exact hn
  have hd := headD_eq_getElem r.jday hj
  have hr := h.jday0
  rw [headR_eq_getElem _ (by omega), j2_head r (by omega) (by omega), j1_getElem r 0 (by omega) hj, hd]
  rw [hd] at hr
  rw [if_neg (by omega)]

theorem m2_headR_first (P : Rat) (sg : Bool) (nowYear : Int) (r : RawTimes) (h : FirstLineOk nowYear r) :
    (m2Of P sg r).length = r.nums.length ∧ headR (m2Of P sg r) = ((r.msec.headD 0 : Int) : Rat) := by
  have hn := h.n_pos
  have hl2 : (j2Of r).length = r.nums.length := by rw [j2Of_length, h.len_j]
  have hl1 : (j1Of r).length = r.nums.length := by rw [j1Of_length, h.len_j]
  have hlen : (m2Of P sg r).length = r.nums.length := by
    unfold m2Of
    apply msecFix2_length
    · exact hl1
    · exact hl2
    · exact h.len_m
    · rcases msecFix1_spec P sg r.nums (j2Of r) r.msec h.msec0 with e | e <;> rw [e]
      · simp [h.len_m]
      · exact idealOf_length P sg r.nums (j2Of r) _ hl2
  refine ⟨hlen, ?_⟩
  rw [headR_eq_getElem _ (by omega)]
  have hspec : (m2Of P sg r)[0]'(by omega)
        = (idealOf P sg r.nums (j2Of r) ((r.msec.headD 0 : Int) : Rat))[0]'(by
            rw [idealOf_length P sg r.nums (j2Of r) _ hl2]; exact hn) ∨
      ((m2Of P sg r)[0]'(by omega) = ((r.msec[0]'(by rw [h.len_m]; exact hn) : Int) : Rat) ∧
        ¬ (((((ediffU32 r.msec)[0]'(by simp; rw [h.len_m]; exact hn) : Int) : Rat) < -1000 ∨
            ((((ediffU32 r.msec)[0]'(by simp; rw [h.len_m]; exact hn) : Int) : Rat) > 1000))
          ∧ (ediff (j1Of r))[0]'(by simp; omega) ≠ 1)) := by
    unfold m2Of
    exact msecFix2_spec P sg r.nums (j1Of r) (j2Of r) r.msec h.msec0 hn hl1 hl2 h.len_m 0 hn (by
      have : (m2Of P sg r).length = r.nums.length := hlen
      unfold m2Of at this; omega)
  rcases hspec with e | ⟨e, _⟩
  · rw [e, ← headR_eq_getElem _ (by rw [idealOf_length P sg r.nums (j2Of r) _ hl2]; exact hn),
      idealOf_head P sg r.nums (j2Of r) _ hn hl2]
  · rw [e, headD_eq_getElem r.msec (by rw [h.len_m]; exact hn)]

/-- stage 1 when a year OTHER than the first line's is implausible: every line is rebuilt from the first
line and the line numbers -/
theorem stage1_year_bad (P : Rat) (sg : Bool) (nowYear : Int) (r : RawTimes) (h : FirstLineOk nowYear r)
    (hbad : ∃ y ∈ r.year, y < 1978 ∨ y > nowYear) :
    stage1 P sg nowYear r =
      { year := r.year.map (fun _ => r.year.headD 0),
        jday := (j2Of r).map (fun _ => truncR (headR (j2Of r))),
        msec := (linenoRel P sg r.nums).map (fun l => headR (m2Of P sg r) + l) } := by
  obtain ⟨y, hy, hyb⟩ := hbad
  have hsome : ∃ k, r.year.findIdx? (fun y => decide (y < 1978 ∨ y > nowYear)) = some k := by
    cases hf : r.year.findIdx? (fun y => decide (y < 1978 ∨ y > nowYear)) with
    | some k => exact ⟨k, rfl⟩
    | none =>
      rw [List.findIdx?_eq_none_iff] at hf
      have := hf y hy
      simp at this
      omega
  obtain ⟨k, hk⟩ := hsome
  have hk0 : k ≠ 0 := by
    intro h0
    subst h0
    obtain ⟨hlt, hp, _⟩ := List.findIdx?_eq_some_iff_getElem.mp hk
    have hd := headD_eq_getElem r.year hlt
    have := h.year0
    rw [hd] at this
    simp at hp
    omega
  unfold stage1 m2Of j2Of j1Of
  simp only [hk, hk0, ne_eq, not_false_eq_true, if_true]

/-- **An implausible year on any line other than the first**: whatever ALL the other time fields of the
file contain, `get_times` returns, for every line, the time built from the first line's recorded time and
the line numbers (to within 1 ms) - provided the first line is plausible and the header time lies within
6 min - 2 ms of it. -/
theorem repair_year_out_of_range (P : Rat) (sg : Bool) (nowYear : Int) (hd : Int) (r : RawTimes)
    (h : FirstLineOk nowYear r) (hbad : ∃ y ∈ r.year, y < 1978 ∨ y > nowYear)
    (hdec : (sg && decreasing r.nums) = false)
    (hhead : absR (passOffset P sg r - (hd : Rat)) ≤ 360000 - 2) :
    (getTimes {} P nowYear sg (some hd) r).length = r.nums.length ∧
    ∀ i (hi : i < r.nums.length) (h1 : i < (getTimes {} P nowYear sg (some hd) r).length),
      absR ((((getTimes {} P nowYear sg (some hd) r)[i] : Int) : Rat)
        - (((lineIdx sg r.nums[i] : Int) : Rat) * P + passOffset P sg r)) < 1 := by
  have hn := h.n_pos
  have hl2 : (j2Of r).length = r.nums.length := by rw [j2Of_length, h.len_j]
  obtain ⟨hlm, hm0⟩ := m2_headR_first P sg nowYear r h
  have hj0 := j2_headR_first nowYear r h
  have hst := stage1_year_bad P sg nowYear r h hbad
  set C := passOffset P sg r with hC
  set t1 := s1Instants (stage1 P sg nowYear r) with ht1
  have hlen1 : t1.length = r.nums.length := by
    rw [ht1, hst]
    simp [s1Instants, h.len_y, hl2, linenoRel]
  set tn := tnOf P sg r.nums with htn
  have htnlen : tn.length = r.nums.length := tnOf_length P sg r.nums
  have htni : ∀ i (hi : i < tn.length), tn[i] = ((lineIdx sg (r.nums[i]'(by omega)) : Int) : Rat) * P := by
    intro i hi
    simp only [htn, tnOf, List.getElem_map]
  -- every stage-1 time is the first line's time carried along the line numbers
  have hline : ∀ i (hi : i < r.nums.length), absR (((t1[i]'(by omega) : Int) : Rat) - (tn[i]'(by omega) + C)) < 1 := by
    intro i hi
    have e : t1[i]'(by omega) = instant (r.year.headD 0) (r.jday.headD 0) 0
        + truncR (((r.msec.headD 0 : Int) : Rat) + ((lineIdx sg r.nums[i] - lineIdx sg (r.nums.headD 0) : Int) : Rat) * P) := by
      simp only [ht1, hst, s1Instants, List.getElem_zipWith, List.getElem_zip, List.getElem_map, linenoRel, hj0, hm0,
        truncR_intCast]
    rw [e, htni i (by omega)]
    set x : Rat := ((r.msec.headD 0 : Int) : Rat) + ((lineIdx sg r.nums[i] - lineIdx sg (r.nums.headD 0) : Int) : Rat) * P with hx
    have hc := truncR_close x
    have : ((instant (r.year.headD 0) (r.jday.headD 0) 0 + truncR x : Int) : Rat) - (((lineIdx sg r.nums[i] : Int) : Rat) * P + C)
        = ((truncR x : Int) : Rat) - x := by
      rw [hC, hx]
      unfold passOffset instant msPerDay
      push_cast
      ring
    rw [this]
    exact hc
  set offs := offsetsOf t1 tn with hoffs
  have hofflen : offs.length = r.nums.length := by simp [hoffs, offsetsOf, hlen1, htnlen]
  have hoff : ∀ o ∈ offs, absR (o - C) < 1 := by
    intro o ho
    obtain ⟨i, hi, e⟩ := List.mem_iff_getElem.mp ho
    rw [← e]
    simp only [hoffs, offsetsOf, List.getElem_zipWith]
    have := hline i (by omega)
    rw [show ((t1[i]'(by omega) : Int) : Rat) - tn[i]'(by omega) - C = ((t1[i]'(by omega) : Int) : Rat) - (tn[i]'(by omega) + C) by ring]
    exact this
  rw [absR_le_iff] at hhead
  set near := nearOf {} hd offs with hnear
  have hmd : ({} : S2Params).maxDiffHead = 360000 := rfl
  have hnearall : near = offs := by
    rw [hnear, nearOf, List.filter_eq_self]
    intro o ho
    have := hoff o ho
    rw [absR_lt_iff] at this
    rw [hmd, decide_eq_true_eq, absR_le_iff]
    constructor <;> linarith [this.1, this.2, hhead.1, hhead.2]
  have hband : near.countP (inBand (C - 1) (C + 1)) = near.length := by
    rw [hnearall, List.countP_eq_length]
    intro o ho
    have := hoff o ho
    rw [absR_lt_iff] at this
    simp only [inBand, Bool.and_eq_true, decide_eq_true_eq]
    constructor <;> linarith [this.1, this.2]
  have hnl : near.length = r.nums.length := by rw [hnearall, hofflen]
  have ht0 := t0_in_band near C 1 (by rw [hband]; omega)
  have hfrac : ({} : S2Params).minFrac ≤ (near.length : Rat) / (r.nums.length : Rat) := by
    have hnR : (0 : Rat) < (r.nums.length : Rat) := by exact_mod_cast hn
    have hmf : ({} : S2Params).minFrac = 1 / 100 := rfl
    rw [hmf, hnl, div_self (ne_of_gt hnR)]
    norm_num
  have hs2 : stage2 {} P sg r.nums (some hd) t1 = .times (List.zipWith (repairLine {} (medianD near)) t1 tn) := by
    unfold stage2
    simp only [hdec, Bool.false_eq_true, if_false]
    rw [if_pos hfrac]
  have hget : getTimes {} P nowYear sg (some hd) r = List.zipWith (repairLine {} (medianD near)) t1 tn := by
    unfold getTimes
    simp only [← ht1, hs2]
  rw [hget]
  refine ⟨by rw [List.length_zipWith, hlen1, htnlen, Nat.min_self], ?_⟩
  intro i hi h1
  rw [List.getElem_zipWith]
  have hspec := repairLine_spec {} (medianD near) C 1 (t1[i]'(by omega)) (tn[i]'(by omega)) ht0
  have hmi : ({} : S2Params).maxDiffIdeal = 10000 := rfl
  rw [hmi] at hspec
  have hl := hline i hi
  have hun := hspec.1 (by
    rw [absR_lt_iff] at hl
    rw [absR_le_iff]
    constructor <;> linarith [hl.1, hl.2])
  rw [hun, ← htni i (by omega)]
  exact hl

end PygacModel.Times
