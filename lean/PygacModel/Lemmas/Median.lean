import PygacModel.Model.Np
import Mathlib.Algebra.Order.Field.Rat
import Mathlib.Tactic.Linarith
import Mathlib.Tactic.FieldSimp
import Mathlib.Tactic.Ring
namespace PygacModel.Np

theorem insertR_perm (x : Rat) (l : List Rat) : (insertR x l).Perm (x :: l) := by
  induction l with
  | nil => simp [insertR]
  | cons y ys ih =>
    unfold insertR
    split
    · exact List.Perm.refl _
    · exact (List.Perm.cons y ih).trans (List.Perm.swap x y ys)

theorem sortR_perm (xs : List Rat) : (sortR xs).Perm xs := by
  unfold sortR
  induction xs with
  | nil => simp
  | cons x xs ih => simp only [List.foldr_cons]; exact (insertR_perm x _).trans (List.Perm.cons x ih)

theorem sortR_length (xs : List Rat) : (sortR xs).length = xs.length := (sortR_perm xs).length_eq

theorem insertR_sorted (x : Rat) (l : List Rat) (h : l.Pairwise (fun a b => a ≤ b)) :
    (insertR x l).Pairwise (fun a b => a ≤ b) := by
  induction l with
  | nil => simp [insertR]
  | cons y ys ih =>
    unfold insertR
    rw [List.pairwise_cons] at h
    split
    · rename_i hxy
      rw [List.pairwise_cons]
      refine ⟨?_, List.pairwise_cons.mpr h⟩
      intro z hz
      rcases List.mem_cons.mp hz with rfl | hz
      · exact hxy
      · exact le_trans hxy (h.1 z hz)
    · rename_i hxy
      rw [List.pairwise_cons]
      refine ⟨?_, ih h.2⟩
      intro z hz
      have := (insertR_perm x ys).subset hz
      rcases List.mem_cons.mp this with rfl | hz'
      · exact le_of_lt (not_le.mp hxy)
      · exact h.1 z hz'

theorem sortR_sorted (xs : List Rat) : (sortR xs).Pairwise (fun a b => a ≤ b) := by
  unfold sortR
  induction xs with
  | nil => simp
  | cons x xs ih => simp only [List.foldr_cons]; exact insertR_sorted x _ ih

theorem count_le_of_lt_at {s : List Rat} (hs : s.Pairwise (fun a b => a ≤ b)) (c : Rat) (i : Nat)
    (hi : i < s.length) (hlt : s[i] < c) : s.count c ≤ s.length - (i + 1) := by
  have hsplit : s = s.take (i + 1) ++ s.drop (i + 1) := (List.take_append_drop _ _).symm
  have h0 : (s.take (i + 1)).count c = 0 := by
    rw [List.count_eq_zero]
    intro hmem
    obtain ⟨j, hj, hjc⟩ := List.getElem_of_mem hmem
    rw [List.length_take] at hj
    rw [List.getElem_take] at hjc
    have hji : j ≤ i := by omega
    have hle : s[j] ≤ s[i] := by
      rcases Nat.lt_or_eq_of_le hji with h | h
      · exact (List.pairwise_iff_getElem.mp hs) j i (by omega) hi h
      · subst h; exact le_refl _
    rw [hjc] at hle
    exact absurd (lt_of_le_of_lt hle hlt) (lt_irrefl _)
  calc s.count c = (s.take (i + 1)).count c + (s.drop (i + 1)).count c := by
        conv => lhs; rw [hsplit]
        exact List.count_append
    _ = (s.drop (i + 1)).count c := by rw [h0, Nat.zero_add]
    _ ≤ (s.drop (i + 1)).length := List.count_le_length
    _ = s.length - (i + 1) := List.length_drop

theorem count_le_of_gt_at {s : List Rat} (hs : s.Pairwise (fun a b => a ≤ b)) (c : Rat) (i : Nat)
    (hi : i < s.length) (hgt : c < s[i]) : s.count c ≤ i := by
  have hsplit : s = s.take i ++ s.drop i := (List.take_append_drop _ _).symm
  have h0 : (s.drop i).count c = 0 := by
    rw [List.count_eq_zero]
    intro hmem
    obtain ⟨j, hj, hjc⟩ := List.getElem_of_mem hmem
    rw [List.length_drop] at hj
    rw [List.getElem_drop] at hjc
    have hle : s[i] ≤ s[i + j] := by
      rcases Nat.eq_zero_or_pos j with h | h
      · subst h; simp
      · exact (List.pairwise_iff_getElem.mp hs) i (i + j) hi (by omega) (by omega)
    rw [hjc] at hle
    exact absurd (lt_of_lt_of_le hgt hle) (lt_irrefl _)
  calc s.count c = (s.take i).count c + (s.drop i).count c := by
        conv => lhs; rw [hsplit]
        exact List.count_append
    _ = (s.take i).count c := by rw [h0, Nat.add_zero]
    _ ≤ (s.take i).length := List.count_le_length
    _ ≤ i := by rw [List.length_take]; omega

/-- In a sorted list in which `c` occurs more than half the time, every index in the
middle band `[n - m, m)` holds `c`. -/
theorem sorted_majority_at {s : List Rat} (hs : s.Pairwise (fun a b => a ≤ b)) (c : Rat)
    (i : Nat) (hi : i < s.length) (hlo : s.length - s.count c ≤ i) (hhi : i < s.count c) :
    s[i] = c := by
  rcases lt_trichotomy s[i] c with h | h | h
  · have := count_le_of_lt_at hs c i hi h; omega
  · exact h
  · have := count_le_of_gt_at hs c i hi h; omega

/-- **Median of a majority**: if more than half of the entries equal `c`, the median is `c`. -/
theorem median_of_majority (xs : List Rat) (c : Rat) (h : xs.length < 2 * xs.count c) :
    median xs = some c := by
  have hperm := sortR_perm xs
  have hlen := sortR_length xs
  have hcount : (sortR xs).count c = xs.count c := hperm.count_eq c
  have hsorted := sortR_sorted xs
  have hcl : xs.count c ≤ xs.length := List.count_le_length
  unfold median
  simp only []
  have hn : (sortR xs).length ≠ 0 := by omega
  simp only [hn, if_false]
  by_cases hodd : (sortR xs).length % 2 = 1
  · simp only [hodd, if_true]
    have hi : (sortR xs).length / 2 < (sortR xs).length := by omega
    rw [List.getElem?_eq_getElem hi]
    congr 1
    exact sorted_majority_at hsorted c _ hi (by omega) (by omega)
  · simp only [hodd, if_false]
    have hi1 : (sortR xs).length / 2 - 1 < (sortR xs).length := by omega
    have hi2 : (sortR xs).length / 2 < (sortR xs).length := by omega
    rw [List.getElem?_eq_getElem hi1, List.getElem?_eq_getElem hi2]
    have e1 := sorted_majority_at hsorted c _ hi1 (by omega) (by omega)
    have e2 := sorted_majority_at hsorted c _ hi2 (by omega) (by omega)
    simp only [e1, e2]
    congr 1
    ring

theorem median_replicate (n : Nat) (c : Rat) (hn : 0 < n) : median (List.replicate n c) = some c := by
  apply median_of_majority
  simp [List.count_replicate]; omega

end PygacModel.Np
