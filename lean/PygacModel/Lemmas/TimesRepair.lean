import PygacModel.Lemmas.Times
namespace PygacModel.Times
open PygacModel Np

/-- exact (rational) true time of line `i` of a pass whose first line is intact: `tn_i + passOffset` -/
theorem ideal_instant_identity (P : Rat) (sg : Bool) (nowYear : Int) (r : RawTimes) (hc : Clean nowYear r)
    (hy : ∀ y ∈ r.year, y = r.year.headD 0) (i : Nat) (hi : i < r.nums.length) :
    ((instant (r.year[i]'(by have := hc.len_y; omega)) (r.jday[i]'(by have := hc.len_j; omega)) 0 : Int) : Rat)
      + (idealOfDay P sg r)[i]'(by rw [idealOfDay_length P sg r hc.len_j]; exact hi)
      = ((lineIdx sg r.nums[i] : Int) : Rat) * P + passOffset P sg r := by
  have hjlen : i < r.jday.length := by have := hc.len_j; omega
  have hylen : i < r.year.length := by have := hc.len_y; omega
  have hilen : i < (idealOfDay P sg r).length := by rw [idealOfDay_length P sg r hc.len_j]; exact hi
  have hyc : r.year[i] = r.year.headD 0 := hy _ (List.getElem_mem hylen)
  rw [idealOfDay_getElem P sg r i hi hjlen hilen, hyc]
  unfold passOffset instant msPerDay
  push_cast
  ring

/-- a line is *good* when its recorded time of day agrees (to the ms) with the ideal one -/
def GoodAt (P : Rat) (sg : Bool) (r : RawTimes) (i : Nat) : Prop :=
  ∃ (h1 : i < r.msec.length) (h2 : i < (idealOfDay P sg r).length),
    ((r.msec[i] : Int) : Rat) - 1 < (idealOfDay P sg r)[i] ∧ (idealOfDay P sg r)[i] < ((r.msec[i] : Int) : Rat) + 1

/-- stage 1 on a pass with intact days / years and arbitrary ms fields: a good line comes out within
1 ms of its recorded instant and within 2 ms of its true time -/
theorem s1_good_line (P : Rat) (sg : Bool) (nowYear : Int) (r : RawTimes) (hc : Clean nowYear r)
    (hy : ∀ y ∈ r.year, y = r.year.headD 0) (i : Nat) (hi : i < r.nums.length)
    (hs : i < (s1Instants (stage1 P sg nowYear r)).length) (hr : i < (recorded r).length)
    (hg : GoodAt P sg r i) :
    ((recorded r)[i] - 1 ≤ (s1Instants (stage1 P sg nowYear r))[i] ∧
      (s1Instants (stage1 P sg nowYear r))[i] ≤ (recorded r)[i] + 1) ∧
    absR ((((s1Instants (stage1 P sg nowYear r))[i] : Int) : Rat)
      - (((lineIdx sg r.nums[i] : Int) : Rat) * P + passOffset P sg r)) < 2 := by
  obtain ⟨hl, hspec⟩ := cleanMsec_spec P sg nowYear r hc
  obtain ⟨hm1, hm2, hcons⟩ := hg
  have hjlen : i < r.jday.length := by have := hc.len_j; omega
  have hylen : i < r.year.length := by have := hc.len_y; omega
  have hid := ideal_instant_identity P sg nowYear r hc hy i hi
  rw [s1_clean_getElem P sg nowYear r hc i hi hs]
  have hrec : (recorded r)[i] = instant r.year[i] r.jday[i] 0 + r.msec[i] := by
    simp only [recorded, List.getElem_zipWith, List.getElem_zip]
    exact instant_split _ _ _
  rw [hrec]
  have hq : (r.msec[i] - 1 ≤ truncR (cleanMsec P sg r)[i] ∧ truncR (cleanMsec P sg r)[i] ≤ r.msec[i] + 1) ∧
      absR (((truncR (cleanMsec P sg r)[i] : Int) : Rat) - (idealOfDay P sg r)[i]) < 1 := by
    rcases hspec i hi with e | e
    · rw [e, truncR_intCast]
      refine ⟨⟨by omega, by omega⟩, ?_⟩
      rw [absR_lt_iff]; constructor <;> linarith [hcons.1, hcons.2]
    · rw [e]
      exact ⟨truncR_near_int _ _ hcons.1 hcons.2, truncR_close _⟩
  refine ⟨⟨by omega, by omega⟩, ?_⟩
  have hq2 := hq.2
  rw [absR_lt_iff] at hq2 ⊢
  push_cast
  constructor <;> linarith [hq2.1, hq2.2, hid]

/-- ... and ANY line comes out either within 1 ms of its true time or as its recorded instant -/
theorem s1_any_line (P : Rat) (sg : Bool) (nowYear : Int) (r : RawTimes) (hc : Clean nowYear r)
    (hy : ∀ y ∈ r.year, y = r.year.headD 0) (i : Nat) (hi : i < r.nums.length)
    (hs : i < (s1Instants (stage1 P sg nowYear r)).length) (hr : i < (recorded r).length) :
    absR ((((s1Instants (stage1 P sg nowYear r))[i] : Int) : Rat)
      - (((lineIdx sg r.nums[i] : Int) : Rat) * P + passOffset P sg r)) < 1 ∨
    (s1Instants (stage1 P sg nowYear r))[i] = (recorded r)[i] := by
  obtain ⟨hl, hspec⟩ := cleanMsec_spec P sg nowYear r hc
  have hjlen : i < r.jday.length := by have := hc.len_j; omega
  have hylen : i < r.year.length := by have := hc.len_y; omega
  have hmlen : i < r.msec.length := by have := hc.len_m; omega
  have hid := ideal_instant_identity P sg nowYear r hc hy i hi
  rw [s1_clean_getElem P sg nowYear r hc i hi hs]
  have hrec : (recorded r)[i] = instant r.year[i] r.jday[i] 0 + r.msec[i] := by
    simp only [recorded, List.getElem_zipWith, List.getElem_zip]
    exact instant_split _ _ _
  rcases hspec i hi with e | e
  · right; rw [e, truncR_intCast, hrec]
  · left
    rw [e]
    have := truncR_close ((idealOfDay P sg r)[i]'(by rw [idealOfDay_length P sg r hc.len_j]; exact hi))
    rw [absR_lt_iff] at this ⊢
    push_cast
    constructor <;> linarith [this.1, this.2, hid]

end PygacModel.Times

namespace PygacModel.Times
open PygacModel Np

/-- counting through a zip: entries flagged `true` all satisfy `q`, so at least that many satisfy it -/
theorem count_true_le_countP (xs : List Rat) (good : List Bool) (q : Rat → Bool) (hlen : good.length = xs.length)
    (h : ∀ i (h1 : i < good.length) (h2 : i < xs.length), good[i] = true → q xs[i] = true) :
    good.count true ≤ xs.countP q := by
  induction xs generalizing good with
  | nil =>
    cases good with
    | nil => simp
    | cons g gs => simp at hlen
  | cons x xs ih =>
    cases good with
    | nil => simp at hlen
    | cons g gs =>
      have hrest := ih gs (by simpa using hlen) (by
        intro i h1 h2 hg
        have := h (i + 1) (by simp; omega) (by simp; omega) (by simpa using hg)
        simpa using this)
      have h0 := h 0 (by simp) (by simp)
      simp only [List.getElem_cons_zero] at h0
      rw [List.count_cons, List.countP_cons]
      cases g
      · simp; omega
      · have := h0 rfl
        simp [this]; omega

/-- **Garbage in the millisecond field of fewer than half of the lines is repaired** (days, years,
line numbers, header time and the first line intact; any values whatsoever in the ms field of the
other lines, marked by `good = false`): `get_times` returns one time per line, every returned time
within 10 s (+ 2 ms) of the true time `tn + passOffset`, and every intact line within 1 ms of its
recorded time. -/
theorem repair_ms_garbage (P : Rat) (sg : Bool) (nowYear : Int) (h : Int) (r : RawTimes)
    (hc : Clean nowYear r) (hy : ∀ y ∈ r.year, y = r.year.headD 0)
    (hdec : (sg && decreasing r.nums) = false)
    (good : List Bool) (hglen : good.length = r.nums.length)
    (hgood : ∀ i (hi : i < good.length), good[i] = true → GoodAt P sg r i)
    (hmaj : r.nums.length < 2 * good.count true)
    (hhead : absR (passOffset P sg r - (h : Rat)) ≤ 360000 - 2) :
    (getTimes {} P nowYear sg (some h) r).length = r.nums.length ∧
    ∀ i (hi : i < r.nums.length) (h1 : i < (getTimes {} P nowYear sg (some h) r).length)
      (h2 : i < (recorded r).length) (h3 : i < good.length),
      absR ((((getTimes {} P nowYear sg (some h) r)[i] : Int) : Rat)
        - (((lineIdx sg r.nums[i] : Int) : Rat) * P + passOffset P sg r)) ≤ 10002 ∧
      (good[i] = true → (recorded r)[i] - 1 ≤ (getTimes {} P nowYear sg (some h) r)[i] ∧
        (getTimes {} P nowYear sg (some h) r)[i] ≤ (recorded r)[i] + 1) := by
  have hlen1 := s1_clean_length P sg nowYear r hc
  have hreclen : (recorded r).length = r.nums.length := by
    simp [recorded, hc.len_y, hc.len_j, hc.len_m]
  set t1 := s1Instants (stage1 P sg nowYear r) with ht1
  set tn := tnOf P sg r.nums with htn
  have htnlen : tn.length = r.nums.length := tnOf_length P sg r.nums
  set C := passOffset P sg r with hC
  have htni : ∀ i (hi : i < tn.length) (hi' : i < r.nums.length), tn[i] = ((lineIdx sg r.nums[i] : Int) : Rat) * P := by
    intro i hi hi'
    simp only [htn, tnOf, List.getElem_map]
  -- offsets
  set offs := offsetsOf t1 tn with hoffs
  have hofflen : offs.length = r.nums.length := by
    simp [hoffs, offsetsOf, hlen1, htnlen]
  have hoffi : ∀ i (hi : i < offs.length) (h1 : i < t1.length) (h2 : i < tn.length), offs[i] = ((t1[i] : Int) : Rat) - tn[i] := by
    intro i hi h1 h2
    simp only [hoffs, offsetsOf, List.getElem_zipWith]
  -- good lines: offset within 2 ms of C, hence near the header and in the band
  let q : Rat → Bool := fun o => inBand (C - 2) (C + 2) o && decide (absR (o - (h : Rat)) ≤ ({} : S2Params).maxDiffHead)
  have hq : ∀ i (h1 : i < good.length) (h2 : i < offs.length), good[i] = true → q offs[i] = true := by
    intro i h1 h2 hg
    have hi : i < r.nums.length := by omega
    have hs1 : i < (s1Instants (stage1 P sg nowYear r)).length := by rw [← ht1, hlen1]; exact hi
    have hb := (s1_good_line P sg nowYear r hc hy i hi hs1 (by omega) (hgood i h1 hg)).2
    rw [absR_lt_iff] at hb
    rw [hoffi i h2 (by omega) (by omega), htni i (by omega) hi]
    rw [absR_le_iff] at hhead
    have hmd : ({} : S2Params).maxDiffHead = 360000 := rfl
    simp only [q, inBand, Bool.and_eq_true, decide_eq_true_eq, hmd]
    refine ⟨⟨by linarith [hb.1], by linarith [hb.2]⟩, ?_⟩
    rw [absR_le_iff]
    constructor <;> linarith [hb.1, hb.2, hhead.1, hhead.2]
  have hcount := count_true_le_countP offs good q (by omega) hq
  set near := nearOf {} h offs with hnear
  have hnearband : near.countP (inBand (C - 2) (C + 2)) = offs.countP q := by
    simp only [hnear, nearOf, List.countP_filter, q]
  have hnearlen : near.length ≤ r.nums.length := by
    rw [← hofflen, hnear, nearOf]; exact List.length_filter_le _ _
  have hmaj' : near.length < 2 * near.countP (inBand (C - 2) (C + 2)) := by
    rw [hnearband]; omega
  have ht0 := t0_in_band near C 2 hmaj'
  have hnpos : 0 < r.nums.length := hc.n_pos
  have hfrac : ({} : S2Params).minFrac ≤ (near.length : Rat) / (r.nums.length : Rat) := by
    have hge : near.countP (inBand (C - 2) (C + 2)) ≤ near.length := List.countP_le_length
    have : (r.nums.length : Rat) < 2 * (near.length : Rat) := by
      have : r.nums.length < 2 * near.length := by omega
      exact_mod_cast this
    have hn : (0 : Rat) < (r.nums.length : Rat) := by exact_mod_cast hnpos
    have hmf : ({} : S2Params).minFrac = 1 / 100 := rfl
    rw [hmf, le_div_iff₀ hn]
    linarith
  -- stage 2 proceeds
  have hs2 : stage2 {} P sg r.nums (some h) t1 = .times (List.zipWith (repairLine {} (medianD near)) t1 tn) := by
    unfold stage2
    simp only [hdec, Bool.false_eq_true, if_false]
    rw [if_pos hfrac]
  have hget : getTimes {} P nowYear sg (some h) r = List.zipWith (repairLine {} (medianD near)) t1 tn := by
    unfold getTimes
    simp only [← ht1, hs2]
  rw [hget]
  refine ⟨by simp [hlen1, htnlen], ?_⟩
  intro i hi h1 h2 h3
  rw [List.getElem_zipWith]
  have hs1 : i < (s1Instants (stage1 P sg nowYear r)).length := by rw [← ht1, hlen1]; exact hi
  have hspec := repairLine_spec {} (medianD near) C 2 (t1[i]'(by omega)) (tn[i]'(by omega)) ht0
  have hmi : ({} : S2Params).maxDiffIdeal = 10000 := rfl
  rw [hmi] at hspec
  have e := htni i (by omega) hi
  rw [← e]
  constructor
  · rcases hspec.2.1 with hle | hlt
    · linarith
    · linarith
  · intro hg
    have hgl := s1_good_line P sg nowYear r hc hy i hi hs1 h2 (hgood i h3 hg)
    have hunch := hspec.1 (by
      have hb := hgl.2
      rw [absR_lt_iff] at hb
      rw [absR_le_iff, e]
      constructor <;> linarith [hb.1, hb.2])
    rw [hunch]
    exact hgl.1

end PygacModel.Times
