import PygacModel.Model.Solar
import PygacModel.Lemmas.ClockDrift
namespace PygacModel.Solar
open PygacModel Np

/-- decidable side condition on a coefficient row under which the slope quadratic is positive on
the first ten years: concave rows are checked at the end point, convex rows by their linear part -/
def rowOkB (r : Row) : Bool :=
  decide (0 ≤ r.s0) &&
  (if r.s2 ≤ 0 then decide (0 < 100 + 10 * r.s1 + 100 * r.s2)
   else (decide (0 ≤ r.s1) || decide (0 < 100 + 10 * r.s1)))

theorem quad_pos (r : Row) (t : Rat) (h0 : 0 ≤ t) (h10 : t ≤ 10) (hr : rowOkB r = true) : 0 < quad r t := by
  unfold rowOkB at hr
  simp only [Bool.and_eq_true, decide_eq_true_eq] at hr
  obtain ⟨_, hr⟩ := hr
  unfold quad
  split at hr
  · rename_i hs2
    have hq : 0 < 100 + 10 * r.s1 + 100 * r.s2 := by simpa using hr
    -- q(t) = (10-t)/10*100 + t/10*q(10) + s2*t*(t-10)
    have hcurv : 0 ≤ r.s2 * t * (t - 10) := by
      have : r.s2 * t ≤ 0 := mul_nonpos_of_nonpos_of_nonneg hs2 h0
      exact mul_nonneg_of_nonpos_of_nonpos this (by linarith)
    have hid : 100 + r.s1 * t + r.s2 * t * t
        = (10 - t) / 10 * 100 + t / 10 * (100 + 10 * r.s1 + 100 * r.s2) + r.s2 * t * (t - 10) := by ring
    rw [hid]
    have h1 : 0 ≤ (10 - t) / 10 * 100 := by
      apply mul_nonneg _ (by norm_num)
      apply div_nonneg (by linarith) (by norm_num)
    have h2 : 0 ≤ t / 10 * (100 + 10 * r.s1 + 100 * r.s2) :=
      mul_nonneg (div_nonneg h0 (by norm_num)) (le_of_lt hq)
    by_cases ht : t ≤ 5
    · have : 50 ≤ (10 - t) / 10 * 100 := by linarith
      linarith
    · have ht' : 5 < t := not_le.mp ht
      have : (1 / 2) * (100 + 10 * r.s1 + 100 * r.s2) ≤ t / 10 * (100 + 10 * r.s1 + 100 * r.s2) := by
        apply mul_le_mul_of_nonneg_right _ (le_of_lt hq)
        linarith
      linarith
  · rename_i hs2
    have hs2' : 0 < r.s2 := not_le.mp hs2
    have hsq : 0 ≤ r.s2 * t * t := by
      have : 0 ≤ r.s2 * t := mul_nonneg (le_of_lt hs2') h0
      exact mul_nonneg this h0
    simp only [Bool.or_eq_true, decide_eq_true_eq] at hr
    rcases hr with hs1 | hs1
    · have : 0 ≤ r.s1 * t := mul_nonneg hs1 h0
      linarith
    · by_cases hneg : 0 ≤ r.s1
      · have : 0 ≤ r.s1 * t := mul_nonneg hneg h0
        linarith
      · have hneg' : r.s1 < 0 := not_le.mp hneg
        have : 10 * r.s1 ≤ r.s1 * t := by nlinarith
        linarith

theorem roundHalfEven_nonneg (x : Rat) (h : 0 ≤ x) : 0 ≤ roundHalfEven x := by
  have hf : 0 ≤ x.floor := by
    have : ((0 : Int) : Rat) ≤ x := by simpa using h
    exact Int.le_floor.mpr this
  unfold roundHalfEven
  simp only
  split
  · exact hf
  · split
    · omega
    · split <;> omega

theorem round3_nonneg (x : Rat) (h : 0 ≤ x) : 0 ≤ round3 x := by
  unfold round3
  have : 0 ≤ roundHalfEven (x * 1000) := roundHalfEven_nonneg _ (by linarith)
  have : (0 : Rat) ≤ (roundHalfEven (x * 1000) : Rat) := by exact_mod_cast this
  apply div_nonneg this (by norm_num)

theorem gains_nonneg (single : Bool) (chan : Nat) : 0 ≤ (gains single chan).1 ∧ 0 ≤ (gains single chan).2 := by
  unfold gains
  split
  · simp
  · split <;> constructor <;> norm_num

/-- slopes are non-negative during the first ten years for an admissible row -/
theorem slope_nonneg (r : Row) (g t : Rat) (hg : 0 ≤ g) (h0 : 0 ≤ t) (h10 : t ≤ 10) (hr : rowOkB r = true) :
    0 ≤ slope r g t := by
  have hq := quad_pos r t h0 h10 hr
  have hs0 : 0 ≤ r.s0 := by
    unfold rowOkB at hr
    simp only [Bool.and_eq_true, decide_eq_true_eq] at hr
    exact hr.1
  unfold slope
  apply div_nonneg _ (by norm_num)
  exact mul_nonneg (round3_nonneg _ (mul_nonneg hg hs0)) (le_of_lt hq)

/-- a piecewise-linear map with non-negative slopes on both sides of the switch is non-decreasing -/
theorem piecewise_mono (d b stl sth c1 c2 : Rat) (hl : 0 ≤ stl) (hh : 0 ≤ sth) (h : c1 ≤ c2) :
    (if c1 ≤ b then (c1 - d) * stl else (b - d) * stl + (c1 - b) * sth)
      ≤ (if c2 ≤ b then (c2 - d) * stl else (b - d) * stl + (c2 - b) * sth) := by
  by_cases h1 : c1 ≤ b <;> by_cases h2 : c2 ≤ b <;> simp only [h1, h2, if_true, if_false]
  · nlinarith
  · have h2' : b < c2 := not_le.mp h2
    nlinarith
  · have h1' : b < c1 := not_le.mp h1
    linarith
  · nlinarith

end PygacModel.Solar
