import PygacModel.Model.ClockDrift
import PygacModel.Lemmas.Times
namespace PygacModel.Drift
open PygacModel Np

theorem foldl_min_le (xs : List Int) (a : Int) :
    xs.foldl (fun a b => if b < a then b else a) a ≤ a ∧
    ∀ x ∈ xs, xs.foldl (fun a b => if b < a then b else a) a ≤ x := by
  induction xs generalizing a with
  | nil => simp
  | cons y ys ih =>
    simp only [List.foldl_cons]
    have key : (if y < a then y else a) ≤ a ∧ (if y < a then y else a) ≤ y := by split <;> omega
    obtain ⟨h1, h2⟩ := ih (if y < a then y else a)
    constructor
    · exact le_trans h1 key.1
    · intro x hx
      rcases List.mem_cons.mp hx with rfl | hx
      · exact le_trans h1 key.2
      · exact h2 x hx

theorem minL_le (xs : List Int) : ∀ x ∈ xs, minL xs ≤ x := by
  cases xs with
  | nil => simp
  | cons a as =>
    intro x hx
    have := foldl_min_le as a
    rcases List.mem_cons.mp hx with rfl | hx
    · exact this.1
    · exact this.2 x hx

theorem foldl_max_ge (xs : List Int) (a : Int) :
    a ≤ xs.foldl (fun a b => if a < b then b else a) a ∧
    ∀ x ∈ xs, x ≤ xs.foldl (fun a b => if a < b then b else a) a := by
  induction xs generalizing a with
  | nil => simp
  | cons y ys ih =>
    simp only [List.foldl_cons]
    have key : a ≤ (if a < y then y else a) ∧ y ≤ (if a < y then y else a) := by split <;> omega
    obtain ⟨h1, h2⟩ := ih (if a < y then y else a)
    constructor
    · exact le_trans key.1 h1
    · intro x hx
      rcases List.mem_cons.mp hx with rfl | hx
      · exact le_trans key.2 h1
      · exact h2 x hx

theorem maxL_ge (xs : List Int) : ∀ x ∈ xs, x ≤ maxL xs := by
  cases xs with
  | nil => simp
  | cons a as =>
    intro x hx
    have := foldl_max_ge as a
    rcases List.mem_cons.mp hx with rfl | hx
    · exact this.1
    · exact this.2 x hx

theorem mem_rangeFrom (lo : Int) (n : Nat) (k : Int) : k ∈ rangeFrom lo n ↔ lo ≤ k ∧ k < lo + n := by
  induction n generalizing lo with
  | zero => simp [rangeFrom]
  | succ n ih =>
    simp only [rangeFrom, List.mem_cons, ih]
    constructor
    · rintro (rfl | ⟨h1, h2⟩)
      · omega
      · push_cast; omega
    · rintro ⟨h1, h2⟩
      by_cases h : k = lo
      · left; exact h
      · right; push_cast at h2; omega

/-- every line of the covered range is either in the file or among the recomputed ones -/
theorem covered (P : Rat) (nums : List Int) (errs : List Rat) (t0 : Int) (k : Int)
    (h1 : (plan P nums errs t0).minLine ≤ k) (h2 : k ≤ (plan P nums errs t0).maxLine) :
    k ∈ nums ∨ k ∈ (plan P nums errs t0).missed := by
  by_cases hk : k ∈ nums
  · left; exact hk
  · right
    simp only [plan] at h1 h2 ⊢
    rw [List.mem_filter]
    refine ⟨?_, by simpa using hk⟩
    rw [mem_rangeFrom]
    constructor
    · exact h1
    · have : ((max (maxL nums) (maxL (List.map Rat.floor (List.zipWith (fun (n : Int) (e : Rat) => (n : Rat) - e / scanRateSec P) nums errs)) + 1)
          - min (minL nums) (minL (List.map Rat.floor (List.zipWith (fun (n : Int) (e : Rat) => (n : Rat) - e / scanRateSec P) nums errs))) + 1).toNat : Int)
          = max (maxL nums) (maxL (List.map Rat.floor (List.zipWith (fun (n : Int) (e : Rat) => (n : Rat) - e / scanRateSec P) nums errs)) + 1)
          - min (minL nums) (minL (List.map Rat.floor (List.zipWith (fun (n : Int) (e : Rat) => (n : Rat) - e / scanRateSec P) nums errs))) + 1 := by
        apply Int.toNat_of_nonneg
        omega
      rw [this]
      omega

/-- **No unfilled row is ever read**: both rows used for a line's great-circle interpolation
(`floor` and `floor + 1` of its fractional line number) lie inside the covered range and are lines of
the file or recomputed lines. -/
theorem lookups_in_range_and_filled (P : Rat) (nums : List Int) (errs : List Rat) (t0 : Int) :
    ∀ f ∈ (plan P nums errs t0).floorL,
      (plan P nums errs t0).minLine ≤ f ∧ f + 1 ≤ (plan P nums errs t0).maxLine ∧
      (f ∈ nums ∨ f ∈ (plan P nums errs t0).missed) ∧ (f + 1 ∈ nums ∨ f + 1 ∈ (plan P nums errs t0).missed) := by
  intro f hf
  have hmin : (plan P nums errs t0).minLine ≤ f := by
    have := minL_le (plan P nums errs t0).floorL f hf
    simp only [plan] at this ⊢
    omega
  have hmax : f + 1 ≤ (plan P nums errs t0).maxLine := by
    have := maxL_ge (plan P nums errs t0).floorL f hf
    simp only [plan] at this ⊢
    omega
  exact ⟨hmin, hmax, covered P nums errs t0 f hmin (by omega), covered P nums errs t0 (f + 1) (by omega) hmax⟩

/-- the recomputed lines are exactly the lines of the range that the file lacks -/
theorem missed_spec (P : Rat) (nums : List Int) (errs : List Rat) (t0 : Int) (k : Int) :
    k ∈ (plan P nums errs t0).missed → k ∉ nums ∧ (plan P nums errs t0).minLine ≤ k := by
  intro h
  simp only [plan, List.mem_filter, mem_rangeFrom] at h ⊢
  exact ⟨by simpa using h.2, h.1.1⟩

/-- the interpolation parameter is the fractional part of the shifted line number -/
theorem weight_range (P : Rat) (nums : List Int) (errs : List Rat) (t0 : Int) :
    ∀ w ∈ (plan P nums errs t0).weight, 0 ≤ w ∧ w < 1 := by
  intro w hw
  simp only [plan] at hw
  obtain ⟨i, hi, rfl⟩ := List.getElem_of_mem hw
  have hn : i < nums.length := by simp at hi; omega
  have he : i < errs.length := by simp at hi; omega
  simp only [List.getElem_zipWith, List.getElem_map]
  exact ⟨by linarith [Times.floor_le' ((nums[i] : Rat) - errs[i] / scanRateSec P)],
         by linarith [Times.lt_floor_add_one' ((nums[i] : Rat) - errs[i] / scanRateSec P)]⟩

/-- **Zero clock error is the identity** on the plan: every line is looked up at its own row with
weight 0 and its time is not shifted. -/
theorem zero_error_plan (P : Rat) (nums : List Int) (t0 : Int) (ts : List Int) (hl : ts.length = nums.length) :
    let p := plan P nums (nums.map (fun _ => (0 : Rat))) t0
    p.floorL = nums ∧ (∀ w ∈ p.weight, w = 0) ∧ shiftTimes ts p = ts := by
  have hs : List.zipWith (fun (n : Int) (e : Rat) => (n : Rat) - e / scanRateSec P) nums (nums.map (fun _ => (0 : Rat)))
      = nums.map (fun (n : Int) => (n : Rat)) := by
    rw [List.zipWith_map_right]
    induction nums with
    | nil => rfl
    | cons a as ih => simp [List.zipWith]
  have hf : (nums.map (fun (n : Int) => (n : Rat))).map Rat.floor = nums := by
    rw [List.map_map]
    conv => rhs; rw [← List.map_id nums]
    apply List.map_congr_left
    intro a _
    show ⌊((a : Int) : Rat)⌋ = a
    exact Int.floor_intCast a
  simp only [plan, hs, hf]
  refine ⟨trivial, ?_, ?_⟩
  · intro w hw
    obtain ⟨i, hi, rfl⟩ := List.getElem_of_mem hw
    simp
  · unfold shiftTimes
    simp only [List.map_map]
    apply List.ext_getElem
    · simp [hl]
    · intro i h1 h2
      have : truncR 0 = 0 := by decide +kernel
      simp [this]

theorem roundHalfEven_close (x : Rat) : absR ((roundHalfEven x : Rat) - x) ≤ 1 / 2 := by
  rw [Times.absR_le_iff]
  unfold roundHalfEven
  have h1 := Times.floor_le' x
  have h2 := Times.lt_floor_add_one' x
  simp only
  split
  · constructor <;> linarith
  · split
    · push_cast; constructor <;> linarith
    · rename_i ha hb
      have : x - (x.floor : Rat) = 1 / 2 := le_antisymm (not_lt.mp hb) (not_lt.mp ha)
      split
      · constructor <;> linarith
      · push_cast; constructor <;> linarith

/-- nominal times of the recomputed lines: within half a microsecond per line of
`t0 + (m - n0) * P` -/
theorem missed_times_nominal (P : Rat) (nums : List Int) (errs : List Rat) (t0 : Int) (m : Int) :
    absR (((t0 : Rat) + ((m - nums.headD 0 : Int) : Rat) * (scanRateUs P : Rat) / 1000)
        - ((t0 : Rat) + ((m - nums.headD 0 : Int) : Rat) * P))
      ≤ absR ((m - nums.headD 0 : Int) : Rat) / 2000 := by
  have h := roundHalfEven_close (P * 1000)
  rw [Times.absR_le_iff] at h
  have e : ((t0 : Rat) + ((m - nums.headD 0 : Int) : Rat) * (scanRateUs P : Rat) / 1000)
        - ((t0 : Rat) + ((m - nums.headD 0 : Int) : Rat) * P)
      = ((m - nums.headD 0 : Int) : Rat) * (((scanRateUs P : Rat) - P * 1000) / 1000) := by ring
  rw [e]
  unfold scanRateUs
  set d : Rat := ((m - nums.headD 0 : Int) : Rat)
  set q : Rat := ((roundHalfEven (P * 1000) : Rat) - P * 1000) / 1000
  have hq : -(1/2000) ≤ q ∧ q ≤ 1/2000 := by
    constructor <;> (simp only [q]; linarith [h.1, h.2])
  rw [Times.absR_le_iff]
  unfold absR
  split
  · rename_i hd
    constructor <;> nlinarith [hq.1, hq.2]
  · rename_i hd
    have hd' : 0 ≤ d := not_lt.mp hd
    constructor <;> nlinarith [hq.1, hq.2]

end PygacModel.Drift
