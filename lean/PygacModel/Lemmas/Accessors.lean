import PygacModel.Model.Accessors
namespace PygacModel.Acc

/-- invariant of every reachable reader state -/
structure Inv (c : Cfg) (s : St) : Prop where
  done : s.lonlat = true → s.times = some c.final ∧ s.mdata = some c.final ∧
    s.driftRuns = (if c.applies then 1 else 0)
  fresh : s.lonlat = false → s.mdata = none ∧ s.driftRuns = 0 ∧ (s.times = none ∨ s.times = some .pre)

theorem inv_init (c : Cfg) : Inv c {} := ⟨by simp, by simp⟩

theorem doTimes_fst_lonlat (s : St) : (doTimes s).1.lonlat = s.lonlat := by
  unfold doTimes; split <;> rfl

theorem inv_doTimes (c : Cfg) (s : St) (h : Inv c s) : Inv c (doTimes s).1 := by
  unfold doTimes
  split
  · exact h
  · rename_i hn
    constructor
    · intro hl
      have := (h.done hl).1
      simp [hn] at this
    · intro hl
      have := h.fresh hl
      exact ⟨this.1, this.2.1, Or.inr rfl⟩

theorem doTimes_snd (c : Cfg) (s : St) (h : Inv c s) :
    (doTimes s).2 = if s.lonlat then c.final else .pre := by
  unfold doTimes
  cases hl : s.lonlat
  · rcases (h.fresh hl).2.2 with e | e <;> simp [e]
  · simp [(h.done hl).1]

theorem doLonLat_lonlat (c : Cfg) (s : St) : (doLonLat c s).lonlat = true := by
  unfold doLonLat
  split
  · assumption
  · rfl

theorem inv_doLonLat (c : Cfg) (s : St) (h : Inv c s) : Inv c (doLonLat c s) := by
  unfold doLonLat
  split
  · exact h
  · rename_i hl
    have hl' : s.lonlat = false := by simpa using hl
    have hf := h.fresh hl'
    have h1 := inv_doTimes c s h
    have hl1 : (doTimes s).1.lonlat = false := by rw [doTimes_fst_lonlat]; exact hl'
    have hf1 := h1.fresh hl1
    have ht1 : (doTimes s).1.times = some .pre := by
      unfold doTimes
      rcases hf.2.2 with e | e <;> simp [e]
    constructor
    · intro _
      cases ha : c.applies <;> simp [ha, Cfg.final, hf1.1, hf1.2.1, ht1]
    · intro hcontra
      simp at hcontra

theorem curTimes_done (c : Cfg) (s : St) (h : Inv c s) (hl : s.lonlat = true) : curTimes s = c.final := by
  unfold curTimes; rw [(h.done hl).1]; rfl

/-- the history-independent value of every accessor other than `get_times` / `meta_data` -/
def specOut (c : Cfg) : Op → Out
  | .getLonLat => .lonlat c.final
  | .getMask => .mask
  | .getQualFlags => .qual
  | .getCounts => .counts
  | .getTelemetry => .tele
  | .dataset => .dataset c.final c.final c.final
  | .calibrated => .calibrated c.final c.final c.final
  | .angles => .angles c.final c.final
  | .getTimes => .times c.final
  | .readMeta => .metaOut (some c.final)
  | .save => .saved c.final

theorem doDataset_spec (c : Cfg) (s : St) (h : Inv c s) :
    Inv c (doDataset c s).1 ∧ (doDataset c s).1.lonlat = true ∧ (doDataset c s).2 = .dataset c.final c.final c.final := by
  have h1 := inv_doLonLat c s h
  have hl1 := doLonLat_lonlat c s
  have h2 := inv_doTimes c _ h1
  have hl2 : (doTimes (doLonLat c s)).1.lonlat = true := by rw [doTimes_fst_lonlat]; exact hl1
  have ht := doTimes_snd c _ h1
  rw [hl1] at ht
  simp only [if_true] at ht
  have hc := curTimes_done c _ h2 hl2
  unfold doDataset
  simp only
  exact ⟨h2, hl2, by rw [ht, hc]⟩

theorem inv_step (c : Cfg) (s : St) (op : Op) (h : Inv c s) : Inv c (step c s op).1 := by
  cases op
  case getTimes => exact inv_doTimes c s h
  case getLonLat => exact inv_doLonLat c s h
  case getMask => exact ⟨h.done, h.fresh⟩
  case getQualFlags => exact h
  case getCounts => exact h
  case getTelemetry => exact h
  case dataset => exact (doDataset_spec c s h).1
  case calibrated =>
    have := doDataset_spec c s h
    simp only [step]
    rw [show doDataset c s = ((doDataset c s).1, (doDataset c s).2) from rfl, this.2.2]
    exact ⟨this.1.done, this.1.fresh⟩
  case angles =>
    exact inv_doLonLat c _ (inv_doTimes c s h)
  case readMeta => exact h
  case save =>
    have := doDataset_spec c s h
    exact ⟨this.1.done, this.1.fresh⟩

theorem inv_run (c : Cfg) (s : St) (ops : List Op) (h : Inv c s) : Inv c (run c s ops) := by
  induction ops generalizing s with
  | nil => exact h
  | cons op ops ih => exact ih _ (inv_step c s op h)

/-- every accessor other than `get_times` and `meta_data` returns its specification value in every
reachable state -/
theorem step_out_spec (c : Cfg) (s : St) (op : Op) (h : Inv c s) (h1 : op ≠ .getTimes) (h2 : op ≠ .readMeta) :
    (step c s op).2 = specOut c op := by
  cases op
  case getTimes => exact absurd rfl h1
  case readMeta => exact absurd rfl h2
  case getLonLat =>
    simp only [step, specOut]
    rw [curTimes_done c _ (inv_doLonLat c s h) (doLonLat_lonlat c s)]
  case getMask => rfl
  case getQualFlags => rfl
  case getCounts => rfl
  case getTelemetry => rfl
  case dataset => exact (doDataset_spec c s h).2.2
  case calibrated =>
    have := doDataset_spec c s h
    simp only [step, specOut]
    rw [show doDataset c s = ((doDataset c s).1, (doDataset c s).2) from rfl, this.2.2]
    simp only
    have hc := curTimes_done c _ this.1 this.2.1
    unfold curTimes at hc ⊢
    simp only [hc]
  case angles =>
    simp only [step, specOut]
    rw [curTimes_done c _ (inv_doLonLat c _ (inv_doTimes c s h)) (doLonLat_lonlat c _)]
  case save =>
    have := doDataset_spec c s h
    simp only [step, specOut]
    rw [curTimes_done c _ this.1 this.2.1]

/-- whether coordinates are cached after a history -/
theorem step_lonlat (c : Cfg) (s : St) (op : Op) :
    (step c s op).1.lonlat = (s.lonlat || computesCoords op) := by
  cases op <;> simp [step, computesCoords, doTimes_fst_lonlat, doLonLat_lonlat]
  case dataset =>
    unfold doDataset; simp [doTimes_fst_lonlat, doLonLat_lonlat]
  case calibrated =>
    unfold doDataset; simp [doTimes_fst_lonlat, doLonLat_lonlat]
  case save =>
    unfold doDataset; simp [doTimes_fst_lonlat, doLonLat_lonlat]

theorem run_lonlat (c : Cfg) (s : St) (ops : List Op) :
    (run c s ops).lonlat = (s.lonlat || ops.any computesCoords) := by
  induction ops generalizing s with
  | nil => simp [run]
  | cons op ops ih =>
    simp only [run, ih, step_lonlat, List.any_cons, Bool.or_assoc]

end PygacModel.Acc
