import PygacModel.Lemmas.ThermalDiscrete
import PygacModel.Lemmas.MedianBand
import Mathlib.Tactic.IntervalCases
namespace PygacModel.Thermal
open PygacModel Np

/-- a clean PRT cycle: lines congruent to the reset line `ρ` (mod 5) carry the reset marker
(0 ≤ reading ≤ β < 50), all other lines a thermometer reading in [50, 1023] -/
def CleanCycle (nums : List Int) (prt : List Rat) (ρ : Int) (β : Rat) : Prop :=
  ∀ p ∈ List.zip nums prt, if (p.1 - ρ) % 5 = 0 then 0 ≤ p.2 ∧ p.2 ≤ β else 50 ≤ p.2 ∧ p.2 ≤ 1023

theorem classReadings_mem (nums : List Int) (prt : List Rat) (k : Nat) (x : Rat)
    (hx : x ∈ classReadings nums prt k) :
    ∃ n, (n, x) ∈ List.zip nums prt ∧ (n - nums.headD 0) % 5 = (k : Int) := by
  unfold classReadings at hx
  rw [List.mem_map] at hx
  obtain ⟨p, hp, rfl⟩ := hx
  rw [List.mem_filter] at hp
  exact ⟨p.1, hp.1, by simpa using hp.2⟩

theorem median_lt_of_reset (nums : List Int) (prt : List Rat) (ρ : Int) (β : Rat) (k : Nat)
    (hc : CleanCycle nums prt ρ β) (hβ : β < 50) (hk : ((ρ - nums.headD 0) % 5) = (k : Int))
    (hne : classReadings nums prt k ≠ []) :
    ∃ m, median (classReadings nums prt k) = some m ∧ m < 50 := by
  obtain ⟨m, hm, _, h2⟩ := median_band_all (classReadings nums prt k) 0 β hne (by
    intro x hx
    obtain ⟨n, hmem, hres⟩ := classReadings_mem nums prt k x hx
    have := hc (n, x) hmem
    have h0 : (n - ρ) % 5 = 0 := by omega
    simpa [h0] using this)
  exact ⟨m, hm, lt_of_le_of_lt h2 hβ⟩

theorem median_ge_of_thermometer (nums : List Int) (prt : List Rat) (ρ : Int) (β : Rat) (k : Nat)
    (hc : CleanCycle nums prt ρ β) (hk : ((ρ - nums.headD 0) % 5) ≠ (k : Int)) (hk5 : k < 5)
    (hne : classReadings nums prt k ≠ []) :
    ∃ m, median (classReadings nums prt k) = some m ∧ ¬ m < 50 := by
  obtain ⟨m, hm, h1, _⟩ := median_band_all (classReadings nums prt k) 50 1023 hne (by
    intro x hx
    obtain ⟨n, hmem, hres⟩ := classReadings_mem nums prt k x hx
    have := hc (n, x) hmem
    have h0 : (n - ρ) % 5 ≠ 0 := by omega
    simpa [h0] using this)
  exact ⟨m, hm, not_lt.mpr h1⟩

/-- **The cycle phase is inferred from the data**: on a clean cycle in which every residue class
occurs, the search finds exactly the residue class of the reset lines. -/
theorem findOffset_clean (nums : List Int) (prt : List Rat) (ρ : Int) (β : Rat)
    (hc : CleanCycle nums prt ρ β) (hβ : β < 50) (hne : ∀ k, k < 5 → classReadings nums prt k ≠ []) :
    findOffset nums prt = some ((ρ - nums.headD 0) % 5).toNat := by
  have hr0 : 0 ≤ (ρ - nums.headD 0) % 5 := Int.emod_nonneg _ (by decide)
  have hr5 : (ρ - nums.headD 0) % 5 < 5 := Int.emod_lt_of_pos _ (by decide)
  obtain ⟨k0, hk05, hk0', hke⟩ : ∃ k0 : Nat, k0 < 5 ∧ ((ρ - nums.headD 0) % 5) = (k0 : Int) ∧
      ((ρ - nums.headD 0) % 5).toNat = k0 := ⟨((ρ - nums.headD 0) % 5).toNat, by omega, by omega, rfl⟩
  rw [hke]
  -- truth value of the search predicate for each class
  have hp : ∀ k, k < 5 → ((match median (classReadings nums prt k) with
      | some m => decide (m < prtThreshold) | none => false) = true ↔ k = k0) := by
    intro k hk
    by_cases hkk : k = k0
    · subst hkk
      obtain ⟨m, hm, hlt⟩ := median_lt_of_reset nums prt ρ β k hc hβ hk0' (hne k hk)
      simp [hm, prtThreshold, hlt]
    · have hne' : ((ρ - nums.headD 0) % 5) ≠ (k : Int) := by omega
      obtain ⟨m, hm, hge⟩ := median_ge_of_thermometer nums prt ρ β k hc hne' hk (hne k hk)
      simp [hm, prtThreshold, hge, hkk]
  unfold findOffset
  generalize hq : (fun k => match median (classReadings nums prt k) with
      | some m => decide (m < prtThreshold) | none => false) = q at hp ⊢
  have hp' : ∀ k, k < 5 → (q k = true ↔ k = k0) := by
    intro k hk; have := hp k hk; rw [← hq]; exact this
  have hrange : List.range 5 = [0, 1, 2, 3, 4] := by decide
  rw [hrange]
  have hd : ∀ k, k < 5 → q k = decide (k = k0) := by
    intro k hk
    have := hp' k hk
    by_cases hkk : k = k0
    · rw [this.mpr hkk]; simp [hkk]
    · have hf : q k = false := by
        cases hqk : q k
        · rfl
        · exact absurd (this.mp hqk) hkk
      rw [hf]; simp [hkk]
  simp only [List.find?, hd 0 (by omega), hd 1 (by omega), hd 2 (by omega), hd 3 (by omega), hd 4 (by omega)]
  interval_cases k0 <;> simp

theorem mem_zip_drop {α β : Type} (k : Nat) (l1 : List α) (l2 : List β) (p : α × β)
    (h : p ∈ List.zip (l1.drop k) (l2.drop k)) : p ∈ List.zip l1 l2 := by
  have : List.zip (l1.drop k) (l2.drop k) = (List.zip l1 l2).drop k := by
    simp only [List.zip]
    exact (List.drop_zipWith).symm
  rw [this] at h
  exact List.mem_of_mem_drop h

/-- **Phase freedom**: dropping the first `k` lines of a pass with a clean cycle leaves the
thermometer index of every remaining line unchanged (each pass locating the cycle by itself). -/
theorem phase_free (nums : List Int) (prt : List Rat) (ρ : Int) (β : Rat) (k : Nat)
    (hc : CleanCycle nums prt ρ β) (hβ : β < 50)
    (hne : ∀ j, j < 5 → classReadings nums prt j ≠ [])
    (hne' : ∀ j, j < 5 → classReadings (nums.drop k) (prt.drop k) j ≠ []) :
    ∃ off off', findOffset nums prt = some off ∧ findOffset (nums.drop k) (prt.drop k) = some off' ∧
      iprtOf (nums.drop k) off' = (iprtOf nums off).drop k ∧
      ∀ x ∈ iprtOf nums off, ∃ n ∈ nums, x = (n - ρ) % 5 := by
  have hc' : CleanCycle (nums.drop k) (prt.drop k) ρ β := by
    intro p hp
    exact hc p (mem_zip_drop k nums prt p hp)
  have e1 := findOffset_clean nums prt ρ β hc hβ hne
  have e2 := findOffset_clean (nums.drop k) (prt.drop k) ρ β hc' hβ hne'
  refine ⟨_, _, e1, e2, ?_, ?_⟩
  · unfold iprtOf
    rw [← List.map_drop]
    apply List.map_congr_left
    intro n _
    have a0 : 0 ≤ (ρ - nums.headD 0) % 5 := Int.emod_nonneg _ (by decide)
    have a1 : 0 ≤ (ρ - (nums.drop k).headD 0) % 5 := Int.emod_nonneg _ (by decide)
    have b0 : (((ρ - nums.headD 0) % 5).toNat : Int) = (ρ - nums.headD 0) % 5 := Int.toNat_of_nonneg a0
    have b1 : (((ρ - (nums.drop k).headD 0) % 5).toNat : Int) = (ρ - (nums.drop k).headD 0) % 5 := Int.toNat_of_nonneg a1
    rw [b0, b1]
    omega
  · intro x hx
    unfold iprtOf at hx
    rw [List.mem_map] at hx
    obtain ⟨n, hn, rfl⟩ := hx
    refine ⟨n, hn, ?_⟩
    have a0 : 0 ≤ (ρ - nums.headD 0) % 5 := Int.emod_nonneg _ (by decide)
    have b0 : (((ρ - nums.headD 0) % 5).toNat : Int) = (ρ - nums.headD 0) % 5 := Int.toNat_of_nonneg a0
    rw [b0]
    omega

end PygacModel.Thermal
