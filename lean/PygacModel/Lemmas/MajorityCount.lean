import Mathlib.Data.Finset.Card
import Mathlib.Data.Finset.Image
import Mathlib.Data.List.GetD
import Mathlib.Tactic.Linarith
/-!
Pure counting behind the repair guarantee: among `n` lines of which fewer than half are bad, if every
good line is either in the band or not near, and every good line that is not near is preceded by a bad
line that is itself in the band or not near, then the lines in the band are a strict majority of the near
ones.  Also: `List.countP` as the cardinality of an index set.
-/
namespace PygacModel.Count
open Finset Classical

theorem majority_count (n : Nat) (good near band : Nat → Prop)
    (ha : ∀ i, i < n → good i → near i → band i)
    (hb : ∀ i, i < n → good i → ¬ near i → ∃ p, i = p + 1 ∧ ¬ good p ∧ (band p ∨ ¬ near p))
    (hmaj : 2 * ((range n).filter (fun i => ¬ good i)).card < n) :
    ((range n).filter near).card < 2 * ((range n).filter (fun i => near i ∧ band i)).card ∧
    n - 2 * ((range n).filter (fun i => ¬ good i)).card ≤ ((range n).filter (fun i => near i ∧ band i)).card := by
  set R := range n with hR
  set G := R.filter good with hG
  set B := R.filter (fun i => ¬ good i) with hB
  have hGB : G.card + B.card = n := by
    have := Finset.card_filter_add_card_filter_not (s := R) good
    rw [hR, card_range] at this
    exact this
  set Lost := R.filter (fun i => good i ∧ ¬ near i) with hLost
  set K := Lost.image (fun i => i - 1) with hK
  have hlost : ∀ i ∈ Lost, ∃ p, i = p + 1 ∧ ¬ good p ∧ (band p ∨ ¬ near p) := by
    intro i hi
    rw [hLost, mem_filter, hR, mem_range] at hi
    exact hb i hi.1 hi.2.1 hi.2.2
  have hKcard : K.card = Lost.card := by
    apply card_image_of_injOn
    intro i hi j hj hij
    obtain ⟨p, hp, _⟩ := hlost i hi
    obtain ⟨q, hq, _⟩ := hlost j hj
    simp only at hij
    omega
  have hLostG : Lost ⊆ G := by
    intro i hi
    rw [hLost, mem_filter] at hi
    rw [hG, mem_filter]
    exact ⟨hi.1, hi.2.1⟩
  have hKB : K ⊆ B := by
    intro p hp
    rw [hK, mem_image] at hp
    obtain ⟨i, hi, hip⟩ := hp
    obtain ⟨q, hq, hng, _⟩ := hlost i hi
    have hin : i < n := by
      rw [hLost, mem_filter, hR, mem_range] at hi; exact hi.1
    have : p = q := by omega
    rw [hB, mem_filter, hR, mem_range]
    subst this
    exact ⟨by omega, hng⟩
  set NX := R.filter (fun i => near i ∧ ¬ band i) with hNX
  have hNXsub : NX ⊆ B \ K := by
    intro i hi
    rw [hNX, mem_filter] at hi
    obtain ⟨hiR, hnear, hnb⟩ := hi
    have hin : i < n := by rw [hR, mem_range] at hiR; exact hiR
    rw [mem_sdiff]
    constructor
    · rw [hB, mem_filter]
      refine ⟨hiR, ?_⟩
      intro hg
      exact hnb (ha i hin hg hnear)
    · intro hiK
      rw [hK, mem_image] at hiK
      obtain ⟨j, hj, hji⟩ := hiK
      obtain ⟨q, hq, _, hor⟩ := hlost j hj
      have : i = q := by omega
      subst this
      rcases hor with hbd | hnn
      · exact hnb hbd
      · exact hnn hnear
  have hNXcard : NX.card ≤ B.card - K.card := by
    calc NX.card ≤ (B \ K).card := card_le_card hNXsub
      _ = B.card - K.card := card_sdiff_of_subset hKB
  set NB := R.filter (fun i => near i ∧ band i) with hNB
  have hGsub : G \ Lost ⊆ NB := by
    intro i hi
    rw [mem_sdiff, hG, mem_filter] at hi
    obtain ⟨⟨hiR, hg⟩, hnl⟩ := hi
    have hin : i < n := by rw [hR, mem_range] at hiR; exact hiR
    have hnear : near i := by
      by_contra hn
      apply hnl
      rw [hLost, mem_filter]
      exact ⟨hiR, hg, hn⟩
    rw [hNB, mem_filter]
    exact ⟨hiR, hnear, ha i hin hg hnear⟩
  have hNBcard : G.card - Lost.card ≤ NB.card := by
    calc G.card - Lost.card ≤ (G \ Lost).card := le_card_sdiff _ _
      _ ≤ NB.card := card_le_card hGsub
  have hsplit : (R.filter near).card = NB.card + NX.card := by
    have := Finset.card_filter_add_card_filter_not (s := R.filter near) band
    rw [filter_filter, filter_filter] at this
    rw [hNB, hNX]
    exact this.symm
  have hKle : K.card ≤ B.card := card_le_card hKB
  have hLle : Lost.card ≤ G.card := card_le_card hLostG
  constructor
  · rw [hsplit]; omega
  · omega

/-- the same with nothing known about the bad lines: fewer than one third of them suffices -/
theorem third_count (n : Nat) (good near band : Nat → Prop)
    (ha : ∀ i, i < n → good i → near i → band i)
    (hb : ∀ i, i < n → good i → ¬ near i → ∃ p, i = p + 1 ∧ ¬ good p)
    (hmaj : 3 * ((range n).filter (fun i => ¬ good i)).card < n) :
    ((range n).filter near).card < 2 * ((range n).filter (fun i => near i ∧ band i)).card ∧
    n - 2 * ((range n).filter (fun i => ¬ good i)).card ≤ ((range n).filter (fun i => near i ∧ band i)).card := by
  set R := range n with hR
  set G := R.filter good with hG
  set B := R.filter (fun i => ¬ good i) with hB
  have hGB : G.card + B.card = n := by
    have := Finset.card_filter_add_card_filter_not (s := R) good
    rw [hR, card_range] at this
    exact this
  set Lost := R.filter (fun i => good i ∧ ¬ near i) with hLost
  set K := Lost.image (fun i => i - 1) with hK
  have hlost : ∀ i ∈ Lost, ∃ p, i = p + 1 ∧ ¬ good p := by
    intro i hi
    rw [hLost, mem_filter, hR, mem_range] at hi
    exact hb i hi.1 hi.2.1 hi.2.2
  have hKcard : K.card = Lost.card := by
    apply card_image_of_injOn
    intro i hi j hj hij
    obtain ⟨p, hp, _⟩ := hlost i hi
    obtain ⟨q, hq, _⟩ := hlost j hj
    simp only at hij
    omega
  have hKB : K ⊆ B := by
    intro p hp
    rw [hK, mem_image] at hp
    obtain ⟨i, hi, hip⟩ := hp
    obtain ⟨q, hq, hng⟩ := hlost i hi
    have hin : i < n := by
      rw [hLost, mem_filter, hR, mem_range] at hi; exact hi.1
    have : p = q := by omega
    rw [hB, mem_filter, hR, mem_range]
    subst this
    exact ⟨by omega, hng⟩
  set NX := R.filter (fun i => near i ∧ ¬ band i) with hNX
  have hNXsub : NX ⊆ B := by
    intro i hi
    rw [hNX, mem_filter] at hi
    obtain ⟨hiR, hnear, hnb⟩ := hi
    have hin : i < n := by rw [hR, mem_range] at hiR; exact hiR
    rw [hB, mem_filter]
    refine ⟨hiR, ?_⟩
    intro hg
    exact hnb (ha i hin hg hnear)
  set NB := R.filter (fun i => near i ∧ band i) with hNB
  have hGsub : G \ Lost ⊆ NB := by
    intro i hi
    rw [mem_sdiff, hG, mem_filter] at hi
    obtain ⟨⟨hiR, hg⟩, hnl⟩ := hi
    have hin : i < n := by rw [hR, mem_range] at hiR; exact hiR
    have hnear : near i := by
      by_contra hn
      apply hnl
      rw [hLost, mem_filter]
      exact ⟨hiR, hg, hn⟩
    rw [hNB, mem_filter]
    exact ⟨hiR, hnear, ha i hin hg hnear⟩
  have hNBcard : G.card - Lost.card ≤ NB.card := by
    calc G.card - Lost.card ≤ (G \ Lost).card := le_card_sdiff _ _
      _ ≤ NB.card := card_le_card hGsub
  have hsplit : (R.filter near).card = NB.card + NX.card := by
    have := Finset.card_filter_add_card_filter_not (s := R.filter near) band
    rw [filter_filter, filter_filter] at this
    rw [hNB, hNX]
    exact this.symm
  have hKle : K.card ≤ B.card := card_le_card hKB
  have hNXle : NX.card ≤ B.card := card_le_card hNXsub
  constructor
  · rw [hsplit]; omega
  · omega

/-- `countP` as the number of indices at which the predicate holds -/
theorem countP_eq_card {α : Type} (xs : List α) (d : α) (p : α → Bool) :
    xs.countP p = ((range xs.length).filter (fun i => p (xs.getD i d) = true)).card := by
  induction xs using List.reverseRecOn with
  | nil => simp
  | append_singleton xs x ih =>
    rw [List.countP_append, ih, List.length_append, List.length_singleton, range_add_one, filter_insert]
    have hcongr : (range xs.length).filter (fun i => p ((xs ++ [x]).getD i d) = true)
        = (range xs.length).filter (fun i => p (xs.getD i d) = true) := by
      apply filter_congr
      intro i hi
      rw [mem_range] at hi
      rw [List.getD_append _ _ _ _ hi]
    have hlast : (xs ++ [x]).getD xs.length d = x := by
      rw [List.getD_append_right _ _ _ _ (le_refl _)]
      simp
    rw [hcongr, hlast]
    by_cases hp : p x = true
    · rw [if_pos hp, card_insert_of_notMem (by simp)]
      simp [hp]
    · rw [if_neg hp]
      simp [hp]

end PygacModel.Count
