import PygacModel.Lemmas.Median
namespace PygacModel.Np

/-- In a sorted list, if the entry at `i` fails a predicate that is "upward closed below `i`"
(everything at or before `i` fails it), at most `n - (i+1)` entries satisfy it. -/
theorem countP_le_of_prefix_false (s : List Rat) (p : Rat → Bool) (i : Nat) (hi : i < s.length)
    (h : ∀ j (hj : j < s.length), j ≤ i → p s[j] = false) : s.countP p ≤ s.length - (i + 1) := by
  have hsplit : s = s.take (i + 1) ++ s.drop (i + 1) := (List.take_append_drop _ _).symm
  have h0 : (s.take (i + 1)).countP p = 0 := by
    rw [List.countP_eq_zero]
    intro x hx
    obtain ⟨j, hj, hjc⟩ := List.getElem_of_mem hx
    rw [List.length_take] at hj
    rw [List.getElem_take] at hjc
    have := h j (by omega) (by omega)
    rw [hjc] at this
    simp [this]
  calc s.countP p = (s.take (i + 1)).countP p + (s.drop (i + 1)).countP p := by
        conv => lhs; rw [hsplit]
        exact List.countP_append
    _ = (s.drop (i + 1)).countP p := by rw [h0, Nat.zero_add]
    _ ≤ (s.drop (i + 1)).length := List.countP_le_length
    _ = s.length - (i + 1) := List.length_drop

theorem countP_le_of_suffix_false (s : List Rat) (p : Rat → Bool) (i : Nat) (hi : i < s.length)
    (h : ∀ j (hj : j < s.length), i ≤ j → p s[j] = false) : s.countP p ≤ i := by
  have hsplit : s = s.take i ++ s.drop i := (List.take_append_drop _ _).symm
  have h0 : (s.drop i).countP p = 0 := by
    rw [List.countP_eq_zero]
    intro x hx
    obtain ⟨j, hj, hjc⟩ := List.getElem_of_mem hx
    rw [List.length_drop] at hj
    rw [List.getElem_drop] at hjc
    have := h (i + j) (by omega) (by omega)
    rw [hjc] at this
    simp [this]
  calc s.countP p = (s.take i).countP p + (s.drop i).countP p := by
        conv => lhs; rw [hsplit]
        exact List.countP_append
    _ = (s.take i).countP p := by rw [h0, Nat.add_zero]
    _ ≤ (s.take i).length := List.countP_le_length
    _ ≤ i := by rw [List.length_take]; omega

def inBand (a b : Rat) (x : Rat) : Bool := decide (a ≤ x) && decide (x ≤ b)

theorem sorted_le_of_le {s : List Rat} (hs : s.Pairwise (fun a b => a ≤ b)) (i j : Nat) (hi : i < s.length)
    (hj : j < s.length) (hij : i ≤ j) : s[i] ≤ s[j] := by
  rcases Nat.lt_or_eq_of_le hij with h | h
  · exact (List.pairwise_iff_getElem.mp hs) i j hi hj h
  · subst h; exact le_refl _

/-- In a sorted list in which more than half of the entries lie in `[a, b]`, every index of the
middle band holds a value of `[a, b]`. -/
theorem sorted_band_at {s : List Rat} (hs : s.Pairwise (fun a b => a ≤ b)) (a b : Rat)
    (i : Nat) (hi : i < s.length) (hlo : s.length - s.countP (inBand a b) ≤ i)
    (hhi : i < s.countP (inBand a b)) : a ≤ s[i] ∧ s[i] ≤ b := by
  constructor
  · by_contra hlt
    have hlt : s[i] < a := not_le.mp hlt
    have := countP_le_of_prefix_false s (inBand a b) i hi (by
      intro j hj hji
      have : s[j] ≤ s[i] := sorted_le_of_le hs j i hj hi hji
      have : ¬ a ≤ s[j] := not_le.mpr (lt_of_le_of_lt this hlt)
      simp [inBand, this])
    omega
  · by_contra hgt
    have hgt : b < s[i] := not_le.mp hgt
    have := countP_le_of_suffix_false s (inBand a b) i hi (by
      intro j hj hij
      have : s[i] ≤ s[j] := sorted_le_of_le hs i j hi hj hij
      have : ¬ s[j] ≤ b := not_le.mpr (lt_of_lt_of_le hgt this)
      simp [inBand, this])
    omega

/-- **Median of a majority band**: if more than half of the entries lie in `[a, b]`, so does the median. -/
theorem median_band (xs : List Rat) (a b : Rat) (h : xs.length < 2 * xs.countP (inBand a b)) :
    ∃ m, median xs = some m ∧ a ≤ m ∧ m ≤ b := by
  have hperm := sortR_perm xs
  have hlen := sortR_length xs
  have hcount : (sortR xs).countP (inBand a b) = xs.countP (inBand a b) := hperm.countP_eq _
  have hsorted := sortR_sorted xs
  have hcl : xs.countP (inBand a b) ≤ xs.length := List.countP_le_length
  unfold median
  simp only []
  have hn : (sortR xs).length ≠ 0 := by omega
  simp only [hn, if_false]
  by_cases hodd : (sortR xs).length % 2 = 1
  · simp only [hodd, if_true]
    have hi : (sortR xs).length / 2 < (sortR xs).length := by omega
    rw [List.getElem?_eq_getElem hi]
    exact ⟨_, rfl, sorted_band_at hsorted a b _ hi (by omega) (by omega)⟩
  · simp only [hodd, if_false]
    have hi1 : (sortR xs).length / 2 - 1 < (sortR xs).length := by omega
    have hi2 : (sortR xs).length / 2 < (sortR xs).length := by omega
    rw [List.getElem?_eq_getElem hi1, List.getElem?_eq_getElem hi2]
    have e1 := sorted_band_at hsorted a b _ hi1 (by omega) (by omega)
    have e2 := sorted_band_at hsorted a b _ hi2 (by omega) (by omega)
    refine ⟨_, rfl, ?_, ?_⟩ <;> linarith [e1.1, e1.2, e2.1, e2.2]

/-- all entries in the band, list non-empty -/
theorem median_band_all (xs : List Rat) (a b : Rat) (hne : xs ≠ []) (h : ∀ x ∈ xs, a ≤ x ∧ x ≤ b) :
    ∃ m, median xs = some m ∧ a ≤ m ∧ m ≤ b := by
  apply median_band
  have : xs.countP (inBand a b) = xs.length := by
    rw [List.countP_eq_length]
    intro x hx
    have := h x hx
    simp [inBand, this.1, this.2]
  rw [this]
  have : 0 < xs.length := List.length_pos_iff.mpr hne
  omega

end PygacModel.Np
