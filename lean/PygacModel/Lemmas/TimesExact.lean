import PygacModel.Lemmas.TimesDay
import Mathlib.Tactic.Ring
/-!
The "exactly periodic" clause of the repair guarantee: when the line period is a whole number of milliseconds
(GAC: 500 ms) every quantity of the pipeline is an integer, the estimated pass offset is EXACT, and every line
that is replaced comes back at exactly its true time.
-/
namespace PygacModel.Times
open PygacModel Np

section
variable {P : Rat} {sg : Bool} {nowYear : Int} {r0 r : RawTimes} {good : List Bool}

/-- with a whole-millisecond period the deviation of a stage-1 time from the true time is a whole number -/
theorem offErr_int (hP : ∃ p : Int, P = (p : Rat)) (i : Nat) :
    ∃ z : Int, offErr P sg nowYear r0 r i = (z : Rat) := by
  obtain ⟨p, rfl⟩ := hP
  unfold offErr passOffset
  refine ⟨(s1Instants (stage1 (p : Rat) sg nowYear r)).getD i 0 - lineIdx sg (r0.nums.getD i 0) * p
      - (instant (r0.year.headD 0) (r0.jday.headD 0) (r0.msec.headD 0) - lineIdx sg (r0.nums.headD 0) * p), ?_⟩
  push_cast
  ring

/-- a whole number of absolute value below one is zero -/
theorem int_abs_lt_one (z : Int) (h : absR (z : Rat) < 1) : z = 0 := by
  rw [absR_lt_iff] at h
  have h1 : (-1 : Int) < z := by exact_mod_cast h.1
  have h2 : z < (1 : Int) := by exact_mod_cast h.2
  omega

/-- index predicate: the stage-1 time of line `i` is exactly the true time -/
def ZeroI (P : Rat) (sg : Bool) (nowYear : Int) (r0 r : RawTimes) (i : Nat) : Prop :=
  offErr P sg nowYear r0 r i = 0

/-- a good line near the header time is exactly right -/
theorem good_near_zero (h : GarbledAny P sg nowYear r0 r good) (hP : ∃ p : Int, P = (p : Rat)) (hd : Int)
    (hhead : absR (passOffset P sg r0 - (hd : Rat)) ≤ 360000 - 2) (i : Nat) (hi : i < r0.nums.length)
    (hg : GoodI good i) (hnr : NearI P sg nowYear r0 r hd i) : ZeroI P sg nowYear r0 r i := by
  rcases good_line_half h i hi hg with hc | ⟨hf, _⟩
  · obtain ⟨z, hz⟩ := offErr_int (sg := sg) (nowYear := nowYear) (r0 := r0) (r := r) hP i
    unfold ZeroI
    rw [hz] at hc ⊢
    have := int_abs_lt_one z hc
    subst this
    simp
  · exact absurd hnr (far_not_near hd hhead i hf)

open Classical in
/-- from "the exactly right lines are a strict majority of the near ones, and more than a fifth of all lines"
to the result of `get_times`, for a whole-millisecond period: the estimated offset is exact -/
theorem finish_from_zero_majority (h : GarbledAny P sg nowYear r0 r good) (hP : ∃ p : Int, P = (p : Rat)) (hd : Int)
    (hdec : (sg && decreasing r.nums) = false)
    (hcount : ((Finset.range r0.nums.length).filter (NearI P sg nowYear r0 r hd)).card <
      2 * ((Finset.range r0.nums.length).filter (fun i => NearI P sg nowYear r0 r hd i ∧ ZeroI P sg nowYear r0 r i)).card)
    (hmany : r0.nums.length <
      5 * ((Finset.range r0.nums.length).filter (fun i => NearI P sg nowYear r0 r hd i ∧ ZeroI P sg nowYear r0 r i)).card) :
    (getTimes {} P nowYear sg (some hd) r).length = r0.nums.length ∧
    ∀ i (hi : i < r0.nums.length) (h1 : i < (getTimes {} P nowYear sg (some hd) r).length),
      -- (a) every returned time is within 10 s of the true time ...
      absR ((((getTimes {} P nowYear sg (some hd) r)[i] : Int) : Rat)
        - (((lineIdx sg r0.nums[i] : Int) : Rat) * P + passOffset P sg r0)) ≤ 10000 ∧
      -- (b) ... and a line whose stage-1 time is further than that from the true time comes back EXACTLY right
      (absR (offErr P sg nowYear r0 r i) > 10000 →
        (((getTimes {} P nowYear sg (some hd) r)[i] : Int) : Rat)
          = ((lineIdx sg r0.nums[i] : Int) : Rat) * P + passOffset P sg r0) ∧
      -- (c) ... as does every line whose stage-1 time was already exact
      (offErr P sg nowYear r0 r i = 0 →
        (((getTimes {} P nowYear sg (some hd) r)[i] : Int) : Rat)
          = ((lineIdx sg r0.nums[i] : Int) : Rat) * P + passOffset P sg r0) := by
  classical
  have hY := h.yearOk
  set n := r0.nums.length with hn
  have hnpos : 0 < n := h.clean.n_pos
  have hlen1 : (s1Instants (stage1 P sg nowYear r)).length = n := by
    rw [s1_yearOk_length P sg nowYear r hY, h.nums_eq]
  set t1 := s1Instants (stage1 P sg nowYear r) with ht1
  set tn := tnOf P sg r.nums with htn
  have htnlen : tn.length = n := by rw [htn, tnOf_length, h.nums_eq]
  set C := passOffset P sg r0 with hC
  have htni : ∀ i (hi : i < tn.length) (hi' : i < n), tn[i] = ((lineIdx sg r0.nums[i] : Int) : Rat) * P := by
    intro i hi hi'
    simp only [htn, tnOf, List.getElem_map, h.nums_eq]
  set offs := offsetsOf t1 tn with hoffs
  have hofflen : offs.length = n := by simp [hoffs, offsetsOf, hlen1, htnlen]
  have hoffi : ∀ i, i < n → offs.getD i 0 = offErr P sg nowYear r0 r i + C := by
    intro i hi
    rw [getD_eq _ _ (by omega)]
    simp only [hoffs, offsetsOf, List.getElem_zipWith]
    rw [htni i (by omega) hi]
    unfold offErr
    rw [getD_eq _ _ (by rw [← ht1, hlen1]; exact hi), getD_eq (r0.nums) _ hi]
    ring
  set near := nearOf {} hd offs with hnear
  have hmd : ({} : S2Params).maxDiffHead = 360000 := rfl
  have hnearlen : near.length = ((Finset.range n).filter (NearI P sg nowYear r0 r hd)).card := by
    rw [hnear, nearOf, ← List.countP_eq_length_filter, Count.countP_eq_card offs 0, hofflen]
    congr 1
    apply Finset.filter_congr
    intro i hi
    rw [Finset.mem_range] at hi
    rw [hoffi i hi, hmd]
    unfold NearI
    simp only [decide_eq_true_eq]
    rw [show offErr P sg nowYear r0 r i + C - (hd : Rat) = offErr P sg nowYear r0 r i + (C - (hd : Rat)) by ring]
  have hnearzero : near.countP (inBand (C - 0) (C + 0)) =
      ((Finset.range n).filter (fun i => NearI P sg nowYear r0 r hd i ∧ ZeroI P sg nowYear r0 r i)).card := by
    rw [hnear, nearOf, List.countP_filter, Count.countP_eq_card offs 0, hofflen]
    congr 1
    apply Finset.filter_congr
    intro i hi
    rw [Finset.mem_range] at hi
    rw [hoffi i hi, hmd]
    unfold NearI ZeroI
    simp only [inBand, Bool.and_eq_true, decide_eq_true_eq]
    rw [show offErr P sg nowYear r0 r i + C - (hd : Rat) = offErr P sg nowYear r0 r i + (C - (hd : Rat)) by ring]
    constructor
    · rintro ⟨⟨h1, h2⟩, h3⟩
      exact ⟨h3, by linarith⟩
    · rintro ⟨h3, h0⟩
      exact ⟨⟨by linarith, by linarith⟩, h3⟩
  have hmaj' : near.length < 2 * near.countP (inBand (C - 0) (C + 0)) := by rw [hnearlen, hnearzero]; exact hcount
  have ht0 := t0_in_band near C 0 hmaj'
  have ht0eq : medianD near = C := by
    rw [absR_le_iff] at ht0
    linarith [ht0.1, ht0.2]
  have hfrac : ({} : S2Params).minFrac ≤ (near.length : Rat) / (r.nums.length : Rat) := by
    have hge : near.countP (inBand (C - 0) (C + 0)) ≤ near.length := List.countP_le_length
    have h5 : n < 5 * near.length := by
      rw [hnearzero] at hge
      omega
    have h5R : (n : Rat) < 5 * (near.length : Rat) := by exact_mod_cast h5
    have hnR : (0 : Rat) < (n : Rat) := by exact_mod_cast hnpos
    have hmf : ({} : S2Params).minFrac = 1 / 100 := rfl
    rw [hmf, h.nums_eq, le_div_iff₀ hnR]
    linarith
  have hs2 : stage2 {} P sg r.nums (some hd) t1 = .times (List.zipWith (repairLine {} (medianD near)) t1 tn) := by
    unfold stage2
    simp only [hdec, Bool.false_eq_true, if_false]
    rw [if_pos hfrac]
  have hget : getTimes {} P nowYear sg (some hd) r = List.zipWith (repairLine {} (medianD near)) t1 tn := by
    unfold getTimes
    simp only [← ht1, hs2]
  rw [hget]
  refine ⟨by rw [List.length_zipWith, hlen1, htnlen, Nat.min_self], ?_⟩
  intro i hi h1
  rw [List.getElem_zipWith]
  have hspec := repairLine_spec {} (medianD near) C 0 (t1[i]'(by omega)) (tn[i]'(by omega)) ht0
  have hmi : ({} : S2Params).maxDiffIdeal = 10000 := rfl
  rw [hmi] at hspec
  -- the true time of the line is a whole number, and so is the returned value
  obtain ⟨p, hp⟩ := hP
  have htrue_int : ∃ w : Int, tn[i]'(by omega) + C = (w : Rat) := by
    rw [htni i (by omega) hi, hC]
    unfold passOffset
    refine ⟨lineIdx sg r0.nums[i] * p + (instant (r0.year.headD 0) (r0.jday.headD 0) (r0.msec.headD 0)
      - lineIdx sg (r0.nums.headD 0) * p), ?_⟩
    rw [hp]; push_cast; ring
  obtain ⟨w, hw⟩ := htrue_int
  have hoffE : offErr P sg nowYear r0 r i = ((t1[i]'(by omega) : Int) : Rat) - (tn[i]'(by omega) + C) := by
    have := hoffi i hi
    rw [getD_eq _ _ (by omega)] at this
    simp only [hoffs, offsetsOf, List.getElem_zipWith] at this
    linarith
  have hexact : ∀ v : Int, absR (((v : Int) : Rat) - (tn[i]'(by omega) + C)) < 1 →
      ((v : Int) : Rat) = tn[i]'(by omega) + C := by
    intro v hv
    rw [hw] at hv ⊢
    have : absR (((v - w : Int) : Rat)) < 1 := by push_cast; exact hv
    have := int_abs_lt_one (v - w) this
    have hvw : v = w := by omega
    rw [hvw]
  rw [← htni i (by omega) hi]
  refine ⟨?_, ?_, ?_⟩
  · rcases hspec.2.1 with hle | hlt
    · linarith
    · have hlt' := lt_of_lt_of_eq hlt (zero_add (1 : Rat))
      have := hexact _ hlt'
      rw [this]
      have : absR (tn[i]'(by omega) + C - (tn[i]'(by omega) + C)) = 0 := by simp [absR]
      linarith
  · intro hfar
    have := hspec.2.2 (by rw [← hoffE]; linarith)
    exact hexact _ (lt_of_lt_of_eq this (zero_add (1 : Rat)))
  · intro hz
    have hkeep := hspec.1 (by rw [← hoffE, hz]; simp [absR])
    rw [hkeep]
    rw [hz] at hoffE
    linarith

end

/-- **Exactly periodic passes** (whole-millisecond line period, as for GAC): ANY garbage on fewer than one third of the
lines is repaired EXACTLY - every returned time is within 10 s of the true time, every line whose sanitised time was
further off than that comes back at exactly its true time, and so does every line that was right to begin with
(every intact line near the header time is). -/
theorem repair_any_garbage_third_exact (P : Rat) (sg : Bool) (nowYear : Int) (hd : Int) (r0 r : RawTimes) (good : List Bool)
    (h : GarbledAny P sg nowYear r0 r good) (hP : ∃ p : Int, P = (p : Rat))
    (hdec : (sg && decreasing r.nums) = false)
    (hbad : 3 * good.count false < r0.nums.length)
    (hhead : absR (passOffset P sg r0 - (hd : Rat)) ≤ 360000 - 2) :
    (getTimes {} P nowYear sg (some hd) r).length = r0.nums.length ∧
    ∀ i (hi : i < r0.nums.length) (h1 : i < (getTimes {} P nowYear sg (some hd) r).length),
      absR ((((getTimes {} P nowYear sg (some hd) r)[i] : Int) : Rat)
        - (((lineIdx sg r0.nums[i] : Int) : Rat) * P + passOffset P sg r0)) ≤ 10000 ∧
      (absR (offErr P sg nowYear r0 r i) > 10000 →
        (((getTimes {} P nowYear sg (some hd) r)[i] : Int) : Rat)
          = ((lineIdx sg r0.nums[i] : Int) : Rat) * P + passOffset P sg r0) ∧
      (offErr P sg nowYear r0 r i = 0 →
        (((getTimes {} P nowYear sg (some hd) r)[i] : Int) : Rat)
          = ((lineIdx sg r0.nums[i] : Int) : Rat) * P + passOffset P sg r0) := by
  have ha := good_near_zero h hP hd hhead
  have hb : ∀ i, i < r0.nums.length → GoodI good i → ¬ NearI P sg nowYear r0 r hd i →
      ∃ p, i = p + 1 ∧ ¬ GoodI good p := by
    intro i hi hg hnn
    exact good_lost_half h hd hhead i hi hg hnn
  have hbc := bad_card h
  obtain ⟨hcount, hmany⟩ := Count.third_count r0.nums.length (GoodI good) (NearI P sg nowYear r0 r hd)
    (ZeroI P sg nowYear r0 r) ha hb (by rw [hbc]; omega)
  rw [hbc] at hmany
  exact finish_from_zero_majority h hP hd hdec hcount (by omega)

/-- with a whole-millisecond period a good line of a pass with intact days / years leaves stage 1 at EXACTLY its true
time, which is also its recorded time -/
theorem s1_good_exact (P : Rat) (sg : Bool) (nowYear : Int) (r : RawTimes) (hc : Clean nowYear r)
    (hy : ∀ y ∈ r.year, y = r.year.headD 0) (hP : ∃ p : Int, P = (p : Rat)) (i : Nat) (hi : i < r.nums.length)
    (hs : i < (s1Instants (stage1 P sg nowYear r)).length) (hr : i < (recorded r).length)
    (hg : GoodAt P sg r i) :
    (((s1Instants (stage1 P sg nowYear r))[i] : Int) : Rat) = ((lineIdx sg r.nums[i] : Int) : Rat) * P + passOffset P sg r ∧
    (s1Instants (stage1 P sg nowYear r))[i] = (recorded r)[i] := by
  obtain ⟨p, hp⟩ := hP
  have hjlen : i < r.jday.length := by have := hc.len_j; omega
  have hylen : i < r.year.length := by have := hc.len_y; omega
  have hid := ideal_instant_identity P sg nowYear r hc hy i hi
  obtain ⟨hm1, hm2, hcons⟩ := hg
  -- the true time is a whole number
  have htrue_int : ∃ w : Int, ((lineIdx sg r.nums[i] : Int) : Rat) * P + passOffset P sg r = (w : Rat) := by
    unfold passOffset
    refine ⟨lineIdx sg r.nums[i] * p + (instant (r.year.headD 0) (r.jday.headD 0) (r.msec.headD 0)
      - lineIdx sg (r.nums.headD 0) * p), ?_⟩
    rw [hp]; push_cast; ring
  obtain ⟨w, hw⟩ := htrue_int
  have hrec : (recorded r)[i] = instant r.year[i] r.jday[i] 0 + r.msec[i] := by
    simp only [recorded, List.getElem_zipWith, List.getElem_zip]
    exact instant_split _ _ _
  -- recorded = true, because the ideal time of day is a whole number within 1 of the recorded one
  have hrec_true : (((recorded r)[i] : Int) : Rat) = (w : Rat) := by
    have hideal : (idealOfDay P sg r)[i] = (w : Rat) - ((instant r.year[i] r.jday[i] 0 : Int) : Rat) := by
      rw [← hw]; linarith [hid]
    rw [hideal] at hcons
    rw [hrec]
    have h1 : ((r.msec[i] - 1 : Int) : Rat) < ((w - instant r.year[i] r.jday[i] 0 : Int) : Rat) := by
      push_cast; linarith [hcons.1]
    have h2 : ((w - instant r.year[i] r.jday[i] 0 : Int) : Rat) < ((r.msec[i] + 1 : Int) : Rat) := by
      push_cast; linarith [hcons.2]
    have h1' : r.msec[i] - 1 < w - instant r.year[i] r.jday[i] 0 := by exact_mod_cast h1
    have h2' : w - instant r.year[i] r.jday[i] 0 < r.msec[i] + 1 := by exact_mod_cast h2
    have : instant r.year[i] r.jday[i] 0 + r.msec[i] = w := by omega
    exact_mod_cast this
  rcases s1_any_line P sg nowYear r hc hy i hi hs hr with hclose | heq
  · rw [hw] at hclose ⊢
    have hz : absR ((((s1Instants (stage1 P sg nowYear r))[i] - w : Int) : Rat)) < 1 := by push_cast; exact hclose
    have := int_abs_lt_one _ hz
    have hv : (s1Instants (stage1 P sg nowYear r))[i] = w := by omega
    refine ⟨by rw [hv], ?_⟩
    have : ((recorded r)[i] : Int) = w := by exact_mod_cast hrec_true
    rw [hv, this]
  · refine ⟨by rw [heq, hw]; exact hrec_true, heq⟩

/-- **Garbage in the millisecond field of fewer than HALF of the lines, whole-millisecond period: repaired exactly.**
Every returned time is within 10 s of the true time, every intact line is returned at exactly its recorded (= true)
time, and every line whose sanitised time was further than 10 s off comes back at exactly its true time. -/
theorem repair_ms_garbage_exact (P : Rat) (sg : Bool) (nowYear : Int) (h : Int) (r : RawTimes)
    (hc : Clean nowYear r) (hy : ∀ y ∈ r.year, y = r.year.headD 0) (hP : ∃ p : Int, P = (p : Rat))
    (hdec : (sg && decreasing r.nums) = false)
    (good : List Bool) (hglen : good.length = r.nums.length)
    (hgood : ∀ i (hi : i < good.length), good[i] = true → GoodAt P sg r i)
    (hmaj : r.nums.length < 2 * good.count true)
    (hhead : absR (passOffset P sg r - (h : Rat)) ≤ 360000 - 2) :
    (getTimes {} P nowYear sg (some h) r).length = r.nums.length ∧
    ∀ i (hi : i < r.nums.length) (h1 : i < (getTimes {} P nowYear sg (some h) r).length)
      (h2 : i < (recorded r).length) (h3 : i < good.length) (h4 : i < (s1Instants (stage1 P sg nowYear r)).length),
      absR ((((getTimes {} P nowYear sg (some h) r)[i] : Int) : Rat)
        - (((lineIdx sg r.nums[i] : Int) : Rat) * P + passOffset P sg r)) ≤ 10000 ∧
      (good[i] = true → (getTimes {} P nowYear sg (some h) r)[i] = (recorded r)[i]) ∧
      (absR ((((s1Instants (stage1 P sg nowYear r))[i] : Int) : Rat)
          - (((lineIdx sg r.nums[i] : Int) : Rat) * P + passOffset P sg r)) > 10000 →
        (((getTimes {} P nowYear sg (some h) r)[i] : Int) : Rat)
          = ((lineIdx sg r.nums[i] : Int) : Rat) * P + passOffset P sg r) := by
  have hlen1 := s1_clean_length P sg nowYear r hc
  set t1 := s1Instants (stage1 P sg nowYear r) with ht1
  set tn := tnOf P sg r.nums with htn
  have htnlen : tn.length = r.nums.length := tnOf_length P sg r.nums
  set C := passOffset P sg r with hC
  have htni : ∀ i (hi : i < tn.length) (hi' : i < r.nums.length), tn[i] = ((lineIdx sg r.nums[i] : Int) : Rat) * P := by
    intro i hi hi'
    simp only [htn, tnOf, List.getElem_map]
  set offs := offsetsOf t1 tn with hoffs
  have hofflen : offs.length = r.nums.length := by
    simp [hoffs, offsetsOf, hlen1, htnlen]
  have hoffi : ∀ i (hi : i < offs.length) (h1 : i < t1.length) (h2 : i < tn.length), offs[i] = ((t1[i] : Int) : Rat) - tn[i] := by
    intro i hi h1 h2
    simp only [hoffs, offsetsOf, List.getElem_zipWith]
  have hreclen : (recorded r).length = r.nums.length := by
    simp [recorded, hc.len_y, hc.len_j, hc.len_m]
  let q : Rat → Bool := fun o => inBand (C - 0) (C + 0) o && decide (absR (o - (h : Rat)) ≤ ({} : S2Params).maxDiffHead)
  have hq : ∀ i (h1 : i < good.length) (h2 : i < offs.length), good[i] = true → q offs[i] = true := by
    intro i h1 h2 hg
    have hi : i < r.nums.length := by omega
    have hs1 : i < (s1Instants (stage1 P sg nowYear r)).length := by rw [← ht1, hlen1]; exact hi
    have hb := (s1_good_exact P sg nowYear r hc hy hP i hi hs1 (by omega) (hgood i h1 hg)).1
    rw [hoffi i h2 (by omega) (by omega), htni i (by omega) hi]
    rw [absR_le_iff] at hhead
    have hmd : ({} : S2Params).maxDiffHead = 360000 := rfl
    simp only [q, inBand, Bool.and_eq_true, decide_eq_true_eq, hmd]
    have hb' : ((t1[i]'(by omega) : Int) : Rat) = ((lineIdx sg r.nums[i] : Int) : Rat) * P + C := hb
    refine ⟨⟨by linarith, by linarith⟩, ?_⟩
    rw [absR_le_iff]
    constructor <;> linarith [hhead.1, hhead.2]
  have hcount := count_true_le_countP offs good q (by omega) hq
  set near := nearOf {} h offs with hnear
  have hnearband : near.countP (inBand (C - 0) (C + 0)) = offs.countP q := by
    simp only [hnear, nearOf, List.countP_filter, q]
  have hnearlen : near.length ≤ r.nums.length := by
    rw [← hofflen, hnear, nearOf]; exact List.length_filter_le _ _
  have hmaj' : near.length < 2 * near.countP (inBand (C - 0) (C + 0)) := by
    rw [hnearband]; omega
  have ht0 := t0_in_band near C 0 hmaj'
  have hnpos : 0 < r.nums.length := hc.n_pos
  have hfrac : ({} : S2Params).minFrac ≤ (near.length : Rat) / (r.nums.length : Rat) := by
    have hge : near.countP (inBand (C - 0) (C + 0)) ≤ near.length := List.countP_le_length
    have : (r.nums.length : Rat) < 2 * (near.length : Rat) := by
      have : r.nums.length < 2 * near.length := by omega
      exact_mod_cast this
    have hn : (0 : Rat) < (r.nums.length : Rat) := by exact_mod_cast hnpos
    have hmf : ({} : S2Params).minFrac = 1 / 100 := rfl
    rw [hmf, le_div_iff₀ hn]
    linarith
  have hs2 : stage2 {} P sg r.nums (some h) t1 = .times (List.zipWith (repairLine {} (medianD near)) t1 tn) := by
    unfold stage2
    simp only [hdec, Bool.false_eq_true, if_false]
    rw [if_pos hfrac]
  have hget : getTimes {} P nowYear sg (some h) r = List.zipWith (repairLine {} (medianD near)) t1 tn := by
    unfold getTimes
    simp only [← ht1, hs2]
  rw [hget]
  refine ⟨by simp [hlen1, htnlen], ?_⟩
  intro i hi h1 h2 h3 h4
  rw [List.getElem_zipWith]
  have hspec := repairLine_spec {} (medianD near) C 0 (t1[i]'(by omega)) (tn[i]'(by omega)) ht0
  have hmi : ({} : S2Params).maxDiffIdeal = 10000 := rfl
  rw [hmi] at hspec
  have e := htni i (by omega) hi
  obtain ⟨p, hp⟩ := hP
  have htrue_int : ∃ w : Int, tn[i]'(by omega) + C = (w : Rat) := by
    rw [e, hC]
    unfold passOffset
    refine ⟨lineIdx sg r.nums[i] * p + (instant (r.year.headD 0) (r.jday.headD 0) (r.msec.headD 0)
      - lineIdx sg (r.nums.headD 0) * p), ?_⟩
    rw [hp]; push_cast; ring
  obtain ⟨w, hw⟩ := htrue_int
  have hexact : ∀ v : Int, absR (((v : Int) : Rat) - (tn[i]'(by omega) + C)) < 1 →
      ((v : Int) : Rat) = tn[i]'(by omega) + C := by
    intro v hv
    rw [hw] at hv ⊢
    have : absR (((v - w : Int) : Rat)) < 1 := by push_cast; exact hv
    have := int_abs_lt_one (v - w) this
    have hvw : v = w := by omega
    rw [hvw]
  rw [← e]
  refine ⟨?_, ?_, ?_⟩
  · rcases hspec.2.1 with hle | hlt
    · linarith
    · have hlt' := lt_of_lt_of_eq hlt (zero_add (1 : Rat))
      have := hexact _ hlt'
      rw [this]
      have : absR (tn[i]'(by omega) + C - (tn[i]'(by omega) + C)) = 0 := by simp [absR]
      linarith
  · intro hg
    have hs1 : i < (s1Instants (stage1 (p : Rat) sg nowYear r)).length := by rw [← hp, ← ht1, hlen1]; exact hi
    have hge := s1_good_exact P sg nowYear r hc hy ⟨p, hp⟩ i hi (by rw [← ht1, hlen1]; exact hi) h2 (hgood i h3 hg)
    have hkeep := hspec.1 (by
      have : ((t1[i]'(by omega) : Int) : Rat) = tn[i]'(by omega) + C := by rw [e]; exact hge.1
      rw [this]; simp [absR])
    rw [hkeep]
    exact hge.2
  · intro hfar
    have := hspec.2.2 (by linarith)
    exact hexact _ (lt_of_lt_of_eq this (zero_add (1 : Rat)))

/-- the same for the 40 % guarantee (scenario `Garbled`: years intact, garbage in the day-of-year and ms fields of
fewer than 40 % of the lines): exact for a whole-millisecond period -/
theorem repair_day_ms_garbage_exact (P : Rat) (sg : Bool) (nowYear : Int) (hd : Int) (r0 r : RawTimes) (good : List Bool)
    (h : Garbled P sg nowYear r0 r good) (hP : ∃ p : Int, P = (p : Rat))
    (hdec : (sg && decreasing r.nums) = false)
    (hbad : 5 * good.count false < 2 * r0.nums.length)
    (hhead : absR (passOffset P sg r0 - (hd : Rat)) ≤ 360000 - 2) :
    (getTimes {} P nowYear sg (some hd) r).length = r0.nums.length ∧
    ∀ i (hi : i < r0.nums.length) (h1 : i < (getTimes {} P nowYear sg (some hd) r).length),
      absR ((((getTimes {} P nowYear sg (some hd) r)[i] : Int) : Rat)
        - (((lineIdx sg r0.nums[i] : Int) : Rat) * P + passOffset P sg r0)) ≤ 10000 ∧
      (absR (offErr P sg nowYear r0 r i) > 10000 →
        (((getTimes {} P nowYear sg (some hd) r)[i] : Int) : Rat)
          = ((lineIdx sg r0.nums[i] : Int) : Rat) * P + passOffset P sg r0) ∧
      (offErr P sg nowYear r0 r i = 0 →
        (((getTimes {} P nowYear sg (some hd) r)[i] : Int) : Rat)
          = ((lineIdx sg r0.nums[i] : Int) : Rat) * P + passOffset P sg r0) := by
  have ha := good_near_zero h.toGarbledAny hP hd hhead
  have hb : ∀ i, i < r0.nums.length → GoodI good i → ¬ NearI P sg nowYear r0 r hd i →
      ∃ p, i = p + 1 ∧ ¬ GoodI good p ∧ (ZeroI P sg nowYear r0 r p ∨ ¬ NearI P sg nowYear r0 r hd p) := by
    intro i hi hg hnn
    obtain ⟨p, hip, hng, hlt, hk⟩ := good_lost h.toGarbledAny h.med_int hd hhead i hi hg hnn
    subst hip
    refine ⟨p, rfl, hng, ?_⟩
    rcases line_before_lost h p hi hg hlt hk with hc | hf
    · left
      obtain ⟨z, hz⟩ := offErr_int (sg := sg) (nowYear := nowYear) (r0 := r0) (r := r) hP p
      unfold ZeroI
      rw [hz] at hc ⊢
      have := int_abs_lt_one z hc
      subst this
      simp
    · right; exact far_not_near hd hhead p hf
  have hbc := bad_card h.toGarbledAny
  obtain ⟨hcount, hmany⟩ := Count.majority_count r0.nums.length (GoodI good) (NearI P sg nowYear r0 r hd)
    (ZeroI P sg nowYear r0 r) ha hb (by rw [hbc]; omega)
  rw [hbc] at hmany
  exact finish_from_zero_majority h.toGarbledAny hP hd hdec hcount (by omega)

end PygacModel.Times
