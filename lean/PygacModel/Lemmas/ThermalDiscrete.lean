import PygacModel.Model.Thermal
import PygacModel.Lemmas.Times
namespace PygacModel.Thermal
open PygacModel Np

theorem convSame_length (xs : List Rat) (h : Nat) : (convSame xs h).length = xs.length := by
  simp [convSame]

theorem convSame_getElem (xs : List Rat) (h i : Nat) (hi : i < (convSame xs h).length) :
    (convSame xs h)[i] = windowSum xs ((i : Int) - h) (2 * h + 1) / ((2 * h + 1 : Nat) : Rat) := by
  simp [convSame]

def clampIdx (i h n : Nat) : Nat := if i < h then h else if i ≥ n - h then n - h - 1 else i

/-- head and tail patches re-index the convolution at the clamped centre -/
theorem patched_getElem (c : List Rat) (h i : Nat) (hh : 1 ≤ h) (hn : 2 * h + 1 ≤ c.length) (hi : i < c.length) :
    (patchTail h (patchHead h c))[i]? = c[clampIdx i h c.length]? := by
  have hlen1 : (patchHead h c).length = c.length := by
    simp [patchHead]; omega
  unfold patchTail
  rw [if_neg (by omega)]
  rw [hlen1]
  unfold clampIdx
  by_cases h1 : i < c.length - h
  · rw [List.getElem?_append_left (by simp [hlen1]; omega)]
    rw [List.getElem?_take_of_lt h1]
    unfold patchHead
    by_cases h2 : i < h
    · rw [if_pos h2]
      rw [List.getElem?_append_left (by simp; omega)]
      rw [List.getElem?_replicate]
      simp only [show i < min h c.length by omega, if_true]
      rw [List.getD_eq_getElem?_getD, List.getElem?_eq_getElem (by omega)]; simp
    · rw [if_neg h2, if_neg (by omega)]
      rw [List.getElem?_append_right (by simp; omega)]
      simp only [List.length_replicate, List.getElem?_drop]
      congr 1
      omega
  · rw [if_neg (by omega), if_pos (by omega)]
    rw [List.getElem?_append_right (by simp [hlen1]; omega)]
    rw [List.getElem?_replicate]
    simp only [List.length_take, hlen1]
    rw [if_pos (by omega)]
    -- the replicated value is the patched-head entry at n-h-1, which is c[n-h-1]
    rw [List.getD_eq_getElem?_getD]
    unfold patchHead
    rw [List.getElem?_append_right (by simp; omega)]
    simp only [List.length_replicate, List.getElem?_drop]
    have : h + (c.length - (h + 1) - min h c.length) = c.length - h - 1 := by omega
    rw [this, List.getElem?_eq_getElem (by omega)]
    simp

/-- **The smoothing is a boxcar mean over the clamped window**: for every pass of at least `2h+1`
lines (`h = 25` for more than 51 lines, else `h = 1`), line `i` carries the mean of the `2h+1`
readings centred at `clamp(i, h, n-1-h)` - all of them inside the pass (no zero padding). -/
theorem smooth_eq_clamped_window (xs : List Rat) (i : Nat) (hi : i < xs.length)
    (hn : 2 * halfWidth xs.length + 1 ≤ xs.length) :
    (smooth xs)[i]? = some (windowSum xs ((clampIdx i (halfWidth xs.length) xs.length : Nat) - (halfWidth xs.length : Nat) : Int)
        (2 * halfWidth xs.length + 1) / ((2 * halfWidth xs.length + 1 : Nat) : Rat)) ∧
    (∀ k, k < 2 * halfWidth xs.length + 1 →
      0 ≤ ((clampIdx i (halfWidth xs.length) xs.length : Nat) : Int) - (halfWidth xs.length : Nat) + k ∧
      ((clampIdx i (halfWidth xs.length) xs.length : Nat) : Int) - (halfWidth xs.length : Nat) + k < xs.length) := by
  have hh : 1 ≤ halfWidth xs.length := by unfold halfWidth; split <;> omega
  have hcl := convSame_length xs (halfWidth xs.length)
  constructor
  · unfold smooth
    simp only
    rw [patched_getElem _ _ i hh (by rw [hcl]; exact hn) (by rw [hcl]; exact hi), hcl]
    have hc : clampIdx i (halfWidth xs.length) xs.length < (convSame xs (halfWidth xs.length)).length := by
      rw [hcl]; unfold clampIdx; split <;> (try split) <;> omega
    rw [List.getElem?_eq_getElem hc, convSame_getElem]
  · intro k hk
    unfold clampIdx
    split <;> (try split) <;> omega

theorem halfWidth_spec (n : Nat) : halfWidth n = if n > 51 then 25 else 1 := rfl

/-- thermometer index = distance (mod 5) from any reset line -/
theorem iprt_spec (n n0 nr : Int) (off : Nat) (hoff : off < 5) (hr : (nr - n0) % 5 = (off : Int)) :
    (n - n0 + 5 - (off : Int)) % 5 = (n - nr) % 5 := by
  omega

/-- the reset lines use the all-zero coefficient column, thermometer `k` the row of thermometer `k` -/
theorem thermometer_column (d : List (List Rat)) (x : Rat) :
    polyPrt d 0 x = 0 ∧ ∀ k : Int, 1 ≤ k →
      polyPrt d k x = (d.getD (k - 1).toNat []).getD 0 0 + (d.getD (k - 1).toNat []).getD 1 0 * x
        + (d.getD (k - 1).toNat []).getD 2 0 * x * x + (d.getD (k - 1).toNat []).getD 3 0 * x * x * x
        + (d.getD (k - 1).toNat []).getD 4 0 * x * x * x * x := by
  constructor
  · simp [polyPrt]
  · intro k hk
    unfold polyPrt
    rw [if_neg (by omega)]

/-- `np.interp` between two neighbouring knots of a strictly increasing abscissa: linear -/
theorem interp_between (x : Rat) (xp fp : List Rat) (j : Nat) (hlen : xp.length = fp.length)
    (hinc : xp.Pairwise (· < ·)) (hj : j + 1 < xp.length)
    (h1 : xp[j] < x) (h2 : x ≤ xp[j + 1]) :
    interp x xp fp = fp[j]'(by omega) + (fp[j + 1]'(by omega) - fp[j]'(by omega)) * (x - xp[j]) / (xp[j + 1] - xp[j]) := by
  induction j generalizing xp fp with
  | zero =>
    match xp, fp, hlen, hj with
    | x0 :: x1 :: xs, f0 :: f1 :: fs, _, _ =>
      simp only [List.getElem_cons_zero, List.getElem_cons_succ] at h1 h2 ⊢
      have hne : x1 ≠ x0 := by
        have := (List.pairwise_cons.mp hinc).1 x1 (by simp)
        exact ne_of_gt this
      simp [interp, not_le.mpr h1, h2, hne]
  | succ j ih =>
    match xp, fp, hlen, hj with
    | x0 :: x1 :: xs, f0 :: f1 :: fs, hlen, hj =>
      simp only [List.getElem_cons_succ] at h1 h2 ⊢
      have hinc' := (List.pairwise_cons.mp hinc).2
      have hx1 : x1 ≤ (x1 :: xs)[j]'(by simp at hj ⊢; omega) := by
        cases j with
        | zero => simp
        | succ j' =>
          have hmem : (x1 :: xs)[j' + 1]'(by simp at hj ⊢; omega) ∈ xs := by
            simp only [List.getElem_cons_succ]; exact List.getElem_mem _
          exact le_of_lt ((List.pairwise_cons.mp hinc').1 _ hmem)
      have hx0 : x0 < x1 := (List.pairwise_cons.mp hinc).1 x1 (by simp)
      have a1 : ¬ x ≤ x0 := not_le.mpr (lt_trans hx0 (lt_of_le_of_lt hx1 h1))
      have a2 : ¬ x ≤ x1 := not_le.mpr (lt_of_le_of_lt hx1 h1)
      simp only [interp, a1, a2, if_false]
      exact ih (x1 :: xs) (f1 :: fs) (by simpa using hlen) hinc' (by simp at hj ⊢; omega) h1 h2

end PygacModel.Thermal
