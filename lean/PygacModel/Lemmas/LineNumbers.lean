import PygacModel.Model.LineNumbers
import PygacModel.Lemmas.Median
namespace PygacModel
open Np

theorem diffsOf_length (rs : List Rec) (med : Rat) : (diffsOf rs med).length = rs.length := by
  simp [diffsOf]

theorem offsetsOf_length (rs : List Rec) : (offsetsOf rs).length = rs.length := by
  simp [offsetsOf]

/-- Selecting by a parallel list of keys only removes elements. -/
theorem zip_filter_map_fst_sublist {α β : Type} (l : List α) (d : List β) (p : α × β → Bool) :
    (((l.zip d).filter p).map (·.1)).Sublist l := by
  have h1 : ((l.zip d).filter p).Sublist (l.zip d) := List.filter_sublist
  have h2 := h1.map (fun x : α × β => x.1)
  have h3 : ∀ (l : List α) (d : List β), ((l.zip d).map (·.1)).Sublist l := by
    intro l
    induction l with
    | nil => intro d; simp
    | cons a l ih =>
      intro d
      cases d with
      | nil => simp
      | cons b d => simp only [List.zip_cons_cons, List.map_cons]; exact (ih d).cons_cons a
  exact h2.trans (h3 l d)

theorem correctCommon_sublist_filter (statK : List Rat → KeepRule) (max : Int) (rs : List Rec) :
    (correctCommon statK max rs).Sublist (rs.filter (inRange max)) := by
  unfold correctCommon
  simp only []
  split
  · exact List.Sublist.refl _
  · exact zip_filter_map_fst_sublist _ _ _

/-- A sublist can be rotated along with its superlist. -/
theorem sublist_drop_take {α : Type} {c l : List α} (h : c.Sublist l) (k : Nat) :
    ∃ k', (c.drop k).Sublist (l.drop k') ∧ (c.take k).Sublist (l.take k') := by
  induction h generalizing k with
  | slnil => exact ⟨0, by simp, by simp⟩
  | cons a _ ih =>
    obtain ⟨k', h1, h2⟩ := ih k
    exact ⟨k' + 1, by simpa using h1, by simpa using h2.cons a⟩
  | cons_cons a _ ih =>
    cases k with
    | zero => exact ⟨0, by simpa using (List.Sublist.cons_cons a ‹_›), by simp⟩
    | succ j =>
      obtain ⟨k', h1, h2⟩ := ih j
      exact ⟨k' + 1, by simpa using h1, by simpa using h2.cons_cons a⟩

theorem podPost_sublist_rotation (c : List Rec) : ∃ k, (podPost c).Sublist (c.drop k ++ c.take k) := by
  unfold podPost
  cases c with
  | nil => exact ⟨0, by simp⟩
  | cons first rest =>
    simp only []
    split
    · exact ⟨_, List.filter_sublist⟩
    · refine ⟨0, ?_⟩
      simp only [List.drop_zero, List.take_zero, List.append_nil]
      exact List.filter_sublist.trans (List.drop_sublist _ _)

theorem podPost_mem_ne_zero (c : List Rec) : ∀ r ∈ podPost c, r.num ≠ 0 := by
  unfold podPost
  cases c with
  | nil => simp
  | cons first rest =>
    intro r hr
    simp only [] at hr
    have := (List.mem_filter.mp hr).2
    simpa using this

theorem podPost_mem (c : List Rec) : ∀ r ∈ podPost c, r ∈ c := by
  intro r hr
  obtain ⟨k, hk⟩ := podPost_sublist_rotation c
  have := hk.subset hr
  rcases List.mem_append.mp this with h | h
  · exact List.mem_of_mem_drop h
  · exact List.mem_of_mem_take h

theorem mem_zipIdx_fst {α : Type} (l : List α) (n : Nat) (p : α × Nat) (h : p ∈ l.zipIdx n) : p.1 ∈ l := by
  induction l generalizing n with
  | nil => simp at h
  | cons a l ih =>
    rw [List.zipIdx_cons] at h
    rcases List.mem_cons.mp h with rfl | h
    · simp
    · exact List.mem_cons_of_mem _ (ih _ h)

/-! ### minimum -/

theorem foldl_min_le_init (xs : List Rec) (m : Int) :
    xs.foldl (fun m x => if x.num < m then x.num else m) m ≤ m := by
  induction xs generalizing m with
  | nil => simp
  | cons x xs ih =>
    simp only [List.foldl_cons]
    split
    · exact le_trans (ih _) (le_of_lt ‹_›)
    · exact ih _

theorem foldl_min_eq_of_le (xs : List Rec) (m : Int) (h : ∀ x ∈ xs, m ≤ x.num) :
    xs.foldl (fun m x => if x.num < m then x.num else m) m = m := by
  induction xs generalizing m with
  | nil => simp
  | cons x xs ih =>
    simp only [List.foldl_cons]
    have hx : m ≤ x.num := h x (by simp)
    have : ¬ x.num < m := by omega
    simp only [this, if_false]
    exact ih m (fun y hy => h y (by simp [hy]))

theorem minNum_of_first_le (r : Rec) (rs : List Rec) (h : ∀ x ∈ rs, r.num ≤ x.num) :
    minNum (r :: rs) = r.num := foldl_min_eq_of_le rs r.num h

/-- If the first record carries the smallest number and no number is 0, the POD post-step
leaves the list alone. -/
theorem podPost_id (r : Rec) (rs : List Rec) (h : ∀ x ∈ rs, r.num ≤ x.num)
    (hnz : ∀ x ∈ r :: rs, x.num ≠ 0) : podPost (r :: rs) = r :: rs := by
  unfold podPost
  simp only []
  rw [minNum_of_first_le r rs h]
  have htw : ((r :: rs).takeWhile (fun x => x.num != r.num)) = [] := by simp
  rw [htw]
  simp only [List.length_nil, List.drop_zero, List.take_zero, List.append_nil, ite_self]
  rw [List.filter_eq_self]
  intro x hx
  simpa using hnz x hx

end PygacModel
