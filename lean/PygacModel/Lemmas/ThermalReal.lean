import PygacModel.Model.Thermal
import Mathlib.Analysis.SpecialFunctions.Log.Basic
import Mathlib.Data.Real.Basic
import Mathlib.Tactic.Linarith
import Mathlib.Tactic.FieldSimp
import Mathlib.Tactic.Ring
import Mathlib.Tactic.Positivity
namespace PygacModel.Thermal
open PygacModel

/-- the reals as an instance of the arithmetic class the model is written over -/
noncomputable instance : Arith ℝ where
  add := (· + ·)
  sub := (· - ·)
  mul := (· * ·)
  div := (· / ·)
  ofRat q := (q : ℝ)
  exp := Real.exp
  log := Real.log
  lt a b := decide (a < b)
  le a b := decide (a ≤ b)

theorem planck_real (co : ChanCoef) (tS : ℝ) :
    planck co tS = ((c1 : ℝ) * ((co.nu : ℝ) * ((co.nu : ℝ) * (co.nu : ℝ)))) /
      (Real.exp (((c2 : ℝ) * (co.nu : ℝ)) / tS) - ((1 : Rat) : ℝ)) := rfl

theorem effTemp_real (co : ChanCoef) (t : ℝ) : effTemp co t = (co.A : ℝ) + (co.B : ℝ) * t := rfl

theorem nLin_real (co : ChanCoef) (nBB cS cE cBB : ℝ) :
    nLin co nBB cS cE cBB = (co.nS : ℝ) + (nBB - (co.nS : ℝ)) * (cS - cE) / (cS - cBB) := rfl

theorem nE_real (co : ChanCoef) (n : ℝ) :
    nE co n = n + ((co.b0 : ℝ) + ((co.b1 : ℝ) * n + (co.b2 : ℝ) * (n * n))) := rfl

theorem invPlanck_real (co : ChanCoef) (n : ℝ) :
    invPlanck co n = (((c2 : ℝ) * (co.nu : ℝ)) /
        Real.log (((1 : Rat) : ℝ) + ((c1 : ℝ) * ((co.nu : ℝ) * ((co.nu : ℝ) * (co.nu : ℝ)))) / n) - (co.A : ℝ)) / (co.B : ℝ) := rfl

theorem c1_pos : (0 : ℝ) < (c1 : ℝ) := by
  have : (0 : Rat) < c1 := by decide +kernel
  exact_mod_cast this

theorem c2_pos : (0 : ℝ) < (c2 : ℝ) := by
  have : (0 : Rat) < c2 := by decide +kernel
  exact_mod_cast this

/-- the radiance constant `c1 nu^3` -/
noncomputable def kOf (co : ChanCoef) : ℝ := (c1 : ℝ) * ((co.nu : ℝ) * ((co.nu : ℝ) * (co.nu : ℝ)))

theorem kOf_pos (co : ChanCoef) (hnu : 0 < co.nu) : 0 < kOf co := by
  have : (0 : ℝ) < (co.nu : ℝ) := by exact_mod_cast hnu
  unfold kOf
  have := c1_pos
  positivity

/-- **Inverse Planck undoes Planck**: for a positive effective temperature `A + B T`, positive
wavenumber and `B ≠ 0`. -/
theorem planck_inverse (co : ChanCoef) (T : ℝ) (hnu : 0 < co.nu) (hB : co.B ≠ 0) (hT : 0 < effTemp co T) :
    invPlanck co (planck co (effTemp co T)) = T := by
  have hnuR : (0 : ℝ) < (co.nu : ℝ) := by exact_mod_cast hnu
  have hBR : (co.B : ℝ) ≠ 0 := by exact_mod_cast hB
  have hK := kOf_pos co hnu
  rw [invPlanck_real, planck_real]
  set tS := effTemp co T with htS
  have hx : 0 < ((c2 : ℝ) * (co.nu : ℝ)) / tS := div_pos (mul_pos c2_pos hnuR) hT
  have he : 0 < Real.exp (((c2 : ℝ) * (co.nu : ℝ)) / tS) - 1 := by
    have := Real.add_one_lt_exp (ne_of_gt hx)
    linarith
  have h1 : (((1 : Rat) : ℝ)) = 1 := by norm_num
  rw [h1]
  change ((c2 : ℝ) * (co.nu : ℝ) / Real.log (1 + kOf co / (kOf co / (Real.exp ((c2 : ℝ) * (co.nu : ℝ) / tS) - 1))) - (co.A : ℝ)) / (co.B : ℝ) = T
  have hdd : kOf co / (kOf co / (Real.exp ((c2 : ℝ) * (co.nu : ℝ) / tS) - 1)) = Real.exp ((c2 : ℝ) * (co.nu : ℝ) / tS) - 1 := by
    field_simp
  rw [hdd]
  have : (1 : ℝ) + (Real.exp ((c2 : ℝ) * (co.nu : ℝ) / tS) - 1) = Real.exp ((c2 : ℝ) * (co.nu : ℝ) / tS) := by ring
  rw [this, Real.log_exp]
  have hc : (c2 : ℝ) * (co.nu : ℝ) ≠ 0 := ne_of_gt (mul_pos c2_pos hnuR)
  have htS0 : tS ≠ 0 := ne_of_gt hT
  have : (c2 : ℝ) * (co.nu : ℝ) / ((c2 : ℝ) * (co.nu : ℝ) / tS) = tS := by
    rw [div_div_eq_mul_div, mul_comm, mul_div_assoc, div_self hc, mul_one]
  rw [this, htS, effTemp_real]
  field_simp
  ring

/-- **The linear estimate is anchored at the internal target**: a scene count equal to the
internal-target count gives the internal-target radiance -/
theorem nlin_anchor (co : ChanCoef) (nBB cS cBB : ℝ) (h : cS ≠ cBB) : nLin co nBB cS cBB cBB = nBB := by
  rw [nLin_real]
  have : cS - cBB ≠ 0 := sub_ne_zero.mpr h
  field_simp
  ring

/-- with a vanishing non-linearity correction (channel 3b) such a scene reads the internal-target
temperature exactly -/
theorem fixed_point_linear (co : ChanCoef) (tBB cS cBB : ℝ) (hb : co.b0 = 0 ∧ co.b1 = 0 ∧ co.b2 = 0)
    (hnu : 0 < co.nu) (hB : co.B ≠ 0) (hT : 0 < effTemp co tBB) (h : cS ≠ cBB) :
    btRaw co tBB cS cBB cBB = tBB := by
  unfold btRaw
  rw [nlin_anchor co _ cS cBB h]
  have : nE co (planck co (effTemp co tBB)) = planck co (effTemp co tBB) := by
    rw [nE_real, hb.1, hb.2.1, hb.2.2]
    simp
  rw [this]
  exact planck_inverse co tBB hnu hB hT

/-- the inverse Planck function is non-decreasing in the radiance (positive radiances, `B > 0`) -/
theorem invPlanck_mono (co : ChanCoef) (n1 n2 : ℝ) (hnu : 0 < co.nu) (hB : 0 < co.B)
    (h1 : 0 < n1) (h12 : n1 ≤ n2) : invPlanck co n1 ≤ invPlanck co n2 := by
  have hnuR : (0 : ℝ) < (co.nu : ℝ) := by exact_mod_cast hnu
  have hBR : (0 : ℝ) < (co.B : ℝ) := by exact_mod_cast hB
  have hK := kOf_pos co hnu
  have h2 : 0 < n2 := lt_of_lt_of_le h1 h12
  rw [invPlanck_real, invPlanck_real]
  have h1' : (((1 : Rat) : ℝ)) = 1 := by norm_num
  rw [h1']
  change ((c2 : ℝ) * (co.nu : ℝ) / Real.log (1 + kOf co / n1) - (co.A : ℝ)) / (co.B : ℝ)
      ≤ ((c2 : ℝ) * (co.nu : ℝ) / Real.log (1 + kOf co / n2) - (co.A : ℝ)) / (co.B : ℝ)
  have hq : kOf co / n2 ≤ kOf co / n1 := div_le_div_of_nonneg_left (le_of_lt hK) h1 h12
  have hq2 : 0 < kOf co / n2 := div_pos hK h2
  have hl2 : 0 < Real.log (1 + kOf co / n2) := Real.log_pos (by linarith)
  have hll : Real.log (1 + kOf co / n2) ≤ Real.log (1 + kOf co / n1) :=
    Real.log_le_log (by linarith) (by linarith)
  have hc : 0 < (c2 : ℝ) * (co.nu : ℝ) := mul_pos c2_pos hnuR
  have : (c2 : ℝ) * (co.nu : ℝ) / Real.log (1 + kOf co / n1) ≤ (c2 : ℝ) * (co.nu : ℝ) / Real.log (1 + kOf co / n2) :=
    div_le_div_of_nonneg_left (le_of_lt hc) hl2 hll
  apply div_le_div_of_nonneg_right _ (le_of_lt hBR)
  linarith

/-- the corrected radiance is non-decreasing in the linear estimate wherever its derivative
`1 + b1 + b2 (n1 + n2)` is non-negative -/
theorem nE_mono (co : ChanCoef) (n1 n2 : ℝ) (h12 : n1 ≤ n2)
    (hd : 0 ≤ 1 + (co.b1 : ℝ) + (co.b2 : ℝ) * (n1 + n2)) : nE co n1 ≤ nE co n2 := by
  rw [nE_real, nE_real]
  have : (n2 + ((co.b0 : ℝ) + ((co.b1 : ℝ) * n2 + (co.b2 : ℝ) * (n2 * n2))))
       - (n1 + ((co.b0 : ℝ) + ((co.b1 : ℝ) * n1 + (co.b2 : ℝ) * (n1 * n1))))
       = (n2 - n1) * (1 + (co.b1 : ℝ) + (co.b2 : ℝ) * (n1 + n2)) := by ring
  have h := mul_nonneg (sub_nonneg.mpr h12) hd
  linarith

/-- the linear estimate is non-increasing in the scene count when the gain `(N_BB - N_S)/(C_S - C_BB)` is non-negative -/
theorem nLin_antitone (co : ChanCoef) (nBB cS cBB c1 c2 : ℝ) (hg : 0 ≤ (nBB - (co.nS : ℝ)) / (cS - cBB)) (h : c1 ≤ c2) :
    nLin co nBB cS c2 cBB ≤ nLin co nBB cS c1 cBB := by
  rw [nLin_real, nLin_real]
  have e : ∀ c, (nBB - (co.nS : ℝ)) * (cS - c) / (cS - cBB) = (nBB - (co.nS : ℝ)) / (cS - cBB) * (cS - c) := by
    intro c; ring
  rw [e, e]
  have := mul_le_mul_of_nonneg_left (show cS - c2 ≤ cS - c1 by linarith) hg
  linarith

/-- **Brightness temperature never increases with the earth count** (before the masks): for counts
`c1 ≤ c2` not above the space count, on a line with non-negative gain, when the non-linearity
derivative is non-negative from the space radiance upward (`b2 ≥ 0`, `1 + b1 + 2 b2 N_S ≥ 0`:
decidable facts about the coefficient row) and the radiance at `c2` is positive. -/
theorem bt_antitone (co : ChanCoef) (tBB cS cBB c1 c2 : ℝ) (hnu : 0 < co.nu) (hB : 0 < co.B)
    (hb2 : 0 ≤ co.b2) (hder : 0 ≤ 1 + co.b1 + 2 * co.b2 * co.nS)
    (hg : 0 ≤ (planck co (effTemp co tBB) - (co.nS : ℝ)) / (cS - cBB))
    (h12 : c1 ≤ c2) (hcS : c2 ≤ cS)
    (hpos : 0 < nE co (nLin co (planck co (effTemp co tBB)) cS c2 cBB)) :
    btRaw co tBB cS cBB c2 ≤ btRaw co tBB cS cBB c1 := by
  unfold btRaw
  set nBB := planck co (effTemp co tBB)
  have hlin := nLin_antitone co nBB cS cBB c1 c2 hg h12
  -- both linear estimates are at least N_S
  have hge : ∀ c, c ≤ cS → (co.nS : ℝ) ≤ nLin co nBB cS c cBB := by
    intro c hc
    rw [nLin_real]
    have e : (nBB - (co.nS : ℝ)) * (cS - c) / (cS - cBB) = (nBB - (co.nS : ℝ)) / (cS - cBB) * (cS - c) := by ring
    rw [e]
    have := mul_nonneg hg (sub_nonneg.mpr hc)
    linarith
  have hb2R : (0 : ℝ) ≤ (co.b2 : ℝ) := by exact_mod_cast hb2
  have hderR : (0 : ℝ) ≤ 1 + (co.b1 : ℝ) + 2 * (co.b2 : ℝ) * (co.nS : ℝ) := by exact_mod_cast hder
  have hd : 0 ≤ 1 + (co.b1 : ℝ) + (co.b2 : ℝ) * (nLin co nBB cS c2 cBB + nLin co nBB cS c1 cBB) := by
    have a1 := hge c2 hcS
    have a2 := hge c1 (le_trans h12 hcS)
    have : (co.b2 : ℝ) * (2 * (co.nS : ℝ)) ≤ (co.b2 : ℝ) * (nLin co nBB cS c2 cBB + nLin co nBB cS c1 cBB) :=
      mul_le_mul_of_nonneg_left (by linarith) hb2R
    linarith
  have hne := nE_mono co _ _ hlin hd
  exact invPlanck_mono co _ _ hnu hB hpos hne

/-- range mask: a value is reported iff it lies in [170, 350] K -/
theorem range_mask (co : ChanCoef) (tBB cS cBB cE : ℝ) (v : ℝ) :
    btMasked co false tBB cS cBB cE = some v ↔ (v = btRaw co tBB cS cBB cE ∧ 170 ≤ v ∧ v ≤ 350) := by
  unfold btMasked
  simp only [Bool.false_and, Bool.false_eq_true, if_false]
  have e170 : (r (170 : Rat) : ℝ) = 170 := by show ((170 : Rat) : ℝ) = 170; norm_num
  have e350 : (r (350 : Rat) : ℝ) = 350 := by show ((350 : Rat) : ℝ) = 350; norm_num
  rw [e170, e350]
  show (if (decide (btRaw co tBB cS cBB cE < 170) || decide (350 < btRaw co tBB cS cBB cE)) = true then none
      else if (decide (170 ≤ btRaw co tBB cS cBB cE) && decide (btRaw co tBB cS cBB cE ≤ 350)) = true
        then some (btRaw co tBB cS cBB cE) else none) = some v ↔ _
  by_cases h1 : btRaw co tBB cS cBB cE < 170
  · simp [h1]; intro hv; rw [hv]; intro h; linarith
  · by_cases h2 : 350 < btRaw co tBB cS cBB cE
    · simp [h1, h2]; intro hv; rw [hv]; intro _; exact h2
    · have a1 : 170 ≤ btRaw co tBB cS cBB cE := not_lt.mp h1
      have a2 : btRaw co tBB cS cBB cE ≤ 350 := not_lt.mp h2
      simp [h1, h2, a1, a2]
      constructor
      · intro h; exact ⟨h.symm, by rw [← h]; exact a1, by rw [← h]; exact a2⟩
      · intro h; exact h.1.symm

end PygacModel.Thermal
