import PygacModel.Model.Times
import PygacModel.Lemmas.MedianBand
import Mathlib.Data.Rat.Floor
import Mathlib.Tactic.Linarith
namespace PygacModel.Times
open PygacModel Np

/-! ### small arithmetic facts -/

theorem absR_le_iff (x y : Rat) : absR x ≤ y ↔ -y ≤ x ∧ x ≤ y := by
  unfold absR
  by_cases hx : x < 0
  · rw [if_pos hx]
    constructor
    · intro h; constructor <;> linarith
    · rintro ⟨h1, h2⟩; linarith
  · rw [if_neg hx]
    have hx' : 0 ≤ x := not_lt.mp hx
    constructor
    · intro h; constructor <;> linarith
    · rintro ⟨h1, h2⟩; linarith

theorem absR_lt_iff (x y : Rat) : absR x < y ↔ -y < x ∧ x < y := by
  unfold absR
  by_cases hx : x < 0
  · rw [if_pos hx]
    constructor
    · intro h; constructor <;> linarith
    · rintro ⟨h1, h2⟩; linarith
  · rw [if_neg hx]
    have hx' : 0 ≤ x := not_lt.mp hx
    constructor
    · intro h; constructor <;> linarith
    · rintro ⟨h1, h2⟩; linarith

theorem absR_nonneg (x : Rat) : 0 ≤ absR x := by
  unfold absR; split <;> linarith

theorem floor_le' (x : Rat) : ((x.floor : Int) : Rat) ≤ x := Int.floor_le x
theorem lt_floor_add_one' (x : Rat) : x < ((x.floor : Int) : Rat) + 1 := Int.lt_floor_add_one x

/-- truncation toward zero moves a value by less than 1 -/
theorem truncR_close (x : Rat) : absR (((truncR x : Int) : Rat) - x) < 1 := by
  rw [absR_lt_iff]
  unfold truncR
  split
  · have h1 := floor_le' (-x)
    have h2 := lt_floor_add_one' (-x)
    push_cast
    constructor <;> linarith
  · have h1 := floor_le' x
    have h2 := lt_floor_add_one' x
    constructor <;> linarith

/-! ### stage 2 -/

theorem stage2_length (prm : S2Params) (P : Rat) (sg : Bool) (nums : List Int) (hd : Option Int)
    (t ts : List Int) (hlen : t.length = nums.length) (h : stage2 prm P sg nums hd t = .times ts) :
    ts.length = nums.length := by
  unfold stage2 at h
  split at h
  · cases h
  · split at h
    · cases h
    · simp only at h
      split at h
      · injection h with h; subst h
        simp [tnOf, hlen]
      · cases h

/-- what stage 2 does when it does not refuse: every line goes through `repairLine` with one
common offset `t0`, the median of the offsets near the header time -/
theorem stage2_lines (prm : S2Params) (P : Rat) (sg : Bool) (nums : List Int) (hd : Option Int)
    (t ts : List Int) (h : stage2 prm P sg nums hd t = .times ts) :
    ∃ hm, hd = some hm ∧
      (prm.minFrac ≤ ((nearOf prm hm (offsetsOf t (tnOf P sg nums))).length : Rat) / (nums.length : Rat)) ∧
      ts = List.zipWith (repairLine prm (medianD (nearOf prm hm (offsetsOf t (tnOf P sg nums))))) t (tnOf P sg nums) := by
  unfold stage2 at h
  split at h
  · cases h
  · split at h
    · cases h
    · rename_i hm
      simp only at h
      split at h
      · rename_i hfrac
        injection h with h
        exact ⟨hm, rfl, hfrac, h.symm⟩
      · cases h

/-- one repaired line, given that the estimated offset `t0` is within `ε` of the true offset `c` -/
theorem repairLine_spec (prm : S2Params) (t0 c ε : Rat) (ti : Int) (x : Rat)
    (ht0 : absR (t0 - c) ≤ ε) :
    -- (1) a line within (limit - ε) of its true time is returned unchanged
    (absR ((ti : Rat) - (x + c)) ≤ prm.maxDiffIdeal - ε → repairLine prm t0 ti x = ti) ∧
    -- (2) every returned time is within limit + ε of the true time, or within ε + 1 of it
    (absR (((repairLine prm t0 ti x : Int) : Rat) - (x + c)) ≤ prm.maxDiffIdeal + ε ∨
      absR (((repairLine prm t0 ti x : Int) : Rat) - (x + c)) < ε + 1) ∧
    -- (3) a line further than limit + ε from its true time is replaced, to within ε + 1 of it
    (absR ((ti : Rat) - (x + c)) > prm.maxDiffIdeal + ε →
      absR (((repairLine prm t0 ti x : Int) : Rat) - (x + c)) < ε + 1) := by
  rw [absR_le_iff] at ht0
  have htr := truncR_close (x + t0)
  rw [absR_lt_iff] at htr
  refine ⟨?_, ?_, ?_⟩
  · intro h
    rw [absR_le_iff] at h
    unfold repairLine
    rw [if_neg]
    rw [not_lt, absR_le_iff]
    constructor <;> linarith [h.1, h.2, ht0.1, ht0.2]
  · unfold repairLine
    split
    · right
      rw [absR_lt_iff]
      constructor <;> linarith [htr.1, htr.2, ht0.1, ht0.2]
    · rename_i hnot
      left
      rw [not_lt, absR_le_iff] at hnot
      rw [absR_le_iff]
      constructor <;> linarith [hnot.1, hnot.2, ht0.1, ht0.2]
  · intro h
    unfold repairLine
    rw [if_pos]
    · rw [absR_lt_iff]
      constructor <;> linarith [htr.1, htr.2, ht0.1, ht0.2]
    · by_contra hnot
      rw [not_lt, absR_le_iff] at hnot
      have : absR ((ti : Rat) - (x + c)) ≤ prm.maxDiffIdeal + ε := by
        rw [absR_le_iff]; constructor <;> linarith [hnot.1, hnot.2, ht0.1, ht0.2]
      linarith

/-- the estimated offset lies in any band that holds a strict majority of the near-header offsets -/
theorem t0_in_band (near : List Rat) (c ε : Rat)
    (hmaj : near.length < 2 * near.countP (inBand (c - ε) (c + ε))) :
    absR (medianD near - c) ≤ ε := by
  obtain ⟨m, hm, h1, h2⟩ := median_band near (c - ε) (c + ε) hmaj
  unfold medianD
  rw [hm, Option.getD_some, absR_le_iff]
  constructor <;> linarith

end PygacModel.Times

namespace PygacModel.Times
open PygacModel Np

/-! ### list helpers -/

theorem ediffAux_length (p : Rat) (xs : List Rat) : (ediffAux p xs).length = xs.length := by
  induction xs generalizing p with
  | nil => rfl
  | cons x xs ih => simp [ediffAux, ih]

@[simp] theorem ediff_length (xs : List Rat) : (ediff xs).length = xs.length := by
  cases xs with
  | nil => rfl
  | cons x xs => simp [ediff, ediffAux_length]

theorem ediffU32Aux_length (p : Int) (xs : List Int) : (ediffU32Aux p xs).length = xs.length := by
  induction xs generalizing p with
  | nil => rfl
  | cons x xs ih => simp [ediffU32Aux, ih]

@[simp] theorem ediffU32_length (xs : List Int) : (ediffU32 xs).length = xs.length := by
  cases xs with
  | nil => rfl
  | cons x xs => simp [ediffU32, ediffU32Aux_length]

/-- a `zipWith` whose function returns its second argument for every first argument that occurs -/
theorem zipWith_eq_right {α β : Type} (f : α → β → β) (as : List α) (bs : List β)
    (hlen : as.length = bs.length) (h : ∀ a ∈ as, ∀ b, f a b = b) : List.zipWith f as bs = bs := by
  induction as generalizing bs with
  | nil => cases bs with
    | nil => rfl
    | cons b bs => simp at hlen
  | cons a as ih => cases bs with
    | nil => simp at hlen
    | cons b bs =>
      simp only [List.zipWith_cons_cons]
      rw [h a (List.mem_cons_self) b, ih bs (by simpa using hlen) (fun a' ha' => h a' (List.mem_cons_of_mem _ ha'))]

theorem map_eq_of_forall {α β : Type} (f g : α → β) (xs : List α) (h : ∀ x ∈ xs, f x = g x) :
    xs.map f = xs.map g := List.map_congr_left h

/-! ### stage 1 on a clean pass -/

def castL (xs : List Int) : List Rat := xs.map (fun (j : Int) => (j : Rat))

@[simp] theorem castL_length (xs : List Int) : (castL xs).length = xs.length := by simp [castL]

theorem jdayFix1_clean (jday : List Int) (h : ∀ j ∈ jday, 1 ≤ j ∧ j ≤ 366) : jdayFix1 jday = castL jday := by
  unfold jdayFix1 castL
  apply List.map_congr_left
  intro j hj
  have := h j hj
  rw [if_neg]
  omega

theorem jdayFix2_clean (j1 : List Rat) (h : ∀ w ∈ ediff j1, 0 ≤ w) : jdayFix2 j1 = j1 := by
  unfold jdayFix2
  apply zipWith_eq_right
  · simp
  · intro w hw b
    rw [if_neg]
    exact not_lt.mpr (h w hw)

/-- the ideal time of day of every line, anchored at the first line's recorded time -/
def idealOfDay (P : Rat) (sg : Bool) (r : RawTimes) : List Rat :=
  (linenoOfDay P sg r.nums (castL r.jday)).map (fun l => ((r.msec.headD 0 : Int) : Rat) + l)

theorem linenoRel_length (P : Rat) (sg : Bool) (nums : List Int) : (linenoRel P sg nums).length = nums.length := by
  simp [linenoRel]

theorem linenoOfDay_length (P : Rat) (sg : Bool) (nums : List Int) (j : List Rat) (h : j.length = nums.length) :
    (linenoOfDay P sg nums j).length = nums.length := by
  simp [linenoOfDay, linenoRel, h]

theorem idealOfDay_length (P : Rat) (sg : Bool) (r : RawTimes) (h : r.jday.length = r.nums.length) :
    (idealOfDay P sg r).length = r.nums.length := by
  simp [idealOfDay, linenoOfDay_length P sg r.nums (castL r.jday) (by simpa using h)]

theorem headR_castL (xs : List Int) : headR (castL xs) = ((xs.headD 0 : Int) : Rat) := by
  cases xs <;> simp [headR, castL]

theorem idealOfDay_head (P : Rat) (sg : Bool) (r : RawTimes) (hn : 0 < r.nums.length)
    (hj : r.jday.length = r.nums.length) : headR (idealOfDay P sg r) = ((r.msec.headD 0 : Int) : Rat) := by
  obtain ⟨nums, year, jday, msec⟩ := r
  cases nums with
  | nil => simp at hn
  | cons n ns =>
    cases jday with
    | nil => simp at hj
    | cons j js =>
      simp [idealOfDay, linenoOfDay, linenoRel, headR, castL]

/-- result of the first `msec` step on a pass whose first time of day is at least 1 ms -/
theorem msecFix1_clean (P : Rat) (sg : Bool) (r : RawTimes) (hfirst : 1 ≤ r.msec.headD 0)
    (hlen : r.msec.length = r.nums.length) (hn : 0 < r.nums.length) :
    (msecFix1 P sg r.nums (castL r.jday) r.msec).1 = castL r.msec ∨
    (msecFix1 P sg r.nums (castL r.jday) r.msec).1 = idealOfDay P sg r := by
  unfold msecFix1
  split
  · left; rfl
  · rename_i k hk
    have hk0 : k ≠ 0 := by
      intro h0
      subst h0
      have := List.findIdx?_eq_some_iff_getElem.mp hk
      obtain ⟨hlt, hp, _⟩ := this
      have : r.msec[0] < 1 := by simpa using hp
      have hh : ∀ (l : List Int) (h : 0 < l.length), l.headD 0 = l[0] := by
        intro l h
        cases l with
        | nil => simp at h
        | cons a as => simp
      have := hh r.msec hlt
      omega
    simp only [hk0, ne_eq, not_false_eq_true, if_true]
    right
    unfold idealOfDay
    apply List.map_congr_left
    intro l _
    have := headR_castL r.msec
    unfold castL at this
    rw [this]

theorem castL_head (xs : List Int) : headR (castL xs) = ((xs.headD 0 : Int) : Rat) := headR_castL xs

/-- every entry of the second `msec` step is the corresponding entry of its input or of the
replacement series -/
theorem zipWith_pick {γ : Type} (p : γ → Prop) [DecidablePred p] (cs : List γ) (m1 repl : List Rat) (i : Nat)
    (hi : i < (List.zipWith (fun (c : γ) (mr : Rat × Rat) => if p c then mr.2 else mr.1) cs (List.zip m1 repl)).length) :
    ∃ (h1 : i < m1.length) (h2 : i < repl.length),
      (List.zipWith (fun (c : γ) (mr : Rat × Rat) => if p c then mr.2 else mr.1) cs (List.zip m1 repl))[i] = m1[i] ∨
      (List.zipWith (fun (c : γ) (mr : Rat × Rat) => if p c then mr.2 else mr.1) cs (List.zip m1 repl))[i] = repl[i] := by
  have hi' := hi
  simp only [List.length_zipWith, List.length_zip] at hi'
  refine ⟨by omega, by omega, ?_⟩
  rw [List.getElem_zipWith]
  simp only [List.getElem_zip]
  split
  · right; rfl
  · left; rfl

end PygacModel.Times

namespace PygacModel.Times
open PygacModel Np

theorem truncR_intCast (j : Int) : truncR ((j : Int) : Rat) = j := by
  unfold truncR
  split
  · have : (-((j : Int) : Rat)) = (((-j : Int)) : Rat) := by push_cast; rfl
    rw [this]
    show -⌊(((-j : Int)) : Rat)⌋ = j
    rw [Int.floor_intCast]; omega
  · show ⌊((j : Int) : Rat)⌋ = j
    exact Int.floor_intCast j

/-- A pass whose day and year fields are plausible and whose first line is not exactly at
midnight: none of the global replacement branches of stage 1 fires. -/
structure Clean (nowYear : Int) (r : RawTimes) : Prop where
  n_pos : 0 < r.nums.length
  len_y : r.year.length = r.nums.length
  len_j : r.jday.length = r.nums.length
  len_m : r.msec.length = r.nums.length
  year_ok : ∀ y ∈ r.year, 1978 ≤ y ∧ y ≤ nowYear
  jday_ok : ∀ j ∈ r.jday, 1 ≤ j ∧ j ≤ 366
  jday_mono : ∀ w ∈ ediff (castL r.jday), 0 ≤ w
  msec_first : 1 ≤ r.msec.headD 0

theorem msecFix2_length (P : Rat) (sg : Bool) (nums : List Int) (j1 j2 : List Rat) (msecI : List Int)
    (m1 : List Rat) (b : Bool) (h1 : j1.length = nums.length) (h2 : j2.length = nums.length)
    (h3 : msecI.length = nums.length) (h4 : m1.length = nums.length) :
    (msecFix2 P sg nums j1 j2 msecI m1 b).length = nums.length := by
  unfold msecFix2
  simp only [List.length_zipWith, List.length_zip, List.length_map, ediff_length, ediffU32_length,
    linenoOfDay_length P sg nums j2 h2, h1, h3, h4]
  cases b <;> simp [h3, h4]

/-- the `msec` series stage 1 returns for a clean pass -/
def cleanMsec (P : Rat) (sg : Bool) (r : RawTimes) : List Rat :=
  msecFix2 P sg r.nums (castL r.jday) (castL r.jday) r.msec
    (msecFix1 P sg r.nums (castL r.jday) r.msec).1 (msecFix1 P sg r.nums (castL r.jday) r.msec).2

theorem stage1_clean (P : Rat) (sg : Bool) (nowYear : Int) (r : RawTimes) (h : Clean nowYear r) :
    stage1 P sg nowYear r = { year := r.year, jday := r.jday, msec := cleanMsec P sg r } := by
  have hj1 : jdayFix1 r.jday = castL r.jday := jdayFix1_clean r.jday h.jday_ok
  have hj2 : jdayFix2 (castL r.jday) = castL r.jday := jdayFix2_clean _ h.jday_mono
  have hy : r.year.findIdx? (fun y => decide (y < 1978 ∨ y > nowYear)) = none := by
    rw [List.findIdx?_eq_none_iff]
    intro y hy
    have := h.year_ok y hy
    simp; omega
  have hjj : (castL r.jday).map truncR = r.jday := by
    simp only [castL, List.map_map]
    conv => rhs; rw [← List.map_id r.jday]
    apply List.map_congr_left
    intro j _
    simp [truncR_intCast]
  unfold stage1 cleanMsec
  simp only [hj1, hj2, hy, hjj]

theorem cleanMsec_spec (P : Rat) (sg : Bool) (nowYear : Int) (r : RawTimes) (h : Clean nowYear r) :
    ∃ (hl : (cleanMsec P sg r).length = r.nums.length),
      ∀ i (hi : i < r.nums.length),
        (cleanMsec P sg r)[i]'(by omega) = ((r.msec[i]'(by have := h.len_m; omega) : Int) : Rat) ∨
        (cleanMsec P sg r)[i]'(by omega) =
          (idealOfDay P sg r)[i]'(by rw [idealOfDay_length P sg r h.len_j]; exact hi) := by
  have hm1 := msecFix1_clean P sg r h.msec_first h.len_m h.n_pos
  have hm1len : (msecFix1 P sg r.nums (castL r.jday) r.msec).1.length = r.nums.length := by
    rcases hm1 with e | e <;> rw [e]
    · simp [h.len_m]
    · exact idealOfDay_length P sg r h.len_j
  have hlen : (cleanMsec P sg r).length = r.nums.length :=
    msecFix2_length P sg r.nums (castL r.jday) (castL r.jday) r.msec
      (msecFix1 P sg r.nums (castL r.jday) r.msec).1 (msecFix1 P sg r.nums (castL r.jday) r.msec).2
      (by simp [h.len_j]) (by simp [h.len_j]) h.len_m hm1len
  refine ⟨hlen, ?_⟩
  intro i hi
  have hhead : headR (msecFix1 P sg r.nums (castL r.jday) r.msec).1 = ((r.msec.headD 0 : Int) : Rat) := by
    rcases hm1 with e | e <;> rw [e]
    · exact headR_castL _
    · exact idealOfDay_head P sg r h.n_pos h.len_j
  have hrepl : (linenoOfDay P sg r.nums (castL r.jday)).map
      (fun l => headR (msecFix1 P sg r.nums (castL r.jday) r.msec).1 + l) = idealOfDay P sg r := by
    unfold idealOfDay; rw [hhead]
  have hdef : cleanMsec P sg r = List.zipWith
      (fun (c : Rat × Rat) (mr : Rat × Rat) => if (c.1 < -1000 ∨ c.1 > 1000) ∧ c.2 ≠ 1 then mr.2 else mr.1)
      (List.zip (if (msecFix1 P sg r.nums (castL r.jday) r.msec).2 then (ediffU32 r.msec).map (fun (d : Int) => (d : Rat))
        else ediff (msecFix1 P sg r.nums (castL r.jday) r.msec).1) (ediff (castL r.jday)))
      (List.zip (msecFix1 P sg r.nums (castL r.jday) r.msec).1 (idealOfDay P sg r)) := by
    unfold cleanMsec msecFix2
    simp only [hrepl]
  obtain ⟨h1, h2, hpick⟩ := zipWith_pick (fun (c : Rat × Rat) => (c.1 < -1000 ∨ c.1 > 1000) ∧ c.2 ≠ 1) _
    (msecFix1 P sg r.nums (castL r.jday) r.msec).1 (idealOfDay P sg r) i (by rw [← hdef]; omega)
  simp only [hdef]
  rcases hpick with e | e
  · rcases hm1 with e1 | e1
    · left; rw [e, List.getElem_of_eq e1 h1]; simp [castL]
    · right; rw [e, List.getElem_of_eq e1 h1]
  · right; exact e

end PygacModel.Times

namespace PygacModel.Times
open PygacModel Np

/-! ### consistent passes -/

theorem truncR_near_int (e : Rat) (m : Int) (h1 : ((m : Int) : Rat) - 1 < e) (h2 : e < ((m : Int) : Rat) + 1) :
    m - 1 ≤ truncR e ∧ truncR e ≤ m + 1 := by
  have hc := truncR_close e
  rw [absR_lt_iff] at hc
  have a1 : (((m - 2 : Int)) : Rat) < ((truncR e : Int) : Rat) := by push_cast; linarith [hc.1]
  have a2 : ((truncR e : Int) : Rat) < (((m + 2 : Int)) : Rat) := by push_cast; linarith [hc.2]
  have b1 : m - 2 < truncR e := by exact_mod_cast a1
  have b2 : truncR e < m + 2 := by exact_mod_cast a2
  omega

theorem idealOfDay_getElem (P : Rat) (sg : Bool) (r : RawTimes) (i : Nat) (hn : i < r.nums.length)
    (hj : i < r.jday.length) (hi : i < (idealOfDay P sg r).length) :
    (idealOfDay P sg r)[i] = ((r.msec.headD 0 : Int) : Rat) +
      (((lineIdx sg r.nums[i] - lineIdx sg (r.nums.headD 0) : Int) : Rat) * P
        - (((r.jday[i] : Int) : Rat) - ((r.jday.headD 0 : Int) : Rat)) * 86400000) := by
  have := headR_castL r.jday
  unfold castL at this
  simp only [idealOfDay, linenoOfDay, linenoRel, List.getElem_map, List.getElem_zipWith, castL, this]

/-- the exact offset of a clean consistent pass: first recorded instant minus the first line's ideal ms -/
def passOffset (P : Rat) (sg : Bool) (r : RawTimes) : Rat :=
  ((instant (r.year.headD 0) (r.jday.headD 0) (r.msec.headD 0) : Int) : Rat)
    - ((lineIdx sg (r.nums.headD 0) : Int) : Rat) * P

structure Consistent (P : Rat) (sg : Bool) (nowYear : Int) (r : RawTimes) : Prop extends Clean nowYear r where
  year_const : ∀ y ∈ r.year, y = r.year.headD 0
  consistent : ∀ p ∈ List.zip r.msec (idealOfDay P sg r),
      ((p.1 : Int) : Rat) - 1 < p.2 ∧ p.2 < ((p.1 : Int) : Rat) + 1

/-- recorded instants of the lines -/
def recorded (r : RawTimes) : List Int :=
  List.zipWith (fun (yj : Int × Int) (m : Int) => instant yj.1 yj.2 m) (List.zip r.year r.jday) r.msec

/-- the stage-1 instants of a clean pass, line by line -/
theorem s1_clean_getElem (P : Rat) (sg : Bool) (nowYear : Int) (r : RawTimes) (h : Clean nowYear r)
    (i : Nat) (hi : i < r.nums.length) (hs : i < (s1Instants (stage1 P sg nowYear r)).length) :
    (s1Instants (stage1 P sg nowYear r))[i] =
      instant (r.year[i]'(by have := h.len_y; omega)) (r.jday[i]'(by have := h.len_j; omega)) 0
        + truncR ((cleanMsec P sg r)[i]'(by obtain ⟨hl, _⟩ := cleanMsec_spec P sg nowYear r h; omega)) := by
  have e := stage1_clean P sg nowYear r h
  simp only [s1Instants, e, List.getElem_zipWith, List.getElem_zip]

theorem s1_clean_length (P : Rat) (sg : Bool) (nowYear : Int) (r : RawTimes) (h : Clean nowYear r) :
    (s1Instants (stage1 P sg nowYear r)).length = r.nums.length := by
  obtain ⟨hl, _⟩ := cleanMsec_spec P sg nowYear r h
  rw [stage1_clean P sg nowYear r h]
  simp [s1Instants, h.len_y, h.len_j, hl]

theorem instant_split (y j m : Int) : instant y j m = instant y j 0 + m := by
  unfold instant; omega

/-- **Stage 1 is the identity (to 1 ms) on a consistent pass**, and each of its instants lies within
2 ms of the exact line-number time `tn + passOffset`. -/
theorem s1_consistent (P : Rat) (sg : Bool) (nowYear : Int) (r : RawTimes) (h : Consistent P sg nowYear r)
    (i : Nat) (hi : i < r.nums.length) (hs : i < (s1Instants (stage1 P sg nowYear r)).length)
    (hr : i < (recorded r).length) :
    ((recorded r)[i] - 1 ≤ (s1Instants (stage1 P sg nowYear r))[i] ∧
      (s1Instants (stage1 P sg nowYear r))[i] ≤ (recorded r)[i] + 1) ∧
    absR ((((s1Instants (stage1 P sg nowYear r))[i] : Int) : Rat)
      - (((lineIdx sg r.nums[i] : Int) : Rat) * P + passOffset P sg r)) < 2 := by
  have hc := h.toClean
  obtain ⟨hl, hspec⟩ := cleanMsec_spec P sg nowYear r hc
  have hilen : i < (idealOfDay P sg r).length := by rw [idealOfDay_length P sg r hc.len_j]; exact hi
  have hmlen : i < r.msec.length := by have := hc.len_m; omega
  have hjlen : i < r.jday.length := by have := hc.len_j; omega
  have hylen : i < r.year.length := by have := hc.len_y; omega
  have hcons : ((r.msec[i] : Int) : Rat) - 1 < (idealOfDay P sg r)[i] ∧
      (idealOfDay P sg r)[i] < ((r.msec[i] : Int) : Rat) + 1 := by
    have hz : i < (List.zip r.msec (idealOfDay P sg r)).length := by simp; omega
    have := h.consistent _ (List.getElem_mem hz)
    simpa [List.getElem_zip] using this
  rw [s1_clean_getElem P sg nowYear r hc i hi hs]
  have hrec : (recorded r)[i] = instant r.year[i] r.jday[i] 0 + r.msec[i] := by
    simp only [recorded, List.getElem_zipWith, List.getElem_zip]
    exact instant_split _ _ _
  rw [hrec]
  -- q := the truncated stage-1 time of day; |q - e| < 1 and |q - m| ≤ 1
  have hq : (r.msec[i] - 1 ≤ truncR (cleanMsec P sg r)[i] ∧ truncR (cleanMsec P sg r)[i] ≤ r.msec[i] + 1) ∧
      absR (((truncR (cleanMsec P sg r)[i] : Int) : Rat) - (idealOfDay P sg r)[i]) < 1 := by
    rcases hspec i hi with e | e
    · rw [e, truncR_intCast]
      refine ⟨⟨by omega, by omega⟩, ?_⟩
      rw [absR_lt_iff]; constructor <;> linarith [hcons.1, hcons.2]
    · rw [e]
      exact ⟨truncR_near_int _ _ hcons.1 hcons.2, truncR_close _⟩
  refine ⟨⟨by omega, by omega⟩, ?_⟩
  -- the offset identity
  have hyc : r.year[i] = r.year.headD 0 := h.year_const _ (List.getElem_mem hylen)
  have hid := idealOfDay_getElem P sg r i hi hjlen hilen
  have hq2 := hq.2
  rw [absR_lt_iff] at hq2 ⊢
  rw [hid] at hq2
  unfold passOffset instant
  rw [hyc]
  unfold msPerDay
  push_cast at hq2 ⊢
  constructor <;> linarith [hq2.1, hq2.2]

end PygacModel.Times

namespace PygacModel.Times
open PygacModel Np

theorem tnOf_length (P : Rat) (sg : Bool) (nums : List Int) : (tnOf P sg nums).length = nums.length := by
  simp [tnOf]

/-- **On a consistent pass `get_times` returns the stage-1 instants**: stage 2 either refuses or
estimates an offset within 2 ms of the exact one and replaces nothing - whatever the header says. -/
theorem getTimes_consistent (P : Rat) (sg : Bool) (nowYear : Int) (hd : Option Int) (r : RawTimes)
    (h : Consistent P sg nowYear r) :
    getTimes {} P nowYear sg hd r = s1Instants (stage1 P sg nowYear r) := by
  have hc := h.toClean
  have hlen1 := s1_clean_length P sg nowYear r hc
  unfold getTimes
  simp only
  cases hs2 : stage2 {} P sg r.nums hd (s1Instants (stage1 P sg nowYear r)) with
  | mismatch => rfl
  | times ts =>
    simp only
    obtain ⟨hm, _, hfrac, hts⟩ := stage2_lines {} P sg r.nums hd _ ts hs2
    set t1 := s1Instants (stage1 P sg nowYear r) with ht1
    set tn := tnOf P sg r.nums with htn
    set near := nearOf {} hm (offsetsOf t1 tn) with hnear
    have htnlen : tn.length = r.nums.length := tnOf_length P sg r.nums
    -- every offset lies within 2 ms of the exact one
    have hoff : ∀ x ∈ offsetsOf t1 tn, passOffset P sg r - 2 ≤ x ∧ x ≤ passOffset P sg r + 2 := by
      intro x hx
      obtain ⟨i, hi, hxi⟩ := List.getElem_of_mem hx
      have hi' : i < r.nums.length := by
        simp only [offsetsOf, List.length_zipWith] at hi; omega
      have hs : i < t1.length := by omega
      have hr : i < (recorded r).length := by
        simp [recorded, hc.len_y, hc.len_j, hc.len_m]; exact hi'
      have := (s1_consistent P sg nowYear r h i hi' hs hr).2
      rw [absR_lt_iff] at this
      have hxe : x = ((t1[i] : Int) : Rat) - ((lineIdx sg r.nums[i] : Int) : Rat) * P := by
        rw [← hxi]
        simp only [offsetsOf, List.getElem_zipWith, htn, tnOf, List.getElem_map]
      rw [hxe]
      constructor <;> linarith [this.1, this.2]
    have hne : near ≠ [] := by
      intro he
      rw [he] at hfrac
      simp at hfrac
      have : ((1 : Rat) / 100) ≤ 0 := by simpa [S2Params.minFrac] using hfrac
      norm_num at this
    have ht0 : absR (medianD near - passOffset P sg r) ≤ 2 := by
      obtain ⟨m, hmed, h1, h2⟩ := median_band_all near (passOffset P sg r - 2) (passOffset P sg r + 2) hne (by
        intro x hx
        exact hoff x (List.mem_filter.mp hx).1)
      unfold medianD
      rw [hmed, Option.getD_some, absR_le_iff]
      constructor <;> linarith
    rw [hts]
    apply List.ext_getElem
    · simp [htnlen, hlen1]
    · intro i h1 h2
      rw [List.getElem_zipWith]
      have hi' : i < r.nums.length := by omega
      have hr : i < (recorded r).length := by
        simp [recorded, hc.len_y, hc.len_j, hc.len_m]; exact hi'
      have hb := (s1_consistent P sg nowYear r h i hi' h2 hr).2
      have htni : tn[i]'(by omega) = ((lineIdx sg r.nums[i] : Int) : Rat) * P := by
        simp only [htn, tnOf, List.getElem_map]
      apply (repairLine_spec {} (medianD near) (passOffset P sg r) 2 t1[i] (tn[i]'(by omega)) ht0).1
      rw [htni, absR_le_iff]
      rw [absR_lt_iff] at hb
      have : ({} : S2Params).maxDiffIdeal = 10000 := rfl
      rw [this]
      constructor <;> linarith [hb.1, hb.2]

end PygacModel.Times

namespace PygacModel.Times
open PygacModel Np

/-! ### lengths, for arbitrary (also corrupt) input -/

theorem msecFix1_length (P : Rat) (sg : Bool) (nums : List Int) (j2 : List Rat) (msec : List Int)
    (hj : j2.length = nums.length) (hm : msec.length = nums.length) :
    (msecFix1 P sg nums j2 msec).1.length = nums.length := by
  unfold msecFix1
  split
  · simp [hm]
  · split
    · simp [linenoOfDay_length P sg nums j2 hj]
    · simp [linenoRel]

theorem jdayFix1_length (jday : List Int) : (jdayFix1 jday).length = jday.length := by simp [jdayFix1]

theorem jdayFix2_length (j1 : List Rat) : (jdayFix2 j1).length = j1.length := by simp [jdayFix2]

/-- stage 1 returns one (year, day, ms) triple per line, whatever the input -/
theorem stage1_lengths (P : Rat) (sg : Bool) (nowYear : Int) (r : RawTimes)
    (hy : r.year.length = r.nums.length) (hj : r.jday.length = r.nums.length) (hm : r.msec.length = r.nums.length) :
    (stage1 P sg nowYear r).year.length = r.nums.length ∧ (stage1 P sg nowYear r).jday.length = r.nums.length ∧
    (stage1 P sg nowYear r).msec.length = r.nums.length := by
  have hj2 : (jdayFix2 (jdayFix1 r.jday)).length = r.nums.length := by
    rw [jdayFix2_length, jdayFix1_length, hj]
  have hj1 : (jdayFix1 r.jday).length = r.nums.length := by rw [jdayFix1_length, hj]
  have hm1 := msecFix1_length P sg r.nums _ r.msec hj2 hm
  have hm2 := msecFix2_length P sg r.nums _ _ r.msec _ (msecFix1 P sg r.nums (jdayFix2 (jdayFix1 r.jday)) r.msec).2 hj1 hj2 hm hm1
  unfold stage1
  simp only
  split
  · exact ⟨hy, by simp [hj2], hm2⟩
  · split
    · exact ⟨by simp [hy], by simp [hj2], by simp [linenoRel]⟩
    · exact ⟨by simp [hy], by simp [hj2], by simp [linenoRel]⟩

theorem s1Instants_length (o : S1Out) (n : Nat) (h1 : o.year.length = n) (h2 : o.jday.length = n)
    (h3 : o.msec.length = n) : (s1Instants o).length = n := by
  simp [s1Instants, h1, h2, h3]

/-- **`get_times` returns one instant per line for every input** (any line-number order, any field
values, any header - usable or not). -/
theorem getTimes_length (prm : S2Params) (P : Rat) (sg : Bool) (nowYear : Int) (hd : Option Int) (r : RawTimes)
    (hy : r.year.length = r.nums.length) (hj : r.jday.length = r.nums.length) (hm : r.msec.length = r.nums.length) :
    (getTimes prm P nowYear sg hd r).length = r.nums.length := by
  obtain ⟨a, b, c⟩ := stage1_lengths P sg nowYear r hy hj hm
  have h1 := s1Instants_length _ _ a b c
  unfold getTimes
  simp only
  cases hs : stage2 prm P sg r.nums hd (s1Instants (stage1 P sg nowYear r)) with
  | mismatch => exact h1
  | times ts => exact stage2_length prm P sg r.nums hd _ ts h1 hs

/-! ### calendar -/

theorem daysToYear_epoch : daysToYear 1970 = 0 := by decide

theorem daysToYear_step (y : Int) :
    daysToYear (y + 1) = daysToYear y + (if (y % 4 = 0 ∧ y % 100 ≠ 0) ∨ y % 400 = 0 then 366 else 365) := by
  unfold daysToYear
  simp only
  split <;> omega

end PygacModel.Times
