/-
Spec: which POD header layout applies (POD guide appendices K, L and section 2):
before 1992-09-08 the first layout, up to and including 1994-11-15 the second, later the third.
Day numbers are days since 1970-01-01: 1992-09-08 = 8286, 1994-11-16 = 9085; probing starts
at 1978-01-01 = 2922.
-/
namespace PygacModel.Spec
def podEpochSegments : List (Int × Nat) := [(2922, 1), (8286, 2), (9085, 3)]
def podHeaderEpoch (dayNumber : Int) : Nat :=
  if dayNumber < 8286 then 1 else if dayNumber ≤ 9084 then 2 else 3
end PygacModel.Spec
