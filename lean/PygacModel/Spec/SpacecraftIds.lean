/-
Spacecraft identification codes of the level-1b headers, written down from the NOAA POD guide
(section 2/3, header word "spacecraft ID") and the KLM guide (table 8.3.1.3.2.1-1 / 8.3.1.4.2.1-1,
"NOAA spacecraft identification code"), with the names pygac and pyorbital use for the spacecraft.
Hand-written specification snapshot - NOT generated from the readers' tables; the theorem
`C16.spacecraft_ids_eq_spec` compares the regenerated tables with it.

POD: id 1 is shared by TIROS-N and NOAA-11 (told apart by the date); the reader keeps TIROS-N under
the internal key 25.  KLM: 4 = NOAA-15, 2 = NOAA-16, 6 = NOAA-17, 7 = NOAA-18, 8 = NOAA-19,
12 = MetOp-A (M02), 11 = MetOp-B (M01), 13 = MetOp-C (M03).
-/
namespace PygacModel.Spec

def spacecraftIds : List (String × Nat × String × String) := [
  ("klm", 2, "noaa16", "noaa 16"),
  ("klm", 4, "noaa15", "noaa 15"),
  ("klm", 6, "noaa17", "noaa 17"),
  ("klm", 7, "noaa18", "noaa 18"),
  ("klm", 8, "noaa19", "noaa 19"),
  ("klm", 11, "metopb", "metop 01"),
  ("klm", 12, "metopa", "metop 02"),
  ("klm", 13, "metopc", "metop 03"),
  ("pod", 1, "noaa11", "noaa 11"),
  ("pod", 2, "noaa6", "noaa 6"),
  ("pod", 3, "noaa14", "noaa 14"),
  ("pod", 4, "noaa7", "noaa 7"),
  ("pod", 5, "noaa12", "noaa 12"),
  ("pod", 6, "noaa8", "noaa 8"),
  ("pod", 7, "noaa9", "noaa 9"),
  ("pod", 8, "noaa10", "noaa 10"),
  ("pod", 25, "tirosn", "tiros n")]

end PygacModel.Spec
