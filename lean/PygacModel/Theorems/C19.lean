/-
C19 — Scan-motor masking acts only inside the listed intervals, on the defined pixels.
-/
import PygacModel.Model.Tsm
import PygacModel.Generated.Tsm
import PygacModel.Spec.TsmSnapshot
import PygacModel.Lemmas.Times
namespace PygacModel.C19
open PygacModel PygacModel.Tsm Np

set_option synthInstance.maxSize 2000 in
/-- the interval tables the running code uses are the pinned published ones -/
theorem intervals_eq_snapshot :
    Generated.tsmIntervalsPod = Spec.tsmIntervalsPod ∧ Generated.tsmIntervalsKlm = Spec.tsmIntervalsKlm := by
  decide +kernel

/-- only NOAA-14 (POD), NOAA-15 and NOAA-16 (KLM) have a table; every listed interval is well formed -/
theorem affected_platforms :
    Generated.tsmIntervalsPod.map (fun e => (e.1, e.2.1)) = [(3, "noaa14")] ∧
    Generated.tsmIntervalsKlm.map (fun e => (e.1, e.2.1)) = [(2, "noaa16"), (4, "noaa15")] ∧
    ∀ e ∈ Generated.tsmIntervalsPod ++ Generated.tsmIntervalsKlm, ∀ iv ∈ e.2.2, iv.1 < iv.2 := by
  decide +kernel

/-- **The gate**: masking applies iff the spacecraft has a table and one listed interval contains
the pass entirely (first time ≥ start and last time ≤ end) -/
theorem gate_iff (table : List (Nat × String × List (Int × Int))) (sid : Nat) (ts te : Int) :
    gate table sid ts te = true ↔
      ∃ e, table.find? (fun e => e.1 == sid) = some e ∧ ∃ iv ∈ e.2.2, iv.1 ≤ ts ∧ te ≤ iv.2 := by
  unfold gate
  cases h : table.find? (fun e => e.1 == sid) with
  | none => simp
  | some e =>
    simp only [List.any_eq_true, Bool.and_eq_true, decide_eq_true_eq, Option.some.injEq, exists_eq_left']

/-- a spacecraft without a table is never masked -/
theorem gate_other_spacecraft (table : List (Nat × String × List (Int × Int))) (sid : Nat) (ts te : Int)
    (h : ∀ e ∈ table, e.1 ≠ sid) : gate table sid ts te = false := by
  unfold gate
  have : table.find? (fun e => e.1 == sid) = none := by
    rw [List.find?_eq_none]
    intro e he
    simpa using h e he
  rw [this]

/-- **Outside the gate no pixel is altered** -/
theorem outside_identity (chans : List Img) (sel : List Nat) : maskTsm false chans sel = chans := by
  simp [maskTsm]

/-- a pass that sticks out of an interval at either end is outside the gate for that interval -/
theorem not_gated_if_partly_outside (iv : Int × Int) (ts te : Int) (h : ts < iv.1 ∨ iv.2 < te) :
    (decide (iv.1 ≤ ts) && decide (te ≤ iv.2)) = false := by
  rcases h with h | h <;> simp <;> omega

/-- pairs of neighbouring (in time) listed intervals of one spacecraft -/
def neighbours (ivs : List (Int × Int)) : List ((Int × Int) × (Int × Int)) := ivs.zip ivs.tail

/-- **One interval must hold the whole pass**: for every spacecraft with a table and every two listed intervals that
follow each other in the table without overlapping, a pass that starts in the middle of the first and ends in the
middle of the second - both ends inside a listed interval - is NOT masked (checked on the regenerated tables). -/
theorem spanning_two_intervals_not_gated :
    ∀ e ∈ Generated.tsmIntervalsPod ++ Generated.tsmIntervalsKlm, ∀ p ∈ neighbours e.2.2,
      p.1.2 < p.2.1 →
      gate (Generated.tsmIntervalsPod ++ Generated.tsmIntervalsKlm) e.1 ((p.1.1 + p.1.2) / 2) ((p.2.1 + p.2.2) / 2) = false := by
  decide +kernel

/-- **Pixel criterion**: a pixel is selected iff both 3x3-neighbourhood variances (NaN-ignoring,
edges included through NaN padding) exceed 4, i.e. both standard deviations exceed 2 -/
theorem pixel_criterion (ch1 ch2 ch4 ch5 : Img) (i j : Nat) :
    tsmPixel ch1 ch2 ch4 ch5 i j = true ↔
      var3 (zipImg absDiff ch1 ch2) i j > 4 ∧ var3 (zipImg relDiff ch4 ch5) i j > 4 := by
  simp [tsmPixel]

/-- **The criterion is local**: whether a pixel is selected depends only on the 3x3 neighbourhoods of the two
difference images around it - in particular on the lines directly above and below, also across any boundary at
which an implementation might split a long scene into blocks. -/
theorem var3_local (im im' : Img) (i j : Nat)
    (h : ∀ di ∈ [(-1 : Int), 0, 1], ∀ dj ∈ [(-1 : Int), 0, 1],
      pix im ((i : Int) + di) ((j : Int) + dj) = pix im' ((i : Int) + di) ((j : Int) + dj)) :
    var3 im i j = var3 im' i j := by
  have e : window3 im i j = window3 im' i j := by
    unfold window3
    simp only [List.flatMap_cons, List.flatMap_nil, List.map_cons, List.map_nil, List.append_nil]
    rw [h (-1) (by simp) (-1) (by simp), h (-1) (by simp) 0 (by simp), h (-1) (by simp) 1 (by simp),
      h 0 (by simp) (-1) (by simp), h 0 (by simp) 0 (by simp), h 0 (by simp) 1 (by simp),
      h 1 (by simp) (-1) (by simp), h 1 (by simp) 0 (by simp), h 1 (by simp) 1 (by simp)]
  unfold var3
  rw [e]

/-- ... and it is NOT determined by the pixel's own line: the same two lines processed as one scene and as
two one-line scenes select different pixels (why a block-wise filter needs the neighbouring lines). -/
theorem blockwise_differs :
    let top : List (Option Rat) := [some 10, some 10, some 10]
    let bot : List (Option Rat) := [some 10, some 60, some 10]
    var3 [top, bot] 0 1 ≠ var3 [top] 0 1 := by
  decide +kernel

/-- ... and the statistic is NaN-ignoring, so it matters that flagged (corrupt) lines are blanked BEFORE the criterion is
evaluated: with the garbage of a flagged line still in place its good neighbour's window has another variance than with
the line blanked (the order `where(mask)` -> scan-motor masking is part of the modelled pipeline; a seeded change of round 16
swapped it) -/
theorem blank_before_criterion_matters :
    let good : List (Option Rat) := [some 10, some 10, some 10]
    let garbage : List (Option Rat) := [some 900, some 3, some 512]
    let blank : List (Option Rat) := [none, none, none]
    var3 [good, garbage] 0 1 ≠ var3 [good, blank] 0 1 ∧ var3 [good, blank] 0 1 = 0 := by
  decide +kernel

/-- a standard deviation exceeds 2 exactly when the variance exceeds 4 (for the non-negative root) -/
theorem std_gt_two_iff (v s : Rat) (hs : 0 ≤ s) (hv : s * s = v) : s > 2 ↔ v > 4 := by
  constructor
  · intro h; nlinarith
  · intro h
    by_contra hn
    have : s ≤ 2 := not_lt.mp hn
    nlinarith

/-- inside the gate a selected pixel is blanked in every channel, an unselected pixel in none -/
theorem all_channels_blanked (chans : List Img) (sel : List Nat) (im : Img) (him : im ∈ chans) :
    ∃ im' ∈ maskTsm true chans sel, im' = im.zipIdx.map (fun (row, i) => row.zipIdx.map (fun (v, j) =>
      if tsmPixel (chans.getD (sel.getD 0 0) []) (chans.getD (sel.getD 1 0) []) (chans.getD (sel.getD 2 0) [])
        (chans.getD (sel.getD 3 0) []) i j then none else v)) := by
  simp only [maskTsm, Bool.not_true, Bool.false_eq_true, if_false]
  exact ⟨_, List.mem_map.mpr ⟨im, him, rfl⟩, rfl⟩

/-- channels 1, 2, 4, 5 in both families' layouts (KLM six slots 1,2,3a,3b,4,5; POD five slots) -/
theorem channel_choice : Generated.tsmSlotsKlm = [0, 1, 4, 5] ∧ Generated.tsmSlotsPod = [0, 1, 3, 4] := by decide

example : gate Generated.tsmIntervalsPod 3 1003467000000 1003498680000 = true ∧
    gate Generated.tsmIntervalsPod 3 1003466999999 1003498680000 = false ∧
    gate Generated.tsmIntervalsKlm 3 1003467000000 1003498680000 = false := by decide +kernel

end PygacModel.C19
