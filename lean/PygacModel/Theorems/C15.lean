/-
C15 — Angles are in their documented ranges and agree with sun and scan geometry.
Ranges and folding are proved; agreement with the sun's position (0.1 deg) and the scan geometry
(0.5 deg) depends on pyorbital's ephemeris / SGP4 and is numerical support (harness/c15.py).
-/
import PygacModel.Model.Angles
import PygacModel.Lemmas.Times
namespace PygacModel.C15
open PygacModel PygacModel.Angles Np

theorem pmod_range (x m : Rat) (hm : 0 < m) : 0 ≤ pmod x m ∧ pmod x m < m := by
  unfold pmod
  have h1 := Times.floor_le' (x / m)
  have h2 := Times.lt_floor_add_one' (x / m)
  have e : x = m * (x / m) := by field_simp
  constructor
  · have := mul_le_mul_of_nonneg_left h1 (le_of_lt hm)
    linarith
  · have := mul_lt_mul_of_pos_left h2 hm
    linarith

theorem pmod_congr (x m : Rat) : ∃ k : Int, pmod x m = x - m * (k : Rat) := ⟨(x / m).floor, rfl⟩

/-- **Azimuths lie in (-180, 180]** and differ from the input by a multiple of 360, for every input -/
theorem centered_range (x : Rat) : -180 < centered x ∧ centered x ≤ 180 ∧ ∃ k : Int, centered x = x - 360 * (k : Rat) := by
  unfold centered
  have hr := pmod_range x 360 (by norm_num)
  obtain ⟨k, hk⟩ := pmod_congr x 360
  simp only
  split
  · rename_i h
    refine ⟨by linarith, by linarith [hr.2], k + 1, ?_⟩
    rw [hk]; push_cast; ring
  · rename_i h
    refine ⟨by linarith [hr.1], not_lt.mp h, k, hk⟩

/-- values already in range are unchanged -/
theorem centered_id (x : Rat) (h1 : -180 < x) (h2 : x ≤ 180) : centered x = x := by
  obtain ⟨a, b, k, hk⟩ := centered_range x
  have h360 : (360 : Rat) * (k : Rat) = x - centered x := by linarith
  have hk0 : k = 0 := by
    have b1 : (-1 : Rat) < (k : Rat) := by nlinarith
    have b2 : (k : Rat) < 1 := by nlinarith
    have c1 : (-1 : Int) < k := by exact_mod_cast b1
    have c2 : k < (1 : Int) := by exact_mod_cast b2
    omega
  rw [hk0] at hk
  simpa using hk

/-- **The relative azimuth lies in [0, 180]**, is symmetric, and is the absolute difference folded:
it equals |sat - sun| - 360 k or 360 (k+1) - |sat - sun| for an integer k -/
theorem reldiff_spec (sat sun : Rat) :
    0 ≤ absAzDiff sat sun ∧ absAzDiff sat sun ≤ 180 ∧ absAzDiff sat sun = absAzDiff sun sat ∧
    ∃ k : Int, absAzDiff sat sun = absR (sat - sun) - 360 * (k : Rat) ∨
               absAzDiff sat sun = 360 * ((k : Rat) + 1) - absR (sat - sun) := by
  have hsym : absR (sat - sun) = absR (sun - sat) := by
    unfold absR
    split <;> split <;> linarith
  have hr := pmod_range (absR (sat - sun)) 360 (by norm_num)
  obtain ⟨k, hk⟩ := pmod_congr (absR (sat - sun)) 360
  refine ⟨?_, ?_, ?_, k, ?_⟩
  · unfold absAzDiff; simp only; split <;> linarith [hr.1, hr.2]
  · unfold absAzDiff; simp only; split
    · linarith [hr.1, hr.2]
    · rename_i h; exact not_lt.mp h
  · unfold absAzDiff; rw [hsym]
  · unfold absAzDiff; simp only
    split
    · right; rw [hk]; ring
    · left; exact hk

/-- inside the half turn the relative azimuth is the plain absolute difference -/
theorem reldiff_small (sat sun : Rat) (h : absR (sat - sun) ≤ 180) : absAzDiff sat sun = absR (sat - sun) := by
  have hn := Times.absR_nonneg (sat - sun)
  unfold absAzDiff pmod
  have hf : ((absR (sat - sun) / 360).floor : Int) = 0 := by
    show ⌊absR (sat - sun) / 360⌋ = 0
    rw [Int.floor_eq_iff]
    constructor
    · simp; exact div_nonneg hn (by norm_num)
    · simp; rw [div_lt_iff₀ (by norm_num)]; linarith
  simp only [hf]
  simp only [Int.cast_zero, mul_zero, sub_zero]
  rw [if_neg (not_lt.mpr h)]

/-- zenith is the complement of the elevation: elevation in [-90, 90] gives zenith in [0, 180], 0 at the zenith pass -/
theorem zenith_spec (e : Rat) (h1 : -90 ≤ e) (h2 : e ≤ 90) : 0 ≤ zenith e ∧ zenith e ≤ 180 ∧ zenith 90 = 0 := by
  unfold zenith; refine ⟨by linarith, by linarith, by norm_num⟩

/-- **Without usable TLE data angles are still produced**: the fallback path is taken exactly then -/
theorem fallback_total (tleOk : Bool) : satPath tleOk = if tleOk then .withTle else .fallback := rfl

example : centered 190 = -170 ∧ centered (-180) = 180 ∧ centered 540 = 180 ∧ centered (-190) = 170 ∧
    absAzDiff 170 (-170) = 20 ∧ absAzDiff 10 350 = 20 ∧ absAzDiff 0 180 = 180 := by decide +kernel

end PygacModel.C15
