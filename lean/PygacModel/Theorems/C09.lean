/-
C09 — POD clock-drift correction shifts time and position consistently, exactly once.

Models: `Model/ClockDrift.lean` (the arithmetic plan of `_adjust_clock_drift`), `Model/Accessors.lean`
(when it runs), `Model/Np.lean` (`np.interp`).  Orbit propagation (pyorbital) and the great-circle
interpolation's trigonometry are parameters; the 0.02 degree agreement is numerical support
(harness/c09.py), not a theorem.
-/
import PygacModel.Lemmas.ClockDrift
import PygacModel.Lemmas.Accessors
import PygacModel.Generated.Clock
import PygacModel.Generated.Layouts
import Mathlib.Analysis.SpecialFunctions.Trigonometric.Basic
namespace PygacModel.C09
open PygacModel Np Drift Acc

/-! ## 1. Clock error at the line times: linear inside the table, constant beyond its ends -/

theorem interp_below (x x0 x1 : Rat) (xs : List Rat) (f0 f1 : Rat) (fs : List Rat) (h : x ≤ x0) :
    interp x (x0 :: x1 :: xs) (f0 :: f1 :: fs) = f0 := by
  simp [interp, h]

theorem interp_above (x : Rat) (xp fp : List Rat) (hlen : xp.length = fp.length) (hne : fp ≠ [])
    (h : ∀ p ∈ xp, p < x) : interp x xp fp = fp.getLast hne := by
  induction xp generalizing fp with
  | nil => cases fp with
    | nil => exact absurd rfl hne
    | cons f fs => simp at hlen
  | cons x0 xs ih =>
    cases fp with
    | nil => simp at hlen
    | cons f0 fs =>
      cases xs with
      | nil =>
        cases fs with
        | nil => simp [interp]
        | cons f1 fs' => simp at hlen
      | cons x1 xs' =>
        cases fs with
        | nil => simp at hlen
        | cons f1 fs' =>
          have h0 : ¬ x ≤ x0 := not_le.mpr (h x0 (by simp))
          have h1 : ¬ x ≤ x1 := not_le.mpr (h x1 (by simp))
          simp only [interp, h0, h1, if_false]
          rw [ih (f1 :: fs') (by simpa using hlen) (by simp) (fun p hp => h p (List.mem_cons_of_mem _ hp))]
          simp [List.getLast_cons]

/-- a table of zeros yields zero error everywhere -/
theorem interp_zero_table (x : Rat) (xp : List Rat) : interp x xp (xp.map (fun _ => 0)) = 0 := by
  induction xp with
  | nil => simp [interp]
  | cons x0 xs ih =>
    cases xs with
    | nil => simp [interp]
    | cons x1 xs' =>
      simp only [List.map_cons, interp]
      split
      · rfl
      · split
        · split <;> simp
        · simpa using ih

/-- the spacecraft with a published clock-error table (regenerated from the code) -/
theorem table_spacecraft :
    Generated.clockTables.map (·.1) = ["noaa11", "noaa12", "noaa14", "noaa7", "noaa9"] := by decide +kernel

/-! ## 2. The plan: fractional line, rows, recomputed lines, time shift -/

/-- no unfilled row of the position array is ever read -/
theorem lookups_in_range_and_filled (P : Rat) (nums : List Int) (errs : List Rat) (t0 : Int) :
    ∀ f ∈ (plan P nums errs t0).floorL,
      (plan P nums errs t0).minLine ≤ f ∧ f + 1 ≤ (plan P nums errs t0).maxLine ∧
      (f ∈ nums ∨ f ∈ (plan P nums errs t0).missed) ∧ (f + 1 ∈ nums ∨ f + 1 ∈ (plan P nums errs t0).missed) :=
  Drift.lookups_in_range_and_filled P nums errs t0

/-- only lines absent from the file are recomputed from the TLE -/
theorem recomputed_are_absent (P : Rat) (nums : List Int) (errs : List Rat) (t0 : Int) (k : Int) :
    k ∈ (plan P nums errs t0).missed → k ∉ nums := fun h => (missed_spec P nums errs t0 k h).1

/-- the two rows are `floor (n - e*rate)` and the next one, the weight is its fractional part in [0, 1) -/
theorem fractional_line (P : Rat) (nums : List Int) (errs : List Rat) (t0 : Int) :
    (plan P nums errs t0).floorL = (plan P nums errs t0).shifted.map Rat.floor ∧
    (plan P nums errs t0).shifted = List.zipWith (fun (n : Int) (e : Rat) => (n : Rat) - e / scanRateSec P) nums errs ∧
    ∀ w ∈ (plan P nums errs t0).weight, 0 ≤ w ∧ w < 1 :=
  ⟨rfl, rfl, weight_range P nums errs t0⟩

/-- nominal times of the recomputed lines, for any rate: within 0.5 microsecond per line of
`t0 + (m - n0) * P` (22 ms at the far end of the longest LAC pass) -/
theorem missed_times_nominal (P : Rat) (nums : List Int) (errs : List Rat) (t0 : Int) (m : Int) :
    absR (((t0 : Rat) + ((m - nums.headD 0 : Int) : Rat) * (scanRateUs P : Rat) / 1000)
        - ((t0 : Rat) + ((m - nums.headD 0 : Int) : Rat) * P))
      ≤ absR ((m - nums.headD 0 : Int) : Rat) / 2000 :=
  Drift.missed_times_nominal P nums errs t0 m

/-- every time is shifted by minus the clock error, truncated to whole ms -/
theorem time_shift (ts : List Int) (P : Rat) (nums : List Int) (errs : List Rat) (t0 : Int) (i : Nat)
    (h1 : i < ts.length) (h2 : i < errs.length) (h3 : i < (shiftTimes ts (plan P nums errs t0)).length) :
    (shiftTimes ts (plan P nums errs t0))[i] = ts[i] - truncR (errs[i] * 1000) := by
  simp [shiftTimes, plan]

/-- **Zero error is the identity** (plan level): own row, weight 0, no time shift ... -/
theorem zero_error_identity (P : Rat) (nums : List Int) (t0 : Int) (ts : List Int) (hl : ts.length = nums.length) :
    let p := plan P nums (nums.map (fun _ => (0 : Rat))) t0
    p.floorL = nums ∧ (∀ w ∈ p.weight, w = 0) ∧ shiftTimes ts p = ts :=
  zero_error_plan P nums t0 ts hl

/-- ... and the great-circle interpolation at weight 0 returns the first point, component by
component (over the reals; the angle between the two rows must not be 0 or pi) -/
theorem slerp_at_zero (ω x y : ℝ) (h : Real.sin ω ≠ 0) :
    Real.sin ((1 - 0) * ω) / Real.sin ω * x + Real.sin (0 * ω) / Real.sin ω * y = x := by
  simp [h]

/-! ## 3. Viewing geometry of the recomputed lines -/

def tiePositionsGac : List Rat := (List.range 51).map (fun j => mkRat 47 2 + 40 * (j : Rat))
def tiePositionsLac : List Rat := (List.range 51).map (fun j => 24 + 40 * (j : Rat))

/-- **Same viewing geometry as the file's tie points**: the scan positions handed to the orbit
model are those of the tie-point pixels in the 2048-sample frame - GAC pixel 4+8j is the mean of
samples 5(4+8j) .. 5(4+8j)+3 -> 23.5 + 40 j; LAC pixel 24 + 40 j - and the line frequency is the
reader's scan rate. -/
theorem tie_geometry :
    Generated.driftScanPointsGac = tiePositionsGac ∧ Generated.driftScanPointsLac = tiePositionsLac ∧
    Generated.driftFrequencyGac = scanRateSec 500 ∧ Generated.driftFrequencyLac = scanRateSec (mkRat 500 3) := by
  decide +kernel

/-- the reader's own pixel-position table agrees with that convention at the tie-point columns -/
theorem scan_points_convention :
    Generated.scanPointsHeadGac = [mkRat 7 2, mkRat 17 2, mkRat 27 2, mkRat 37 2, mkRat 47 2, mkRat 57 2] ∧
    Generated.scanPointsLenGac = 409 ∧ Generated.scanPointsLenLac = 2048 ∧
    Generated.samplePointsGacPod = (List.range 51).map (fun j => 4 + 8 * j) ∧
    Generated.samplePointsLacPod = (List.range 51).map (fun j => 24 + 40 * j) := by
  decide +kernel

/-! ## 4. Exactly once, and skipped without error -/

/-- **Exactly once**: for every accessor history, the shift has been applied once if the correction
applies and some coordinate-computing accessor has run, and not at all otherwise. -/
theorem exactly_once (c : Cfg) (h : List Op) :
    (run c {} h).driftRuns = if c.applies && h.any computesCoords then 1 else 0 := by
  have hinv := inv_run c {} h (inv_init c)
  have hl := run_lonlat c {} h
  cases hany : h.any computesCoords
  · have : (run c {} h).lonlat = false := by rw [hl, hany]; rfl
    simp [(hinv.fresh this).2.1]
  · have : (run c {} h).lonlat = true := by rw [hl, hany]; rfl
    rw [(hinv.done this).2.2]
    cases c.applies <;> simp

/-- it applies iff POD, enabled, table present and TLE data available; otherwise every output is
computed from the unshifted times (and no error is raised: the model has no error outcome here,
the correspondence check observes the real code) -/
theorem applies_iff (c : Cfg) : c.applies = true ↔ c.pod = true ∧ c.driftEnabled = true ∧ c.hasTable = true ∧ c.tleOk = true := by
  simp [Cfg.applies, and_assoc]

theorem skipped_is_identity (c : Cfg) (hc : c.applies = false) (h : List Op) (op : Op) (h2 : op ≠ .readMeta) :
    outAfter c h op = match op with
      | .getTimes => .times .pre | .getLonLat => .lonlat .pre | .dataset => .dataset .pre .pre .pre
      | .calibrated => .calibrated .pre .pre .pre | .angles => .angles .pre .pre
      | .getMask => .mask | .getQualFlags => .qual | .getCounts => .counts | .getTelemetry => .tele
      | .readMeta => .metaOut none | .save => .saved .pre := by
  have hfin : c.final = .pre := by simp [Cfg.final, hc]
  by_cases h1 : op = .getTimes
  · subst h1
    unfold outAfter
    simp only [step]
    rw [doTimes_snd c _ (inv_run c {} h (inv_init c)), hfin]
    split <;> rfl
  · unfold outAfter
    rw [step_out_spec c _ op (inv_run c {} h (inv_init c)) h1 h2]
    cases op <;> first | exact absurd rfl h2 | simp_all [specOut]

example : (plan 500 [10, 11, 14] [mkRat 7 10, mkRat 7 10, mkRat 7 10] 0).missed = [8, 9, 12, 13] ∧
    (plan 500 [10, 11, 14] [mkRat 7 10, mkRat 7 10, mkRat 7 10] 0).floorL = [8, 9, 12] ∧
    (plan 500 [10, 11, 14] [mkRat 7 10, mkRat 7 10, mkRat 7 10] 0).weight = [mkRat 3 5, mkRat 3 5, mkRat 3 5] := by
  decide +kernel

end PygacModel.C09
