/-
C09 — POD clock-drift correction shifts time and position consistently, exactly once.

Models: `Model/ClockDrift.lean` (the arithmetic plan of `_adjust_clock_drift`), `Model/Accessors.lean`
(when it runs), `Model/Np.lean` (`np.interp`).  Orbit propagation (pyorbital) and the great-circle
interpolation's trigonometry are parameters; the 0.02 degree agreement is numerical support
(harness/c09.py), not a theorem.
-/
import PygacModel.Lemmas.ClockDrift
import PygacModel.Lemmas.Accessors
import PygacModel.Generated.Clock
import PygacModel.Generated.Layouts
import Mathlib.Analysis.SpecialFunctions.Trigonometric.Basic
namespace PygacModel.C09
open PygacModel Np Drift Acc

/-! ## 1. Clock error at the line times: linear inside the table, constant beyond its ends -/

theorem interp_below (x x0 x1 : Rat) (xs : List Rat) (f0 f1 : Rat) (fs : List Rat) (h : x ≤ x0) :
    interp x (x0 :: x1 :: xs) (f0 :: f1 :: fs) = f0 := by
  simp [interp, h]

theorem interp_above (x : Rat) (xp fp : List Rat) (hlen : xp.length = fp.length) (hne : fp ≠ [])
    (h : ∀ p ∈ xp, p < x) : interp x xp fp = fp.getLast hne := by
  induction xp generalizing fp with
  | nil => cases fp with
    | nil => exact absurd rfl hne
    | cons f fs => simp at hlen
  | cons x0 xs ih =>
    cases fp with
    | nil => simp at hlen
    | cons f0 fs =>
      cases xs with
      | nil =>
        cases fs with
        | nil => simp [interp]
        | cons f1 fs' => simp at hlen
      | cons x1 xs' =>
        cases fs with
        | nil => simp at hlen
        | cons f1 fs' =>
          have h0 : ¬ x ≤ x0 := not_le.mpr (h x0 (by simp))
          have h1 : ¬ x ≤ x1 := not_le.mpr (h x1 (by simp))
          simp only [interp, h0, h1, if_false]
          rw [ih (f1 :: fs') (by simpa using hlen) (by simp) (fun p hp => h p (List.mem_cons_of_mem _ hp))]
          simp [List.getLast_cons]

/-- **Inside a published row**: if every table node before node `k` is at most node `k` (the table has not
stepped back so far) and `x` lies in `(T[k], T[k+1]]`, the interpolated error is the straight line between
the two nodes - whatever the rest of the table looks like (the shipped NOAA-12 / NOAA-14 tables are not
increasing everywhere). -/
theorem interp_segment (x : Rat) (T E : List Rat) (k : Nat) (hlen : T.length = E.length) (hk : k + 1 < T.length)
    (hrun : ∀ j (hj : j < k), T[j]'(by omega) ≤ T[k]'(by omega)) (h1 : T[k]'(by omega) < x) (h2 : x ≤ T[k + 1]) :
    interp x T E = E[k]'(by omega) + (E[k + 1]'(by omega) - E[k]'(by omega)) * (x - T[k]'(by omega)) / (T[k + 1] - T[k]'(by omega)) := by
  induction k generalizing T E with
  | zero =>
    match T, E, hlen, hk with
    | x0 :: x1 :: xs, f0 :: f1 :: fs, _, _ =>
      simp only [List.getElem_cons_zero, List.getElem_cons_succ, Nat.zero_add] at h1 h2 ⊢
      have hne : x1 ≠ x0 := by intro e; rw [e] at h2; exact absurd h1 (not_lt.mpr h2)
      simp only [interp, not_le.mpr h1, h2, hne, if_false, if_true]
    | [_], _, _, hk => simp at hk
    | [], _, _, hk => simp at hk
    | _ :: _ :: _, [_], hlen, _ => simp at hlen
    | _ :: _ :: _, [], hlen, _ => simp at hlen
  | succ k ih =>
    match T, E, hlen, hk with
    | x0 :: x1 :: xs, f0 :: f1 :: fs, hlen, hk =>
      have hx0 : x0 < x := lt_of_le_of_lt (hrun 0 (by omega)) h1
      have hx1 : x1 < x := by
        cases k with
        | zero => simpa using h1
        | succ k' =>
          have := hrun 1 (by omega)
          simp only [List.getElem_cons_succ, List.getElem_cons_zero] at this
          exact lt_of_le_of_lt this h1
      simp only [interp, not_le.mpr hx0, not_le.mpr hx1, if_false]
      have := ih (x1 :: xs) (f1 :: fs) (by simpa using hlen) (by simpa using hk)
        (by
          intro j hj
          have := hrun (j + 1) (by omega)
          simpa using this)
        (by simpa using h1) (by simpa using h2)
      simpa using this
    | [_], _, _, hk => simp at hk
    | [], _, _, hk => simp at hk
    | _ :: _ :: _, [_], hlen, _ => simp at hlen
    | _ :: _ :: _, [], hlen, _ => simp at hlen

/-- nodes of the generated tables up to which the table has not stepped back -/
def runningOk (T : List Int) (k : Nat) : Bool := (T.take k).all (fun t => decide (t ≤ T.getD k 0))

/-- rows `(2i, 2i+1)` of a table whose start node is a running maximum and lies before their end node -/
def cleanRows (T : List Int) : List Nat :=
  (List.range (T.length / 2)).filter (fun i => runningOk T (2 * i) && decide (T.getD (2 * i) 0 < T.getD (2 * i + 1) 0))

/-- the shipped tables: number of rows and the rows that are NOT clean (a clock reset listed before the end
of the previous row, or a row running backwards) - NOAA-7/9/11 have none -/
theorem generated_table_rows :
    Generated.clockTables.map (fun t => (t.1, t.2.1.length / 2,
        (List.range (t.2.1.length / 2)).filter (fun i => !(cleanRows t.2.1).contains i)))
      = [("noaa11", 50, []), ("noaa12", 52, [2, 3, 13, 14, 15, 16, 28, 29, 33, 34, 40, 44, 45, 49, 50, 51]),
         ("noaa14", 19, [2, 12]), ("noaa7", 15, []), ("noaa9", 74, [])] := by
  decide +kernel

/-- **Every time inside a clean published row gets that row's own linear interpolation** (for any table, in
particular the five shipped ones, whose clean rows are listed above): the clock error applied at time `t`,
`start < t <= end` of row `i`, is `e_start + (e_end - e_start) (t - start) / (end - start)`. -/
theorem published_row (T : List Int) (E : List Rat) (i : Nat) (hlen : T.length = E.length) (hi : i ∈ cleanRows T)
    (t : Int) (h1 : T.getD (2 * i) 0 < t) (h2 : t ≤ T.getD (2 * i + 1) 0) :
    errorsAt (T.map (fun (x : Int) => (x : Rat))) E [t] =
      [E.getD (2 * i) 0 + (E.getD (2 * i + 1) 0 - E.getD (2 * i) 0) * ((t : Rat) - (T.getD (2 * i) 0 : Int))
        / (((T.getD (2 * i + 1) 0 : Int) : Rat) - (T.getD (2 * i) 0 : Int))] := by
  simp only [cleanRows, List.mem_filter, List.mem_range, Bool.and_eq_true, decide_eq_true_eq] at hi
  obtain ⟨hir, hrun, _⟩ := hi
  have hk : 2 * i + 1 < T.length := by omega
  have hg : ∀ (j : Nat) (hj : j < T.length), T.getD j 0 = T[j] := fun j hj => (List.getElem_eq_getD 0).symm
  have hgE : ∀ (j : Nat) (hj : j < E.length), E.getD j 0 = E[j] := fun j hj => (List.getElem_eq_getD 0).symm
  rw [hg _ (by omega)] at h1
  rw [hg _ hk] at h2
  simp only [errorsAt, List.map_cons, List.map_nil]
  rw [interp_segment (t : Rat) (T.map (fun (x : Int) => (x : Rat))) E (2 * i) (by simpa using hlen) (by simpa using hk)
    (by
      intro j hj
      simp only [List.getElem_map]
      unfold runningOk at hrun
      rw [List.all_eq_true] at hrun
      have hm : T[j] ∈ T.take (2 * i) := by
        rw [List.mem_take_iff_getElem]
        exact ⟨j, by omega, rfl⟩
      have := hrun _ hm
      rw [hg _ (by omega)] at this
      exact_mod_cast (by simpa using this : T[j] ≤ T[2 * i]))
    (by simp only [List.getElem_map]; exact_mod_cast h1)
    (by simp only [List.getElem_map]; exact_mod_cast h2)]
  simp only [List.getElem_map, hg _ hk, hg _ (show 2 * i < T.length by omega), hgE _ (show 2 * i < E.length by omega),
    hgE _ (show 2 * i + 1 < E.length by omega)]

/-- non-vacuity: row 3 of the NOAA-14 table (the row after the out-of-order clock reset of 1995-12-31) is clean -/
example : ∀ t ∈ Generated.clockTables, t.1 = "noaa14" → 3 ∈ cleanRows t.2.1 ∧ t.2.1.length = t.2.2.length := by
  decide +kernel

/-- a table of zeros yields zero error everywhere -/
theorem interp_zero_table (x : Rat) (xp : List Rat) : interp x xp (xp.map (fun _ => 0)) = 0 := by
  induction xp with
  | nil => simp [interp]
  | cons x0 xs ih =>
    cases xs with
    | nil => simp [interp]
    | cons x1 xs' =>
      simp only [List.map_cons, interp]
      split
      · rfl
      · split
        · split <;> simp
        · simpa using ih

/-- the spacecraft with a published clock-error table (regenerated from the code) -/
theorem table_spacecraft :
    Generated.clockTables.map (·.1) = ["noaa11", "noaa12", "noaa14", "noaa7", "noaa9"] := by decide +kernel

/-! ## 2. The plan: fractional line, rows, recomputed lines, time shift -/

/-- no unfilled row of the position array is ever read -/
theorem lookups_in_range_and_filled (P : Rat) (nums : List Int) (errs : List Rat) (t0 : Int) :
    ∀ f ∈ (plan P nums errs t0).floorL,
      (plan P nums errs t0).minLine ≤ f ∧ f + 1 ≤ (plan P nums errs t0).maxLine ∧
      (f ∈ nums ∨ f ∈ (plan P nums errs t0).missed) ∧ (f + 1 ∈ nums ∨ f + 1 ∈ (plan P nums errs t0).missed) :=
  Drift.lookups_in_range_and_filled P nums errs t0

/-- only lines absent from the file are recomputed from the TLE -/
theorem recomputed_are_absent (P : Rat) (nums : List Int) (errs : List Rat) (t0 : Int) (k : Int) :
    k ∈ (plan P nums errs t0).missed → k ∉ nums := fun h => (missed_spec P nums errs t0 k h).1

/-- `np.arange(min_line, max_line + 1)` with `max_line` still a scalar of the POD field's signed 16-bit type (the code
before fix f795ded): the stop value as numpy computes it -/
def arangeStopI16 (maxLine : Int) : Int := (maxLine + 1 + 32768) % 65536 - 32768

/-- exact below the top of the field ... -/
theorem arange_stop_exact (m : Int) (h0 : -32768 ≤ m) (h1 : m < 32767) : arangeStopI16 m = m + 1 := by
  unfold arangeStopI16; omega

/-- ... and wrapped AT it: the range of lines to look at is empty for a pass ending at 32767, so nothing absent was
recomputed (reproduced through the POD LAC reader; `plan`, over the integers, is what the fixed code does) -/
theorem arange_stop_top : arangeStopI16 32767 = -32768 := by decide

/-- the two rows are `floor (n - e*rate)` and the next one, the weight is its fractional part in [0, 1) -/
theorem fractional_line (P : Rat) (nums : List Int) (errs : List Rat) (t0 : Int) :
    (plan P nums errs t0).floorL = (plan P nums errs t0).shifted.map Rat.floor ∧
    (plan P nums errs t0).shifted = List.zipWith (fun (n : Int) (e : Rat) => (n : Rat) - e / scanRateSec P) nums errs ∧
    ∀ w ∈ (plan P nums errs t0).weight, 0 ≤ w ∧ w < 1 :=
  ⟨rfl, rfl, weight_range P nums errs t0⟩

/-- nominal times of the recomputed lines, for any rate: within 0.5 microsecond per line of
`t0 + (m - n0) * P` (22 ms at the far end of the longest LAC pass) -/
theorem missed_times_nominal (P : Rat) (nums : List Int) (errs : List Rat) (t0 : Int) (m : Int) :
    absR (((t0 : Rat) + ((m - nums.headD 0 : Int) : Rat) * (scanRateUs P : Rat) / 1000)
        - ((t0 : Rat) + ((m - nums.headD 0 : Int) : Rat) * P))
      ≤ absR ((m - nums.headD 0 : Int) : Rat) / 2000 :=
  Drift.missed_times_nominal P nums errs t0 m

/-- every time is shifted by minus the clock error, truncated to whole ms -/
theorem time_shift (ts : List Int) (P : Rat) (nums : List Int) (errs : List Rat) (t0 : Int) (i : Nat)
    (h1 : i < ts.length) (h2 : i < errs.length) (h3 : i < (shiftTimes ts (plan P nums errs t0)).length) :
    (shiftTimes ts (plan P nums errs t0))[i] = ts[i] - truncR (errs[i] * 1000) := by
  simp [shiftTimes, plan]

/-- **Zero error is the identity** (plan level): own row, weight 0, no time shift ... -/
theorem zero_error_identity (P : Rat) (nums : List Int) (t0 : Int) (ts : List Int) (hl : ts.length = nums.length) :
    let p := plan P nums (nums.map (fun _ => (0 : Rat))) t0
    p.floorL = nums ∧ (∀ w ∈ p.weight, w = 0) ∧ shiftTimes ts p = ts :=
  zero_error_plan P nums t0 ts hl

/-- ... and the great-circle interpolation at weight 0 returns the first point, component by
component (over the reals; the angle between the two rows must not be 0 or pi) -/
theorem slerp_at_zero (ω x y : ℝ) (h : Real.sin ω ≠ 0) :
    Real.sin ((1 - 0) * ω) / Real.sin ω * x + Real.sin (0 * ω) / Real.sin ω * y = x := by
  simp [h]

/-! ## 3. Viewing geometry of the recomputed lines -/

def tiePositionsGac : List Rat := (List.range 51).map (fun j => mkRat 47 2 + 40 * (j : Rat))
def tiePositionsLac : List Rat := (List.range 51).map (fun j => 24 + 40 * (j : Rat))

/-- **Same viewing geometry as the file's tie points**: the scan positions handed to the orbit
model are those of the tie-point pixels in the 2048-sample frame - GAC pixel 4+8j is the mean of
samples 5(4+8j) .. 5(4+8j)+3 -> 23.5 + 40 j; LAC pixel 24 + 40 j - and the line frequency is the
reader's scan rate. -/
theorem tie_geometry :
    Generated.driftScanPointsGac = tiePositionsGac ∧ Generated.driftScanPointsLac = tiePositionsLac ∧
    Generated.driftFrequencyGac = scanRateSec 500 ∧ Generated.driftFrequencyLac = scanRateSec (mkRat 500 3) := by
  decide +kernel

/-- the reader's own pixel-position table agrees with that convention at the tie-point columns -/
theorem scan_points_convention :
    Generated.scanPointsHeadGac = [mkRat 7 2, mkRat 17 2, mkRat 27 2, mkRat 37 2, mkRat 47 2, mkRat 57 2] ∧
    Generated.scanPointsLenGac = 409 ∧ Generated.scanPointsLenLac = 2048 ∧
    Generated.samplePointsGacPod = (List.range 51).map (fun j => 4 + 8 * j) ∧
    Generated.samplePointsLacPod = (List.range 51).map (fun j => 24 + 40 * j) := by
  decide +kernel

/-! ## 4. Exactly once, and skipped without error -/

/-- **Exactly once**: for every accessor history, the shift has been applied once if the correction
applies and some coordinate-computing accessor has run, and not at all otherwise. -/
theorem exactly_once (c : Cfg) (h : List Op) :
    (run c {} h).driftRuns = if c.applies && h.any computesCoords then 1 else 0 := by
  have hinv := inv_run c {} h (inv_init c)
  have hl := run_lonlat c {} h
  cases hany : h.any computesCoords
  · have : (run c {} h).lonlat = false := by rw [hl, hany]; rfl
    simp [(hinv.fresh this).2.1]
  · have : (run c {} h).lonlat = true := by rw [hl, hany]; rfl
    rw [(hinv.done this).2.2]
    cases c.applies <;> simp

/-- it applies iff POD, enabled, table present and TLE data available; otherwise every output is
computed from the unshifted times (and no error is raised: the model has no error outcome here,
the correspondence check observes the real code) -/
theorem applies_iff (c : Cfg) : c.applies = true ↔ c.pod = true ∧ c.driftEnabled = true ∧ c.hasTable = true ∧ c.tleOk = true := by
  simp [Cfg.applies, and_assoc]

theorem skipped_is_identity (c : Cfg) (hc : c.applies = false) (h : List Op) (op : Op) (h2 : op ≠ .readMeta) :
    outAfter c h op = match op with
      | .getTimes => .times .pre | .getLonLat => .lonlat .pre | .dataset => .dataset .pre .pre .pre
      | .calibrated => .calibrated .pre .pre .pre | .angles => .angles .pre .pre
      | .getMask => .mask | .getQualFlags => .qual | .getCounts => .counts | .getTelemetry => .tele
      | .readMeta => .metaOut none | .save => .saved .pre := by
  have hfin : c.final = .pre := by simp [Cfg.final, hc]
  by_cases h1 : op = .getTimes
  · subst h1
    unfold outAfter
    simp only [step]
    rw [doTimes_snd c _ (inv_run c {} h (inv_init c)), hfin]
    split <;> rfl
  · unfold outAfter
    rw [step_out_spec c _ op (inv_run c {} h (inv_init c)) h1 h2]
    cases op <;> first | exact absurd rfl h2 | simp_all [specOut]

example : (plan 500 [10, 11, 14] [mkRat 7 10, mkRat 7 10, mkRat 7 10] 0).missed = [8, 9, 12, 13] ∧
    (plan 500 [10, 11, 14] [mkRat 7 10, mkRat 7 10, mkRat 7 10] 0).floorL = [8, 9, 12] ∧
    (plan 500 [10, 11, 14] [mkRat 7 10, mkRat 7 10, mkRat 7 10] 0).weight = [mkRat 3 5, mkRat 3 5, mkRat 3 5] := by
  decide +kernel

end PygacModel.C09
