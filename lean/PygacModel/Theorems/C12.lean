/-
C12 — Accessor results do not depend on call order, repetition or earlier work.

Model: `Model/Accessors.lean` - the reader's caches as an explicit state, every public accessor a
transition following the real call graph; outputs are symbolic (which version of the times each
ingredient saw).  Tied to the code by `harness/c12.py` (random accessor histories on real readers,
digests compared with fresh single-call readers, cache-fill traces compared with the model).
-/
import PygacModel.Lemmas.Accessors
namespace PygacModel.C12
open PygacModel.Acc

/-- every cache of every reachable state is empty or holds its specification value -/
theorem cache_coherent (c : Cfg) (h : List Op) : Inv c (run c {} h) :=
  inv_run c {} h (inv_init c)

/-- **Order independence**: for all histories `h₁ h₂` (any accessors, any order, any repetition) and
every accessor other than `get_times` / `meta_data`, the output after `h₁` equals the output after
`h₂` - both equal the specification value. -/
theorem order_independent (c : Cfg) (h₁ h₂ : List Op) (op : Op) (h1 : op ≠ .getTimes) (h2 : op ≠ .readMeta) :
    outAfter c h₁ op = outAfter c h₂ op := by
  unfold outAfter
  rw [step_out_spec c _ op (cache_coherent c h₁) h1 h2, step_out_spec c _ op (cache_coherent c h₂) h1 h2]

/-- the dataset view and the array accessors are built from the same ingredients: same times
version in the times coordinate, the coordinates, the metadata, the calibration date, the
distance factor, the scan-motor gate and the angles -/
theorem array_eq_dataset (c : Cfg) (h : List Op) :
    outAfter c h .dataset = .dataset c.final c.final c.final ∧
    outAfter c h .calibrated = .calibrated c.final c.final c.final ∧
    outAfter c h .getLonLat = .lonlat c.final ∧ outAfter c h .angles = .angles c.final c.final := by
  unfold outAfter
  refine ⟨?_, ?_, ?_, ?_⟩ <;>
    exact step_out_spec c _ _ (cache_coherent c h) (by decide) (by decide)

/-- **The only permitted change**: `get_times` returns the pre-correction times until coordinates
have been computed for the first time, and the final times (shifted iff the clock-drift correction
applies) ever after. -/
theorem times_permitted_change (c : Cfg) (h : List Op) :
    outAfter c h .getTimes = .times (if h.any computesCoords then c.final else .pre) := by
  unfold outAfter
  have hinv := cache_coherent c h
  have hl := run_lonlat c {} h
  simp only [step]
  rw [doTimes_snd c _ hinv, hl]
  simp

/-- when the correction does not apply (KLM, disabled, no table, no TLE data) nothing ever changes -/
theorem times_constant_without_drift (c : Cfg) (hc : c.applies = false) (h₁ h₂ : List Op) :
    outAfter c h₁ .getTimes = outAfter c h₂ .getTimes := by
  rw [times_permitted_change, times_permitted_change]
  simp [Cfg.final, hc]

/-! ### other readers and global work -/

/-- several readers in one process: an operation addresses one of them -/
def runMulti (cs : Nat → Cfg) (ss : Nat → St) : List (Nat × Op) → (Nat → St)
  | [] => ss
  | (i, op) :: rest => runMulti cs (fun j => if j = i then (step (cs i) (ss i) op).1 else ss j) rest

/-- **Instances are isolated**: the state (hence every later output) of reader `i` after an arbitrary
interleaving with other readers is the state after its own operations alone. -/
theorem instances_isolated (cs : Nat → Cfg) (ss : Nat → St) (ops : List (Nat × Op)) (i : Nat) :
    runMulti cs ss ops i = run (cs i) (ss i) ((ops.filter (fun p => p.1 == i)).map (·.2)) := by
  induction ops generalizing ss with
  | nil => rfl
  | cons p rest ih =>
    obtain ⟨j, op⟩ := p
    simp only [runMulti]
    rw [ih]
    by_cases hji : j = i
    · subst hji; simp [run]
    · have : (j == i) = false := by simpa using hji
      simp [List.filter, this, Ne.symm hji]

/-- non-vacuity: a history in which `get_times` is called before and after coordinates -/
example : outAfter ⟨true, true, true, true⟩ [.getTimes, .getCounts] .getTimes = .times .pre ∧
    outAfter ⟨true, true, true, true⟩ [.getTimes, .calibrated, .getMask] .getTimes = .times .post ∧
    outAfter ⟨true, true, true, true⟩ [.getTimes] .dataset = .dataset .post .post .post := by decide

end PygacModel.C12
