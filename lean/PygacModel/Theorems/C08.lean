/-
C08 — Corrupt scan-line times are repaired, and times are always returned.

Model: `Model/Times.lean` (shared with C03).  Proved here: `get_times` is total and returns one
instant per line for every input; what the fallback returns; and the repair guarantee of the
threshold stage (stage 2) in full generality.  NOT proved: the composition "any garbage in < 40 % of
the lines leaves stage 2 a good majority" in full generality (`repair_lt40_full`) - stage 1 is a
cascade of data-dependent global replacements.  Proved end to end (both stages composed) for the
corruption classes "garbage in the millisecond field" (`repair_ms_garbage`, for ANY fraction below one
half) and "garbage in the day-of-year and millisecond fields" (`repair_day_ms_garbage`, fewer than 40 %,
under three stated side conditions) and "an implausible year on some line" (`repair_year_out_of_range`, any
number of corrupt lines), and for ANY garbage (plausible years included) on fewer than ONE THIRD of the lines
(`repair_any_garbage_third`; for whole-millisecond periods EXACTLY: `repair_any_garbage_third_exact`, the property's
"within 1 ms when the pass is exactly periodic" clause).  What stays partial: the band between one third and 40 % when plausible-but-wrong
years (or ms values beyond 32 bits / passes longer than 6 h / recorded-day series with a half-integer median)
are involved - correspondence check and the property's own oracle only.
-/
import PygacModel.Lemmas.TimesRepair
import PygacModel.Lemmas.TimesDay
import PygacModel.Lemmas.TimesExact
import Mathlib.Tactic.IntervalCases
import PygacModel.Generated.Misc
namespace PygacModel.C08
open PygacModel PygacModel.Times Np

/-- **Times are always returned**: for every input whatsoever - any line-number order, any values in
the time fields, any header (usable or not), either family and rate - `get_times` yields exactly one
instant per scan line.  (The model's result type has no other inhabitants; that the real code never
returns another kind of object or raises is what the correspondence check observes.) -/
theorem always_times (prm : S2Params) (P : Rat) (sg : Bool) (nowYear : Int) (hd : Option Int) (r : RawTimes)
    (hy : r.year.length = r.nums.length) (hj : r.jday.length = r.nums.length) (hm : r.msec.length = r.nums.length) :
    (getTimes prm P nowYear sg hd r).length = r.nums.length :=
  getTimes_length prm P sg nowYear hd r hy hj hm

/-- when stage 2 refuses, the individually sanitised recorded times (stage 1) are returned -/
theorem fallback_value (prm : S2Params) (P : Rat) (sg : Bool) (nowYear : Int) (hd : Option Int) (r : RawTimes)
    (h : stage2 prm P sg r.nums hd (s1Instants (stage1 P sg nowYear r)) = .mismatch) :
    getTimes prm P nowYear sg hd r = s1Instants (stage1 P sg nowYear r) := by
  unfold getTimes; simp only [h]

/-- the three refusals: line numbers running backwards (visible for the signed POD field) ... -/
theorem refuses_backwards (prm : S2Params) (P : Rat) (nums : List Int) (hd : Option Int) (t : List Int)
    (h : decreasing nums = true) : stage2 prm P true nums hd t = .mismatch := by
  unfold stage2; simp [h]

/-- ... an unusable header time ... -/
theorem refuses_no_header (prm : S2Params) (P : Rat) (sg : Bool) (nums : List Int) (t : List Int) :
    stage2 prm P sg nums none t = .mismatch := by
  unfold stage2; split <;> rfl

/-- ... and too few lines near the header time; in every other case it repairs. -/
theorem repairs_iff (prm : S2Params) (P : Rat) (sg : Bool) (nums : List Int) (hm : Int) (t : List Int)
    (hdec : (sg && decreasing nums) = false) :
    (∃ ts, stage2 prm P sg nums (some hm) t = .times ts) ↔
      prm.minFrac ≤ ((nearOf prm hm (offsetsOf t (tnOf P sg nums))).length : Rat) / (nums.length : Rat) := by
  unfold stage2
  simp only [hdec, Bool.false_eq_true, if_false]
  constructor
  · rintro ⟨ts, h⟩
    split at h
    · assumption
    · cases h
  · intro h
    rw [if_pos h]
    exact ⟨_, rfl⟩

/-- **Repair guarantee of the threshold stage**, for every input series `t` (whatever stage 1 left),
every set of line numbers, either rate and family.  Let `c` be the true offset of the pass (true time
of a line = `tn + c`) and suppose that among the lines whose offset lies within 6 min of the header
time a strict majority is right to within `ε` ms.  Then, if stage 2 does not refuse:
(1) every line that is within (10 s - ε) of its true time is returned unchanged;
(2) every returned time is within 10 s + ε of the true time (or within ε + 1 ms);
(3) every line further than 10 s + ε from its true time is replaced by a value within ε + 1 ms of it.
For an exactly periodic pass ε = 0: returned times are within 10 s of the truth, repaired ones within 1 ms. -/
theorem stage2_repairs (prm : S2Params) (P : Rat) (sg : Bool) (nums : List Int) (hd : Option Int)
    (t ts : List Int) (c ε : Rat)
    (hres : stage2 prm P sg nums hd t = .times ts)
    (hmaj : ∀ hm, hd = some hm →
      (nearOf prm hm (offsetsOf t (tnOf P sg nums))).length <
        2 * (nearOf prm hm (offsetsOf t (tnOf P sg nums))).countP (inBand (c - ε) (c + ε)))
    (i : Nat) (h1 : i < ts.length) (h2 : i < t.length) (h3 : i < (tnOf P sg nums).length) :
    (absR ((t[i] : Rat) - ((tnOf P sg nums)[i] + c)) ≤ prm.maxDiffIdeal - ε → ts[i] = t[i]) ∧
    (absR ((ts[i] : Rat) - ((tnOf P sg nums)[i] + c)) ≤ prm.maxDiffIdeal + ε ∨
      absR ((ts[i] : Rat) - ((tnOf P sg nums)[i] + c)) < ε + 1) ∧
    (absR ((t[i] : Rat) - ((tnOf P sg nums)[i] + c)) > prm.maxDiffIdeal + ε →
      absR ((ts[i] : Rat) - ((tnOf P sg nums)[i] + c)) < ε + 1) := by
  obtain ⟨hm, hhd, _, hts⟩ := stage2_lines prm P sg nums hd t ts hres
  have ht0 := t0_in_band _ c ε (hmaj hm hhd)
  have e : ts[i] = repairLine prm (medianD (nearOf prm hm (offsetsOf t (tnOf P sg nums)))) t[i] (tnOf P sg nums)[i] := by
    rw [List.getElem_of_eq hts h1, List.getElem_zipWith]
  rw [e]
  exact repairLine_spec prm _ c ε t[i] (tnOf P sg nums)[i] ht0

/-- **End-to-end repair, corruption class "garbage in the ms field"**: scan-line numbers, header time,
days, years and the first line intact (`Clean`, one calendar year, header within 6 min - 2 ms of the
pass offset, numbers not decreasing for the signed POD field); ANY values in the ms field of the
lines marked `good = false`, provided the intact lines are a strict majority (in particular: fewer
than 40 % corrupt).  Then `get_times` returns one time per line, every returned time is within 10 s
(+ 2 ms) of the true time, and every intact line is returned to within 1 ms of its recorded time. -/
theorem repair_ms_garbage (P : Rat) (sg : Bool) (nowYear : Int) (h : Int) (r : RawTimes)
    (hc : Clean nowYear r) (hy : ∀ y ∈ r.year, y = r.year.headD 0)
    (hdec : (sg && decreasing r.nums) = false)
    (good : List Bool) (hglen : good.length = r.nums.length)
    (hgood : ∀ i (hi : i < good.length), good[i] = true → GoodAt P sg r i)
    (hmaj : r.nums.length < 2 * good.count true)
    (hhead : absR (passOffset P sg r - (h : Rat)) ≤ 360000 - 2) :
    (getTimes {} P nowYear sg (some h) r).length = r.nums.length ∧
    ∀ i (hi : i < r.nums.length) (h1 : i < (getTimes {} P nowYear sg (some h) r).length)
      (h2 : i < (recorded r).length) (h3 : i < good.length),
      absR ((((getTimes {} P nowYear sg (some h) r)[i] : Int) : Rat)
        - (((lineIdx sg r.nums[i] : Int) : Rat) * P + passOffset P sg r)) ≤ 10002 ∧
      (good[i] = true → (recorded r)[i] - 1 ≤ (getTimes {} P nowYear sg (some h) r)[i] ∧
        (getTimes {} P nowYear sg (some h) r)[i] ≤ (recorded r)[i] + 1) :=
  Times.repair_ms_garbage P sg nowYear h r hc hy hdec good hglen hgood hmaj hhead

/-- non-vacuity of its premises: five lines, the ms field of lines 2 and 4 is garbage -/
def garbledPass : RawTimes :=
  { nums := [1, 2, 3, 4, 5], year := [2002, 2002, 2002, 2002, 2002], jday := [187, 187, 187, 187, 187],
    msec := [43200000, 999, 43201000, 86000000, 43202000] }

example : Clean 2026 garbledPass where
  n_pos := by decide
  len_y := rfl
  len_j := rfl
  len_m := rfl
  year_ok := by decide
  jday_ok := by decide
  jday_mono := by decide +kernel
  msec_first := by decide

example : getTimes {} 500 2026 false (some 1025956800000) garbledPass =
    [1025956800000, 1025956800500, 1025956801000, 1025956801500, 1025956802000] := by decide +kernel

/-- **End-to-end repair, corruption class "garbage in the day-of-year AND ms fields"**: `r0` is the consistent
pass the instrument should have recorded, `r` the file - equal to it on the lines marked `good`, carrying ANY
day and ms values on the others (scenario `Times.Garbled`: years, line numbers and the first line intact; the ms
field within its unsigned 32 bits; whole-number median of the recorded days; pass of at most six hours).
If fewer than 40 % of the lines are corrupt and the header time is within 6 min - 2 ms of the pass offset, then
`get_times` returns one time per line and EVERY returned time is within 10 s (+ 2 ms) of the true time.
The proof follows stage 1 line by line (`Times.line_cases`): a good line leaves it at its true time or - when a
garbage day before it made the day series step down - whole days away; the line before such a lost line is
itself either right or at least 18 h away (`Times.line_before_lost`), so that among the lines near the header
time the right ones outnumber the wrong ones (`Count.majority_count`) and stage 2's median is right. -/
theorem repair_day_ms_garbage (P : Rat) (sg : Bool) (nowYear : Int) (hd : Int) (r0 r : RawTimes) (good : List Bool)
    (h : Garbled P sg nowYear r0 r good)
    (hdec : (sg && decreasing r.nums) = false)
    (hbad : 5 * good.count false < 2 * r0.nums.length)
    (hhead : absR (passOffset P sg r0 - (hd : Rat)) ≤ 360000 - 2) :
    (getTimes {} P nowYear sg (some hd) r).length = r0.nums.length ∧
    ∀ i (hi : i < r0.nums.length) (h1 : i < (getTimes {} P nowYear sg (some hd) r).length),
      absR ((((getTimes {} P nowYear sg (some hd) r)[i] : Int) : Rat)
        - (((lineIdx sg r0.nums[i] : Int) : Rat) * P + passOffset P sg r0)) ≤ 10002 :=
  Times.repair_day_ms_garbage P sg nowYear hd r0 r good h hdec hbad hhead

/-- non-vacuity of its premises: six lines; line 3 carries day 300 and a garbage ms value, line 5 day 0 -/
def truePass : RawTimes :=
  { nums := [1, 2, 3, 4, 5, 6], year := [2002, 2002, 2002, 2002, 2002, 2002], jday := [187, 187, 187, 187, 187, 187],
    msec := [43200000, 43200500, 43201000, 43201500, 43202000, 43202500] }
def garbledDays : RawTimes :=
  { nums := [1, 2, 3, 4, 5, 6], year := [2002, 2002, 2002, 2002, 2002, 2002], jday := [187, 187, 300, 187, 0, 187],
    msec := [43200000, 43200500, 999, 43201500, 43202000, 43202500] }

example : Garbled 500 false 2026 truePass garbledDays [true, true, false, true, false, true] where
  clean := { n_pos := by decide, len_y := rfl, len_j := rfl, len_m := rfl, year_ok := by decide, jday_ok := by decide,
             jday_mono := by decide +kernel, msec_first := by decide }
  year_const := by decide
  truth := by
    intro i hi
    have hi' : i < 6 := hi
    have hl : (idealOfDay 500 false truePass).length = 6 := by decide +kernel
    refine ⟨by simp [truePass]; omega, by rw [hl]; exact hi', ?_⟩
    interval_cases i <;> decide +kernel +revert
  nums_eq := rfl
  year_eq := rfl
  len_y := rfl
  year_ok := by decide
  good_y := by
    intro i h1 h2 h3 _
    have : i < 6 := h1
    interval_cases i <;> rfl
  len_j := rfl
  len_m := rfl
  len_g := rfl
  first_good := by intro _; rfl
  good_j := by
    intro i h1 h2 h3 hg
    have : i < 6 := h1
    interval_cases i <;> first | rfl | exact absurd hg (by decide +revert)
  good_m := by
    intro i h1 h2 h3 hg
    have : i < 6 := h1
    interval_cases i <;> first | rfl | exact absurd hg (by decide +revert)
  msec_u32 := by decide
  med_int := ⟨187, by decide +kernel⟩
  span := by
    intro i hi
    have : i < 6 := hi
    interval_cases i <;> decide +kernel +revert

example : getTimes {} 500 2026 false (some 1025956800000) garbledDays =
    [1025956800000, 1025956800500, 1025956801000, 1025956801500, 1025956802000, 1025956802500] := by decide +kernel

/-- **End-to-end repair, ANY corruption class, fewer than one third of the lines**: the corrupt lines may carry
arbitrary (plausible) years, arbitrary day numbers and arbitrary ms values - no restriction on the ms field's
size, on the recorded days, on the length of the pass or on the time of year (scenario `Times.GarbledAny`: line
numbers, header time and the first line intact - nothing else is assumed).  Every returned time is within 10 s (+ 2 ms)
of the true time.  (Together with `repair_year_out_of_range` for implausible years this covers every kind of
garbage in the time fields; the 40 % of the property is reached by `repair_day_ms_garbage` when the years are
intact and by `repair_ms_garbage` when the days are, too.) -/
theorem repair_any_garbage_third (P : Rat) (sg : Bool) (nowYear : Int) (hd : Int) (r0 r : RawTimes) (good : List Bool)
    (h : GarbledAny P sg nowYear r0 r good)
    (hdec : (sg && decreasing r.nums) = false)
    (hbad : 3 * good.count false < r0.nums.length)
    (hhead : absR (passOffset P sg r0 - (hd : Rat)) ≤ 360000 - 2) :
    (getTimes {} P nowYear sg (some hd) r).length = r0.nums.length ∧
    ∀ i (hi : i < r0.nums.length) (h1 : i < (getTimes {} P nowYear sg (some hd) r).length),
      absR ((((getTimes {} P nowYear sg (some hd) r)[i] : Int) : Rat)
        - (((lineIdx sg r0.nums[i] : Int) : Rat) * P + passOffset P sg r0)) ≤ 10002 :=
  Times.repair_any_garbage_third P sg nowYear hd r0 r good h hdec hbad hhead

/-- non-vacuity: seven lines, line 4 carries the year 1999, day 12 and a garbage ms value -/
def truePass7 : RawTimes :=
  { nums := [1, 2, 3, 4, 5, 6, 7], year := [2002, 2002, 2002, 2002, 2002, 2002, 2002],
    jday := [187, 187, 187, 187, 187, 187, 187],
    msec := [43200000, 43200500, 43201000, 43201500, 43202000, 43202500, 43203000] }
def garbledAll : RawTimes :=
  { nums := [1, 2, 3, 4, 5, 6, 7], year := [2002, 2002, 2002, 1999, 2002, 2002, 2002],
    jday := [187, 187, 187, 12, 187, 187, 187],
    msec := [43200000, 43200500, 43201000, 4000000000, 43202000, 43202500, 43203000] }

example : GarbledAny 500 false 2026 truePass7 garbledAll [true, true, true, false, true, true, true] where
  clean := { n_pos := by decide, len_y := rfl, len_j := rfl, len_m := rfl, year_ok := by decide, jday_ok := by decide,
             jday_mono := by decide +kernel, msec_first := by decide }
  year_const := by decide
  truth := by
    intro i hi
    have hi' : i < 7 := hi
    have hl : (idealOfDay 500 false truePass7).length = 7 := by decide +kernel
    refine ⟨by simp [truePass7]; omega, by rw [hl]; exact hi', ?_⟩
    interval_cases i <;> decide +kernel +revert
  nums_eq := rfl
  len_y := rfl
  year_ok := by decide
  good_y := by
    intro i h1 h2 h3 hg
    have : i < 7 := h1
    interval_cases i <;> first | rfl | exact absurd hg (by decide +revert)
  len_j := rfl
  len_m := rfl
  len_g := rfl
  first_good := by intro _; rfl
  good_j := by
    intro i h1 h2 h3 hg
    have : i < 7 := h1
    interval_cases i <;> first | rfl | exact absurd hg (by decide +revert)
  good_m := by
    intro i h1 h2 h3 hg
    have : i < 7 := h1
    interval_cases i <;> first | rfl | exact absurd hg (by decide +revert)


example : getTimes {} 500 2026 false (some 1025956800000) garbledAll =
    [1025956800000, 1025956800500, 1025956801000, 1025956801500, 1025956802000, 1025956802500, 1025956803000] := by
  decide +kernel

/-- **The "within 1 ms when the pass is exactly periodic" clause** - in fact exact: with a whole-millisecond line
period (GAC, 500 ms) and ANY garbage on fewer than one third of the lines (scenario `GarbledAny`), every returned time
is within 10 s of the true time (no slack), every line whose sanitised time was further off than 10 s is returned at
EXACTLY its true time, and so is every line whose sanitised time was exact (every intact line near the header time
is: `Times.good_near_zero`).  The estimated pass offset is the exact one (`Times.finish_from_zero_majority`). -/
theorem repair_any_garbage_third_exact (P : Rat) (sg : Bool) (nowYear : Int) (hd : Int) (r0 r : RawTimes) (good : List Bool)
    (h : GarbledAny P sg nowYear r0 r good) (hP : ∃ p : Int, P = (p : Rat))
    (hdec : (sg && decreasing r.nums) = false)
    (hbad : 3 * good.count false < r0.nums.length)
    (hhead : absR (passOffset P sg r0 - (hd : Rat)) ≤ 360000 - 2) :
    (getTimes {} P nowYear sg (some hd) r).length = r0.nums.length ∧
    ∀ i (hi : i < r0.nums.length) (h1 : i < (getTimes {} P nowYear sg (some hd) r).length),
      absR ((((getTimes {} P nowYear sg (some hd) r)[i] : Int) : Rat)
        - (((lineIdx sg r0.nums[i] : Int) : Rat) * P + passOffset P sg r0)) ≤ 10000 ∧
      (absR (offErr P sg nowYear r0 r i) > 10000 →
        (((getTimes {} P nowYear sg (some hd) r)[i] : Int) : Rat)
          = ((lineIdx sg r0.nums[i] : Int) : Rat) * P + passOffset P sg r0) ∧
      (offErr P sg nowYear r0 r i = 0 →
        (((getTimes {} P nowYear sg (some hd) r)[i] : Int) : Rat)
          = ((lineIdx sg r0.nums[i] : Int) : Rat) * P + passOffset P sg r0) :=
  Times.repair_any_garbage_third_exact P sg nowYear hd r0 r good h hP hdec hbad hhead

/-- ... the guarantee for garbage in the ms field of fewer than HALF of the lines (`repair_ms_garbage`) is exact as well:
every intact line is returned at exactly its recorded (= true) time, every line whose sanitised time was further than
10 s off at exactly its true time, every line within 10 s -/
theorem repair_ms_garbage_exact (P : Rat) (sg : Bool) (nowYear : Int) (h : Int) (r : RawTimes)
    (hc : Clean nowYear r) (hy : ∀ y ∈ r.year, y = r.year.headD 0) (hP : ∃ p : Int, P = (p : Rat))
    (hdec : (sg && decreasing r.nums) = false)
    (good : List Bool) (hglen : good.length = r.nums.length)
    (hgood : ∀ i (hi : i < good.length), good[i] = true → GoodAt P sg r i)
    (hmaj : r.nums.length < 2 * good.count true)
    (hhead : absR (passOffset P sg r - (h : Rat)) ≤ 360000 - 2) :
    (getTimes {} P nowYear sg (some h) r).length = r.nums.length ∧
    ∀ i (hi : i < r.nums.length) (h1 : i < (getTimes {} P nowYear sg (some h) r).length)
      (h2 : i < (recorded r).length) (h3 : i < good.length) (h4 : i < (s1Instants (stage1 P sg nowYear r)).length),
      absR ((((getTimes {} P nowYear sg (some h) r)[i] : Int) : Rat)
        - (((lineIdx sg r.nums[i] : Int) : Rat) * P + passOffset P sg r)) ≤ 10000 ∧
      (good[i] = true → (getTimes {} P nowYear sg (some h) r)[i] = (recorded r)[i]) ∧
      (absR ((((s1Instants (stage1 P sg nowYear r))[i] : Int) : Rat)
          - (((lineIdx sg r.nums[i] : Int) : Rat) * P + passOffset P sg r)) > 10000 →
        (((getTimes {} P nowYear sg (some h) r)[i] : Int) : Rat)
          = ((lineIdx sg r.nums[i] : Int) : Rat) * P + passOffset P sg r) :=
  Times.repair_ms_garbage_exact P sg nowYear h r hc hy hP hdec good hglen hgood hmaj hhead

/-- ... and the 40 % guarantee (`repair_day_ms_garbage`, scenario `Garbled`) is exact in the same sense -/
theorem repair_day_ms_garbage_exact (P : Rat) (sg : Bool) (nowYear : Int) (hd : Int) (r0 r : RawTimes) (good : List Bool)
    (h : Garbled P sg nowYear r0 r good) (hP : ∃ p : Int, P = (p : Rat))
    (hdec : (sg && decreasing r.nums) = false)
    (hbad : 5 * good.count false < 2 * r0.nums.length)
    (hhead : absR (passOffset P sg r0 - (hd : Rat)) ≤ 360000 - 2) :
    (getTimes {} P nowYear sg (some hd) r).length = r0.nums.length ∧
    ∀ i (hi : i < r0.nums.length) (h1 : i < (getTimes {} P nowYear sg (some hd) r).length),
      absR ((((getTimes {} P nowYear sg (some hd) r)[i] : Int) : Rat)
        - (((lineIdx sg r0.nums[i] : Int) : Rat) * P + passOffset P sg r0)) ≤ 10000 ∧
      (absR (offErr P sg nowYear r0 r i) > 10000 →
        (((getTimes {} P nowYear sg (some hd) r)[i] : Int) : Rat)
          = ((lineIdx sg r0.nums[i] : Int) : Rat) * P + passOffset P sg r0) ∧
      (offErr P sg nowYear r0 r i = 0 →
        (((getTimes {} P nowYear sg (some hd) r)[i] : Int) : Rat)
          = ((lineIdx sg r0.nums[i] : Int) : Rat) * P + passOffset P sg r0) :=
  Times.repair_day_ms_garbage_exact P sg nowYear hd r0 r good h hP hdec hbad hhead

/-- non-vacuity: the seven-line pass above meets the extra hypothesis (500 ms is a whole number), its corrupt line 4 is
further than 10 s off after stage 1, and `get_times` returns exactly the true times (the `decide` example above) -/
example : (∃ p : Int, (500 : Rat) = (p : Rat)) ∧ 3 * [true, true, true, false, true, true, true].count false < 7 :=
  ⟨⟨500, by norm_num⟩, by decide⟩

/-- **End-to-end repair, corruption class "an implausible year"**: if the year field of ANY line other than the
first lies outside 1978 .. current year - and whatever ALL other time fields of ALL other lines contain - then
`get_times` returns, for every line, the first line's recorded time carried along the scan-line numbers at the
nominal rate, to within 1 ms (first line plausible, header time within 6 min - 2 ms of it, line numbers not
decreasing for the signed POD field).  No bound on the number of corrupt lines is needed: stage 1 rebuilds the
whole pass from its first line. -/
theorem repair_year_out_of_range (P : Rat) (sg : Bool) (nowYear : Int) (hd : Int) (r : RawTimes)
    (h : FirstLineOk nowYear r) (hbad : ∃ y ∈ r.year, y < 1978 ∨ y > nowYear)
    (hdec : (sg && decreasing r.nums) = false)
    (hhead : absR (passOffset P sg r - (hd : Rat)) ≤ 360000 - 2) :
    (getTimes {} P nowYear sg (some hd) r).length = r.nums.length ∧
    ∀ i (hi : i < r.nums.length) (h1 : i < (getTimes {} P nowYear sg (some hd) r).length),
      absR ((((getTimes {} P nowYear sg (some hd) r)[i] : Int) : Rat)
        - (((lineIdx sg r.nums[i] : Int) : Rat) * P + passOffset P sg r)) < 1 :=
  Times.repair_year_out_of_range P sg nowYear hd r h hbad hdec hhead

/-- non-vacuity / concrete instance: line 4 carries year 0, the other lines garbage in day and ms -/
def garbledYear : RawTimes :=
  { nums := [1, 2, 3, 4, 5, 6], year := [2002, 2002, 2002, 0, 2002, 1999], jday := [187, 3, 300, 187, 0, 187],
    msec := [43200000, 7, 999, 43201500, 4000000000, 43202500] }

example : FirstLineOk 2026 garbledYear where
  n_pos := by decide
  len_y := rfl
  len_j := rfl
  len_m := rfl
  year0 := by decide
  jday0 := by decide
  msec0 := by decide

example : getTimes {} 500 2026 false (some 1025956800000) garbledYear =
    [1025956800000, 1025956800500, 1025956801000, 1025956801500, 1025956802000, 1025956802500] := by decide +kernel

/-- the thresholds of the running code are the model's (6 min, 1 %, 10 s) -/
theorem generated_s2_params :
    Generated.s2MaxDiffHead = ({} : S2Params).maxDiffHead ∧ Generated.s2MinFrac = ({} : S2Params).minFrac ∧
    Generated.s2MaxDiffIdeal = ({} : S2Params).maxDiffIdeal := by decide +kernel

/-- non-vacuity / concrete instance: a 6-line GAC pass from line 1 whose lines 2 and 4 carry garbage
(one day late, 30 min early) is fully repaired -/
example :
    getTimes {} 500 2026 false (some 1025956800000)
      { nums := [1, 2, 3, 4, 5, 6], year := [2002, 2002, 2002, 2002, 2002, 2002],
        jday := [187, 188, 187, 187, 187, 187],
        msec := [43200000, 43200500, 43201000, 41401500, 43202000, 43202500] }
      = [1025956800000, 1025956800500, 1025956801000, 1025956801500, 1025956802000, 1025956802500] := by
  decide +kernel

end PygacModel.C08
