/-
C17 — The TLE nearest the pass start is used, and never one older than the limit.
-/
import PygacModel.Model.Tle
import Mathlib.Algebra.Order.Field.Rat
import Mathlib.Tactic.Linarith
import Mathlib.Data.Rat.Floor
namespace PygacModel.C17
open PygacModel Np

/-! ## searchsorted -/

theorem ssLeft_le_length (a : List Int) (v : Int) : ssLeft a v ≤ a.length := by
  induction a with
  | nil => simp [ssLeft]
  | cons x xs ih => unfold ssLeft; split <;> simp <;> omega

/-- every entry before the insertion index is strictly below `v` -/
theorem ssLeft_lt (a : List Int) (v : Int) (j : Nat) (hj : j < ssLeft a v)
    (hjl : j < a.length := Nat.lt_of_lt_of_le hj (ssLeft_le_length a v)) : a[j] < v := by
  induction a generalizing j with
  | nil => simp [ssLeft] at hj
  | cons x xs ih =>
    unfold ssLeft at hj
    split at hj
    · cases j with
      | zero => simpa
      | succ j => simp only [List.getElem_cons_succ]; exact ih j (by omega) _
    · omega

/-- the entry at the insertion index (if any) is not below `v` -/
theorem ssLeft_ge (a : List Int) (v : Int) (h : ssLeft a v < a.length) : v ≤ a[ssLeft a v] := by
  induction a with
  | nil => simp at h
  | cons x xs ih =>
    unfold ssLeft at h ⊢
    split
    · rename_i hx
      simp only [hx, if_true] at h
      simp only [List.getElem_cons_succ]
      exact ih (by simpa using h)
    · rename_i hx; simp; omega

theorem getD_of_lt (l : List Int) (i : Nat) (h : i < l.length) : l.getD i 0 = l[i] := by
  simp [List.getD_eq_getElem?_getD, h]

theorem absI_eq (x : Int) : absI x = |x| := by
  unfold absI; split
  · rw [abs_of_neg ‹_›]
  · rw [abs_of_nonneg (by omega)]

/-! ## nearest -/

/-- **The chosen element set is a nearest one**: for every non-empty ordered list of epochs and
every start time, the chosen index minimises the distance to the start time. -/
theorem nearest (dates : List Int) (s : Int) (hne : dates ≠ [])
    (hsorted : dates.Pairwise (· ≤ ·)) :
    chooseIdx dates s < dates.length ∧
    ∀ j (hj : j < dates.length), |s - dates.getD (chooseIdx dates s) 0| ≤ |s - dates[j]| := by
  have hlen : 0 < dates.length := List.length_pos_iff.mpr hne
  have hle := ssLeft_le_length dates s
  have hmono : ∀ i j (hi : i < dates.length) (hj : j < dates.length), i ≤ j → dates[i] ≤ dates[j] := by
    intro i j hi hj hij
    rcases Nat.lt_or_eq_of_le hij with h | h
    · exact (List.pairwise_iff_getElem.mp hsorted) i j hi hj h
    · subst h; exact le_refl _
  unfold chooseIdx
  simp only []
  by_cases h0 : ssLeft dates s = 0
  · simp only [h0, if_true]
    refine ⟨hlen, fun j hj => ?_⟩
    have hge : s ≤ dates[0] := by have := ssLeft_ge dates s (by omega); simpa [h0] using this
    have : dates[0] ≤ dates[j] := hmono 0 j hlen hj (by omega)
    rw [getD_of_lt _ _ hlen, abs_sub_comm, abs_of_nonneg (by omega), abs_sub_comm, abs_of_nonneg (by omega)]
    omega
  · simp only [h0, if_false]
    by_cases hL : ssLeft dates s = dates.length
    · simp only [hL, if_true]
      refine ⟨by omega, fun j hj => ?_⟩
      have hlt : dates[dates.length - 1] < s := ssLeft_lt dates s _ (by omega) (by omega)
      have : dates[j] ≤ dates[dates.length - 1] := hmono j _ hj (by omega) (by omega)
      rw [getD_of_lt _ _ (by omega : dates.length - 1 < dates.length),
        abs_of_nonneg (by omega), abs_of_nonneg (by omega)]
      omega
    · simp only [hL, if_false]
      have hi : ssLeft dates s < dates.length := by omega
      have hi1 : ssLeft dates s - 1 < dates.length := by omega
      have hlt : dates[ssLeft dates s - 1] < s := ssLeft_lt dates s _ (by omega) hi1
      have hge : s ≤ dates[ssLeft dates s] := ssLeft_ge dates s hi
      rw [getD_of_lt _ _ hi1, getD_of_lt _ _ hi, absI_eq, absI_eq]
      have hleft : ∀ j (hj : j < dates.length), j < ssLeft dates s →
          |s - dates[ssLeft dates s - 1]| ≤ |s - dates[j]| := by
        intro j hj hjs
        have h1 : dates[j] ≤ dates[ssLeft dates s - 1] := hmono j _ hj hi1 (by omega)
        rw [abs_of_nonneg (by omega), abs_of_nonneg (by omega)]; omega
      have hright : ∀ j (hj : j < dates.length), ssLeft dates s ≤ j →
          |s - dates[ssLeft dates s]| ≤ |s - dates[j]| := by
        intro j hj hjs
        have h1 : dates[ssLeft dates s] ≤ dates[j] := hmono _ j hi hj hjs
        rw [abs_sub_comm, abs_of_nonneg (by omega), abs_sub_comm s, abs_of_nonneg (by omega)]; omega
      split
      · rename_i hcmp
        refine ⟨hi1, fun j hj => ?_⟩
        rw [getD_of_lt _ _ hi1]
        by_cases hjs : j < ssLeft dates s
        · exact hleft j hj hjs
        · exact le_trans (le_of_lt hcmp) (hright j hj (by omega))
      · rename_i hcmp
        refine ⟨hi, fun j hj => ?_⟩
        rw [getD_of_lt _ _ hi]
        by_cases hjs : j < ssLeft dates s
        · exact le_trans (not_lt.mp hcmp) (hleft j hj hjs)
        · exact hright j hj (by omega)

/-- **Stale sets are rejected, fresh ones used**: the pass is reported as having no TLE data
exactly when even the nearest epoch is farther away than the limit — for every threshold. -/
theorem stale_rejected (dates : List Int) (s : Int) (threshMs : Rat) (hne : dates ≠ [])
    (hsorted : dates.Pairwise (· ≤ ·)) :
    (selectTle dates s threshMs = .noTleData ↔
      ∀ j (hj : j < dates.length), ((|s - dates[j]| : Int) : Rat) > threshMs) ∧
    (∀ i, selectTle dates s threshMs = .chosen i →
      i < dates.length ∧ ((|s - dates.getD i 0| : Int) : Rat) ≤ threshMs ∧
      ∀ j (hj : j < dates.length), |s - dates.getD i 0| ≤ |s - dates[j]|) := by
  obtain ⟨hlt, hmin⟩ := nearest dates s hne hsorted
  unfold selectTle
  simp only [hne, if_false]
  rw [absI_eq]
  constructor
  · constructor
    · intro h j hj
      split at h
      · rename_i hgt
        have := hmin j hj
        have : ((|s - dates.getD (chooseIdx dates s) 0| : Int) : Rat) ≤ ((|s - dates[j]| : Int) : Rat) := by
          exact_mod_cast this
        linarith
      · cases h
    · intro h
      have := h (chooseIdx dates s) hlt
      rw [getD_of_lt _ _ hlt]
      have h2 : threshMs < ((|s - dates[chooseIdx dates s]| : Int) : Rat) := this
      simp only [h2, if_true]
  · intro i h
    split at h
    · cases h
    · rename_i hgt
      cases h
      exact ⟨hlt, not_lt.mp hgt, hmin⟩

/-- Both lines come from the same element set: set `i` occupies lines `2i` and `2i+1`. -/
theorem same_set (i : Nat) : (2 * i) / 2 = i ∧ (2 * i + 1) / 2 = i := by omega

/-! ## epoch decoding -/

theorem roundHalfEven_close (x : Rat) : |((roundHalfEven x : Int) : Rat) - x| ≤ 1 / 2 := by
  unfold roundHalfEven
  simp only []
  have h1 : ((x.floor : Int) : Rat) ≤ x := Int.floor_le x
  have h2 : x < ((x.floor : Int) : Rat) + 1 := Int.lt_floor_add_one x
  split
  · rw [abs_le]; constructor <;> linarith
  · split
    · rw [abs_le]; push_cast; constructor <;> linarith
    · have : x - ((x.floor : Int) : Rat) = 1 / 2 := by
        rename_i ha hb; exact le_antisymm (not_lt.mp hb) (not_lt.mp ha)
      split
      · rw [abs_le]; constructor <;> linarith
      · rw [abs_le]; push_cast; constructor <;> linarith

/-- **Epoch decoding is exact to half a millisecond** for every epoch field. -/
theorem epoch_within_half_ms (x : Rat) : |((tleEpochMs x : Int) : Rat) - tleEpochExact x| ≤ 1 / 2 := by
  unfold tleEpochMs tleEpochExact
  simp only []
  have := roundHalfEven_close (86400000 * ((if x > 50000 then x + 1900000 else x + 2000000) -
      (((if x > 50000 then x + 1900000 else x + 2000000).floor : Int) : Rat)))
  rw [abs_le] at this ⊢
  push_cast
  constructor <;> linarith [this.1, this.2]

/-- Two-digit years: pivot at 50 (`> 50000`), examples across the range; leap day and day 366. -/
theorem epoch_examples :
    tleEpochMs (mkRat 1836363219793 100000000) = 1546096221901 ∧      -- 18363.63219793 = 2018-12-29T15:10:21.901
    tleEpochMs 50001 = -631152000000 ∧                                   -- 1950-01-01T00:00
    tleEpochMs (mkRat 1 2 + 60) = 951782400000 + 43200000 ∧              -- 2000-02-29T12:00 (day 60 of a leap year)
    tleEpochMs 366 = 978220800000 ∧                                      -- 2000-12-31
    tleEpochMs 49365 = 2524521600000 := by                               -- 2049-12-31
  decide +kernel

example : selectTle [0, 100, 200] 149 1000 = .chosen 1 := by decide
example : selectTle [0, 100, 200] 150 1000 = .chosen 2 := by decide
example : selectTle [0, 100, 200] 1500 1000 = .noTleData := by decide

/-- **Asking again gives the same answer**: however often the element set is asked for on one reader (the
clock-drift correction asks, then the angle computation asks again), every answer is the one a single query on a
fresh reader gives - in particular a pass reported as having no TLE data is never navigated with the rejected set
on a later query. -/
theorem repeated_queries (dates : List Int) (s : Int) (threshMs : Rat) (k : Nat) :
    ∀ r ∈ queryMany dates s threshMs k none, r = selectTle dates s threshMs := by
  -- invariant: the cache is empty, or holds the index a fresh selection chooses
  have key : ∀ (k : Nat) (c : Option Nat), (c = none ∨ selectTle dates s threshMs = .chosen (c.getD 0) ∧ c.isSome) →
      ∀ r ∈ queryMany dates s threshMs k c, r = selectTle dates s threshMs := by
    intro k
    induction k with
    | zero => intro c _ r hr; simp [queryMany] at hr
    | succ k ih =>
      intro c hc r hr
      simp only [queryMany, List.mem_cons] at hr
      rcases hc with hc | ⟨hsel, hsome⟩
      · subst hc
        cases hq : selectTle dates s threshMs with
        | chosen i =>
          rcases hr with e | hr
          · rw [e]; simp [queryTle, hq]
          · have : (queryTle dates s threshMs none).1 = some i := by simp [queryTle, hq]
            rw [this] at hr
            rw [← hq]
            exact ih (some i) (Or.inr ⟨by simpa using hq, rfl⟩) r hr
        | noTleData =>
          rcases hr with e | hr
          · rw [e]; simp [queryTle, hq]
          · have : (queryTle dates s threshMs none).1 = none := by simp [queryTle, hq]
            rw [this] at hr
            rw [← hq]
            exact ih none (Or.inl rfl) r hr
        | indexError =>
          rcases hr with e | hr
          · rw [e]; simp [queryTle, hq]
          · have : (queryTle dates s threshMs none).1 = none := by simp [queryTle, hq]
            rw [this] at hr
            rw [← hq]
            exact ih none (Or.inl rfl) r hr
      · obtain ⟨i, hi⟩ := Option.isSome_iff_exists.mp hsome
        subst hi
        simp only [Option.getD_some] at hsel
        rcases hr with e | hr
        · rw [e, hsel]; simp [queryTle]
        · have : (queryTle dates s threshMs (some i)).1 = some i := by simp [queryTle]
          rw [this] at hr
          exact ih (some i) (Or.inr ⟨by simpa using hsel, rfl⟩) r hr
  exact key k none (Or.inl rfl)

end PygacModel.C17
