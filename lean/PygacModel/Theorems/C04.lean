/-
C04 — Solar channels follow the PATMOS-x calibration for every spacecraft and date.

Model: `Model/Solar.lean` (exact rationals; `none` = NaN), coefficient table regenerated from the
shipped calibration.json on every run (`Generated/Calib.lean`) and pinned in `Spec/CalibSnapshot.lean`.
-/
import PygacModel.Lemmas.Solar
import PygacModel.Generated.Calib
import PygacModel.Generated.CoeffKeys
import PygacModel.Spec.CalibSnapshot
namespace PygacModel.C04
open PygacModel PygacModel.Solar Np

/-! ## 1. The table -/

set_option synthInstance.maxSize 2000 in
set_option synthInstance.maxHeartbeats 200000 in
/-- the coefficient table the running code uses is the pinned PATMOS-x v2023 table (all 17
spacecraft, solar and thermal parts, exact decimals) -/
theorem generated_table_eq_snapshot :
    Generated.solarTable = Spec.solarTable ∧ Generated.thermalTable = Spec.thermalTable := by
  decide +kernel

theorem version_is_patmosx_2023 :
    Generated.versionHashes.lookup Generated.shippedMd5 = some "PATMOS-x, v2023" := by decide +kernel

def allRows : List (String × Rat × List Row) := Generated.solarTable.map (fun e => (e.1, e.2.1, e.2.2.map Row.ofTuple))

/-- every row of every spacecraft is admissible (s0 >= 0, quadratic positive on [0, 10] by the
decidable end-point / linear-part test), there are three rows per spacecraft, and a dual-gain row's
dark count lies below its switch -/
theorem table_admissible :
    allRows.length = 17 ∧
    ∀ e ∈ allRows, e.2.2.length = 3 ∧ ∀ r ∈ e.2.2, rowOkB r = true ∧ (∀ b, r.switch = some b → r.dark ≤ b) := by
  decide +kernel

/-- does `x * 1000` lie exactly between two integers? -/
def isTie (x : Rat) : Bool := x * 1000 - (x * 1000).floor == mkRat 1 2

/-- no (row, gain factor) pair that the code actually uses sits on a 3-decimal rounding tie, so the
exact half-even rounding of the model and numpy's float rounding agree -/
theorem round3_no_tie :
    ∀ e ∈ allRows, ∀ ir ∈ e.2.2.zipIdx,
      isTie ((gains (isSingle e.2.2) ir.2).1 * ir.1.s0) = false ∧ isTie ((gains (isSingle e.2.2) ir.2).2 * ir.1.s0) = false := by
  decide +kernel

/-! ## 2. Shape of the mapping, for every admissible row, every date in the first ten years -/

/-- zero at the dark count -/
theorem zero_at_dark (single : Bool) (chan : Nat) (r : Row) (t : Rat) (b : Rat)
    (hb : r.switch = some b) (hdb : r.dark ≤ b) :
    rawRadiance single chan r t r.dark = some 0 := by
  unfold rawRadiance
  simp only [hb]
  split
  · simp
  · simp [hdb]

/-- continuous at the gain switch: both branches give the same value there -/
theorem continuous_at_switch (chan : Nat) (r : Row) (t b : Rat) (hb : r.switch = some b) :
    rawRadiance false chan r t b = some ((b - r.dark) * slope r (gains false chan).1 t + (b - b) * slope r (gains false chan).2 t) := by
  unfold rawRadiance
  simp [hb]

theorem scaled_some (single : Bool) (chan : Nat) (r : Row) (t corr c v : Rat)
    (h : scaled single chan r t corr c = some v) :
    ∃ raw, rawRadiance single chan r t c = some raw ∧ ¬ raw * corr < 0 ∧ v = raw * corr := by
  unfold scaled at h
  cases hr : rawRadiance single chan r t c with
  | none => simp [hr] at h
  | some raw =>
    simp only [hr] at h
    by_cases hneg : raw * corr < 0
    · simp [hneg] at h
    · simp only [hneg, if_false] at h
      injection h with h
      exact ⟨raw, rfl, hneg, h.symm⟩

theorem scaled_none (single : Bool) (chan : Nat) (r : Row) (t corr c : Rat)
    (h : scaled single chan r t corr c = none) :
    rawRadiance single chan r t c = none ∨ ∃ raw, rawRadiance single chan r t c = some raw ∧ raw * corr < 0 := by
  unfold scaled at h
  cases hr : rawRadiance single chan r t c with
  | none => left; rfl
  | some raw =>
    right
    simp only [hr] at h
    by_cases hneg : raw * corr < 0
    · exact ⟨raw, rfl, hneg⟩
    · simp [hneg] at h

theorem raw_mono (single : Bool) (chan : Nat) (r : Row) (t c1 c2 a b : Rat)
    (hl : 0 ≤ slope r (gains single chan).1 t) (hh : 0 ≤ slope r (gains single chan).2 t) (h : c1 ≤ c2)
    (e1 : rawRadiance single chan r t c1 = some a) (e2 : rawRadiance single chan r t c2 = some b) : a ≤ b := by
  unfold rawRadiance at e1 e2
  simp only at e1 e2
  cases single
  · simp only [Bool.false_eq_true, if_false] at e1 e2
    cases hb : r.switch with
    | none => simp [hb] at e1
    | some sw =>
      simp only [hb] at e1 e2
      injection e1 with e1; injection e2 with e2
      rw [← e1, ← e2]
      exact piecewise_mono r.dark sw _ _ c1 c2 hl hh h
  · simp only [if_true] at e1 e2
    injection e1 with e1; injection e2 with e2
    rw [← e1, ← e2]
    nlinarith

/-- **non-decreasing in the count** for t in [0, 10]: for counts c1 <= c2 whose results are not NaN -/
theorem monotone_in_count (single : Bool) (chan : Nat) (r : Row) (t corr c1 c2 v1 v2 : Rat)
    (hr : rowOkB r = true) (h0 : 0 ≤ t) (h10 : t ≤ 10) (hc : 0 < corr) (h : c1 ≤ c2)
    (e1 : scaled single chan r t corr c1 = some v1) (e2 : scaled single chan r t corr c2 = some v2) :
    v1 ≤ v2 := by
  have hg := gains_nonneg single chan
  have hl := slope_nonneg r _ t hg.1 h0 h10 hr
  have hh := slope_nonneg r _ t hg.2 h0 h10 hr
  obtain ⟨a, ha, _, rfl⟩ := scaled_some single chan r t corr c1 v1 e1
  obtain ⟨b, hb, _, rfl⟩ := scaled_some single chan r t corr c2 v2 e2
  exact mul_le_mul_of_nonneg_right (raw_mono single chan r t c1 c2 a b hl hh h ha hb) (le_of_lt hc)

/-- negative results (reported as NaN) occur only below the dark count -/
theorem nan_only_below_dark (single : Bool) (chan : Nat) (r : Row) (t corr c b : Rat)
    (hr : rowOkB r = true) (h0 : 0 ≤ t) (h10 : t ≤ 10) (hc : 0 < corr)
    (hb : r.switch = some b) (hdb : r.dark ≤ b) (hnan : scaled single chan r t corr c = none) : c < r.dark := by
  have hg := gains_nonneg single chan
  have hl := slope_nonneg r _ t hg.1 h0 h10 hr
  have hh := slope_nonneg r _ t hg.2 h0 h10 hr
  by_contra hcd
  have hcd : r.dark ≤ c := not_lt.mp hcd
  have hz := zero_at_dark single chan r t b hb hdb
  rcases scaled_none single chan r t corr c hnan with hn | ⟨raw, hraw, hneg⟩
  · unfold rawRadiance at hn
    simp only [hb] at hn
    cases single <;> simp at hn
  · have := raw_mono single chan r t r.dark c 0 raw hl hh hcd hz hraw
    have := mul_nonneg this (le_of_lt hc)
    linarith

/-- the result depends on the pixel's own count, the spacecraft row and the date only: the model's
function has no other argument (stated for the record; it is the type of `scaled`) -/
theorem local_by_type (single : Bool) (chan : Nat) (r : Row) (t corr c : Rat) :
    ∃ f : Bool → Nat → Row → Rat → Rat → Rat → Option Rat, f single chan r t corr c = scaled single chan r t corr c :=
  ⟨scaled, rfl⟩

/-- the distance factor lies in [0.9666, 1.0334] whatever the value of the cosine in [-1, 1], so it
preserves sign and order -/
theorem corr_bounds (cosv : Rat) (h1 : -1 ≤ cosv) (h2 : cosv ≤ 1) :
    mkRat 9666 10000 ≤ distanceFactor cosv ∧ distanceFactor cosv ≤ mkRat 10334 10000 ∧ 0 < distanceFactor cosv := by
  unfold distanceFactor
  have e1 : (mkRat 334 10000 : Rat) = 334 / 10000 := by norm_num [Rat.mkRat_eq_div]
  have e2 : (mkRat 9666 10000 : Rat) = 9666 / 10000 := by norm_num [Rat.mkRat_eq_div]
  have e3 : (mkRat 10334 10000 : Rat) = 10334 / 10000 := by norm_num [Rat.mkRat_eq_div]
  rw [e1, e2, e3]
  refine ⟨by linarith, by linarith, by linarith⟩

/-- gain factors: 0.5 / 1.5, 0.25 / 1.75 for 3a, 1 for single-gain instruments -/
theorem gains_spec : gains false 0 = (1 / 2, 3 / 2) ∧ gains false 1 = (1 / 2, 3 / 2) ∧ gains false 2 = (1 / 4, 7 / 4) ∧
    ∀ ch, gains true ch = (1, 1) := by
  refine ⟨by decide +kernel, by decide +kernel, by decide +kernel, fun ch => by simp [gains]⟩

/-- non-vacuity: NOAA-16 channel 1 on 2002 day 187 -/
example : ∃ e ∈ allRows, e.1 = "noaa16" ∧ ∃ r ∈ e.2.2, rowOkB r = true ∧ r.switch ≠ none := by decide +kernel

end PygacModel.C04
