/-
C14 — Each KLM line delivers channel 3a or 3b, never both, never the wrong one.
-/
import PygacModel.Model.Counts
namespace PygacModel.C14
open PygacModel

/-- **Never both**: for every select value the format defines (0 = 3b, 1 = 3a, 2 = transition)
at most one of the two slots is delivered (the other is the missing value) — whatever the
calibration functions and the count. -/
theorem not_both {α : Type} (nan : α) (calS calT : Nat → α) (s third : Nat) (hs : s ≤ 2) :
    (klm3a3b nan calS calT s third).1 = nan ∨ (klm3a3b nan calS calT s third).2 = nan := by
  have : s = 0 ∨ s = 1 ∨ s = 2 := by omega
  rcases this with h | h | h <;> simp [klm3a3b, h]

/-- **Never the wrong one**: the delivered slot is the calibration of that line's third
sample; the other is missing; on transition lines both are missing. -/
theorem delivered_is_third_sample {α : Type} (nan : α) (calS calT : Nat → α) (third : Nat) :
    klm3a3b nan calS calT 1 third = (calS third, nan) ∧
    klm3a3b nan calS calT 0 third = (nan, calT third) ∧
    klm3a3b nan calS calT 2 third = (nan, nan) := by
  simp [klm3a3b]

/-- Passes that are entirely 3a, entirely 3b or alternate at every line: line by line the
statement above (the model has no state across lines). -/
theorem per_line {α : Type} (nan : α) (calS calT : Nat → α) (lines : List (Nat × Nat))
    (h : ∀ l ∈ lines, l.1 ≤ 2) :
    ∀ l ∈ lines, (klm3a3b nan calS calT l.1 l.2).1 = nan ∨ (klm3a3b nan calS calT l.1 l.2).2 = nan :=
  fun l hl => not_both nan calS calT l.1 l.2 (h l hl)

/-- **POD six-slot layout**: channel 3 goes to the 3b slot, the 3a slot is missing, the
others keep their order. -/
theorem pod_layout {α : Type} (nan c1 c2 c3 c4 c5 : α) :
    podUniform nan [c1, c2, c3, c4, c5] = [c1, c2, nan, c3, c4, c5] := rfl

example : klm3a3b (none : Option Nat) some some 1 77 = (some 77, none) := by decide

/-- the channel-select value is the two lowest bits of the line's bit field: no other bit of that word
changes what is delivered -/
theorem select_low_bits (b : Nat) : ch3Switch b = b % 4 := by
  unfold ch3Switch
  exact Nat.and_two_pow_sub_one_eq_mod b 2

theorem select_other_bits_irrelevant (b k : Nat) : ch3Switch (b + 4 * k) = ch3Switch b := by
  rw [select_low_bits, select_low_bits]; omega

/-- **Whole pixel, from the bit field**: for every 16-bit (indeed any) bit field whose select value is one
the format defines, the six delivered slots are: channels 1, 2, 4, 5 untouched by the select value; 3a
delivered exactly when the value is 1, 3b exactly when it is 0; whichever is delivered is the calibration
of the line's third sample as routed by `get_counts`. -/
theorem pixel_from_bit_field {α : Type} (nan : α) (calS calT : Nat → α) (b c0 c1 c2 c3 c4 : Nat)
    (hb : b % 4 ≤ 2) :
    (route (ch3Switch b) c0 c1 c2 c3 c4)[0]? = some c0 ∧ (route (ch3Switch b) c0 c1 c2 c3 c4)[1]? = some c1 ∧
    (route (ch3Switch b) c0 c1 c2 c3 c4)[4]? = some c3 ∧ (route (ch3Switch b) c0 c1 c2 c3 c4)[5]? = some c4 ∧
    klm3a3b nan calS calT (ch3Switch b) c2 =
      (if b % 4 = 1 then calS c2 else nan, if b % 4 = 0 then calT c2 else nan) := by
  rw [select_low_bits]
  have : b % 4 = 0 ∨ b % 4 = 1 ∨ b % 4 = 2 := by omega
  rcases this with h | h | h <;> simp [route, klm3a3b, h]

end PygacModel.C14
