/-
C02 — Earth-view and telemetry counts are the format's 10-bit samples.
-/
import PygacModel.Model.Counts
import PygacModel.Generated.Layouts
import PygacModel.Generated.Misc
namespace PygacModel.C02
open PygacModel

/-- The three samples of a word are its bit ranges 29-20, 19-10 and 9-0 — for every word. -/
theorem slot_div_mod (w : Nat) :
    slot w 0 = w / 2 ^ 20 % 2 ^ 10 ∧ slot w 1 = w / 2 ^ 10 % 2 ^ 10 ∧ slot w 2 = w % 2 ^ 10 := by
  have h1023 : (1023 : Nat) = 2 ^ 10 - 1 := by decide
  refine ⟨?_, ?_, ?_⟩ <;> simp only [slot, h1023, Nat.and_two_pow_sub_one_eq_mod, Nat.shiftRight_eq_div_pow]

theorem slot_bits (w j : Nat) :
    (slot w 0).testBit j = (decide (j < 10) && w.testBit (20 + j)) ∧
    (slot w 1).testBit j = (decide (j < 10) && w.testBit (10 + j)) ∧
    (slot w 2).testBit j = (decide (j < 10) && w.testBit j) := by
  obtain ⟨h0, h1, h2⟩ := slot_div_mod w
  rw [h0, h1, h2]
  simp only [Nat.testBit_mod_two_pow, Nat.testBit_div_two_pow]
  refine ⟨?_, ?_, ?_⟩ <;> simp [Nat.add_comm]

/-- The top two bits (31, 30) of a packed word are ignored: any of the four values gives the
same three samples. -/
theorem top_bits_ignored (w t k : Nat) (hw : w < 2 ^ 30) :
    slot (w + t * 2 ^ 30) k = slot w k := by
  obtain ⟨h0, h1, h2⟩ := slot_div_mod w
  obtain ⟨g0, g1, g2⟩ := slot_div_mod (w + t * 2 ^ 30)
  match k with
  | 0 => rw [h0, g0]; omega
  | 1 => rw [h1, g1]; omega
  | (k + 2) =>
    have e1 : slot w (k + 2) = slot w 2 := by simp [slot]
    have e2 : slot (w + t * 2 ^ 30) (k + 2) = slot (w + t * 2 ^ 30) 2 := by simp [slot]
    rw [e1, e2, h2, g2]; omega

/-- Samples are 10-bit values. -/
theorem slot_lt (w k : Nat) : slot w k < 1024 := by
  obtain ⟨h0, h1, h2⟩ := slot_div_mod w
  match k with
  | 0 => rw [h0]; omega
  | 1 => rw [h1]; omega
  | (k + 2) => have : slot w (k + 2) = slot w 2 := by simp [slot]
               rw [this, h2]; omega

/-- **The code-shaped unpacking is the format's sample numbering**, for every line width and
every list of packed words that is long enough: element `i` of the flat count array is sample
`i` of the packed stream. -/
theorem codeCountAt_eq_spec (width : Nat) (words : List Nat) (i : Nat)
    (hw : width * 5 ≤ 3 * words.length) (hi : i < width * 5) :
    codeCountAt width words i = some (specSample words i) := by
  unfold codeCountAt specSample
  have hi3 : i / 3 < words.length := by omega
  simp only [show ¬ (i ≥ width * 5) by omega, if_false]
  have hmod : i % 3 = 0 ∨ i % 3 = 1 ∨ i % 3 = 2 := by omega
  rcases hmod with h | h | h
  · rw [h]
    simp only [slot]
    rw [List.getElem?_take]
    have : i / 3 < (if width * 5 % 3 = 0 then width * 5 / 3 else width * 5 / 3 + 1) := by
      split <;> omega
    simp [this, List.getElem?_map, List.getElem?_eq_getElem hi3, List.getD_eq_getElem?_getD]
  · rw [h]
    simp only [slot]
    rw [List.getElem?_take]
    have : i / 3 < (if width * 5 % 3 = 2 then width * 5 / 3 + 1 else width * 5 / 3) := by
      split <;> omega
    simp [this, List.getElem?_map, List.getElem?_eq_getElem hi3, List.getD_eq_getElem?_getD]
  · rw [h]
    simp only [slot]
    rw [List.getElem?_take]
    have : i / 3 < width * 5 / 3 := by omega
    simp [this, List.getElem?_map, List.getElem?_eq_getElem hi3, List.getD_eq_getElem?_getD]

/-- **Pixel/channel form**: the count of pixel `p`, channel index `c` is sample `5p+c`,
for 409- and 2048-pixel lines alike (and any other width with enough words). -/
theorem count_is_sample (width : Nat) (words : List Nat) (p c : Nat)
    (hw : width * 5 ≤ 3 * words.length) (hp : p < width) (hc : c < 5) :
    codeCount width words p c = some (specSample words (5 * p + c)) :=
  codeCountAt_eq_spec width words (5 * p + c) hw (by omega)

/-- The two line formats of the code satisfy the word-count hypothesis: 409 pixels in 682
words, 2048 pixels in 3414 words (widths and word counts regenerated from the code). -/
theorem formats_have_enough_words :
    Generated.scanWidthGacKlm * 5 ≤ 3 * Generated.sensorWordsGacKlm ∧
    Generated.scanWidthGacPod * 5 ≤ 3 * Generated.sensorWordsGacPod ∧
    Generated.scanWidthLacKlm * 5 ≤ 3 * Generated.sensorWordsLacKlm ∧
    Generated.scanWidthLacPod * 5 ≤ 3 * Generated.sensorWordsLacPod ∧
    Generated.scanWidthGacKlm = 409 ∧ Generated.scanWidthGacPod = 409 ∧
    Generated.scanWidthLacKlm = 2048 ∧ Generated.scanWidthLacPod = 2048 := by
  decide

/-- **Locality**: a count depends only on its own packed word — changing any other word of
the line leaves it unchanged (other lines are separate argument lists by construction). -/
theorem counts_local (width : Nat) (words words' : List Nat) (p c : Nat)
    (hlen : words.length = words'.length)
    (hw : width * 5 ≤ 3 * words.length) (hp : p < width) (hc : c < 5)
    (hsame : words.getD ((5 * p + c) / 3) 0 = words'.getD ((5 * p + c) / 3) 0) :
    codeCount width words p c = codeCount width words' p c := by
  rw [count_is_sample width words p c hw hp hc, count_is_sample width words' p c (hlen ▸ hw) hp hc]
  unfold specSample
  rw [hsame]

/-- **3a/3b routing**: select value 1 sends the third sample to slot 3a, 0 to slot 3b,
anything else to neither; channels 1, 2, 4, 5 are never affected. -/
theorem route_spec (s c0 c1 c2 c3 c4 : Nat) :
    (s = 1 → route s c0 c1 c2 c3 c4 = [c0, c1, c2, 0, c3, c4]) ∧
    (s = 0 → route s c0 c1 c2 c3 c4 = [c0, c1, 0, c2, c3, c4]) ∧
    (s ≠ 0 → s ≠ 1 → route s c0 c1 c2 c3 c4 = [c0, c1, 0, 0, c3, c4]) := by
  refine ⟨?_, ?_, ?_⟩
  · intro h; simp [route, h]
  · intro h; simp [route, h]
  · intro h0 h1; simp [route, h0, h1]

/-- The channel-select value is the two lowest bits of the scan-line bit field (the mask is
extracted from the code by exhaustive probing of all 65536 bit-field values). -/
theorem switch_is_low_two_bits :
    Generated.ch3SwitchMask = 3 ∧ Generated.ch3SwitchIsAnd = true := by decide

theorem ch3Switch_range (b : Nat) : ch3Switch b < 4 ∧ ch3Switch b = b % 4 := by
  have h3 : (3 : Nat) = 2 ^ 2 - 1 := by decide
  have : ch3Switch b = b % 2 ^ 2 := by
    unfold ch3Switch; rw [h3, Nat.and_two_pow_sub_one_eq_mod]
  rw [this]; omega

/-- **POD telemetry words** (0-based indices of `decode_tele`; the frame's 1-based word
number is index+1): PRT = words 18–20; internal target channel c = the ten words
23+c, 26+c, …, 50+c (within 23–52); space channel c = the ten words 55+c, 60+c, …, 100+c
(within 53–102). -/
theorem pod_telemetry_words :
    sliceIdx 17 20 1 = [17, 18, 19] ∧
    (∀ c < 3, sliceIdx (22 + c) (50 + c) 3 = (List.range 10).map (fun k => 22 + c + 3 * k)) ∧
    (∀ c < 3, sliceIdx (54 + c) (100 + c) 5 = (List.range 10).map (fun k => 54 + c + 5 * k)) ∧
    (∀ c < 3, ∀ j ∈ sliceIdx (22 + c) (50 + c) 3, 22 ≤ j ∧ j ≤ 51) ∧
    (∀ c < 3, ∀ j ∈ sliceIdx (54 + c) (100 + c) 5, 52 ≤ j ∧ j ≤ 101) := by
  decide

/-- **KLM telemetry words**: internal target channel c = back-scan entries c, c+3, … (ten of
30); space channel c = space-view entries 2+c, 7+c, … (ten of 50). -/
theorem klm_telemetry_words :
    (∀ c < 3, sliceIdx c 30 3 = (List.range 10).map (fun k => c + 3 * k)) ∧
    (∀ c < 3, sliceIdx (2 + c) 50 5 = (List.range 10).map (fun k => 2 + c + 5 * k)) := by
  decide

/-- A telemetry word of the POD frame is the 10-bit sample of its packed word. -/
theorem pod_tele_word_is_sample (t : List Nat) (j : Nat) : podTeleWord t j = specSample t j := rfl

/-! Non-vacuity -/
example : codeCountsLine 2 [0x3FF00000 + 5 * 1024 + 7, 1, 2, 0xFFFFFFFF] =
    [some 1023, some 5, some 7, some 0, some 0, some 1, some 0, some 0, some 2, some 1023] := by decide
example : codeCount 409 (List.replicate 682 0x12345678) 408 4 = some (specSample (List.replicate 682 0x12345678) 2044) := by
  decide +kernel

end PygacModel.C02
