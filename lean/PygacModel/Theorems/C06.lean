/-
C06 — Returned coordinates reproduce the file's tie points over the whole globe.
Model: `Model/LonLat.lean`; the tie-point spline (python-geotiepoints) is a parameter: its 0.005 /
0.03 degree accuracy on a real orbit is numerical support (harness/c06.py), not a theorem.
-/
import PygacModel.Model.LonLat
import PygacModel.Lemmas.ClockDrift
import PygacModel.Generated.Layouts
namespace PygacModel.C06
open PygacModel PygacModel.LonLat Np

/-! ## 1. The field can hold the globe -/

/-- the earth-location fields of the records the code declares: 51 (lat, lon) pairs of signed 32-bit
words (KLM) / signed 16-bit words (POD) -/
theorem field_types :
    (Generated.klmGac.find? "earth_location.lats").map (fun l => (l.kind, l.width, l.count)) = some (Kind.i, 4, 51) ∧
    (Generated.klmGac.find? "earth_location.lons").map (fun l => (l.kind, l.width, l.count)) = some (Kind.i, 4, 51) ∧
    (Generated.klmLac.find? "earth_location.lats").map (fun l => (l.kind, l.width, l.count)) = some (Kind.i, 4, 51) ∧
    (Generated.klmLac.find? "earth_location.lons").map (fun l => (l.kind, l.width, l.count)) = some (Kind.i, 4, 51) ∧
    (Generated.podGac.find? "earth_location.lats").map (fun l => (l.kind, l.width, l.count)) = some (Kind.i, 2, 51) ∧
    (Generated.podGac.find? "earth_location.lons").map (fun l => (l.kind, l.width, l.count)) = some (Kind.i, 2, 51) ∧
    (Generated.podLac.find? "earth_location.lats").map (fun l => (l.kind, l.width, l.count)) = some (Kind.i, 2, 51) ∧
    (Generated.podLac.find? "earth_location.lons").map (fun l => (l.kind, l.width, l.count)) = some (Kind.i, 2, 51) := by
  decide +kernel

/-- **Every coordinate of the globe is representable**: for every x in [-180, 180] there is a word
that fits the field (4 bytes at 1e-4 degree, 2 bytes at 1/128 degree) and whose scaled value is
within half a unit of x.  (False for a 2-byte field at 1e-4 degree: see `narrow_field_fails`.) -/
theorem field_holds_globe (pod : Bool) (x : Rat) (h1 : -180 ≤ x) (h2 : x ≤ 180) :
    ∃ k : Int, fitsSigned (if pod then 2 else 4) k = true ∧ absR (tiePoint pod k - x) ≤ scale pod / 2 := by
  refine ⟨roundHalfEven (x / scale pod), ?_, ?_⟩
  · have hc := Drift.roundHalfEven_close (x / scale pod)
    rw [Times.absR_le_iff] at hc
    cases pod
    · have hs : scale false = 1 / 10000 := by norm_num [scale, Rat.mkRat_eq_div]
      rw [hs] at hc
      have hx : x / (1 / 10000) = x * 10000 := by ring
      rw [hx] at hc
      have a1 : ((-1800001 : Int) : Rat) < (roundHalfEven (x / scale false) : Rat) := by
        rw [hs, hx]; push_cast; linarith [hc.1]
      have a2 : (roundHalfEven (x / scale false) : Rat) < ((1800001 : Int) : Rat) := by
        rw [hs, hx]; push_cast; linarith [hc.2]
      have b1 : (-1800001 : Int) < roundHalfEven (x / scale false) := by exact_mod_cast a1
      have b2 : roundHalfEven (x / scale false) < (1800001 : Int) := by exact_mod_cast a2
      simp only [fitsSigned, Bool.false_eq_true, if_false, Bool.and_eq_true, decide_eq_true_eq]
      constructor <;> omega
    · have hs : scale true = 1 / 128 := by norm_num [scale, Rat.mkRat_eq_div]
      rw [hs] at hc
      have hx : x / (1 / 128) = x * 128 := by ring
      rw [hx] at hc
      have a1 : ((-23041 : Int) : Rat) < (roundHalfEven (x / scale true) : Rat) := by
        rw [hs, hx]; push_cast; linarith [hc.1]
      have a2 : (roundHalfEven (x / scale true) : Rat) < ((23041 : Int) : Rat) := by
        rw [hs, hx]; push_cast; linarith [hc.2]
      have b1 : (-23041 : Int) < roundHalfEven (x / scale true) := by exact_mod_cast a1
      have b2 : roundHalfEven (x / scale true) < (23041 : Int) := by exact_mod_cast a2
      simp only [fitsSigned, if_true, Bool.and_eq_true, decide_eq_true_eq]
      constructor <;> omega
  · have hc := Drift.roundHalfEven_close (x / scale pod)
    rw [Times.absR_le_iff] at hc ⊢
    have hpos : 0 < scale pod := by cases pod <;> norm_num [scale, Rat.mkRat_eq_div]
    unfold tiePoint
    have e : (roundHalfEven (x / scale pod) : Rat) * scale pod - x = ((roundHalfEven (x / scale pod) : Rat) - x / scale pod) * scale pod := by
      field_simp
    rw [e]
    constructor
    · have := mul_le_mul_of_nonneg_right hc.1 (le_of_lt hpos)
      linarith
    · have := mul_le_mul_of_nonneg_right hc.2 (le_of_lt hpos)
      linarith

/-- a 16-bit field at 1e-4 degree cannot hold 4 degrees, let alone 180 -/
theorem narrow_field_fails : ¬ ∃ k : Int, fitsSigned 2 k = true ∧ absR (tiePoint false k - 4) ≤ scale false / 2 := by
  rintro ⟨k, hk, hd⟩
  simp only [fitsSigned, Bool.and_eq_true, decide_eq_true_eq] at hk
  rw [Times.absR_le_iff] at hd
  unfold tiePoint at hd
  have hs : scale false = 1 / 10000 := by norm_num [scale, Rat.mkRat_eq_div]
  rw [hs] at hd
  have h1 : (k : Rat) ≥ 39999 := by linarith [hd.1]
  have h2 : (39999 : Int) ≤ k := by exact_mod_cast h1
  omega

/-- float evaluation of the scaling stays within 1e-6 degree: a relative error of 2^-52 on any
coordinate up to 215000 words' worth of degrees is far below 1e-6 -/
theorem scale_exact (v t : Rat) (ht : absR t ≤ 215000) (herr : absR (v - t) ≤ absR t / 4503599627370496) :
    absR (v - t) ≤ mkRat 1 1000000 := by
  have : absR t / 4503599627370496 ≤ mkRat 1 1000000 := by
    have e : (mkRat 1 1000000 : Rat) = 1 / 1000000 := by norm_num [Rat.mkRat_eq_div]
    rw [e]
    have := Times.absR_nonneg t
    rw [div_le_iff₀ (by norm_num)]
    linarith
  exact le_trans herr this

/-! ## 2. Tie-point columns -/

theorem cols_spec :
    Generated.samplePointsGacKlm = (List.range 51).map (fun j => 4 + 8 * j) ∧
    Generated.samplePointsGacPod = (List.range 51).map (fun j => 4 + 8 * j) ∧
    Generated.samplePointsLacKlm = (List.range 51).map (fun j => 24 + 40 * j) ∧
    Generated.samplePointsLacPod = (List.range 51).map (fun j => 24 + 40 * j) ∧
    Generated.scanWidthGacKlm = 409 ∧ Generated.scanWidthGacPod = 409 ∧
    Generated.scanWidthLacKlm = 2048 ∧ Generated.scanWidthLacPod = 2048 := by decide +kernel

/-! ## 3. Masks and shapes, for any interpolator -/

theorem maskLon_range (v : Option Rat) : maskLon v = none ∨ ∃ x, maskLon v = some x ∧ -180 ≤ x ∧ x ≤ 180 := by
  cases v with
  | none => left; rfl
  | some x =>
    unfold maskLon
    by_cases h : absR x > 180
    · left; simp [h]
    · right
      refine ⟨x, by simp [h], ?_⟩
      have := (Times.absR_le_iff x 180).mp (not_lt.mp h)
      exact this

theorem maskLat_range (v : Option Rat) : maskLat v = none ∨ ∃ x, maskLat v = some x ∧ -90 ≤ x ∧ x ≤ 90 := by
  cases v with
  | none => left; rfl
  | some x =>
    unfold maskLat
    by_cases h : absR x > 90
    · left; simp [h]
    · right
      refine ⟨x, by simp [h], ?_⟩
      exact (Times.absR_le_iff x 90).mp (not_lt.mp h)

/-- **Every returned coordinate is NaN or within range** - whatever the interpolator returns -/
theorem range_or_nan (interp : Bool) (f : Grid × Grid → Grid × Grid) (mask : List Bool) (raw : Grid × Grid) :
    (∀ row ∈ (getLonLat interp f mask raw).1, ∀ v ∈ row, v = none ∨ ∃ x, v = some x ∧ -180 ≤ x ∧ x ≤ 180) ∧
    (∀ row ∈ (getLonLat interp f mask raw).2, ∀ v ∈ row, v = none ∨ ∃ x, v = some x ∧ -90 ≤ x ∧ x ≤ 90) := by
  unfold getLonLat
  constructor
  · intro row hrow v hv
    simp only [List.mem_map] at hrow
    obtain ⟨r0, _, rfl⟩ := hrow
    simp only [List.mem_map] at hv
    obtain ⟨v0, _, rfl⟩ := hv
    exact maskLon_range v0
  · intro row hrow v hv
    simp only [List.mem_map] at hrow
    obtain ⟨r0, _, rfl⟩ := hrow
    simp only [List.mem_map] at hv
    obtain ⟨v0, _, rfl⟩ := hv
    exact maskLat_range v0

/-- an in-range tie point of an unflagged line is returned unchanged when interpolation is off -/
theorem in_range_kept (x : Rat) (h1 : -180 ≤ x) (h2 : x ≤ 180) : maskLon (some x) = some x := by
  unfold maskLon
  have : ¬ absR x > 180 := not_lt.mpr ((Times.absR_le_iff x 180).mpr ⟨h1, h2⟩)
  simp [this]

/-- **With interpolation disabled exactly the tie-point columns are returned, one row per line** -/
theorem no_interp_returns_ties (f : Grid × Grid → Grid × Grid) (mask : List Bool) (raw : Grid × Grid)
    (hm : mask.length = raw.1.length) :
    (getLonLat false f mask raw).1.length = raw.1.length ∧
    ∀ i (h : i < (getLonLat false f mask raw).1.length) (h' : i < raw.1.length),
      ((getLonLat false f mask raw).1[i]).length = (raw.1[i]).length := by
  unfold getLonLat lineMask
  simp only [Bool.false_eq_true, if_false, List.length_map, List.length_zipWith, hm, Nat.min_self, true_and]
  intro i h h'
  simp only [List.getElem_map, List.getElem_zipWith, List.length_map]
  split <;> simp

/-- one row per scan line also with interpolation, provided the interpolator keeps the row count -/
theorem one_row_per_line (interp : Bool) (f : Grid × Grid → Grid × Grid) (mask : List Bool) (raw : Grid × Grid)
    (hm : mask.length = raw.1.length) (hf : (f raw).1.length = raw.1.length) :
    (getLonLat interp f mask raw).1.length = raw.1.length := by
  unfold getLonLat lineMask
  cases interp <;> simp [hm, hf]

example : tiePoint false 1800000 = 180 ∧ tiePoint true (-23040) = -180 ∧ tiePoint false (-900000) = -90 := by
  decide +kernel

end PygacModel.C06
