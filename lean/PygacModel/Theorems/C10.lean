/-
C10 — Exactly one reader accepts a file, chosen by its data-set name alone.
-/
import PygacModel.Model.Select
import PygacModel.Generated.Select
namespace PygacModel.C10
open PygacModel

def allClasses : List ReaderClass :=
  [⟨.klm, .gac⟩, ⟨.klm, .lac⟩, ⟨.pod, .gac⟩, ⟨.pod, .lac⟩]

/-- The acceptance table extracted from the four classes' `_validate_header` by exhaustive
probing over transfer modes × platform codes equals the format's table: GHRR → GAC;
LHRR/HRPT/FRAC → LAC; TN,NA..NJ → POD; NK,NL,NM,NN,NP,M1,M2,M3 → KLM. -/
theorem class_table :
    Generated.acceptTable =
      (Generated.probeModes.flatMap fun m => Generated.probePlats.map fun p =>
        (m, p, allClasses.map fun k => modeOk k.res m && platOk k.fam p)) := by
  decide +kernel

/-- the probe covers every mode and platform code the format defines, plus foreign ones -/
theorem probe_covers :
    (∀ m ∈ gacModes ++ lacModes, m ∈ Generated.probeModes) ∧
    (∀ p ∈ podIds ++ klmIds, p ∈ Generated.probePlats) ∧
    Generated.probeModes.length ≥ 6 ∧ Generated.probePlats.length ≥ 25 := by
  decide +kernel

theorem modes_disjoint (m : String) : ¬ (modeOk .gac m = true ∧ modeOk .lac m = true) := by
  intro ⟨h1, h2⟩
  simp only [modeOk, gacModes, lacModes, List.contains_eq_mem, List.mem_cons, List.mem_nil_iff,
    or_false, decide_eq_true_eq] at h1 h2
  subst h1
  rcases h2 with h | h | h <;> exact absurd h (by decide)

theorem plats_disjoint (p : String) : ¬ (platOk .pod p = true ∧ platOk .klm p = true) := by
  intro ⟨h1, h2⟩
  simp only [platOk, podIds, klmIds, List.contains_eq_mem, List.mem_cons, List.mem_nil_iff,
    or_false, decide_eq_true_eq] at h1 h2
  rcases h1 with h | h | h | h | h | h | h | h | h | h | h <;> subst h <;>
    (rcases h2 with h | h | h | h | h | h | h | h <;> exact absurd h (by decide))

/-- **At most one reader accepts a given data-set name** — for every string and any
interpretation of the character classes. -/
theorem exclusive_name (cc : CharClass) (name : List Char) (k₁ k₂ : ReaderClass)
    (h₁ : accepts cc k₁ name = true) (h₂ : accepts cc k₂ name = true) : k₁ = k₂ := by
  unfold accepts at h₁ h₂
  simp only [Bool.and_eq_true] at h₁ h₂
  obtain ⟨_, h₁⟩ := h₁
  obtain ⟨_, h₂⟩ := h₂
  split at h₁
  · rename_i m p _ heq
    simp only [heq, Bool.and_eq_true] at h₂ h₁
    obtain ⟨f1, r1⟩ := k₁
    obtain ⟨f2, r2⟩ := k₂
    have hr : r1 = r2 := by
      cases r1 <;> cases r2 <;> first | rfl | exact absurd ⟨h₁.1, h₂.1⟩ (modes_disjoint _) | exact absurd ⟨h₂.1, h₁.1⟩ (modes_disjoint _)
    have hf : f1 = f2 := by
      cases f1 <;> cases f2 <;> first | rfl | exact absurd ⟨h₁.2, h₂.2⟩ (plats_disjoint _) | exact absurd ⟨h₂.2, h₁.2⟩ (plats_disjoint _)
    rw [hr, hf]
  · cases h₁

/-- The reader is determined by transfer mode and platform code of the name alone. -/
theorem chosen_by_name (cc : CharClass) (k : ReaderClass) (name : List Char)
    (h : accepts cc k name = true) :
    ∃ s m p rest, splitDots name = s :: m :: p :: rest ∧
      modeOk k.res (String.ofList m) = true ∧ platOk k.fam (String.ofList p) = true := by
  unfold accepts at h
  simp only [Bool.and_eq_true] at h
  obtain ⟨_, h⟩ := h
  split at h
  · rename_i s m p rest heq
    simp only [Bool.and_eq_true] at h
    exact ⟨s, m, p, rest, heq, h.1, h.2⟩
  · cases h

/-! ## history independence -/

theorem go_spec (outcome : ReaderClass → HeaderOutcome) (hno : ∀ k, outcome k = .ok ∨ ∃ e, outcome k = .raised e ∧ e.caught = true)
    (order : List ReaderClass) :
    (∀ k, selectReader.go outcome order = .ok k → k ∈ order ∧ outcome k = .ok) ∧
    (selectReader.go outcome order = .error .valueError ↔ ∀ k ∈ order, outcome k ≠ .ok) ∧
    (∀ e, selectReader.go outcome order = .error e → e = .valueError) := by
  induction order with
  | nil =>
    refine ⟨?_, ?_, ?_⟩
    · intro k h; simp [selectReader.go] at h
    · simp [selectReader.go]
    · intro e h; simp only [selectReader.go] at h; injection h with h; exact h.symm
  | cons a as ih =>
    rcases hno a with ha | ⟨e, ha, he⟩
    · refine ⟨?_, ?_, ?_⟩
      · intro k h; simp only [selectReader.go, ha, canRead] at h
        injection h with h; subst h; exact ⟨by simp, ha⟩
      · simp [selectReader.go, ha, canRead]
      · intro e h; simp [selectReader.go, ha, canRead] at h
    · have hgo : selectReader.go outcome (a :: as) = selectReader.go outcome as := by
        simp [selectReader.go, ha, canRead, he]
      rw [hgo]
      refine ⟨?_, ?_, ih.2.2⟩
      · intro k h; obtain ⟨h1, h2⟩ := ih.1 k h; exact ⟨by simp [h1], h2⟩
      · rw [ih.2.1]
        constructor
        · intro h k hk
          rcases List.mem_cons.mp hk with rfl | hk
          · rw [ha]; simp
          · exact h k hk
        · intro h k hk; exact h k (by simp [hk])

/-- **The selection does not depend on the order of the candidate list** (i.e. on which files
were examined before), provided at most one candidate accepts and only failures of the kinds `can_read`
swallows (ValueError and subclasses, EOFError, zlib.error) occur. -/
theorem history_independent (outcome : ReaderClass → HeaderOutcome)
    (hno : ∀ k, outcome k = .ok ∨ ∃ e, outcome k = .raised e ∧ e.caught = true)
    (hex : ∀ k₁ k₂, outcome k₁ = .ok → outcome k₂ = .ok → k₁ = k₂)
    (o₁ o₂ : List ReaderClass) (hperm : o₁.Perm o₂) :
    (selectReader o₁ outcome).1 = (selectReader o₂ outcome).1 := by
  have s1 := go_spec outcome hno o₁
  have s2 := go_spec outcome hno o₂
  unfold selectReader
  cases h1 : selectReader.go outcome o₁ with
  | ok k =>
    obtain ⟨hk, hok⟩ := s1.1 k h1
    cases h2 : selectReader.go outcome o₂ with
    | ok k' => obtain ⟨_, hok'⟩ := s2.1 k' h2; simp [hex k k' hok hok']
    | error e =>
      have := s2.2.2 e h2; subst this
      exact absurd hok ((s2.2.1.mp h2) k (hperm.subset hk))
  | error e =>
    have := s1.2.2 e h1; subst this
    cases h2 : selectReader.go outcome o₂ with
    | ok k' =>
      obtain ⟨hk', hok'⟩ := s2.1 k' h2
      exact absurd hok' ((s1.2.1.mp h1) k' (hperm.symm.subset hk'))
    | error e => have := s2.2.2 e h2; subst this; simp

/-- After a selection the candidate list is a permutation of the old one (move-to-front). -/
theorem order_is_permutation (outcome : ReaderClass → HeaderOutcome) (order : List ReaderClass)
    (hnodup : order.Nodup) : (selectReader order outcome).2.Perm order := by
  unfold selectReader
  cases h : selectReader.go outcome order with
  | error e => simp
  | ok k =>
    simp only []
    have hk : k ∈ order := by
      clear hnodup
      induction order with
      | nil => simp [selectReader.go] at h
      | cons a as ih =>
        simp only [selectReader.go] at h
        cases hc : canRead (outcome a) with
        | error e => simp [hc] at h
        | ok b =>
          cases b with
          | true => simp [hc] at h; simp [h]
          | false => simp [hc] at h; simp [ih h]
    have : (order.filter (· != k)) = order.erase k := by
      rw [List.Nodup.erase_eq_filter hnodup]
    rw [this]
    exact (List.perm_cons_erase hk).symm

/-! ## rejection with ValueError only -/

/-- **Anything that is not accepted is rejected with `ValueError` and never with another
exception**: whatever the container probe says and whatever failure of a swallowed kind (ValueError and
subclasses, EOFError, zlib.error) each candidate's header reading produces. -/
theorem only_value_error (probe : GzipProbe) (outcome : ReaderClass → HeaderOutcome)
    (hno : ∀ k, outcome k = .ok ∨ ∃ e, outcome k = .raised e ∧ e.caught = true)
    (order : List ReaderClass) :
    (∃ b, gzipInspected probe = .ok b) ∧
    ((∃ k, (selectReader order outcome).1 = .ok k) ∨ (selectReader order outcome).1 = .error .valueError) := by
  constructor
  · cases probe <;> simp [gzipInspected]
  · have s := go_spec outcome hno order
    unfold selectReader
    cases h : selectReader.go outcome order with
    | ok k => left; exact ⟨k, rfl⟩
    | error e => right; rw [s.2.2 e h]

/-! Non-vacuity -/
example : accepts asciiClass ⟨.klm, .gac⟩ "NSS.GHRR.NL.D02187.S1904.E2058.B0921517.GC".toList = true := by decide
example : accepts asciiClass ⟨.pod, .lac⟩ "NSS.HRPT.NJ.D00322.S0100.E0110.B0000000.WI".toList = true := by decide
example : accepts asciiClass ⟨.pod, .gac⟩ "NSS.GHRR.NLXD02187.S1904.E2058.B0921517.GC".toList = false := by decide

end PygacModel.C10
