/-
C16 — Calibration coefficients are a pure function of spacecraft, overrides and file.
-/
import PygacModel.Model.Coeffs
import PygacModel.Generated.CoeffKeys
namespace PygacModel.C16
open PygacModel

/-- Cache invariant: the cache is empty or holds exactly the content and version of the file
it is labelled with. -/
def CacheOk {ν : Type} (fs : Nat → Table ν) (ver : Nat → Option Nat) : Option (Cache ν) → Prop
  | none => True
  | some c => c.table = fs c.file ∧ c.version = ver c.file

theorem step_preserves {ν : Type} (fs : Nat → Table ν) (ver : Nat → Option Nat)
    (c : Option (Cache ν)) (r : Req ν) (h : CacheOk fs ver c) :
    CacheOk fs ver (calStep fs ver c r).1 ∧
    (calStep fs ver c r).2.value = (calSpec fs ver r).value ∧
    (calStep fs ver c r).2.version = (calSpec fs ver r).version := by
  unfold calStep calSpec
  cases c with
  | none => simp [CacheOk]
  | some c =>
    obtain ⟨ht, hv⟩ := h
    by_cases hf : c.file = r.file
    · have hne : (c.file != r.file) = false := by simp [hf]
      simp only [hne, Bool.false_eq_true, if_false, CacheOk]
      refine ⟨⟨ht, hv⟩, ?_, ?_⟩
      · rw [ht, hf]
      · rw [hv, hf]
    · have hne : (c.file != r.file) = true := by simp [hf]
      simp only [hne, if_true, CacheOk]
      simp

/-- **Purity over every history**: after any sequence of earlier requests (other spacecraft,
other files, other custom sets), each request's coefficients and version are those of the
pure function of (spacecraft, custom coefficients, file content). -/
theorem request_pure {ν : Type} (fs : Nat → Table ν) (ver : Nat → Option Nat)
    (c : Option (Cache ν)) (hc : CacheOk fs ver c) (rs : List (Req ν)) :
    ∀ i (hi : i < rs.length),
      ∃ o, (calRun fs ver c rs).2[i]? = some o ∧
        o.value = (calSpec fs ver rs[i]).value ∧ o.version = (calSpec fs ver rs[i]).version := by
  induction rs generalizing c with
  | nil => intro i hi; simp at hi
  | cons r rs ih =>
    intro i hi
    obtain ⟨hok, hval, hver⟩ := step_preserves fs ver c r hc
    cases i with
    | zero =>
      refine ⟨(calStep fs ver c r).2, ?_, hval, hver⟩
      simp [calRun]
    | succ j =>
      obtain ⟨o, ho, h1, h2⟩ := ih (calStep fs ver c r).1 hok j (by simpa using hi)
      exact ⟨o, by simpa [calRun] using ho, by simpa using h1, by simpa using h2⟩

/-- The process starts with an empty cache, which satisfies the invariant. -/
theorem initial_ok {ν : Type} (fs : Nat → Table ν) (ver : Nat → Option Nat) : CacheOk fs ver none := trivial

/-- **The shared defaults are never modified**: whatever is requested, the cached table stays
the file's content (this is the invariant, restated for the end of any history). -/
theorem defaults_never_mutated {ν : Type} (fs : Nat → Table ν) (ver : Nat → Option Nat)
    (rs : List (Req ν)) : CacheOk fs ver (calRun fs ver none rs).1 := by
  suffices h : ∀ c, CacheOk fs ver c → CacheOk fs ver (calRun fs ver c rs).1 from h none trivial
  induction rs with
  | nil => intro c hc; simpa [calRun]
  | cons r rs ih =>
    intro c hc
    simp only [calRun]
    exact ih _ (step_preserves fs ver c r hc).1

/-- **Custom coefficients replace exactly the top-level entries they name.** -/
theorem override_exact {ν : Type} (defaults : Nat → ν) (c : List (Nat × ν)) (k : Nat) :
    (k ∉ c.map (·.1) → mergeCustom defaults c k = defaults k) ∧
    (k ∈ c.map (·.1) → ∃ v, (k, v) ∈ c ∧ mergeCustom defaults c k = v) := by
  unfold mergeCustom lookupCustom
  constructor
  · intro h
    have : c.reverse.find? (fun p => p.1 == k) = none := by
      rw [List.find?_eq_none]
      intro p hp
      simp only [beq_iff_eq]
      intro hpk
      exact h (List.mem_map.mpr ⟨p, List.mem_reverse.mp hp, hpk⟩)
    simp [this]
  · intro h
    obtain ⟨p, hp, hpk⟩ := List.mem_map.mp h
    cases hf : c.reverse.find? (fun p => p.1 == k) with
    | none =>
      rw [List.find?_eq_none] at hf
      exact absurd (by simpa using hpk) (hf p (List.mem_reverse.mpr hp))
    | some q =>
      have hq := List.find?_some hf
      have hmem := List.mem_of_find?_eq_some hf
      simp only [beq_iff_eq] at hq
      refine ⟨q.2, ?_, by simp⟩
      have : (k, q.2) = q := by rw [← hq]
      rw [this]; exact List.mem_reverse.mp hmem

/-- **Version**: custom coefficients ⇒ no version; otherwise the version recognised for the
file's content (none if unrecognised). -/
theorem version_spec {ν : Type} (fs : Nat → Table ν) (ver : Nat → Option Nat) (r : Req ν) :
    (r.custom ≠ [] → (calSpec fs ver r).version = none) ∧
    (r.custom = [] → (calSpec fs ver r).version = ver r.file) := by
  unfold calSpec
  constructor
  · intro h; cases hc : r.custom with
    | nil => exact absurd hc h
    | cons a as => simp
  · intro h; simp [h]

/-- **Completeness of the shipped file**: every spacecraft name that either reader family can
report has every key the calibrator reads (data regenerated from the shipped file and from
the readers' name tables). -/
theorem complete_sets :
    ∀ name ∈ Generated.readerSpacecraftNames,
      ∃ e ∈ Generated.coeffKeyTable, e.1 = name ∧ ∀ k ∈ Generated.requiredCoeffKeys, k ∈ e.2 := by
  decide +kernel

/-- The shipped file is recognised, under the name the code registers for its md5. -/
theorem version_known :
    Generated.versionHashes.lookup Generated.shippedMd5 = some "PATMOS-x, v2023" := by
  decide +kernel

end PygacModel.C16
