/-
C16 — Calibration coefficients are a pure function of spacecraft, overrides and file.
-/
import PygacModel.Model.Coeffs
import PygacModel.Generated.CoeffKeys
import PygacModel.Spec.SpacecraftIds
namespace PygacModel.C16
open PygacModel

/-- Cache invariant: the cache is empty or holds exactly the content and version of the file
it is labelled with. -/
def CacheOk {ν : Type} (fs : Nat → Table ν) (ver : Nat → Option Nat) : Option (Cache ν) → Prop
  | none => True
  | some c => c.table = fs c.file ∧ c.version = ver c.file

theorem step_preserves {ν : Type} (fs : Nat → Table ν) (ver : Nat → Option Nat)
    (c : Option (Cache ν)) (r : Req ν) (h : CacheOk fs ver c) :
    CacheOk fs ver (calStep fs ver c r).1 ∧
    (calStep fs ver c r).2.value = (calSpec fs ver r).value ∧
    (calStep fs ver c r).2.version = (calSpec fs ver r).version := by
  unfold calStep calSpec
  cases c with
  | none => simp [CacheOk]
  | some c =>
    obtain ⟨ht, hv⟩ := h
    by_cases hf : c.file = r.file
    · have hne : (c.file != r.file) = false := by simp [hf]
      simp only [hne, Bool.false_eq_true, if_false, CacheOk]
      refine ⟨⟨ht, hv⟩, ?_, ?_⟩
      · rw [ht, hf]
      · rw [hv, hf]
    · have hne : (c.file != r.file) = true := by simp [hf]
      simp only [hne, if_true, CacheOk]
      simp

/-- **Purity over every history**: after any sequence of earlier requests (other spacecraft,
other files, other custom sets), each request's coefficients and version are those of the
pure function of (spacecraft, custom coefficients, file content). -/
theorem request_pure {ν : Type} (fs : Nat → Table ν) (ver : Nat → Option Nat)
    (c : Option (Cache ν)) (hc : CacheOk fs ver c) (rs : List (Req ν)) :
    ∀ i (hi : i < rs.length),
      ∃ o, (calRun fs ver c rs).2[i]? = some o ∧
        o.value = (calSpec fs ver rs[i]).value ∧ o.version = (calSpec fs ver rs[i]).version := by
  induction rs generalizing c with
  | nil => intro i hi; simp at hi
  | cons r rs ih =>
    intro i hi
    obtain ⟨hok, hval, hver⟩ := step_preserves fs ver c r hc
    cases i with
    | zero =>
      refine ⟨(calStep fs ver c r).2, ?_, hval, hver⟩
      simp [calRun]
    | succ j =>
      obtain ⟨o, ho, h1, h2⟩ := ih (calStep fs ver c r).1 hok j (by simpa using hi)
      exact ⟨o, by simpa [calRun] using ho, by simpa using h1, by simpa using h2⟩

/-- The process starts with an empty cache, which satisfies the invariant. -/
theorem initial_ok {ν : Type} (fs : Nat → Table ν) (ver : Nat → Option Nat) : CacheOk fs ver none := trivial

/-- **The shared defaults are never modified**: whatever is requested, the cached table stays
the file's content (this is the invariant, restated for the end of any history). -/
theorem defaults_never_mutated {ν : Type} (fs : Nat → Table ν) (ver : Nat → Option Nat)
    (rs : List (Req ν)) : CacheOk fs ver (calRun fs ver none rs).1 := by
  suffices h : ∀ c, CacheOk fs ver c → CacheOk fs ver (calRun fs ver c rs).1 from h none trivial
  induction rs with
  | nil => intro c hc; simpa [calRun]
  | cons r rs ih =>
    intro c hc
    simp only [calRun]
    exact ih _ (step_preserves fs ver c r hc).1

/-! ### Files rewritten during the history -/

theorem write_preserves {ν : Type} (w : World ν) (f : Nat) (t : Table ν) (v : Option Nat)
    (h : CacheOk w.fs w.ver w.cache) (hv : writeVisible w (.write f t v) = true) :
    CacheOk (w.write f t v).fs (w.write f t v).ver (w.write f t v).cache := by
  unfold World.write
  cases hc : w.cache with
  | none => simp [CacheOk]
  | some c =>
    simp only [writeVisible, hc, bne_iff_ne, ne_eq] at hv
    rw [hc] at h
    obtain ⟨h1, h2⟩ := h
    simp only [CacheOk, hv, if_false]
    exact ⟨h1, h2⟩

/-- **Purity when files change on disk**: in every history of requests and file writes in which no
write replaces the file the cache is currently labelled with, each request returns the pure function
of (spacecraft, custom coefficients, content of the named file AT THE TIME OF THE REQUEST) - whatever
was requested or written before. -/
theorem request_pure_dynamic {ν : Type} (w : World ν) (hc : CacheOk w.fs w.ver w.cache) (es : List (Ev ν))
    (hvis : ∀ i (hi : i < es.length), writeVisible (worldAt w es i) es[i] = true) :
    ∀ i (hi : i < es.length) (r : Req ν), es[i] = .req r →
      ∃ o, (dynRun w es).2[i]? = some (some o) ∧
        o.value = (calSpec (worldAt w es i).fs (worldAt w es i).ver r).value ∧
        o.version = (calSpec (worldAt w es i).fs (worldAt w es i).ver r).version := by
  induction es generalizing w with
  | nil => intro i hi; simp at hi
  | cons e es ih =>
    intro i hi r hr
    have hok1 : CacheOk (dynStep w e).1.fs (dynStep w e).1.ver (dynStep w e).1.cache := by
      cases e with
      | req r0 => exact (step_preserves w.fs w.ver w.cache r0 hc).1
      | write f t v =>
        have h0 := hvis 0 (by simp)
        simp only [List.getElem_cons_zero, worldAt] at h0
        exact write_preserves w f t v hc h0
    cases i with
    | zero =>
      simp only [List.getElem_cons_zero] at hr
      subst hr
      obtain ⟨_, hval, hver⟩ := step_preserves w.fs w.ver w.cache r hc
      exact ⟨(calStep w.fs w.ver w.cache r).2, by simp [dynRun, dynStep], by simpa [worldAt] using hval,
        by simpa [worldAt] using hver⟩
    | succ j =>
      have hvis' : ∀ k (hk : k < es.length), writeVisible (worldAt (dynStep w e).1 es k) es[k] = true := by
        intro k hk
        have h1 := hvis (k + 1) (by simpa using hk)
        simp only [List.getElem_cons_succ, worldAt] at h1
        exact h1
      obtain ⟨o, ho, h1, h2⟩ := ih (dynStep w e).1 hok1 hvis' j (by simpa using hi) r (by simpa using hr)
      exact ⟨o, by simpa [dynRun] using ho, by simpa [worldAt] using h1, by simpa [worldAt] using h2⟩

/-- The side condition cannot be dropped: a file rewritten while it is the cached one is not read
again (the cache is keyed by name).  Concrete history: request file 1, overwrite file 1, request it
again - the second answer is the OLD content.  (Outside the property's quantifier, which ranges over
request sequences; recorded so that the boundary of `request_pure_dynamic` is explicit.) -/
theorem rewritten_current_file_is_stale :
    let w : World Nat := ⟨fun _ _ _ => 0, fun _ => none, none⟩
    let es : List (Ev Nat) := [.req ⟨0, 1, []⟩, .write 1 (fun _ _ => 7) none, .req ⟨0, 1, []⟩]
    ((dynRun w es).2[2]?.bind id).map (fun o => o.value 0) = some 0 ∧
    (calSpec (worldAt w es 2).fs (worldAt w es 2).ver ⟨0, 1, []⟩).value 0 = 7 := by
  decide

/-- Non-vacuity of `request_pure_dynamic`: a history with a visible rewrite meets its hypotheses, and the
request after the rewrite sees the NEW content. -/
example :
    let w : World Nat := ⟨fun _ _ _ => 0, fun _ => none, none⟩
    let es : List (Ev Nat) := [.req ⟨0, 1, []⟩, .req ⟨0, 2, []⟩, .write 1 (fun _ _ => 7) none, .req ⟨0, 1, []⟩]
    (∀ i (hi : i < es.length), writeVisible (worldAt w es i) es[i] = true) ∧
    ((dynRun w es).2[3]?.bind id).map (fun o => o.value 0) = some 7 := by
  refine ⟨?_, by decide⟩
  intro i hi
  rcases i with _ | _ | _ | _ | i
  · decide +revert
  · decide +revert
  · decide +revert
  · decide +revert
  · exact absurd hi (by simp)

/-- **Custom coefficients replace exactly the top-level entries they name.** -/
theorem override_exact {ν : Type} (defaults : Nat → ν) (c : List (Nat × ν)) (k : Nat) :
    (k ∉ c.map (·.1) → mergeCustom defaults c k = defaults k) ∧
    (k ∈ c.map (·.1) → ∃ v, (k, v) ∈ c ∧ mergeCustom defaults c k = v) := by
  unfold mergeCustom lookupCustom
  constructor
  · intro h
    have : c.reverse.find? (fun p => p.1 == k) = none := by
      rw [List.find?_eq_none]
      intro p hp
      simp only [beq_iff_eq]
      intro hpk
      exact h (List.mem_map.mpr ⟨p, List.mem_reverse.mp hp, hpk⟩)
    simp [this]
  · intro h
    obtain ⟨p, hp, hpk⟩ := List.mem_map.mp h
    cases hf : c.reverse.find? (fun p => p.1 == k) with
    | none =>
      rw [List.find?_eq_none] at hf
      exact absurd (by simpa using hpk) (hf p (List.mem_reverse.mpr hp))
    | some q =>
      have hq := List.find?_some hf
      have hmem := List.mem_of_find?_eq_some hf
      simp only [beq_iff_eq] at hq
      refine ⟨q.2, ?_, by simp⟩
      have : (k, q.2) = q := by rw [← hq]
      rw [this]; exact List.mem_reverse.mp hmem

/-- **Version**: custom coefficients ⇒ no version; otherwise the version recognised for the
file's content (none if unrecognised). -/
theorem version_spec {ν : Type} (fs : Nat → Table ν) (ver : Nat → Option Nat) (r : Req ν) :
    (r.custom ≠ [] → (calSpec fs ver r).version = none) ∧
    (r.custom = [] → (calSpec fs ver r).version = ver r.file) := by
  unfold calSpec
  constructor
  · intro h; cases hc : r.custom with
    | nil => exact absurd hc h
    | cons a as => simp
  · intro h; simp [h]

/-! ### The reader's option routes -/

/-- **Every route hands over what was named**: whichever way the caller names the custom set `c` and the file `f` -
in a `calibration_parameters` dictionary (then the legacy keywords do not matter), or by the two legacy keywords
with no such dictionary - the request that reaches the calibrator is (spacecraft, `f`, `c`), so by `request_pure` the
coefficients used are `calSpec` of exactly these. -/
theorem reader_routes_agree {ν : Type} (sat : Nat) (c lc : Option (List (Nat × ν))) (f lf : Option Nat) :
    readerReq sat (readerOpts (some ⟨c, f⟩) lc lf) = ⟨sat, f.getD 0, c.getD []⟩ ∧
    readerReq sat (readerOpts none c f) = ⟨sat, f.getD 0, c.getD []⟩ := ⟨rfl, rfl⟩

/-- ... in particular both legacy keywords together: neither is dropped -/
theorem legacy_both_forwarded {ν : Type} (sat f : Nat) (c : List (Nat × ν)) :
    readerReq sat (readerOpts none (some c) (some f)) = ⟨sat, f, c⟩ := rfl

/-- ... and the coefficients a reader uses after any history of earlier requests are the pure function of them -/
theorem reader_uses_pure_function {ν : Type} (fs : Nat → Table ν) (ver : Nat → Option Nat)
    (hist : List (Req ν)) (sat : Nat) (params : Option (CalOpts ν)) (lc : Option (List (Nat × ν))) (lf : Option Nat) :
    ∃ o, (calRun fs ver none (hist ++ [readerReq sat (readerOpts params lc lf)])).2[hist.length]? = some o ∧
      o.value = (calSpec fs ver (readerReq sat (readerOpts params lc lf))).value ∧
      o.version = (calSpec fs ver (readerReq sat (readerOpts params lc lf))).version := by
  have h := request_pure fs ver none (initial_ok fs ver) (hist ++ [readerReq sat (readerOpts params lc lf)])
    hist.length (by simp)
  simpa using h

example : readerReq 7 (readerOpts (ν := Unit) none (some [(2, ())]) (some 3)) = ⟨7, 3, [(2, ())]⟩ := rfl

/-- **Completeness of the shipped file**: every spacecraft name that either reader family can
report has every key the calibrator reads (data regenerated from the shipped file and from
the readers' name tables). -/
theorem complete_sets :
    ∀ name ∈ Generated.readerSpacecraftNames,
      ∃ e ∈ Generated.coeffKeyTable, e.1 = name ∧ ∀ k ∈ Generated.requiredCoeffKeys, k ∈ e.2 := by
  decide +kernel

/-- **The spacecraft a file's header id stands for**: the readers' id tables (regenerated from the source) equal the
hand-written snapshot of the user's guides' id tables - so the coefficient set USED for a file of spacecraft X is looked
up under X's name (a swapped pair of ids would calibrate MetOp-A with MetOp-B's set without any error) -/
theorem spacecraft_ids_eq_spec : Generated.spacecraftIdTable = Spec.spacecraftIds := by decide +kernel

/-- no object of the shipped file writes a key twice (the parser would keep the last one and drop the other silently, so
that a mistyped key - `d3` for `d4` - would pass for a complete set) -/
theorem no_duplicate_keys : Generated.coeffDuplicateKeys = [] := by decide

/-- the shipped file is the one this verification was last validated against (md5 pinned by hand in the spec snapshot: a
change of the data together with a refreshed entry in the code's own hash table must be looked at, not waved through) -/
theorem shipped_file_pinned : Generated.shippedMd5 = "e8735ec394ecdb87b7edcd261e72d2eb" := by decide

/-- The shipped file is recognised, under the name the code registers for its md5. -/
theorem version_known :
    Generated.versionHashes.lookup Generated.shippedMd5 = some "PATMOS-x, v2023" := by
  decide +kernel

end PygacModel.C16
