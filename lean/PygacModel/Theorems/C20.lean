/-
C20 — Legacy HDF5 output holds the selected rows of every product, consistently.
Model: `Model/GacIo.lean`.
-/
import PygacModel.Model.GacIo
import PygacModel.Lemmas.Times
namespace PygacModel.C20
open PygacModel PygacModel.GacIo Np

/-! ## 1. Row selection -/

theorem pySlice_range (n : Nat) (a b1 : Int) (ha : 0 ≤ a) (hab : a ≤ b1) (hb : b1 ≤ n) :
    pySlice (List.range n) a b1 = List.range' a.toNat (b1 - a).toNat := by
  unfold pySlice
  simp only [List.length_range]
  have h1 : ¬ a < 0 := by omega
  have h2 : ¬ b1 < 0 := by omega
  simp only [h1, h2, if_false]
  have e1 : min a (n : Int) = a := by omega
  have e2 : min b1 (n : Int) = b1 := by omega
  rw [e1, e2, List.range_eq_range', List.drop_range', List.take_range'_of_length_ge (by omega)]
  congr 1
  omega

/-- a start line at or beyond the number of valid lines is rejected with ValueError -/
theorem start_beyond_rejected (start stop : Int) (first last : Nat) (h : start ≥ (last : Int) - first + 1) :
    checkUserScanlines start stop first last = .error () := by
  unfold checkUserScanlines
  simp only
  rw [if_pos h]

/-- an end line of 0, or beyond the range, means the last valid line -/
theorem end_zero_or_beyond (start stop : Int) (first last : Nat) (hs : start < (last : Int) - first + 1)
    (h : stop = 0 ∨ stop ≥ (last : Int) - first + 1) :
    checkUserScanlines start stop first last = .ok (start, (last : Int) - first) := by
  unfold checkUserScanlines
  simp only
  rw [if_neg (by omega)]
  rcases h with h | h
  · rw [if_pos h]; congr 2; omega
  · by_cases h0 : stop = 0
    · rw [if_pos h0]; congr 2; omega
    · rw [if_neg h0, if_pos h]; congr 2; omega

theorem end_inside_kept (start stop : Int) (first last : Nat) (hs : start < (last : Int) - first + 1)
    (h0 : stop ≠ 0) (h : stop < (last : Int) - first + 1) :
    checkUserScanlines start stop first last = .ok (start, stop) := by
  unfold checkUserScanlines
  simp only
  rw [if_neg (by omega), if_neg h0, if_neg (by omega)]

/-- **The selected rows**: for a pass of `n` lines whose first / last line with a valid latitude are
`first ≤ last < n`, a start line `0 ≤ s` inside the range and the validated end line `e` (`s ≤ e`,
inside the range), the rows taken are exactly `first + s, first + s + 1, ..., first + e`. -/
theorem rows_spec (n first last : Nat) (s e : Int) (hfl : first ≤ last) (hl : last < n)
    (hs0 : 0 ≤ s) (hse : s ≤ e) (he : e ≤ (last : Int) - first) :
    sliceRows (List.range n) first last s e = List.range' (first + s.toNat) (e - s + 1).toNat := by
  unfold sliceRows
  have h1 : pySlice (List.range n) first ((last : Int) + 1) = List.range' first (last + 1 - first) := by
    rw [pySlice_range n first (last + 1) (by omega) (by omega) (by omega)]
    congr 1 <;> omega
  simp only [h1, List.length_range']
  have e1 : min e (((last + 1 - first : Nat) : Int) - 1) = e := by omega
  have e2 : min s (((last + 1 - first : Nat) : Int) - 1) = s := by omega
  rw [e1, e2]
  unfold pySlice
  simp only [List.length_range']
  have a1 : ¬ s < 0 := by omega
  have a2 : ¬ e + 1 < 0 := by omega
  simp only [a1, a2, if_false]
  have b1 : min s ((last + 1 - first : Nat) : Int) = s := by omega
  have b2 : min (e + 1) ((last + 1 - first : Nat) : Int) = e + 1 := by omega
  rw [b1, b2, List.drop_range', List.take_range'_of_length_ge (by omega)]
  congr 1
  · omega
  · omega

/-- **Every product is cut identically**: slicing commutes with any per-row content, so the rows of
each of the fifteen products in the files are the content of the selected rows, in order -/
theorem pySlice_map {α β : Type} (g : α → β) (xs : List α) (a b1 : Int) :
    pySlice (xs.map g) a b1 = (pySlice xs a b1).map g := by
  unfold pySlice
  simp [List.map_drop, List.map_take]

theorem all_products_same_rows {β : Type} (g : Nat → β) (n first last : Nat) (s e : Int) :
    sliceRows ((List.range n).map g) first last s e = (sliceRows (List.range n) first last s e).map g := by
  unfold sliceRows
  simp only [pySlice_map, List.length_map]

/-! ## 2. Metadata re-indexed to the cut -/

/-- the stored midnight line is the original one re-indexed to the cut, kept iff it lies inside it -/
theorem midnight_reindexed (m : Int) (n first last : Nat) (s e : Int) (hfl : first ≤ last) (hl : last < n)
    (hs0 : 0 ≤ s) (hse : s ≤ e) (he : e ≤ (last : Int) - first) :
    sliceMidnight (some m) n first last s e =
      if (first : Int) + s ≤ m ∧ m ≤ (first : Int) + e then some (m - first - s) else none := by
  unfold sliceMidnight updateScanline
  have hlen : ((List.range n).drop first |>.take (last + 1 - first)).length = last + 1 - first := by
    simp; omega
  simp only [hlen]
  have e1 : min e (((last + 1 - first : Nat) : Int) - 1) = e := by omega
  have e2 : min s (((last + 1 - first : Nat) : Int) - 1) = s := by omega
  rw [e1, e2]
  by_cases h1 : m - (first : Int) < 0 ∨ m - (first : Int) ≥ (last : Int) - first + 1
  · simp only [h1, if_true]
    rw [if_neg (by omega)]
  · simp only [h1, if_false]
    by_cases h2 : m - (first : Int) - s < 0 ∨ m - (first : Int) - s ≥ e - s + 1
    · simp only [h2, if_true]
      rw [if_neg (by omega)]
    · simp only [h2, if_false]
      rw [if_pos (by omega)]

theorem no_midnight_stays_none (n first last : Nat) (s e : Int) : sliceMidnight none n first last s e = none := by
  simp [sliceMidnight, updateScanline]

/-- the stripped lines join the missing list (membership; the list is sorted and duplicate free by construction) -/
theorem missing_spec (miss lineNumbers : List Int) (first last : Nat) (x : Int) :
    x ∈ updateMissing miss lineNumbers first last ↔
      x ∈ miss ∨ x ∈ lineNumbers.take first ∨ x ∈ lineNumbers.drop (last + 1) := by
  unfold updateMissing
  simp only [List.mem_mergeSort]
  have hd : ∀ (l acc : List Int), x ∈ l.foldl (fun acc x => if acc.contains x then acc else acc ++ [x]) acc ↔ x ∈ acc ∨ x ∈ l := by
    intro l
    induction l with
    | nil => intro acc; simp
    | cons y ys ih =>
      intro acc
      simp only [List.foldl_cons]
      rw [ih]
      by_cases hy : acc.contains y
      · simp only [hy, if_true]
        have : y ∈ acc := by simpa using hy
        constructor
        · rintro (h | h)
          · left; exact h
          · right; exact List.mem_cons_of_mem _ h
        · rintro (h | h)
          · left; exact h
          · rcases List.mem_cons.mp h with rfl | h
            · left; exact this
            · right; exact h
      · simp only [hy, Bool.false_eq_true, if_false, List.mem_append, List.mem_singleton]
        constructor
        · rintro ((h | h) | h)
          · left; exact h
          · right; rw [h]; exact List.mem_cons_self
          · right; exact List.mem_cons_of_mem _ h
        · rintro (h | h)
          · left; left; exact h
          · rcases List.mem_cons.mp h with rfl | h
            · left; right; rfl
            · right; exact h
  rw [hd]
  simp only [List.not_mem_nil, false_or, List.mem_append]
  tauto

/-! ## 3. Encoding -/

/-- values are stored as integers truncated from value * scale (temperatures in degrees Celsius),
NaN as the fill value -/
theorem encode_spec (scale offset : Rat) (fill : Int) (x : Rat) :
    encode scale offset fill (some x) = truncR ((x - offset) * scale) ∧ encode scale offset fill none = fill :=
  ⟨rfl, rfl⟩

theorem fills : missingData = -32001 ∧ missingLatLon = -999999 := ⟨rfl, rfl⟩

/-- the whole selection on a concrete pass: 10 lines, the first two and the last one without
coordinates, user lines 1..0 (to the end): rows 3..8 -/
example : selectRows ⟨10, [false, false, true, true, true, true, true, true, true, false], 1, 0⟩ = .ok [3, 4, 5, 6, 7, 8] ∧
    selectRows ⟨10, [false, false, true, true, true, true, true, true, true, false], 7, 0⟩ = .error () ∧
    selectRows ⟨10, [false, false, true, true, true, true, true, true, true, false], 2, 4⟩ = .ok [4, 5, 6] := by
  decide

end PygacModel.C20
