/-
C13 — Brightness temperatures behave physically: monotone, anchored, phase-free.
Same model as C05 (`Model/Thermal.lean`), radiometric part over the reals.
-/
import PygacModel.Lemmas.ThermalCycle
import PygacModel.Lemmas.ThermalReal
import PygacModel.Generated.Calib
namespace PygacModel.C13
open PygacModel PygacModel.Thermal Np

def allChan : List (String × List ChanCoef) :=
  Generated.thermalTable.map (fun e => (e.1, e.2.1.map ChanCoef.ofTuple))

/-- the decidable facts about every coefficient row (17 spacecraft x 3 channels) that the
monotonicity proof needs: positive wavenumber and slope B, non-negative quadratic coefficient, and
non-negative derivative of the non-linearity correction at the space radiance -/
theorem H_table : ∀ e ∈ allChan, ∀ co ∈ e.2,
    0 < co.nu ∧ 0 < co.B ∧ 0 ≤ co.b2 ∧ 0 ≤ 1 + co.b1 + 2 * co.b2 * co.nS := by
  decide +kernel

/-- the channel-3b rows with a vanishing non-linearity correction (exact fixed point) -/
def linear3b : List String := (allChan.filter (fun e => match e.2.head? with
  | some co => co.b0 == 0 && co.b1 == 0 && co.b2 == 0 | none => false)).map (·.1)

/-- **Monotone**: on every line with non-negative gain, for counts c1 ≤ c2 not above the space count
and a positive radiance at c2, BT(c2) ≤ BT(c1) - for every coefficient row of the table -/
theorem bt_antitone (e : String × List ChanCoef) (he : e ∈ allChan) (co : ChanCoef) (hco : co ∈ e.2)
    (tBB cS cBB c1 c2 : ℝ)
    (hg : 0 ≤ (planck co (effTemp co tBB) - (co.nS : ℝ)) / (cS - cBB))
    (h12 : c1 ≤ c2) (hcS : c2 ≤ cS)
    (hpos : 0 < nE co (nLin co (planck co (effTemp co tBB)) cS c2 cBB)) :
    btRaw co tBB cS cBB c2 ≤ btRaw co tBB cS cBB c1 := by
  obtain ⟨hnu, hB, hb2, hder⟩ := H_table e he co hco
  exact Thermal.bt_antitone co tBB cS cBB c1 c2 hnu hB hb2 hder hg h12 hcS hpos

/-- **Anchored**: a scene count equal to the internal-target count gives the internal-target radiance ... -/
theorem nlin_anchor (co : ChanCoef) (nBB cS cBB : ℝ) (h : cS ≠ cBB) : nLin co nBB cS cBB cBB = nBB :=
  Thermal.nlin_anchor co nBB cS cBB h

/-- ... hence exactly the internal-target temperature whenever the non-linearity coefficients vanish;
otherwise the residue is the documented correction `b0 + b1 N_BB + b2 N_BB^2` (its size over
285-305 K, below 1 K, is measured numerically by the check, not proved) -/
theorem fixed_point_linear (co : ChanCoef) (tBB cS cBB : ℝ) (hb : co.b0 = 0 ∧ co.b1 = 0 ∧ co.b2 = 0)
    (hnu : 0 < co.nu) (hB : co.B ≠ 0) (hT : 0 < effTemp co tBB) (h : cS ≠ cBB) :
    btRaw co tBB cS cBB cBB = tBB := Thermal.fixed_point_linear co tBB cS cBB hb hnu hB hT h

theorem anchored_residue (co : ChanCoef) (tBB cS cBB : ℝ) (h : cS ≠ cBB) :
    btRaw co tBB cS cBB cBB = invPlanck co (nE co (planck co (effTemp co tBB))) := by
  unfold btRaw; rw [Thermal.nlin_anchor co _ cS cBB h]

/-- **Phase-free**: dropping the first k lines of a pass with a clean PRT cycle leaves the
thermometer index of every remaining line unchanged (each pass locating the cycle by itself), hence
every telemetry value outside the smoothing edge zone -/
theorem phase_free (nums : List Int) (prt : List Rat) (ρ : Int) (β : Rat) (k : Nat)
    (hc : CleanCycle nums prt ρ β) (hβ : β < 50)
    (hne : ∀ j, j < 5 → classReadings nums prt j ≠ [])
    (hne' : ∀ j, j < 5 → classReadings (nums.drop k) (prt.drop k) j ≠ []) :
    ∃ off off', findOffset nums prt = some off ∧ findOffset (nums.drop k) (prt.drop k) = some off' ∧
      iprtOf (nums.drop k) off' = (iprtOf nums off).drop k ∧
      ∀ x ∈ iprtOf nums off, ∃ n ∈ nums, x = (n - ρ) % 5 :=
  Thermal.phase_free nums prt ρ β k hc hβ hne hne'

/-- **Pixel-local**: replacing the count of pixel (i, j) changes no other entry of the output array
(the smoothed telemetry is computed by `prepare`, which has no earth-count argument at all) -/
theorem pixel_local (co : ChanCoef) (is3b : Bool) (tele : List (ℝ × ℝ × ℝ)) (counts : List (List ℝ))
    (i j : Nat) (v : ℝ) (i' j' : Nat) (hne : i' ≠ i ∨ j' ≠ j) :
    ((calArray co is3b tele (counts.modify i (·.set j v)))[i']?.bind (·[j']?)) =
      ((calArray co is3b tele counts)[i']?.bind (·[j']?)) := by
  unfold calArray calLine
  by_cases hi : i' = i
  · subst hi
    have hj : j' ≠ j := by rcases hne with h | h; exact absurd rfl h; exact h
    simp only [List.getElem?_zipWith, List.getElem?_modify]
    cases tele[i']? <;> cases counts[i']? <;> simp [List.getElem?_set, Ne.symm hj]
  · simp only [List.getElem?_zipWith, List.getElem?_modify, if_neg (Ne.symm hi)]
    simp

/-- ... and the array keeps its shape -/
theorem shape_kept (co : ChanCoef) (is3b : Bool) (tele : List (ℝ × ℝ × ℝ)) (counts : List (List ℝ))
    (h : tele.length = counts.length) :
    (calArray co is3b tele counts).length = counts.length ∧
    ∀ (i : Nat) (row : List ℝ), counts[i]? = some row → ∃ out : List (Option ℝ), (calArray co is3b tele counts)[i]? = some out ∧ out.length = row.length := by
  unfold calArray calLine
  refine ⟨by simp [h], fun i row hr => ?_⟩
  have hi : i < counts.length := by
    rcases List.getElem?_eq_some_iff.mp hr with ⟨hi, _⟩; exact hi
  have ht : i < tele.length := h ▸ hi
  refine ⟨row.map (btMasked co is3b tele[i].1 tele[i].2.2 tele[i].2.1), ?_, by simp⟩
  simp [List.getElem?_zipWith, List.getElem?_eq_getElem ht, hr]

example : allChan.length = 17 := by decide +kernel

end PygacModel.C13
