/-
C01 — Header and scan-line fields are decoded at the format's byte layout.

Property theorems only.  Helper lemmas live in `Lemmas/Codec.lean`.
-/
import PygacModel.Spec.Layouts
import PygacModel.Generated.Layouts
import PygacModel.Spec.PodEpochs
import PygacModel.Generated.PodEpochs
import PygacModel.Lemmas.Codec
namespace PygacModel.C01
open PygacModel

/-! ## 1. The layouts that the code declares are the format's layouts

`Generated.*` is re-extracted from the numpy dtypes of /repo on every run; `Spec.*` is the
committed statement of the format.  Any change of an offset, width, signedness, byte order,
element count or stride of any exposed field breaks one of these obligations. -/

theorem generated_agrees_klmGac : layoutAgrees Spec.klmGac Generated.klmGac = true := by decide +kernel
theorem generated_agrees_klmLac : layoutAgrees Spec.klmLac Generated.klmLac = true := by decide +kernel
theorem generated_agrees_podGac : layoutAgrees Spec.podGac Generated.podGac = true := by decide +kernel
theorem generated_agrees_podLac : layoutAgrees Spec.podLac Generated.podLac = true := by decide +kernel
theorem generated_agrees_klmHeader : layoutAgrees Spec.klmHeader Generated.klmHeader = true := by decide +kernel
theorem generated_agrees_klmAnalogV2 : layoutAgrees Spec.klmAnalogV2 Generated.klmAnalogV2 = true := by decide +kernel
theorem generated_agrees_klmAnalogV5 : layoutAgrees Spec.klmAnalogV5 Generated.klmAnalogV5 = true := by decide +kernel
theorem generated_agrees_arsHeader : layoutAgrees Spec.arsHeader Generated.arsHeader = true := by decide +kernel
theorem generated_agrees_podHeader0 : layoutAgrees Spec.podHeader0 Generated.podHeader0 = true := by decide +kernel
theorem generated_agrees_podHeader1 : layoutAgrees Spec.podHeader1 Generated.podHeader1 = true := by decide +kernel
theorem generated_agrees_podHeader2 : layoutAgrees Spec.podHeader2 Generated.podHeader2 = true := by decide +kernel
theorem generated_agrees_podHeader3 : layoutAgrees Spec.podHeader3 Generated.podHeader3 = true := by decide +kernel
theorem generated_agrees_tbmHeader : layoutAgrees Spec.tbmHeader Generated.tbmHeader = true := by decide +kernel

/-- The record strides of the format, and the data offset the readers seek to
(one record length; the archive header size is added by `read`). -/
theorem strides_and_offsets :
    Spec.klmGac.size = 4608 ∧ Spec.klmLac.size = 15872 ∧ Spec.podGac.size = 3220 ∧ Spec.podLac.size = 14800 ∧
    Spec.arsHeader.size = 512 ∧ Spec.tbmHeader.size = 122 ∧
    Generated.offsetGacKlm = Spec.klmGac.size ∧ Generated.offsetLacKlm = Spec.klmLac.size ∧
    Generated.offsetGacPod = Spec.podGac.size ∧ Generated.offsetLacPod = Spec.podLac.size := by
  decide +kernel

/-- The POD header layout chosen for every start date 1978..2030 (extracted from the code by
exhaustive probing) is the format's: first layout before 1992-09-08, second up to and
including 1994-11-15, third afterwards. -/
theorem pod_header_epochs : Generated.podEpochSegments = Spec.podEpochSegments := by decide +kernel

/-- The segment table and the closed form agree on every day in the probed range. -/
theorem pod_header_epoch_closed_form :
    ∀ d ∈ [2922, 8285, 8286, 9084, 9085, 22279],
      Spec.podHeaderEpoch d = ((Spec.podEpochSegments.filter (fun s => s.1 ≤ d)).getLast?.map (·.2)).getD 0 := by
  decide

/-! ## 2. Every layout tiles its record: sorted by offset the fields are gap-free,
overlap-free and end exactly at the record size. -/

theorem layout_tiles :
    Spec.klmGac.tiles = true ∧ Spec.klmLac.tiles = true ∧ Spec.podGac.tiles = true ∧ Spec.podLac.tiles = true ∧
    Spec.klmHeader.tiles = true ∧ Spec.klmAnalogV2.tiles = true ∧ Spec.klmAnalogV5.tiles = true ∧
    Spec.arsHeader.tiles = true ∧ Spec.podHeader0.tiles = true ∧ Spec.podHeader1.tiles = true ∧
    Spec.podHeader2.tiles = true ∧ Spec.podHeader3.tiles = true ∧ Spec.tbmHeader.tiles = true := by
  decide +kernel

/-! ## 3. Codec: values of every width read back exactly, and every bit matters. -/

/-- Unsigned fields: any in-range value of any width reads back exactly. -/
theorem codec_roundtrip_unsigned (w v : Nat) (h : v < 256 ^ w) : beDecode (beEncode w v) = v :=
  beDecode_beEncode w v h

/-- Signed (two's complement) fields of any width ≥ 1. -/
theorem codec_roundtrip_signed (w : Nat) (hw : 0 < w) (v : Int)
    (hlo : -(2 ^ (8 * w - 1) : Nat) ≤ v) (hhi : v < (2 ^ (8 * w - 1) : Nat)) :
    toSigned w (beDecode (beEncode w (ofSigned w v))) = v := by
  rw [beDecode_beEncode _ _ (ofSigned_lt w hw v hlo hhi)]
  exact toSigned_ofSigned w hw v hlo hhi

/-- Decoding is injective on byte strings of a field's width: changing any bit of a field
position changes the decoded value. -/
theorem every_bit_matters (a b : Bytes) (hl : a.length = b.length) (hne : a ≠ b) :
    beDecode a ≠ beDecode b := fun h => hne (beDecode_injective a b hl h)

/-! ## 4. Tiling gives positions: in a record assembled field by field in offset order,
each field sits at the offset the layout assigns to it. -/

theorem tiles_offsets (ivs : List (Nat × Nat)) (pos size : Nat) (h : tilesFrom pos size ivs = true)
    (k : Nat) (hk : k < ivs.length) :
    (ivs[k]).1 = pos + ((ivs.take k).map Prod.snd).sum := by
  induction ivs generalizing pos k with
  | nil => simp at hk
  | cons iv rest ih =>
    obtain ⟨s, len⟩ := iv
    simp only [tilesFrom, Bool.and_eq_true, beq_iff_eq] at h
    cases k with
    | zero => simp [h.1]
    | succ k =>
      have := ih (pos + len) h.2 k (by simpa using hk)
      simp only [List.getElem_cons_succ, List.take_succ_cons, List.map_cons, List.sum_cons]
      rw [this]; omega

/-- **Field round trip inside a record.** If the intervals `ivs` tile a record and the record
is assembled from one chunk per interval, the bytes found at interval `k`'s offset and
length are exactly chunk `k`. -/
theorem record_field_roundtrip (ivs : List (Nat × Nat)) (size : Nat)
    (htile : tilesFrom 0 size ivs = true) (chunks : List Bytes)
    (hlen : chunks.map List.length = ivs.map Prod.snd) (k : Nat) (hk : k < ivs.length) :
    slice (assemble chunks) (ivs[k]).1 (ivs[k]).2 =
      chunks[k]'(by have := congrArg List.length hlen; simp at this; omega) := by
  have hkc : k < chunks.length := by have := congrArg List.length hlen; simp at this; omega
  have hoff := tiles_offsets ivs 0 size htile k hk
  have hsnd : (ivs[k]).2 = (chunks[k]).length := by
    have := congrArg (fun l => l[k]?) hlen
    simp [hk, hkc] at this
    exact this.symm
  have hsum : ((ivs.take k).map Prod.snd).sum = chunkOff chunks k := by
    unfold chunkOff
    rw [List.map_take, List.map_take, hlen]
  rw [hoff, hsnd, hsum, Nat.zero_add]
  exact slice_assemble chunks k hkc

/-! ## 5. File round trip: every record, not only the first; tail ignored; count ignored. -/

/-- **File round trip.** For every archive header (present or empty), every header block of
one record length, every number of records, every tail shorter than a record, every record
`r` and every field interval `k` of a tiling layout: the bytes read back at the field's
position in record `r` are the bytes written for it. -/
theorem file_roundtrip (archive headerBlock tail : Bytes) (recs : List (List Bytes))
    (ivs : List (Nat × Nat)) (stride dataOff : Nat)
    (htile : tilesFrom 0 stride ivs = true)
    (hoff : archive.length + headerBlock.length = dataOff)
    (hshape : ∀ c ∈ recs, c.map List.length = ivs.map Prod.snd)
    (hreclen : ∀ c ∈ recs, (assemble c).length = stride)
    (r : Nat) (hr : r < recs.length) (k : Nat) (hk : k < ivs.length) :
    slice (record (writeFile archive headerBlock (recs.map assemble) tail) dataOff stride r)
        (ivs[k]).1 (ivs[k]).2
      = (recs[r])[k]'(by
          have := congrArg List.length (hshape recs[r] (List.getElem_mem hr)); simp at this; omega) := by
  have hrec := record_writeFile archive headerBlock (recs.map assemble) tail dataOff stride r hoff
    (by intro x hx; simp only [List.mem_map] at hx; obtain ⟨c, hc, rfl⟩ := hx; exact hreclen c hc)
    (by simpa using hr)
  rw [hrec]
  simp only [List.getElem_map]
  exact record_field_roundtrip ivs stride htile recs[r] (hshape _ (List.getElem_mem hr)) k hk

/-- The number of records read is the number of complete records in the file: a trailing
partial record is ignored and the header's count field does not enter. -/
theorem partial_tail_ignored (archive headerBlock tail : Bytes) (records : List Bytes)
    (dataOff stride : Nat) (hs : 0 < stride)
    (hoff : archive.length + headerBlock.length = dataOff)
    (hlen : ∀ x ∈ records, x.length = stride) (ht : tail.length < stride) :
    recordCount (writeFile archive headerBlock records tail) dataOff stride = records.length :=
  recordCount_writeFile archive headerBlock records tail dataOff stride hs hoff hlen ht

/-! ## Non-vacuity -/

example : tilesFrom 0 6 [(0, 2), (2, 4)] = true := by decide
example : beDecode (beEncode 2 0xBEEF) = 0xBEEF := by decide
example : toSigned 2 (beDecode (beEncode 2 (ofSigned 2 (-2)))) = -2 := by decide

end PygacModel.C01
