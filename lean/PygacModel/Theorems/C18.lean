/-
C18 — Pass metadata describe the data that are returned.
-/
import PygacModel.Lemmas.Accessors
import PygacModel.Model.LineNumbers
import PygacModel.Model.Times
namespace PygacModel.C18
open PygacModel PygacModel.Acc

/-! ## 1. The three quantities -/

def dayOf (t : Int) : Int := t / 86400000     -- `astype("datetime64[D]")` floors

/-- indices `i` at which the UTC date of the returned times increases by exactly one day -/
def daySteps : List Int → Nat → List Nat
  | a :: b :: rest, i => (if dayOf b - dayOf a = 1 then [i] else []) ++ daySteps (b :: rest) (i + 1)
  | _, _ => []

/-- `get_midnight_scanline` -/
def midnightLine (ts : List Int) : Option Nat :=
  match daySteps ts 0 with
  | [i] => some i
  | _ => none

theorem daySteps_mem (ts : List Int) (k i : Nat) :
    i ∈ daySteps ts k ↔ ∃ j, i = k + j ∧ ∃ (h : j + 1 < ts.length), dayOf ts[j + 1] - dayOf ts[j] = 1 := by
  induction ts generalizing k with
  | nil => simp [daySteps]
  | cons a rest ih =>
    cases rest with
    | nil => simp [daySteps]
    | cons b rest' =>
      simp only [daySteps, List.mem_append]
      rw [ih (k + 1)]
      constructor
      · rintro (h | ⟨j, hj, hlen, hd⟩)
        · split at h
          · rename_i hstep
            simp at h
            exact ⟨0, by omega, by simp, by simpa using hstep⟩
          · simp at h
        · exact ⟨j + 1, by omega, by simp at hlen ⊢; omega, by simpa using hd⟩
      · rintro ⟨j, hj, hlen, hd⟩
        cases j with
        | zero =>
          left
          have : dayOf b - dayOf a = 1 := by simpa using hd
          simp [this, hj]
        | succ j' =>
          right
          exact ⟨j', by omega, by simp at hlen ⊢; omega, by simpa using hd⟩

/-- **Midnight line**: the stored index `i` is one at which the UTC date of the times increases by a
day between line `i` and line `i+1`, and it is the only such index; `none` exactly when there is no
such step or more than one. -/
theorem midnight_spec (ts : List Int) (i : Nat) :
    midnightLine ts = some i ↔
      (∃ (h : i + 1 < ts.length), dayOf ts[i + 1] - dayOf ts[i] = 1) ∧
      ∀ j (h : j + 1 < ts.length), dayOf ts[j + 1] - dayOf ts[j] = 1 → j = i := by
  unfold midnightLine
  have hm := daySteps_mem ts 0
  constructor
  · intro h
    split at h
    · rename_i i' heq
      injection h with h; subst h
      have hi : i' ∈ daySteps ts 0 := by rw [heq]; simp
      obtain ⟨j, hj, hlen, hd⟩ := (hm i').mp hi
      have : j = i' := by omega
      subst this
      refine ⟨⟨hlen, hd⟩, ?_⟩
      intro j' hlen' hd'
      have : j' ∈ daySteps ts 0 := (hm j').mpr ⟨j', by omega, hlen', hd'⟩
      rw [heq] at this
      simpa using this
    · cases h
  · rintro ⟨⟨hlen, hd⟩, huniq⟩
    have hi : i ∈ daySteps ts 0 := (hm i).mpr ⟨i, by omega, hlen, hd⟩
    have hall : ∀ x ∈ daySteps ts 0, x = i := by
      intro x hx
      obtain ⟨j, hj, hl, hdd⟩ := (hm x).mp hx
      have := huniq j hl hdd
      omega
    -- the list is strictly increasing in its indices, so it has no duplicates: show it is [i]
    have hnodup : (daySteps ts 0).Pairwise (· < ·) := by
      have : ∀ (l : List Int) (k : Nat), (daySteps l k).Pairwise (· < ·) ∧ ∀ x ∈ daySteps l k, k ≤ x := by
        intro l
        induction l with
        | nil => intro k; simp [daySteps]
        | cons a rest ih =>
          intro k
          cases rest with
          | nil => simp [daySteps]
          | cons b rest' =>
            have ih' := ih (k + 1)
            simp only [daySteps]
            constructor
            · rw [List.pairwise_append]
              refine ⟨by split <;> simp, ih'.1, ?_⟩
              intro x hx y hy
              have := ih'.2 y hy
              split at hx <;> simp at hx
              omega
            · intro x hx
              rw [List.mem_append] at hx
              rcases hx with hx | hx
              · split at hx <;> simp at hx; omega
              · have := ih'.2 x hx; omega
      exact (this ts 0).1
    match hds : daySteps ts 0 with
    | [] => rw [hds] at hi; simp at hi
    | [x] =>
      have := hall x (by rw [hds]; simp)
      simp [this]
    | x :: y :: rest =>
      rw [hds] at hnodup hall
      have hx := hall x (by simp)
      have hy := hall y (by simp)
      have := (List.pairwise_cons.mp hnodup).1 y (by simp)
      omega

/-- **Missing lines**: exactly the numbers between 1 and the last line number that are absent -/
theorem miss_spec (nums : List Int) (m : Int) :
    m ∈ missLines nums ↔ 1 ≤ m ∧ m ≤ nums.getLastD 0 ∧ m ∉ nums := by
  unfold missLines
  cases hl : nums.getLast? with
  | none =>
    have : nums = [] := List.getLast?_eq_none_iff.mp hl
    subst this
    simp; omega
  | some last =>
    have hlast : nums.getLastD 0 = last := by
      rw [List.getLastD_eq_getLast?, hl]; rfl
    rw [hlast]
    simp only [List.mem_filter, List.mem_map, List.mem_range, Bool.not_eq_eq_eq_not, Bool.not_true,
      List.contains_eq_mem, decide_eq_false_iff_not]
    constructor
    · rintro ⟨⟨k, hk, rfl⟩, hnot⟩
      exact ⟨by omega, by omega, hnot⟩
    · rintro ⟨h1, h2, h3⟩
      exact ⟨⟨(m - 1).toNat, by omega, by omega⟩, h3⟩

/-- computed in the field's signed 16-bit type the list is the same as long as the last number is below 32767 ... -/
theorem missLinesI16_eq (nums : List Int) (h : ∀ last, nums.getLast? = some last → 0 ≤ last ∧ last < 32767) :
    missLinesI16 nums = missLines nums := by
  unfold missLinesI16 missLines
  cases hl : nums.getLast? with
  | none => rfl
  | some last =>
    obtain ⟨h0, h1⟩ := h last hl
    have : ((last + 1 + 32768) % 65536 - 32768 - 1).toNat = last.toNat := by omega
    simp only [this]

/-- ... and EMPTY for a pass ending at 32767, whatever is absent (the defect repaired by 7ab6521, reproduced through
the POD LAC reader; the model `missLines` over the integers is what the code does now) -/
theorem missLinesI16_top (nums : List Int) (h : nums.getLast? = some 32767) : missLinesI16 nums = [] := by
  unfold missLinesI16
  rw [h]
  rfl

example : missLinesI16 [32760, 32767] = [] ∧ (32761 : Int) ∈ missLines [32760, 32767] :=
  ⟨missLinesI16_top _ rfl, (miss_spec _ _).mpr ⟨by omega, by decide, by decide⟩⟩

/-- day of year of an instant, given the year it lies in -/
def dayOfYear (year : Int) (t : Int) : Int := dayOf t - daysToYear year + 1

/-- the distance-factor day is the day of year of the first returned time: inverse of `instant` -/
theorem distance_day (year jday msec : Int) (hm : 0 ≤ msec ∧ msec < 86400000) :
    dayOfYear year (Times.instant year jday msec) = jday := by
  unfold dayOfYear dayOf Times.instant Times.msPerDay
  omega

/-! ## 2. The stored metadata are computed from the times that are returned -/

/-- **Metadata describe the returned data**: for every accessor history, whichever accessor first
triggers the computation, `reader.meta_data` is either still empty (no coordinates computed yet) or
was computed from exactly the times that `get_times` returns from then on - also when the POD
clock-drift correction moves them; the dataset attributes are computed from the same times. -/
theorem meta_describes_returned (c : Cfg) (h : List Op) :
    (outAfter c h .readMeta = .metaOut none ∧ h.any computesCoords = false) ∨
    (h.any computesCoords = true ∧ ∃ t, outAfter c h .readMeta = .metaOut (some t) ∧ outAfter c h .getTimes = .times t ∧
      outAfter c h .dataset = .dataset t t t) := by
  have hinv := inv_run c {} h (inv_init c)
  have hl := run_lonlat c {} h
  have htimes : outAfter c h .getTimes = .times (if h.any computesCoords then c.final else .pre) := by
    unfold outAfter
    simp only [step]
    rw [doTimes_snd c _ hinv, hl]; simp
  cases hany : h.any computesCoords
  · left
    have : (run c {} h).lonlat = false := by rw [hl, hany]; rfl
    refine ⟨?_, rfl⟩
    unfold outAfter
    simp only [step, (hinv.fresh this).1]
  · right
    have hlt : (run c {} h).lonlat = true := by rw [hl, hany]; rfl
    refine ⟨rfl, c.final, ?_, ?_, ?_⟩
    · unfold outAfter; simp only [step, (hinv.done hlt).2.1]
    · rw [htimes, hany]; rfl
    · unfold outAfter
      exact step_out_spec c _ .dataset hinv (by decide) (by decide)

example : midnightLine [86399000, 86399500, 86400000, 86400500] = some 1 := by decide
example : midnightLine [0, 86400000, 172800000] = none := by decide
example : missLines [2, 3, 6] = [1, 4, 5] := by decide

/-- "as many records as the last line number" does NOT mean that no line is missing: a repeated record or a late record
makes up for a lost line in the count (the shortcut a seeded change of round 14 took) - machine-checked witnesses -/
theorem count_equals_last_is_not_complete :
    ([1, 2, 3, 4, 5, 6, 8, 8] : List Int).length = 8 ∧ missLines [1, 2, 3, 4, 5, 6, 8, 8] = [7] ∧
    ([1, 2, 4, 5, 6, 7, 9, 8] : List Int).length = 8 ∧ missLines [1, 2, 4, 5, 6, 7, 9, 8] = [3] := by decide

/-- ... while nothing is missing exactly when every number from 1 to the last one occurs -/
theorem miss_empty_iff (nums : List Int) :
    missLines nums = [] ↔ ∀ m : Int, 1 ≤ m → m ≤ nums.getLastD 0 → m ∈ nums := by
  constructor
  · intro he m h1 h2
    rcases Classical.em (m ∈ nums) with hm | hm
    · exact hm
    · have := (miss_spec nums m).mpr ⟨h1, h2, hm⟩
      rw [he] at this; exact absurd this (by simp)
  · intro hall
    apply List.eq_nil_iff_forall_not_mem.mpr
    intro m hm
    obtain ⟨h1, h2, hn⟩ := (miss_spec nums m).mp hm
    exact hn (hall m h1 h2)

end PygacModel.C18
