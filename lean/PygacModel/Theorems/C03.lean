/-
C03 — Recorded scan-line times are decoded exactly and consistent ones preserved.

Model: `Model/Times.lean` (decoding, instants, both repair stages, their composition), tied to the
code by the correspondence check `harness/c03.py` and, for the constants, by the translator.
-/
import PygacModel.Lemmas.Times
import PygacModel.Lemmas.TimesMidnight
import Mathlib.Tactic.IntervalCases
import PygacModel.Generated.Layouts
import PygacModel.Generated.Misc
namespace PygacModel.C03
open PygacModel PygacModel.Times Np

/-! ## 1. Decoding -/

/-- POD time code: for every encodable year 1976..2075, day < 512 and ms < 2^27, decoding the
format's packing gives back (year, day, ms) -/
theorem pod_roundtrip (year jday msec : Nat) (hy : 1976 ≤ year ∧ year ≤ 2075) (hd : jday < 512)
    (hm : msec < 134217728) :
    let e := podEncode year jday msec
    podDecode e.1 e.2.1 e.2.2 = ((year : Int), (jday : Int), (msec : Int)) := by
  simp only [podEncode, podDecode]
  have h1 : (year % 100 * 512 + jday) / 512 = year % 100 := by omega
  have h2 : (year % 100 * 512 + jday) % 512 = jday := by omega
  have h3 : msec / 65536 % 2048 * 65536 + msec % 65536 = msec := by omega
  simp only [h1, h2, h3]
  refine Prod.ext ?_ rfl
  simp only
  split <;> omega

/-- the five spare bits of the second time word are ignored -/
theorem pod_spare_bits_ignored (w0 w1 w2 k : Nat) :
    podDecode w0 (w1 % 2048 + 2048 * k) w2 = podDecode w0 (w1 % 2048) w2 := by
  simp only [podDecode]
  have : (w1 % 2048 + 2048 * k) % 2048 = w1 % 2048 % 2048 := by omega
  rw [this]

/-- the year pivot: two-digit years above 75 are 19xx, the others 20xx -/
theorem pod_year_pivot (yy jday w1 w2 : Nat) (hyy : yy < 100) (hd : jday < 512) :
    (podDecode (yy * 512 + jday) w1 w2).1 = if yy > 75 then ((1900 + yy : Nat) : Int) else ((2000 + yy : Nat) : Int) := by
  simp only [podDecode]
  have h1 : (yy * 512 + jday) / 512 = yy := by omega
  rw [h1]
  split <;> (push_cast; omega)

/-! ## 2. (year, day, ms) -> instant -/

theorem instant_epoch : instant 1970 1 0 = 0 := by decide

/-- an instant is 1 January of the year + (day-1) days + ms, for all integers -/
theorem instant_additive (y j m : Int) : instant y j m = instant y 1 0 + (j - 1) * 86400000 + m := by
  unfold instant msPerDay; omega

/-- consecutive 1 Januaries are 365 days apart, 366 after a (Gregorian) leap year: so day 366 of a leap
year is 31 December and 1 January follows it -/
theorem instant_next_year (y : Int) :
    instant (y + 1) 1 0 = instant y 1 0 +
      (if (y % 4 = 0 ∧ y % 100 ≠ 0) ∨ y % 400 = 0 then 366 else 365) * 86400000 := by
  unfold instant msPerDay
  rw [daysToYear_step]
  split <;> omega

theorem instant_last_ms (y : Int) (hl : (y % 4 = 0 ∧ y % 100 ≠ 0) ∨ y % 400 = 0) :
    instant y 366 86399999 + 1 = instant (y + 1) 1 0 := by
  rw [instant_next_year, if_pos hl]; unfold instant msPerDay; omega

/-! ## 3. Constants regenerated from the code -/

/-- line periods (1 / scan_freq): 500 ms GAC, 500/3 ms LAC, in all four readers -/
theorem generated_periods :
    (Generated.periodNumGacKlm, Generated.periodDenGacKlm) = (500, 1) ∧
    (Generated.periodNumGacPod, Generated.periodDenGacPod) = (500, 1) ∧
    (Generated.periodNumLacKlm, Generated.periodDenLacKlm) = (500, 3) ∧
    (Generated.periodNumLacPod, Generated.periodDenLacPod) = (500, 3) := by decide

/-- the keyword defaults of `correct_times_thresh` are the model's parameters (6 min, 1 %, 10 s) -/
theorem generated_s2_params :
    Generated.s2MaxDiffHead = ({} : S2Params).maxDiffHead ∧ Generated.s2MinFrac = ({} : S2Params).minFrac ∧
    Generated.s2MaxDiffIdeal = ({} : S2Params).maxDiffIdeal := by decide +kernel

/-! ## 4. Consistent passes are preserved -/

/-- **Partial form of the property's second sentence.**  For every pass - any number of lines, any
strictly or non-strictly increasing / arbitrary line numbers with any gaps and any first line number,
either line rate `P`, either family (`sg`), any header time `hd` (usable or not) - whose recorded
fields are plausible (`Clean`), whose years are all equal and whose recorded times of day agree to the
millisecond with first-line time + (n - n0) * P, wrapped at midnight with the day of year
(`Consistent`): `get_times` returns one instant per line, each within 1 ms of the recorded instant.

Missing from the full statement (which is false as it stands, see the witness below): passes crossing
1 January.  Passes whose first line is at exactly 00:00:00.000 are the next theorem. -/
theorem consistent_identity_partial (P : Rat) (sg : Bool) (nowYear : Int) (hd : Option Int) (r : RawTimes)
    (h : Consistent P sg nowYear r) :
    (getTimes {} P nowYear sg hd r).length = r.nums.length ∧
    ∀ i (h1 : i < (getTimes {} P nowYear sg hd r).length) (h2 : i < (recorded r).length),
      (recorded r)[i] - 1 ≤ (getTimes {} P nowYear sg hd r)[i] ∧
      (getTimes {} P nowYear sg hd r)[i] ≤ (recorded r)[i] + 1 := by
  have hc := h.toClean
  have e := getTimes_consistent P sg nowYear hd r h
  have hl := s1_clean_length P sg nowYear r hc
  refine ⟨by rw [e, hl], ?_⟩
  intro i h1 h2
  have h1' : i < (s1Instants (stage1 P sg nowYear r)).length := by rw [e] at h1; exact h1
  rw [List.getElem_of_eq e h1]
  exact (s1_consistent P sg nowYear r h i (by omega) h1' h2).1

/-- **... and so is a consistent pass whose first line is recorded at exactly 00:00:00.000** (the one case in
which stage 1 rebuilds the whole time-of-day series as `median(recorded - ideal) + ideal`): plausible equal years,
one day of year, every recorded time of day the ideal `(n - n0) * P` truncated to the millisecond (`AtMidnight`);
any line numbers, gaps, first line number, rate, family and header.  `get_times` returns one instant per line,
each within 1 ms of the recorded one. -/
theorem consistent_first_line_at_midnight (P : Rat) (sg : Bool) (nowYear : Int) (hd : Option Int) (r : RawTimes)
    (h : AtMidnight P sg nowYear r) :
    (getTimes {} P nowYear sg hd r).length = r.nums.length ∧
    ∀ i (h1 : i < (getTimes {} P nowYear sg hd r).length) (h2 : i < (recorded r).length),
      (recorded r)[i] - 1 ≤ (getTimes {} P nowYear sg hd r)[i] ∧
      (getTimes {} P nowYear sg hd r)[i] ≤ (recorded r)[i] + 1 :=
  consistent_at_midnight P sg nowYear hd r h

/-- non-vacuity: a GAC pass from line 7 with a gap, first line at 00:00:00.000 -/
def midnightPass : RawTimes :=
  { nums := [7, 8, 9, 13], year := [2004, 2004, 2004, 2004], jday := [60, 60, 60, 60], msec := [0, 500, 1000, 3000] }

example : AtMidnight 500 false 2026 midnightPass where
  n_pos := by decide
  len_y := rfl
  len_j := rfl
  len_m := rfl
  year_ok := by decide
  year_const := by decide
  jday_ok := by decide
  jday_const := by decide
  msec_zero := rfl
  floor_consistent := by
    intro i h1 h2
    have : i < 4 := h2
    interval_cases i <;> decide +kernel +revert

example : getTimes {} 500 2026 false none midnightPass = recorded midnightPass := by decide +kernel

/-- a GAC pass starting at line 5, with a three-line gap, crossing UTC midnight inside the gap -/
def examplePass : RawTimes :=
  { nums := [5, 6, 10, 11], year := [2002, 2002, 2002, 2002], jday := [187, 187, 188, 188],
    msec := [86399000, 86399500, 1500, 2000] }

/-- the premises of `consistent_identity_partial` are satisfiable by a non-trivial pass -/
example : Consistent 500 false 2026 examplePass where
  n_pos := by decide
  len_y := rfl
  len_j := rfl
  len_m := rfl
  year_ok := by decide
  jday_ok := by decide
  jday_mono := by decide +kernel
  msec_first := by decide
  year_const := by decide
  consistent := by decide +kernel

example : getTimes {} 500 2026 false (some 1025999999000) examplePass = recorded examplePass := by
  decide +kernel

/-- **The full statement fails across 1 January** (known finding `consistent:newyear-early`): a clean
four-line GAC pass starting at line 2000 on 31 December 1999 23:59:59.800; the first line after
the year boundary comes back 365 days late (day of year replaced by the largest day, time of day
by the unwrapped ideal one). -/
def newYearPass : RawTimes :=
  { nums := [2000, 2001, 2002, 2003], year := [1999, 2000, 2000, 2000], jday := [365, 1, 1, 1],
    msec := [86399800, 300, 800, 1300] }

theorem newyear_early_witness :
    recorded newYearPass = [946684799800, 946684800300, 946684800800, 946684801300] ∧
    getTimes {} 500 2026 false (some 946684799800) newYearPass =
      [946684799800, 946684800300 + 365 * 86400000, 946684800800, 946684801300] := by
  decide +kernel

end PygacModel.C03
