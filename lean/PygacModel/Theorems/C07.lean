/-
C07 — Flagged scan lines are blanked in every product and only those.
-/
import PygacModel.Model.FlagsGen
namespace PygacModel.C07
open PygacModel

/-- **Generic bit lemma**: masking with any 32-bit constant tests exactly its set bits,
for every quality word whatsoever. -/
theorem corruptMask_spec (m q : Nat) (hm : m < 2 ^ 32) :
    corruptMask m q = (bitsOf m).any (fun i => q.testBit i) := by
  unfold corruptMask bitsOf
  by_cases h : (q &&& m) = 0
  · have hfalse : ((List.range 32).filter (fun i => m.testBit i)).any (fun i => q.testBit i) = false := by
      rw [List.any_eq_false]
      intro i hi
      simp only [List.mem_filter, List.mem_range] at hi
      intro hq
      have : (q &&& m).testBit i = true := by simp [Nat.testBit_and, hq, hi.2]
      rw [h] at this; simp at this
    simp [h, hfalse]
  · obtain ⟨i, hi⟩ := Nat.exists_testBit_of_ne_zero h
    rw [Nat.testBit_and, Bool.and_eq_true] at hi
    have hi32 : i < 32 := by
      apply Decidable.byContradiction; intro hge
      have : m < 2 ^ i := Nat.lt_of_lt_of_le hm (Nat.pow_le_pow_right (by decide) (by omega))
      have := Nat.testBit_lt_two_pow this
      rw [this] at hi; exact absurd hi.2 (by decide)
    have htrue : ((List.range 32).filter (fun i => m.testBit i)).any (fun i => q.testBit i) = true := by
      rw [List.any_eq_true]
      exact ⟨i, by simp [List.mem_filter, List.mem_range, hi32, hi.2], hi.1⟩
    simp [h, htrue]

/-- The set bits of the generated masks are the format's bits. -/
theorem mask_bits :
    bitsOf (klmFlags.fatal ||| klmFlags.cal ||| klmFlags.noloc) = [27, 28, 31] ∧
    bitsOf (podFlags.fatal ||| podFlags.cal ||| podFlags.noloc) = [26, 27, 31] ∧
    bitsOf klmFlags.fatal = [31] ∧ bitsOf klmFlags.cal = [28] ∧ bitsOf klmFlags.noloc = [27] ∧
    bitsOf klmFlags.c3 = [6, 7] ∧ bitsOf klmFlags.c4 = [4, 5] ∧ bitsOf klmFlags.c5 = [2, 3] ∧
    bitsOf podFlags.fatal = [31] ∧ bitsOf podFlags.cal = [27] ∧ bitsOf podFlags.noloc = [26] ∧
    bitsOf podFlags.c3 = [18] ∧ bitsOf podFlags.c4 = [17] ∧ bitsOf podFlags.c5 = [16] := by
  decide +kernel

theorem masks_32bit :
    (klmFlags.fatal ||| klmFlags.cal ||| klmFlags.noloc) < 2 ^ 32 ∧
    (podFlags.fatal ||| podFlags.cal ||| podFlags.noloc) < 2 ^ 32 ∧
    klmFlags.fatal < 2 ^ 32 ∧ klmFlags.cal < 2 ^ 32 ∧ klmFlags.noloc < 2 ^ 32 ∧
    klmFlags.c3 < 2 ^ 32 ∧ klmFlags.c4 < 2 ^ 32 ∧ klmFlags.c5 < 2 ^ 32 ∧
    podFlags.fatal < 2 ^ 32 ∧ podFlags.cal < 2 ^ 32 ∧ podFlags.noloc < 2 ^ 32 ∧
    podFlags.c3 < 2 ^ 32 ∧ podFlags.c4 < 2 ^ 32 ∧ podFlags.c5 < 2 ^ 32 := by
  decide +kernel

/-- **KLM: a line is masked iff bit 31, 28 or 27 of its quality word is set — for every word.** -/
theorem mask_iff_klm (q : Nat) :
    lineMask klmFlags q = (q.testBit 27 || q.testBit 28 || q.testBit 31) := by
  unfold lineMask
  rw [corruptMask_spec _ q masks_32bit.1, mask_bits.1]
  simp [List.any, Bool.or_assoc]

/-- **POD: a line is masked iff bit 31, 27 or 26 is set — for every word.** -/
theorem mask_iff_pod (q : Nat) :
    lineMask podFlags q = (q.testBit 26 || q.testBit 27 || q.testBit 31) := by
  unfold lineMask
  rw [corruptMask_spec _ q masks_32bit.2.1, mask_bits.2.1]
  simp [List.any, Bool.or_assoc]

/-- **Quality summary, KLM**: line number; bits 31, 28, 27; bits 7|6, 5|4, 3|2. -/
theorem summary_spec_klm (n : Int) (q : Nat) :
    qualSummary klmFlags n q =
      [n, b2i (q.testBit 31), b2i (q.testBit 28), b2i (q.testBit 27),
       b2i (q.testBit 6 || q.testBit 7), b2i (q.testBit 4 || q.testBit 5),
       b2i (q.testBit 2 || q.testBit 3)] := by
  have hb := mask_bits
  have hm := masks_32bit
  unfold qualSummary
  rw [corruptMask_spec _ q hm.2.2.1, corruptMask_spec _ q hm.2.2.2.1, corruptMask_spec _ q hm.2.2.2.2.1,
      corruptMask_spec _ q hm.2.2.2.2.2.1, corruptMask_spec _ q hm.2.2.2.2.2.2.1,
      corruptMask_spec _ q hm.2.2.2.2.2.2.2.1,
      hb.2.2.1, hb.2.2.2.1, hb.2.2.2.2.1, hb.2.2.2.2.2.1, hb.2.2.2.2.2.2.1, hb.2.2.2.2.2.2.2.1]
  simp [List.any]

/-- **Quality summary, POD**: line number; bits 31, 27, 26; bits 18, 17, 16. -/
theorem summary_spec_pod (n : Int) (q : Nat) :
    qualSummary podFlags n q =
      [n, b2i (q.testBit 31), b2i (q.testBit 27), b2i (q.testBit 26),
       b2i (q.testBit 18), b2i (q.testBit 17), b2i (q.testBit 16)] := by
  have hb := mask_bits
  have hm := masks_32bit
  unfold qualSummary
  rw [corruptMask_spec _ q hm.2.2.2.2.2.2.2.2.1, corruptMask_spec _ q hm.2.2.2.2.2.2.2.2.2.1,
      corruptMask_spec _ q hm.2.2.2.2.2.2.2.2.2.2.1, corruptMask_spec _ q hm.2.2.2.2.2.2.2.2.2.2.2.1,
      corruptMask_spec _ q hm.2.2.2.2.2.2.2.2.2.2.2.2.1, corruptMask_spec _ q hm.2.2.2.2.2.2.2.2.2.2.2.2.2,
      hb.2.2.2.2.2.2.2.2.1, hb.2.2.2.2.2.2.2.2.2.1, hb.2.2.2.2.2.2.2.2.2.2.1,
      hb.2.2.2.2.2.2.2.2.2.2.2.1, hb.2.2.2.2.2.2.2.2.2.2.2.2.1, hb.2.2.2.2.2.2.2.2.2.2.2.2.2]
  simp [List.any]

/-- **Masked lines are blanked in every product**: every entry of the row is the missing
value, whatever the product function and the line's data. -/
theorem masked_row_all_nan {α δ : Type} (nan : α) (F : FlagSet) (f : δ → List α) (d : δ) (q : Nat)
    (h : lineMask F q = true) : ∀ x ∈ productRow nan F f d q, x = nan := by
  intro x hx
  simp [productRow, blankRow, h] at hx
  exact hx.2.symm ▸ rfl

/-- **Only those**: an unmasked line's row is the unblanked product. -/
theorem unmasked_row_untouched {α δ : Type} (nan : α) (F : FlagSet) (f : δ → List α) (d : δ) (q : Nat)
    (h : lineMask F q = false) : productRow nan F f d q = f d := by
  simp [productRow, blankRow, h]

/-- **No other bit of the quality word changes any product (KLM).** -/
theorem other_bits_irrelevant_klm {α δ : Type} (nan : α) (f : δ → List α) (d : δ) (q₁ q₂ : Nat)
    (h27 : q₁.testBit 27 = q₂.testBit 27) (h28 : q₁.testBit 28 = q₂.testBit 28)
    (h31 : q₁.testBit 31 = q₂.testBit 31) :
    productRow nan klmFlags f d q₁ = productRow nan klmFlags f d q₂ := by
  unfold productRow; rw [mask_iff_klm, mask_iff_klm, h27, h28, h31]

/-- **No other bit of the quality word changes any product (POD).** -/
theorem other_bits_irrelevant_pod {α δ : Type} (nan : α) (f : δ → List α) (d : δ) (q₁ q₂ : Nat)
    (h26 : q₁.testBit 26 = q₂.testBit 26) (h27 : q₁.testBit 27 = q₂.testBit 27)
    (h31 : q₁.testBit 31 = q₂.testBit 31) :
    productRow nan podFlags f d q₁ = productRow nan podFlags f d q₂ := by
  unfold productRow; rw [mask_iff_pod, mask_iff_pod, h26, h27, h31]

/-! Non-vacuity -/
example : lineMask klmFlags (2 ^ 28) = true := by decide
example : lineMask klmFlags (2 ^ 26 + 2 ^ 30 + 255) = false := by decide
example : lineMask podFlags (2 ^ 26) = true ∧ lineMask podFlags (2 ^ 28) = false := by decide
example : qualSummary klmFlags 7 (2 ^ 6) = [7, 0, 0, 0, 1, 0, 0] := by decide

end PygacModel.C07
