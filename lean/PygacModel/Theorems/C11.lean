/-
C11 — Scan-line-number sanitising only removes records, and only implausible ones.
-/
import PygacModel.Lemmas.LineNumbers
import PygacModel.Generated.Layouts
import PygacModel.Generated.Misc
namespace PygacModel.C11
open PygacModel Np

/-! ## 1. Only removal, order kept — for all sequences whatsoever and for every behaviour of
the statistical-threshold branch (it is a parameter `statK`). -/

/-- KLM: the surviving records are a sublist (same records, same order) of the file's. -/
theorem sublist_klm (statK : List Rat → KeepRule) (max : Int) (rs : List Rec) :
    (correctKlm statK max rs).Sublist rs :=
  (correctCommon_sublist_filter statK max rs).trans List.filter_sublist

/-- POD: the surviving records are a sublist of a rotation of the file's records. -/
theorem rotation_sublist_pod (statK : List Rat → KeepRule) (max : Int) (rs : List Rec) :
    ∃ k, (correctPod statK max rs).Sublist (rs.drop k ++ rs.take k) := by
  obtain ⟨j, hj⟩ := podPost_sublist_rotation (correctCommon statK max rs)
  have hsub : (correctCommon statK max rs).Sublist rs := sublist_klm statK max rs
  obtain ⟨k', h1, h2⟩ := sublist_drop_take hsub j
  exact ⟨k', hj.trans (h1.append h2)⟩

/-- Every surviving record is one of the file's records (payload unchanged). -/
theorem survivors_are_file_records_pod (statK : List Rat → KeepRule) (max : Int) (rs : List Rec) :
    ∀ r ∈ correctPod statK max rs, r ∈ rs :=
  fun r hr => (sublist_klm statK max rs).subset (podPost_mem _ r hr)

/-! ## 2. Range of the surviving numbers -/

theorem range_klm (statK : List Rat → KeepRule) (max : Int) (rs : List Rec) :
    ∀ r ∈ correctKlm statK max rs, 0 ≤ r.num ∧ r.num < max := by
  intro r hr
  have := (correctCommon_sublist_filter statK max rs).subset hr
  have h := (List.mem_filter.mp this).2
  simp only [inRange, Bool.and_eq_true, decide_eq_true_eq] at h
  exact ⟨h.2, h.1⟩

theorem range_pod (statK : List Rat → KeepRule) (max : Int) (rs : List Rec) :
    ∀ r ∈ correctPod statK max rs, 1 ≤ r.num ∧ r.num < max := by
  intro r hr
  have hne := podPost_mem_ne_zero _ r hr
  have hin := range_klm statK max rs r (podPost_mem _ r hr)
  omega

/-- The maxima the readers use (regenerated from the code), and the signedness of the
line-number field: POD signed 16 bit, KLM unsigned 16 bit. -/
theorem max_scanlines :
    Generated.maxScanlinesGacKlm = 15000 ∧ Generated.maxScanlinesGacPod = 15000 ∧
    Generated.maxScanlinesLacKlm = 65535 ∧ Generated.maxScanlinesLacPod = 65535 ∧
    (Generated.klmGac.find? "scan_line_number").map (·.kind) = some Kind.u ∧
    (Generated.klmLac.find? "scan_line_number").map (·.kind) = some Kind.u ∧
    (Generated.podGac.find? "scan_line_number").map (·.kind) = some Kind.i ∧
    (Generated.podLac.find? "scan_line_number").map (·.kind) = some Kind.i := by
  decide +kernel

/-! ## 3. Exactly the records deviating by more than 500 are removed -/

/-- Is entry `(record, index)` different from the expected number `n0 + index`? -/
def corrupted (n0 : Int) (p : Rec × Nat) : Bool := p.1.num != n0 + (p.2 : Int)

/-- deviation from the expected number -/
def deviation (n0 : Int) (p : Rec × Nat) : Rat := absR ((p.1.num : Rat) - ((n0 + (p.2 : Int) : Int) : Rat))

theorem zip_map_zipIdx {α β : Type} (l : List α) (n : Nat) (g : α × Nat → β) :
    l.zip ((l.zipIdx n).map g) = (l.zipIdx n).map (fun p => (p.1, g p)) := by
  induction l generalizing n with
  | nil => simp
  | cons a l ih => simp [List.zipIdx_cons, ih]

theorem absR_zero_iff (x : Rat) : absR x = 0 ↔ x = 0 := by
  unfold absR; split <;> constructor <;> intro h <;> linarith

theorem absR_nonneg (x : Rat) : 0 ≤ absR x := by
  unfold absR; split <;> linarith

/-- **Exactly-500 theorem (KLM).** In an otherwise gap-free pass (`expected = n0 + index`)
whose numbers are all in range, with `k < 50` corrupted entries and `2k < length`, the records
removed are exactly those deviating by more than 500 lines from their expected number —
whatever the statistical branch would do. -/
theorem exact_500_klm (statK : List Rat → KeepRule) (max n0 : Int) (rs : List Rec)
    (hrange : ∀ r ∈ rs, 0 ≤ r.num ∧ r.num < max)
    (k : Nat) (hk : (rs.zipIdx.filter (corrupted n0)).length = k) (hk50 : k < 50)
    (hmaj : 2 * k < rs.length) :
    correctKlm statK max rs =
      (rs.zipIdx.filter (fun p => decide (deviation n0 p ≤ 500))).map (·.1) := by
  unfold correctKlm correctCommon
  have hfilt : rs.filter (inRange max) = rs := by
    rw [List.filter_eq_self]; intro r hr
    have := hrange r hr
    simp [inRange, this.1, this.2]
  simp only [hfilt]
  -- the median offset is n0 - 1
  have hgoodoff : ∀ p : Rec × Nat, corrupted n0 p = false →
      (((p.1.num - ((p.2 : Int) + 1) : Int) : Rat)) = ((n0 - 1 : Int) : Rat) := by
    intro p hp
    simp only [corrupted, bne_eq_false_iff_eq] at hp
    rw [hp]; congr 1; omega
  have hcount : rs.length - k ≤ (offsetsOf rs).count ((n0 - 1 : Int) : Rat) := by
    unfold offsetsOf
    rw [List.count_eq_countP, List.countP_map]
    have h1 : (rs.zipIdx.filter (fun p => !corrupted n0 p)).length ≤
        List.countP ((fun x => x == ((n0 - 1 : Int) : Rat)) ∘ fun (p : Rec × Nat) =>
          (((p.1.num - ((p.2 : Int) + 1) : Int)) : Rat)) rs.zipIdx := by
      rw [← List.countP_eq_length_filter]
      apply List.countP_mono_left
      intro p _ hp
      simp only [Bool.not_eq_true'] at hp
      simp only [Function.comp, beq_iff_eq]
      exact hgoodoff p hp
    have h2 : (rs.zipIdx.filter (fun p => !corrupted n0 p)).length + k = rs.length := by
      rw [← hk]
      have := List.length_eq_countP_add_countP (corrupted n0) (l := rs.zipIdx)
      rw [List.length_zipIdx] at this
      rw [← List.countP_eq_length_filter, ← List.countP_eq_length_filter]
      have e : List.countP (fun p => !corrupted n0 p) rs.zipIdx =
          List.countP (fun a => ¬corrupted n0 a = true) rs.zipIdx := by
        congr 1; funext a; simp
      rw [e]; omega
    omega
  have hmed : median (offsetsOf rs) = some (((n0 - 1 : Int)) : Rat) := by
    apply median_of_majority
    rw [offsetsOf_length]; omega
  simp only [hmed]
  -- the deviations
  have hdiffs : diffsOf rs (((n0 - 1 : Int)) : Rat) = rs.zipIdx.map (deviation n0) := by
    unfold diffsOf deviation
    apply List.map_congr_left
    intro p _
    congr 1
    push_cast; ring
  rw [hdiffs]
  -- fewer than 50 non-zero deviations
  have hnz : ((rs.zipIdx.map (deviation n0)).filter (fun d => decide (d > 0))).length < 50 := by
    rw [List.filter_map, List.length_map]
    have : (rs.zipIdx.filter ((fun d => decide (d > 0)) ∘ deviation n0)).length ≤
        (rs.zipIdx.filter (corrupted n0)).length := by
      rw [← List.countP_eq_length_filter, ← List.countP_eq_length_filter]
      apply List.countP_mono_left
      intro p _ hp
      simp only [Function.comp, decide_eq_true_eq] at hp
      simp only [corrupted, bne_iff_ne, ne_eq]
      intro heq
      have : deviation n0 p = 0 := by
        unfold deviation; rw [heq]; simp [absR]
      linarith
    omega
  simp only [keepRule, hnz, if_true, KeepRule.keep]
  rw [zip_map_zipIdx, List.filter_map, List.map_map]
  rfl

/-- **A gap-free pass is kept whole (KLM)** — corollary with no corrupted entry. -/
theorem gapfree_kept_klm (statK : List Rat → KeepRule) (max n0 : Int) (rs : List Rec)
    (hne : rs ≠ [])
    (hgap : ∀ p ∈ rs.zipIdx, p.1.num = n0 + (p.2 : Int))
    (hrange : ∀ r ∈ rs, 0 ≤ r.num ∧ r.num < max) :
    correctKlm statK max rs = rs := by
  have hk : (rs.zipIdx.filter (corrupted n0)).length = 0 := by
    rw [List.length_eq_zero_iff, List.filter_eq_nil_iff]
    intro p hp; simp [corrupted, hgap p hp]
  have hlen : 0 < rs.length := List.length_pos_iff.mpr hne
  rw [exact_500_klm statK max n0 rs hrange 0 hk (by decide) (by omega)]
  have : rs.zipIdx.filter (fun p => decide (deviation n0 p ≤ 500)) = rs.zipIdx := by
    rw [List.filter_eq_self]
    intro p hp
    have : deviation n0 p = 0 := by unfold deviation; rw [hgap p hp]; simp [absR]
    simp [this]
  rw [this]
  simp [List.zipIdx_map_fst]

/-- **Exactly-500 theorem (POD).** As for KLM, under the two POD side conditions: the first
record carries the expected first number `n0 ≥ 1`, and no surviving number is below it. -/
theorem exact_500_pod (statK : List Rat → KeepRule) (max n0 : Int) (first : Rec) (rest : List Rec)
    (hrange : ∀ r ∈ first :: rest, 0 ≤ r.num ∧ r.num < max)
    (hn0 : 1 ≤ n0) (hfirst : first.num = n0) (hlow : ∀ r ∈ rest, n0 ≤ r.num)
    (k : Nat) (hk : ((first :: rest).zipIdx.filter (corrupted n0)).length = k) (hk50 : k < 50)
    (hmaj : 2 * k < (first :: rest).length) :
    correctPod statK max (first :: rest) =
      ((first :: rest).zipIdx.filter (fun p => decide (deviation n0 p ≤ 500))).map (·.1) := by
  unfold correctPod
  have h := exact_500_klm statK max n0 (first :: rest) hrange k hk hk50 hmaj
  unfold correctKlm at h
  rw [h]
  -- the first record survives (deviation 0) and is minimal, and nothing is 0
  have hdev0 : deviation n0 (first, 0) = 0 := by unfold deviation; simp [hfirst, absR]
  have hz : (first :: rest).zipIdx = (first, 0) :: rest.zipIdx 1 := by simp [List.zipIdx_cons]
  rw [hz, List.filter_cons]
  simp only [hdev0, show decide ((0 : Rat) ≤ 500) = true by decide, if_true, List.map_cons]
  apply podPost_id
  · intro x hx
    obtain ⟨p, hp, rfl⟩ := List.mem_map.mp hx
    have hp' := (List.mem_filter.mp hp).1
    have : p.1 ∈ rest := mem_zipIdx_fst _ _ _ hp'
    rw [hfirst]; exact hlow _ this
  · intro x hx
    rcases List.mem_cons.mp hx with rfl | hx
    · omega
    · obtain ⟨p, hp, rfl⟩ := List.mem_map.mp hx
      have hp' := (List.mem_filter.mp hp).1
      have : p.1 ∈ rest := mem_zipIdx_fst _ _ _ hp'
      have := hlow _ this; omega

/-! ## 4. The POD side condition "first record intact" is necessary: a first record whose
number is corrupted *upwards by fewer than 500 lines* is removed by the leading-line step
although it deviates by less than 500 (witness: numbers 301, 2, 3, …, 12). -/

def witnessPass : List Rec :=
  ⟨301, 0⟩ :: (List.range 11).map (fun (i : Nat) => ⟨Int.ofNat i + 2, i + 1⟩)

theorem pod_first_record_witness :
    (correctPod statRule 15000 witnessPass).map (·.tag) = [1, 2, 3, 4, 5, 6, 7, 8, 9, 10, 11] ∧
    (correctKlm statRule 15000 witnessPass).map (·.tag) = [0, 1, 2, 3, 4, 5, 6, 7, 8, 9, 10, 11] := by
  decide +kernel

/-! Non-vacuity of the exact-500 hypotheses: a 12-line pass with one corrupted entry. -/
example : ((witnessPass.zipIdx.filter (corrupted 1)).length = 1) := by decide +kernel

end PygacModel.C11
