/-
C05 — Thermal channels follow the documented NOAA KLM calibration procedure.

Model: `Model/Thermal.lean`.  The discrete procedure (cycle location, repairs, thermometer
polynomial, smoothing window and edges, masks) is proved; the radiometric formulas are one generic
definition, proved about over the reals and executed in Float against the code (numerical
agreement of exp/log is differential testing, not a theorem).
-/
import PygacModel.Lemmas.ThermalDiscrete
import PygacModel.Lemmas.ThermalCycle
import PygacModel.Lemmas.ThermalReal
import PygacModel.Generated.Calib
import PygacModel.Spec.CalibSnapshot
namespace PygacModel.C05
open PygacModel PygacModel.Thermal Np

/-! ## 1. Coefficients -/

set_option synthInstance.maxSize 2000 in
set_option synthInstance.maxHeartbeats 200000 in
/-- the thermal coefficient table in use is the pinned PATMOS-x v2023 table -/
theorem generated_thermal_eq_snapshot : Generated.thermalTable = Spec.thermalTable := by decide +kernel

def allChan : List (String × List ChanCoef × List (List Rat)) :=
  Generated.thermalTable.map (fun e => (e.1, e.2.1.map ChanCoef.ofTuple, e.2.2))

/-- 17 spacecraft, three thermal channels each with positive wavenumber and positive effective-
temperature slope, four thermometers with five coefficients each -/
theorem table_shape :
    allChan.length = 17 ∧ ∀ e ∈ allChan, e.2.1.length = 3 ∧ e.2.2.length = 4 ∧
      (∀ co ∈ e.2.1, 0 < co.nu ∧ 0 < co.B) ∧ (∀ d ∈ e.2.2, d.length = 5) := by
  decide +kernel

/-! ## 2. PRT cycle, repairs, thermometer polynomial -/

/-- the thermometer index of a line is its distance (mod 5) from any reset line, gaps in the
numbering respected -/
theorem iprt_spec (n n0 nr : Int) (off : Nat) (hoff : off < 5) (hr : (nr - n0) % 5 = (off : Int)) :
    (n - n0 + 5 - (off : Int)) % 5 = (n - nr) % 5 := Thermal.iprt_spec n n0 nr off hoff hr

/-! ### integer width of the line numbers

The readers hand the calibration the file's own 16-bit line-number field.  Before fix 4cb3134 the cycle position
was computed in that dtype; the three statements below say exactly when that was right, and exhibit the pass on
which it was not (found by running the real code at the point the hypothesis `hspan` excludes).  The code now
converts to plain integers first, which is what `iprtOf` (over `Int`) models for every input. -/

/-- in unsigned 16-bit arithmetic the expression is exact as long as the pass spans at most 65530 numbers -/
theorem iprtU16_exact (n n0 off : Nat) (h0 : n0 ≤ n) (_hn : n < 65536) (hspan : n - n0 + 5 < 65536) (hoff : off < 5) :
    ((iprtU16 n n0 off : Nat) : Int) = ((n : Int) - (n0 : Int) + 5 - (off : Int)) % 5 := by
  unfold iprtU16
  omega

/-- ... and so it is in signed 16-bit arithmetic (POD), for increasing numbers that fit the field -/
theorem iprtI16_exact (n n0 : Int) (off : Nat) (h0 : n0 ≤ n) (_hlo : -32768 ≤ n0) (_hhi : n ≤ 32767)
    (hspan : n - n0 + 5 ≤ 32767) (hoff : off < 5) :
    iprtI16 n n0 off = (n - n0 + 5 - (off : Int)) % 5 := by
  unfold iprtI16 wrapI16
  omega

/-- the span condition cannot be dropped: first line 1, line 65534, reset offset 1 - the 16-bit sum wraps and, because
65536 = 1 (mod 5), the line is given the NEXT thermometer (replayed on the implementation: known_findings.json,
property C05, fixed 4cb3134) -/
theorem iprtU16_wraps_witness :
    iprtU16 65534 1 1 = 1 ∧ ((65534 : Int) - 1 + 5 - 1) % 5 = 2 := by decide

/-- the two rewrites seeded in round 8 (`(n + (5 - r)) % 5` on absolute numbers; `(phase - off) % 5` on the
reduced phase) are NOT exact in 16 bits even on short passes - they are exact over the integers, i.e. after the fix -/
theorem seeded_rewrites_wrap_in_u16 :
    ((65533 + (5 - 2)) % 65536) % 5 ≠ (65533 + (5 - 2)) % 5 ∧
    ((1 + 65536 - 3) % 65536) % 5 ≠ ((1 : Int) - 3) % 5 := by decide

/-- on a clean cycle (reset marker below 50 on one residue class of the line numbers, readings of
at least 50 elsewhere) the search locates exactly the reset class -/
theorem reset_located (nums : List Int) (prt : List Rat) (ρ : Int) (β : Rat)
    (hc : CleanCycle nums prt ρ β) (hβ : β < 50) (hne : ∀ k, k < 5 → classReadings nums prt k ≠ []) :
    findOffset nums prt = some ((ρ - nums.headD 0) % 5).toNat := findOffset_clean nums prt ρ β hc hβ hne

/-- the coefficient column used for a line is that of its thermometer; reset lines use the all-zero column -/
theorem thermometer_column (d : List (List Rat)) (x : Rat) :
    polyPrt d 0 x = 0 ∧ ∀ k : Int, 1 ≤ k →
      polyPrt d k x = (d.getD (k - 1).toNat []).getD 0 0 + (d.getD (k - 1).toNat []).getD 1 0 * x
        + (d.getD (k - 1).toNat []).getD 2 0 * x * x + (d.getD (k - 1).toNat []).getD 3 0 * x * x * x
        + (d.getD (k - 1).toNat []).getD 4 0 * x * x * x * x := Thermal.thermometer_column d x

/-- repaired entries: linear between the two nearest valid readings (`np.interp` on indices) ... -/
theorem interp_fill_between (x : Rat) (xp fp : List Rat) (j : Nat) (hlen : xp.length = fp.length)
    (hinc : xp.Pairwise (· < ·)) (hj : j + 1 < xp.length) (h1 : xp[j] < x) (h2 : x ≤ xp[j + 1]) :
    interp x xp fp = fp[j]'(by omega) + (fp[j + 1]'(by omega) - fp[j]'(by omega)) * (x - xp[j]) / (xp[j + 1] - xp[j]) :=
  interp_between x xp fp j hlen hinc hj h1 h2

/-- ... and constant before the first valid reading -/
theorem interp_fill_before (x x0 x1 : Rat) (xs : List Rat) (f0 f1 : Rat) (fs : List Rat) (h : x ≤ x0) :
    interp x (x0 :: x1 :: xs) (f0 :: f1 :: fs) = f0 := by simp [interp, h]

/-! ## 3. Smoothing -/

/-- **51-line boxcar (3 lines for passes of at most 51 lines) with edge replication**: every line
carries the mean of the window centred at clamp(i, h, n-1-h), entirely inside the pass -/
theorem smooth_eq_clamped_window (xs : List Rat) (i : Nat) (hi : i < xs.length)
    (hn : 2 * halfWidth xs.length + 1 ≤ xs.length) :
    (smooth xs)[i]? = some (windowSum xs ((clampIdx i (halfWidth xs.length) xs.length : Nat) - (halfWidth xs.length : Nat) : Int)
        (2 * halfWidth xs.length + 1) / ((2 * halfWidth xs.length + 1 : Nat) : Rat)) ∧
    (∀ k, k < 2 * halfWidth xs.length + 1 →
      0 ≤ ((clampIdx i (halfWidth xs.length) xs.length : Nat) : Int) - (halfWidth xs.length : Nat) + k ∧
      ((clampIdx i (halfWidth xs.length) xs.length : Nat) : Int) - (halfWidth xs.length : Nat) + k < xs.length) :=
  Thermal.smooth_eq_clamped_window xs i hi hn

/-- every pass of at least 6 lines is long enough for its window -/
theorem window_fits (n : Nat) (h6 : 6 ≤ n) : 2 * halfWidth n + 1 ≤ n ∧ halfWidth n = if n > 51 then 25 else 1 := by
  unfold halfWidth; split <;> omega

/-! ## 4. Radiometric formulas (over the reals) -/

/-- inverse Planck undoes Planck at the effective temperature -/
theorem planck_inverse (co : ChanCoef) (T : ℝ) (hnu : 0 < co.nu) (hB : co.B ≠ 0) (hT : 0 < effTemp co T) :
    invPlanck co (planck co (effTemp co T)) = T := Thermal.planck_inverse co T hnu hB hT

/-- values outside 170-350 K are NaN, values inside are the computed temperature -/
theorem range_mask (co : ChanCoef) (tBB cS cBB cE v : ℝ) :
    btMasked co false tBB cS cBB cE = some v ↔ (v = btRaw co tBB cS cBB cE ∧ 170 ≤ v ∧ v ≤ 350) :=
  Thermal.range_mask co tBB cS cBB cE v

/-- telemetry enters a pixel only through its own line's smoothed values: entry (i, j) of the output
array is the per-pixel formula at telemetry row i and count (i, j), for every array -/
theorem perline_broadcast (co : ChanCoef) (is3b : Bool) (tele : List (ℝ × ℝ × ℝ)) (counts : List (List ℝ))
    (i j : Nat) (p : ℝ × ℝ × ℝ) (row : List ℝ) (c : ℝ)
    (hp : tele[i]? = some p) (hr : counts[i]? = some row) (hc : row[j]? = some c) :
    ((calArray co is3b tele counts)[i]?.bind (·[j]?)) = some (btMasked co is3b p.1 p.2.2 p.2.1 c) := by
  unfold calArray calLine
  simp [List.getElem?_zipWith, hp, hr, hc]

/-- non-vacuity: a clean cycle starting in the middle of a PRT cycle with a line-number gap -/
example : findOffset [3, 4, 5, 6, 9, 10, 11, 12] [280, 281, 0, 278, 281, 2, 278, 279] = some 2 ∧
    iprtOf [3, 4, 5, 6, 9, 10, 11, 12] 2 = [3, 4, 0, 1, 4, 0, 1, 2] := by decide +kernel

example : smooth [1, 2, 3, 4, 5, 6, 7] = [2, 2, 3, 4, 5, 6, 6] := by decide +kernel

end PygacModel.C05
