import PygacModel.Basic
import PygacModel.Spec.Layouts
import PygacModel.Generated.Layouts
import PygacModel.Generated.Flags
import PygacModel.Model.Codec
import PygacModel.Lemmas.Codec
