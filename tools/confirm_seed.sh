#!/bin/bash
# usage: confirm_seed.sh <id> [subdir]  -- confirms a seeded change in its scratch worktree /tmp/mut/<id>/wt
id=$1; sub=${2:-$1}
wt=/tmp/mut/$id/wt; out=/tmp/mut/$id/out; log=/tmp/mut/$id/confirm.log
exec >$log 2>&1
cd $wt || exit 9
[ -f pygac/version.py ] || cp /repo/pygac/version.py pygac/version.py
git checkout -q -- . ; git apply $out/patch.diff || { echo "PATCH-DOES-NOT-APPLY"; exit 8; }
echo "== files touched"; git diff --stat
echo "== tests with patch"; /venv/bin/python -m pytest -q -p no:cacheprovider --timeout=900 2>&1 | tail -2
echo "== demo with patch"; PYTHONPATH=$wt /venv/bin/python $out/demo.py >/tmp/mut/$id/demo_with.log 2>&1; echo "exit=$?"; tail -3 /tmp/mut/$id/demo_with.log
git apply -R $out/patch.diff
echo "== demo without patch"; PYTHONPATH=$wt /venv/bin/python $out/demo.py >/tmp/mut/$id/demo_without.log 2>&1; echo "exit=$?"; tail -2 /tmp/mut/$id/demo_without.log
echo "== applies to /repo HEAD?"; git -C /repo apply --check $out/patch.diff && echo "applies-clean" || echo "APPLY-CHECK-FAILED"
