#!/bin/bash
# usage: sweep.sh "<seeds>" [tier] [props...]  -- runs the claimed checks with several seeds on the unchanged tree
seeds=${1:-"1 2 3"}; tier=${2:-quick}; shift 2
props=${@:-$(python3 -c "import json;print(' '.join(c['property_id'] for c in json.load(open('/verif/MANIFEST.json'))['checks']))")}
cd /verif
for s in $seeds; do [ "$s" != "0" ] && export VERIF_EVIDENCE_DIR=/verif/.scratch/evidence-sweep; for p in $props; do
  out=$(VERIF_SEED=$s ./check $p --tier $tier 2>&1 | grep -E "VIOLATION|INFRASTRUCTURE|obligations" | cut -c1-200 | tr '\n' ' ')
  echo "seed=$s $p rc=$? :: $out"
done; done
