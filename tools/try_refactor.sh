#!/bin/bash
# usage: try_refactor.sh <patch.diff>  -- apply a behaviour-preserving refactoring to /repo, run every quick check, undo.
# Every check must exit 0 (no VIOLATION, no INFRASTRUCTURE ERROR): a harmless rewrite must not raise an alarm.
patch=$1
cd /verif
export VERIF_EVIDENCE_DIR=/verif/.scratch/evidence-refactor
git -C /repo diff --quiet || { echo "/repo not clean"; exit 9; }
git -C /repo apply "$patch" || { echo "patch does not apply"; exit 8; }
trap 'git -C /repo checkout -- . ; echo "[/repo restored]"' EXIT
for c in $(python3 -c "import json;print(' '.join(c['property_id'] for c in json.load(open('/verif/MANIFEST.json'))['checks']))"); do
  out=$(VERIF_SEED=${VERIF_SEED:-1} ./check $c --tier quick 2>&1 | grep -E "VIOLATION|INFRASTRUCTURE|obligations" | cut -c1-220 | tr '\n' ' ')
  rc=${PIPESTATUS[0]}
  echo "$c :: $out"
done
