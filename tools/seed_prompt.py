#!/usr/bin/env python3
"""seed_prompt.py <Cxx> <tag>  -- prints the prompt for an independent sub-agent (only the property text + its worktree)"""
import json, sys
pid, tag = sys.argv[1], sys.argv[2]
for l in open('/verif/properties.jsonl'):
    d = json.loads(l)
    if d['id'] == pid:
        break
wt = "/tmp/mut/%s%s" % (pid, tag)
anch = d['anchors']
mech = "\n".join("  - %s (%s)" % (m['name'], m['where']) for m in anch.get('mechanism', []))
obs = ", ".join(anch.get('observe_at', []))
extra = sys.argv[3] if len(sys.argv) > 3 else ""
print(f"""You are helping test a verification effort by playing the role of a developer who introduces a subtle regression into the Python package pytroll/pygac (a reader/calibrator for NOAA AVHRR GAC/LAC level-1b files).

You have your own scratch git worktree of the repository at {wt}/wt (work ONLY there; never touch /repo or /verif, never read anything under /verif; do NOT use `git stash` - the stash is shared between worktrees - use `git diff > file` and `git checkout -- .` / `git apply` instead). Python is /venv/bin/python (numpy, xarray, h5py, pyorbital, geotiepoints installed); to make it import the worktree's pygac, run with `PYTHONPATH={wt}/wt`. The existing test suite is run with: `cd {wt}/wt && /venv/bin/python -m pytest -q -p no:cacheprovider --timeout=900` (88 tests pass on the unchanged tree). There is no network.

The property to break (a semantic guarantee users rely on):

"{d['title']}. {d['statement']}"
Quantifier: {d['quantifier']['text']}

Relevant code (file:line hints may be slightly off):
{mech}
Observed through: {obs}
{extra}
Your task: produce ONE realistic source change to pygac (the kind of thing a refactor, "optimisation", vectorisation, deduplication or careless bug fix might introduce; a few lines, touching 1-2 places) that
 (a) breaks the property above,
 (b) still imports and passes the whole existing test suite (all 88 tests), and
 (c) needs something specific to manifest - an unusual but legitimate input, a particular combination of options, a multi-step sequence of operations, a boundary value, one particular spacecraft / format / channel / table row out of many, or two cooperating sites that each look fine alone. It must NOT be something that ordinary use on one typical file would expose at once. Prefer a change that is DIFFERENT in kind from the obvious one (do not just flip the most visible comparison or constant): think about which inputs a test generator is least likely to produce.

Deliverables, written to {wt}/out/ :
 1. patch.diff - `git diff` of your change against the worktree HEAD (must apply with `git apply` to a clean checkout).
 2. demo.py - a small standalone Python program that builds its inputs by itself (synthetic numpy structured arrays using the readers' own dtypes, synthetic files in a temporary directory, mocks for the orbit computation if needed; no external data), exercises pygac, computes the expected result independently from the property statement, and exits 0 if the property holds / exits 1 (printing what went wrong) if violated. It must exit 1 with your patch applied and exit 0 on the unchanged worktree. Run as `PYTHONPATH={wt}/wt /venv/bin/python {wt}/out/demo.py`.
 3. notes.md - 5-10 lines: what the change is, why it looks innocent, exactly what is needed for it to manifest.

Verify all three claims yourself (suite: 88 passed with patch; demo exit 1 with patch; demo exit 0 without). Leave the worktree with the patch REVERTED (clean `git status`) when you finish. In your final answer, report the patch, what it needs to manifest, and the verification results.""")
