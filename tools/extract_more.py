"""Further generators for tools/extract.py (one function per Generated/*.lean file)."""
import datetime
import inspect
import json
import os
from fractions import Fraction

import numpy as np

from extract import HEADER, lbool, lint, llist, lrat, lstr

EPOCH = datetime.date(1970, 1, 1)


def gen_pod_epochs(info):
    """Header-epoch choice of PODReader, extracted by exhaustive probing over all dates 1978..2030."""
    from pygac import pod_reader
    from pygac.pod_reader import PODReader
    hdrs = {id(pod_reader.header1): 1, id(pod_reader.header2): 2, id(pod_reader.header3): 3}
    segs = []
    d = datetime.date(1978, 1, 1)
    end = datetime.date(2030, 12, 31)
    prev = None
    while d <= end:
        h = hdrs.get(id(PODReader.choose_header_based_on_timestamp(d, None)), 0)
        if h != prev:
            segs.append(((d - EPOCH).days, h))
            prev = h
        d += datetime.timedelta(days=1)
    info["pod_epoch_segments"] = segs
    out = [HEADER, "namespace PygacModel.Generated\n",
           "/-- (first day number since 1970-01-01, header epoch) for dates 1978-01-01 .. 2030-12-31 -/\n",
           "def podEpochSegments : List (Int × Nat) := %s\n" % llist(["(%s, %d)" % (lint(a), b) for a, b in segs]),
           "end PygacModel.Generated\n"]
    return "PodEpochs.lean", "".join(out)


GENERATORS = [gen_pod_epochs]
