"""Further generators for tools/extract.py (one function per Generated/*.lean file)."""
import datetime
import inspect
import json
import os
from fractions import Fraction

import numpy as np

from extract import HEADER, lbool, lint, llist, lrat, lstr

EPOCH = datetime.date(1970, 1, 1)


def gen_pod_epochs(info):
    """Header-epoch choice of PODReader, extracted by exhaustive probing over all dates 1978..2030."""
    from pygac import pod_reader
    from pygac.pod_reader import PODReader
    hdrs = {id(pod_reader.header1): 1, id(pod_reader.header2): 2, id(pod_reader.header3): 3}
    segs = []
    d = datetime.date(1978, 1, 1)
    end = datetime.date(2030, 12, 31)
    prev = None
    while d <= end:
        h = hdrs.get(id(PODReader.choose_header_based_on_timestamp(d, None)), 0)
        if h != prev:
            segs.append(((d - EPOCH).days, h))
            prev = h
        d += datetime.timedelta(days=1)
    info["pod_epoch_segments"] = segs
    out = [HEADER, "namespace PygacModel.Generated\n",
           "/-- (first day number since 1970-01-01, header epoch) for dates 1978-01-01 .. 2030-12-31 -/\n",
           "def podEpochSegments : List (Int × Nat) := %s\n" % llist(["(%s, %d)" % (lint(a), b) for a, b in segs]),
           "end PygacModel.Generated\n"]
    return "PodEpochs.lean", "".join(out)


GENERATORS = [gen_pod_epochs]


def gen_misc(info):
    """Small constants probed from the live classes."""
    from pygac.gac_klm import GACKLMReader
    from pygac.gac_pod import GACPODReader
    from pygac.lac_klm import LACKLMReader
    from pygac.lac_pod import LACPODReader
    out = [HEADER, "namespace PygacModel.Generated\n"]
    for cname, cls in [("GacKlm", GACKLMReader), ("LacKlm", LACKLMReader),
                       ("GacPod", GACPODReader), ("LacPod", LACPODReader)]:
        r = cls()
        sd = r.scanline_type.fields["sensor_data"][0]
        out.append("def sensorWords%s : Nat := %d\n" % (cname, int(np.prod(sd.shape))))
    # channel-select mask: exhaustive probe of get_ch3_switch over all 16-bit bit fields
    r = GACKLMReader()
    bf = np.arange(65536, dtype=">u2")
    r.scans = np.zeros(65536, dtype=r.scanline_type)
    r.scans["scan_line_bit_field"] = bf
    sw = np.asarray(r.get_ch3_switch()).astype(np.int64)
    m = int(sw[65535])
    is_and = bool((sw == (np.arange(65536) & m)).all())
    info["ch3_switch_mask"] = m
    out.append("def ch3SwitchMask : Nat := %d\n" % m)
    out.append("def ch3SwitchIsAnd : Bool := %s\n" % lbool(is_and))
    # keyword defaults of the threshold repair (stage 2 of the time sanitising)
    from pygac.reader import Reader
    sig = inspect.signature(Reader.correct_times_thresh)
    dflt = {k: v.default for k, v in sig.parameters.items() if v.default is not inspect.Parameter.empty}
    info["correct_times_thresh_defaults"] = {k: repr(v) for k, v in dflt.items()}
    for lname, key in (("s2MaxDiffHead", "max_diff_from_t0_head"), ("s2MinFrac", "min_frac_near_t0_head"),
                       ("s2MaxDiffIdeal", "max_diff_from_ideal_t")):
        out.append("def %s : Rat := %s\n" % (lname, lrat(Fraction(repr(dflt[key])))))
    out.append("end PygacModel.Generated\n")
    return "Misc.lean", "".join(out)


GENERATORS.append(gen_misc)


def gen_select(info):
    """Acceptance table of the four classes' _validate_header, by exhaustive probing."""
    from pygac.gac_klm import GACKLMReader
    from pygac.gac_pod import GACPODReader
    from pygac.lac_klm import LACKLMReader
    from pygac.lac_pod import LACPODReader
    from pygac.reader import ReaderError
    modes = ["GHRR", "LHRR", "HRPT", "FRAC", "GHRX", "XXXX", "ghrr", "LHR1"]
    plats = ["TN", "NA", "NB", "NC", "ND", "NE", "NF", "NG", "NH", "NI", "NJ",
             "NK", "NL", "NM", "NN", "NP", "M1", "M2", "M3",
             "NO", "NQ", "M4", "M0", "XX", "nl", "N1", "TK"]
    classes = [GACKLMReader, LACKLMReader, GACPODReader, LACPODReader]
    rows = []
    for m in modes:
        for p in plats:
            name = ("NSS.%s.%s.D02187.S1904.E2058.B0921517.GC" % (m, p)).encode()
            acc = []
            for c in classes:
                try:
                    c._validate_header({"data_set_name": name})
                    acc.append(True)
                except ReaderError:
                    acc.append(False)
            rows.append((m, p, acc))
    info["accept_table_true"] = [(m, p, a) for m, p, a in rows if any(a)]
    out = [HEADER, "namespace PygacModel.Generated\n",
           "def probeModes : List String := %s\n" % llist([lstr(m) for m in modes], per_line=8),
           "def probePlats : List String := %s\n" % llist([lstr(p) for p in plats], per_line=14),
           "/-- (mode, platform, [GACKLM, LACKLM, GACPOD, LACPOD] accepts) -/\n",
           "def acceptTable : List (String × String × List Bool) := %s\n" % llist(
               ["(%s, %s, [%s])" % (lstr(m), lstr(p), ", ".join(lbool(x) for x in a)) for m, p, a in rows], per_line=2),
           "end PygacModel.Generated\n"]
    return "Select.lean", "".join(out)


GENERATORS.append(gen_select)


def gen_coeff_keys(info):
    """Key structure of the shipped coefficient file, reader spacecraft names, version hashes."""
    import hashlib
    from importlib.resources import files
    from pygac.calibration.noaa import Calibrator
    from pygac.klm_reader import KLMReader
    from pygac.pod_reader import PODReader
    path = files("pygac") / "data/calibration.json"
    with open(path, "rb") as fh:
        content = fh.read()
    table = json.loads(content)
    md5 = hashlib.md5(content).hexdigest()
    # JSON objects with a key written twice: json.load keeps the last one silently - a duplicated key hides a missing one
    dups = []

    def _pairs(pairs, _d=dups):
        seen = {}
        for k, v in pairs:
            if k in seen:
                _d.append(k)
            seen[k] = v
        return seen
    json.loads(content, object_pairs_hook=_pairs)
    names = sorted(set(KLMReader.spacecraft_names.values()) | set(PODReader.spacecraft_names.values()))
    rows = []
    for sat in sorted(table):
        keys = []
        for top, v in table[sat].items():
            if isinstance(v, dict):
                keys += ["%s.%s" % (top, k) for k in v]
            else:
                keys.append(top)
        rows.append((sat, sorted(keys)))
    # keys the calibrator reads unconditionally (coeffs[channel][key], coeffs["date_of_launch"])
    required = (["channel_%s.%s" % (c, k) for c in ("1", "2", "3a") for k in ("dark_count", "gain_switch", "s0", "s1", "s2")] +
                ["channel_%s.%s" % (c, k) for c in ("3b", "4", "5")
                 for k in ("centroid_wavenumber", "space_radiance", "to_eff_blackbody_intercept", "to_eff_blackbody_slope", "b0", "b1", "b2")] +
                ["date_of_launch"] +
                # the four thermometers and their five polynomial coefficients (read with a default of 0: an absent one would
                # silently calibrate with a lower-order polynomial)
                ["thermometer_%d.d%d" % (t, d) for t in (1, 2, 3, 4) for d in range(5)])
    hashes = [(h, v["name"]) for h, v in Calibrator.version_hashs.items()]
    info["shipped_md5"] = md5
    out = [HEADER, "namespace PygacModel.Generated\n",
           "def readerSpacecraftNames : List String := %s\n" % llist([lstr(n) for n in names], per_line=9),
           "def requiredCoeffKeys : List String := %s\n" % llist([lstr(k) for k in required], per_line=3),
           "def coeffKeyTable : List (String × List String) := %s\n" % llist(
               ["(%s, [%s])" % (lstr(s), ", ".join(lstr(k) for k in ks)) for s, ks in rows]),
           "/-- (family, header spacecraft id, pygac name, pyorbital name) as the readers' tables map them -/\n"
           "def spacecraftIdTable : List (String × Nat × String × String) := %s\n" % llist(
               ["(%s, %d, %s, %s)" % (lstr(fam), sid, lstr(cls.spacecraft_names[sid]), lstr(cls.spacecrafts_orbital.get(sid, "?")))
                for fam, cls in (("klm", KLMReader), ("pod", PODReader)) for sid in sorted(cls.spacecraft_names)]),
           "def shippedMd5 : String := %s\n" % lstr(md5),
           "def coeffDuplicateKeys : List String := %s\n" % llist([lstr(k) for k in dups]),
           "def versionHashes : List (String × String) := %s\n" % llist(["(%s, %s)" % (lstr(h), lstr(n)) for h, n in hashes]),
           "end PygacModel.Generated\n"]
    return "CoeffKeys.lean", "".join(out)


GENERATORS.append(gen_coeff_keys)


def gen_clock(info):
    """Clock-error tables (exact decimals) and the scan positions handed to the orbit model."""
    import datetime as dt
    from pygac import clock_offsets_converter as coc
    from pygac import pod_reader
    from pygac.gac_pod import GACPODReader
    from pygac.lac_pod import LACPODReader
    out = [HEADER, "namespace PygacModel.Generated\n"]
    epoch = dt.datetime(1970, 1, 1)
    tabs = []
    for sat in sorted(coc.txt):
        ts, es = [], []
        for line in coc.txt[sat].split("\n"):
            el = line.split()
            for a, b, c in ((el[0], el[1], el[2]), (el[3], el[4], el[5])):
                d = dt.datetime.strptime(a + b, "%y%j%H%M%S")
                ts.append(int(round((d - epoch).total_seconds() * 1000)))
                es.append(Fraction(c))
        # cross-check with the function the reader calls
        gt, ge = coc.get_offsets(sat)
        assert [int(round((d - epoch).total_seconds() * 1000)) for d in gt] == ts
        assert [float(e) for e in es] == list(ge)
        tabs.append((sat, ts, es))
    info["clock_tables"] = {s: len(t) for s, t, _ in tabs}
    out.append("/-- (spacecraft, table times in ms since 1970, clock errors in s) -/\n")
    out.append("def clockTables : List (String × List Int × List Rat) := %s\n" % llist(
        ["(%s, %s, %s)" % (lstr(s), llist([lint(t) for t in ts], per_line=8, indent="    "),
                           llist([lrat(e) for e in es], per_line=6, indent="    ")) for s, ts, es in tabs]))
    out.append("def podSpacecraftNames : List String := %s\n" % llist(
        [lstr(n) for n in sorted(pod_reader.PODReader.spacecraft_names.values())], per_line=9))

    class _Captured(Exception):
        pass

    cap = {}

    def fake(scan_times, scan_points, *a, **kw):
        cap["points"] = [Fraction(float(x)) for x in np.asarray(scan_points, dtype=float)]
        cap["frequency"] = kw.get("frequency", a[1] if len(a) > 1 else None)
        raise _Captured()

    orig = pod_reader.avhrr_gac
    pod_reader.avhrr_gac = fake
    try:
        for cname, cls in (("Gac", GACPODReader), ("Lac", LACPODReader)):
            r = cls()
            r.lats = np.zeros((1, 51))
            try:
                r._compute_missing_lonlat(np.array(["2000-01-01T00:00:00.000"], dtype="datetime64[ms]"))
            except _Captured:
                pass
            pts = cap.get("points", [])
            info["drift_scan_points_" + cname] = [float(p) for p in pts]
            out.append("/-- scan positions (2048-sample frame) handed to the orbit model for recomputed %s lines -/\n" % cname)
            out.append("def driftScanPoints%s : List Rat := %s\n" % (cname, llist([lrat(p) for p in pts], per_line=8)))
            fr = Fraction(repr(float(cap.get("frequency")))).limit_denominator(10 ** 9)
            out.append("def driftFrequency%s : Rat := %s\n" % (cname, lrat(fr)))
            # the reader's own table of pixel positions
            sp = [Fraction(float(x)) for x in np.asarray(r.scan_points, dtype=float)]
            out.append("def scanPointsHead%s : List Rat := %s\n" % (cname, llist([lrat(p) for p in sp[:6]], per_line=6)))
            out.append("def scanPointsLen%s : Nat := %d\n" % (cname, len(sp)))
    finally:
        pod_reader.avhrr_gac = orig
    out.append("end PygacModel.Generated\n")
    return "Clock.lean", "".join(out)


GENERATORS.append(gen_clock)


def gen_calib(info):
    """The whole coefficient table as exact decimals (json parsed with parse_float=str), launch-date floats."""
    from importlib.resources import files
    from pygac.calibration.noaa import Calibrator
    path = files("pygac") / "data/calibration.json"
    with open(path) as fh:
        table = json.load(fh, parse_float=str, parse_int=str)

    def opt(v):
        return "none" if v is None else "(some %s)" % lrat(Fraction(v))

    sats = sorted(k for k, v in table.items() if isinstance(v, dict) and "channel_1" in v)
    out = [HEADER, "namespace PygacModel.Generated\n",
           "/-- (spacecraft, launch date as the 5-decimal year float the code computes, "
           "[ch1, ch2, ch3a] x (dark_count, gain_switch, s0, s1, s2)) -/\n"]
    rows = []
    for sat in sorted(sats):
        cal = Calibrator(sat)
        ld = Fraction(repr(Calibrator.date2float(cal.date_of_launch)))
        chans = []
        for ch in ("channel_1", "channel_2", "channel_3a"):
            c = table[sat][ch]
            chans.append("(%s, %s, %s, %s, %s)" % (lrat(Fraction(c["dark_count"])), opt(c["gain_switch"]),
                                                   lrat(Fraction(c["s0"])), lrat(Fraction(c["s1"])), lrat(Fraction(c["s2"]))))
        rows.append("(%s, %s, [%s])" % (lstr(sat), lrat(ld), ",\n    ".join(chans)))
    out.append("def solarTable : List (String × Rat × List (Rat × Option Rat × Rat × Rat × Rat)) := %s\n" % llist(rows))
    # thermal
    trows = []
    for sat in sorted(sats):
        chans = []
        for ch in ("channel_3b", "channel_4", "channel_5"):
            c = table[sat][ch]
            chans.append("(%s)" % ", ".join(lrat(Fraction(c[k])) for k in (
                "b0", "b1", "b2", "centroid_wavenumber", "space_radiance", "to_eff_blackbody_intercept",
                "to_eff_blackbody_slope")))
        ds = []
        for t in range(1, 5):
            th = table[sat].get("thermometer_%d" % t, {})
            ds.append("[%s]" % ", ".join(lrat(Fraction(th.get("d%d" % d, "0"))) for d in range(5)))
        trows.append("(%s, [%s],\n   [%s])" % (lstr(sat), ",\n    ".join(chans), ",\n    ".join(ds)))
    out.append("/-- (spacecraft, [3b, 4, 5] x (b0, b1, b2, nu, N_S, A, B), thermometers 1..4 x [d0..d4]) -/\n")
    out.append("def thermalTable : List (String × List (Rat × Rat × Rat × Rat × Rat × Rat × Rat) × List (List Rat)) := %s\n"
               % llist(trows))
    out.append("end PygacModel.Generated\n")
    info["calib_sats"] = sats
    return "Calib.lean", "".join(out)


GENERATORS.append(gen_calib)


def gen_tsm(info):
    """Scan-motor interval tables (ms since 1970) with the spacecraft the ids denote, and the channel
    selection of get_tsm_pixels probed with tagged images."""
    import datetime as dt
    from pygac import correct_tsm_issue as tsm
    from pygac.gac_klm import GACKLMReader
    from pygac.gac_pod import GACPODReader
    ep = dt.datetime(1970, 1, 1)
    ms = lambda d: int(round((d - ep).total_seconds() * 1000))
    out = [HEADER, "namespace PygacModel.Generated\n"]
    for fam, tab, cls in (("Pod", tsm.TSM_AFFECTED_INTERVALS_POD, GACPODReader), ("Klm", tsm.TSM_AFFECTED_INTERVALS_KLM, GACKLMReader)):
        assert cls.tsm_affected_intervals is tab
        rows = []
        for sid in sorted(tab):
            name = cls.spacecraft_names.get(sid, "?")
            rows.append("(%d, %s, %s)" % (sid, lstr(name), llist(["(%s, %s)" % (lint(ms(a)), lint(ms(b))) for a, b in tab[sid]],
                                                                per_line=3, indent="    ")))
        out.append("/-- (spacecraft id, name, [(start ms, end ms)]) -/\n")
        out.append("def tsmIntervals%s : List (Nat × String × List (Int × Int)) := %s\n" % (fam, llist(rows)))
        # channel selection: which slots of the channel cube reach get_tsm_idx, probed by wrapping it
        got = {}
        orig = tsm.get_tsm_idx
        import importlib
        mod = importlib.import_module(cls.__mro__[1].__module__ if fam == "Klm" else cls.__mro__[1].__module__)
        fam_mod = importlib.import_module("pygac.klm_reader" if fam == "Klm" else "pygac.pod_reader")
        orig_f = fam_mod.get_tsm_idx

        def probe(a, b, c, d):
            got["slots"] = [int(x[0, 0]) for x in (a, b, c, d)]
            return (np.array([], dtype=int), np.array([], dtype=int))
        fam_mod.get_tsm_idx = probe
        try:
            nslot = 6 if fam == "Klm" else 5
            cube = np.zeros((2, 2, nslot)) + np.arange(nslot)[None, None, :]
            cls().get_tsm_pixels(cube)
        finally:
            fam_mod.get_tsm_idx = orig_f
        out.append("def tsmSlots%s : List Nat := %s\n" % (fam, llist([str(x) for x in got.get("slots", [])], per_line=4)))
    out.append("end PygacModel.Generated\n")
    return "Tsm.lean", "".join(out)


GENERATORS.append(gen_tsm)
